(* Model/ParseText.v — model of pycoin/networks/ParseAPI.py (every entry point), parseable_str.py
   (parse_colon_prefix; the decode caches are pure functions here), key/Key.py (__init__, from_sec),
   key/BIP32Node.py (deserialize, from_master_secret), key/electrum.py (ElectrumWallet.__init__),
   encoding/sec.py (sec_to_public_pair, strict), ecdsa/Generator.py (points_for_x), ecdsa/Point.py
   (constructor check), the address templates of networks/ContractAPI.py.   NO proofs here.

   What is a parameter (Section variable, an oracle callback in the extracted driver):
     b58      the UNCACHED Base58Check decoder of the network (parseable_str.b58_double_sha256 / b58_groestl):
              text -> Ret (payload without the 4 check bytes) / Ret None / Raise (any exception class)
     bech32   the UNCACHED parse_bech32_or_32m: text -> Ret (hrp, version, program bytes, is-bech32m) / Ret None / Raise
              (it raises IndexError on a validly checksummed string with an empty data part)
     Both reach the parsers only through parseable_str.cache, modelled by ps_cache: whatever the decoder raises is
     swallowed and the cached value stays None.
     int10 / int16   Python's int(s) / int(s, 16) (None = ValueError)
     compile  network.script.compile (None = any exception; ParseAPI.script has a blanket except)
     hmac512  HMAC-SHA512 with key "Bitcoin seed";   stretch  electrum initial_key_to_master_key
     mulG     secret_exponent * generator;           modsqrt  Generator.modular_sqrt
   Text is a list of code points (Python str, lone surrogates included). *)
From Coq Require Import List NArith ZArith String Bool.
From Coq Require Import Strings.Byte Strings.Ascii.
From PV Require Import Base.Bytes Base.Outcome Gen.GenParsePrefixes.
Import ListNotations.
Local Open Scope Z_scope.

Definition text := list N.

Definition text_of_string (s : string) : text := map N_of_ascii (list_ascii_of_string s).

Fixpoint text_eqb (a b : text) : bool :=
  match a, b with
  | [], [] => true
  | x :: a', y :: b' => N.eqb x y && text_eqb a' b'
  | _, _ => false
  end.

(* ---------------------------------------------------------------------------------------------- *)
(* network configuration = the attributes of one ParseAPI instance *)
Inductive hdkind := Bip32 | Bip49 | Bip84.

Record netcfg := {
  n_disabled : bool;                 (* hierarchical_key/private_key/public_key/address replaced by none_parser *)
  n_address : option bytes;
  n_p2sh : option bytes;
  n_wif : option bytes;
  n_sec_prefix : text;
  n_hrp : option text;
  n_hd_prv : hdkind -> option bytes;
  n_hd_pub : hdkind -> option bytes
}.

Definition cfg_of_row (r : string * bool * (option bytes * option bytes * option bytes) * (string * option string)
    * ((option bytes * option bytes) * (option bytes * option bytes) * (option bytes * option bytes))) : netcfg :=
  let '(_, dis, (a, s, w), (sec, hrp), ((p32, q32), (p49, q49), (p84, q84))) := r in
  {| n_disabled := dis; n_address := a; n_p2sh := s; n_wif := w;
     n_sec_prefix := text_of_string sec;
     n_hrp := option_map text_of_string hrp;
     n_hd_prv := fun k => match k with Bip32 => p32 | Bip49 => p49 | Bip84 => p84 end;
     n_hd_pub := fun k => match k with Bip32 => q32 | Bip49 => q49 | Bip84 => q84 end |}.

Definition table_cfgs : list netcfg := map cfg_of_row parse_networks.

(* ---------------------------------------------------------------------------------------------- *)
(* objects the parsers return.  Keys carry what Key.__init__ stores. *)
Inductive keymat :=
| Prv (se : Z) (pub : Z * Z)         (* secret exponent and the public pair computed from it *)
| Pub (pub : Z * Z).

Inductive obj :=
| OContract (script : bytes)                                   (* Contract: identified by script() *)
| OKey (k : keymat) (compressed : bool)                         (* <SYM>_Key *)
| OHd (kind : hdkind) (depth : N) (fp : bytes) (idx : N) (chain : bytes) (k : keymat)   (* BIP32/49/84 node *)
| OElectrum (initial : option bytes) (k : keymat).              (* ElectrumWallet (is_compressed = False) *)

Definition result := outcome (option obj).

(* `a or b` on parser results: objects are always truthy, an exception in a aborts *)
Definition orelse (a : result) (b : unit -> result) : result :=
  match a with
  | Ret None => b tt
  | other => other
  end.

(* `except ValueError` : which exception tags are subclasses of ValueError *)
Definition is_value_error (e : pyexn) : bool :=
  match e with
  | E_VALUE | E_ENCODING | E_NOPOINT | E_SECRET | E_PUBPAIR => true
  | _ => false
  end.

Definition catch_value (m : outcome obj) : result :=
  match m with
  | Ret o => Ret (Some o)
  | Raise e => if is_value_error e then Ret None else Raise e
  | OutOfFuel => OutOfFuel
  end.

(* blanket `except Exception` *)
Definition catch_all (m : outcome obj) : result :=
  match m with
  | Ret o => Ret (Some o)
  | _ => Ret None
  end.

(* ---------------------------------------------------------------------------------------------- *)
(* text primitives *)

(* s.split(c, 1) has two parts: Some (before, after) at the first occurrence of c *)
Fixpoint split_at (c : N) (s : text) : option (text * text) :=
  match s with
  | [] => None
  | x :: r => if N.eqb x c then Some ([], r)
              else match split_at c r with
                   | Some (a, b) => Some (x :: a, b)
                   | None => None
                   end
  end.

(* parseable_str.parse_colon_prefix *)
Definition parse_colon_prefix (s : text) : option (text * text) := split_at 58%N s.

Definition tH : text := [72%N].
Definition tP : text := [80%N].
Definition tE : text := [69%N].
(* `pair[0] in ("H", "P")` *)
Definition in_HP (a : text) : bool := text_eqb a tH || text_eqb a tP.

(* str.startswith *)
Fixpoint text_starts_with (pre s : text) : bool :=
  match pre, s with
  | [], _ => true
  | x :: p', y :: s' => N.eqb x y && text_starts_with p' s'
  | _ :: _, [] => false
  end.

Definition hexval (c : N) : option N :=
  if (48 <=? c)%N && (c <=? 57)%N then Some (c - 48)%N
  else if (97 <=? c)%N && (c <=? 102)%N then Some (c - 87)%N
  else if (65 <=? c)%N && (c <=? 70)%N then Some (c - 55)%N
  else None.

(* encoding.hexbytes.h2b : binascii.unhexlify(h.encode("ascii")); None = ValueError *)
Fixpoint h2b (s : text) : option bytes :=
  match s with
  | [] => Some []
  | [_] => None
  | a :: b :: r =>
    match hexval a, hexval b, h2b r with
    | Some x, Some y, Some t => Some (n2b (16 * x + y) :: t)
    | _, _, _ => None
    end
  end.

Definition hexdigit (v : N) : N := if (v <? 10)%N then (48 + v)%N else (87 + v)%N.
(* b2h : binascii.hexlify(..).decode *)
Fixpoint b2h (b : bytes) : text :=
  match b with
  | [] => []
  | x :: r => hexdigit (b2n x / 16) :: hexdigit (b2n x mod 16) :: b2h r
  end.

(* str.encode("utf8"); None = UnicodeEncodeError (a lone surrogate) *)
Definition utf8_char (c : N) : option bytes :=
  (if c <? 128 then Some [n2b c]
   else if c <? 2048 then Some [n2b (192 + c / 64); n2b (128 + c mod 64)]
   else if c <? 65536 then
     if (55296 <=? c) && (c <=? 57343) then None
     else Some [n2b (224 + c / 4096); n2b (128 + (c / 64) mod 64); n2b (128 + c mod 64)]
   else Some [n2b (240 + c / 262144); n2b (128 + (c / 4096) mod 64); n2b (128 + (c / 64) mod 64); n2b (128 + c mod 64)])%N.

Fixpoint utf8 (s : text) : option bytes :=
  match s with
  | [] => Some []
  | c :: r => match utf8_char c, utf8 r with
              | Some a, Some b => Some (a ++ b)
              | _, _ => None
              end
  end.

Fixpoint starts_with (pre d : bytes) : bool :=
  match pre, d with
  | [], _ => true
  | x :: p', y :: d' => byte_eqb x y && starts_with p' d'
  | _ :: _, [] => false
  end.

(* from_bytes_32 / to_bytes_32 *)
Definition from_bytes (b : bytes) : Z := Z.of_N (be_decode b).
Definition to_bytes_32 (v : Z) : outcome bytes :=
  if (0 <=? v) && (v <? 2 ^ 256) then Ret (be_encode 32 (Z.to_N v)) else Raise E_OVERFLOW.

(* ---------------------------------------------------------------------------------------------- *)
(* curve (constants from the generated table: the live generator of every network) *)
Definition on_curve (pt : Z * Z) : bool :=
  let '(x, y) := pt in
  ((y * y - (x * x * x + curve_a * x + curve_b)) mod curve_p =? 0).

Definition valid_exponent (se : Z) : bool := (1 <=? se) && (se <? curve_n).

(* Key.__init__: coordinates are field elements, 0 <= x < p and 0 <= y < p *)
Definition in_range (pt : Z * Z) : bool :=
  let '(x, y) := pt in (0 <=? x) && (x <? curve_p) && (0 <=? y) && (y <? curve_p).

(* Point(x, y, curve): the constructor checks the equation *)
Definition mk_point (x y : Z) : outcome (Z * Z) :=
  if on_curve (x, y) then Ret (x, y) else Raise E_NOPOINT.

Definition is_odd (y : Z) : bool := negb (Z.land y 1 =? 0).

Section Parse.
Variable b58 : text -> outcome (option bytes).
Variable bech32 : text -> outcome (option (text * Z * bytes * bool)).

(* parseable_str.cache(key, f): the slot is pre-set to None, `except Exception: pass` *)
Definition ps_cache {A} (f : text -> outcome (option A)) (s : text) : option A :=
  match f s with
  | Ret v => v
  | _ => None
  end.
(* parse_b58_double_sha256 / parse_b58_groestl and parse_bech32 *)
Definition b58c (s : text) : option bytes := ps_cache b58 s.
Definition bech32c (s : text) : option (text * Z * bytes * bool) := ps_cache bech32 s.
Variable int10 int16 : text -> option Z.
Variable compile : text -> option bytes.
Variable hmac512 : bytes -> bytes.
Variable stretch : bytes -> Z.
Variable mulG : Z -> Z * Z.
Variable modsqrt : Z -> Z.

(* Generator.points_for_x *)
Definition points_for_x (x : Z) : outcome ((Z * Z) * (Z * Z)) :=
  let alpha := ((x ^ 3) mod curve_p + curve_a * x + curve_b) mod curve_p in
  let y0 := modsqrt alpha in
  if y0 =? 0 then Raise E_VALUE
  else bind (mk_point x y0) (fun p0 =>
       bind (mk_point x (curve_p - y0)) (fun p1 =>
       if Z.land y0 1 =? 0 then Ret (p0, p1) else Ret (p1, p0))).

Definition pick (odd : bool) (pp : (Z * Z) * (Z * Z)) : Z * Z := if odd then snd pp else fst pp.

(* Key.__init__ with a secret exponent *)
Definition key_material_private (se : Z) : outcome keymat :=
  if valid_exponent se then
    let pt := mulG se in
    if on_curve pt then (if in_range pt then Ret (Prv se pt) else Raise E_PUBPAIR) else Raise E_PUBPAIR
  else Raise E_SECRET.

(* Key.__init__ with a public pair: the curve equation modulo p, then the range test *)
Definition key_material_public (pt : Z * Z) : outcome keymat :=
  if on_curve pt then (if in_range pt then Ret (Pub pt) else Raise E_PUBPAIR) else Raise E_PUBPAIR.

(* network.keys.private(se, is_compressed) *)
Definition keys_private (se : Z) (compressed : bool) : outcome obj :=
  bind (key_material_private se) (fun k => Ret (OKey k compressed)).

(* network.keys.public(tuple) *)
Definition keys_public_pair (pt : Z * Z) : outcome obj :=
  bind (key_material_public pt) (fun k => Ret (OKey k true)).

(* encoding.sec.sec_to_public_pair(sec, generator, strict=True); byte_count = 32 *)
Definition sec_to_public_pair (sec : bytes) : outcome (Z * Z) :=
  let x := from_bytes (slice 1 33 sec) in
  let sec0 := take 1 sec in
  if curve_p <=? x then Raise E_ENCODING
  else if Nat.eqb (length sec) 65 then
    if bytes_eqb sec0 [x04] then
      let y := from_bytes (slice 33 65 sec) in
      if curve_p <=? y then Raise E_ENCODING else Ret (x, y)
    else Raise E_ENCODING
  else if Nat.eqb (length sec) 33 then
    if bytes_eqb sec0 [x02] || bytes_eqb sec0 [x03] then
      bind (points_for_x x) (fun pp => Ret (pick (negb (bytes_eqb sec0 [x02])) pp))
    else Raise E_ENCODING
  else Raise E_ENCODING.

Definition is_sec_compressed (sec : bytes) : bool :=
  bytes_eqb (take 1 sec) [x02] || bytes_eqb (take 1 sec) [x03].

(* Key.from_sec = network.keys.public(bytes) *)
Definition key_from_sec (sec : bytes) : outcome obj :=
  bind (sec_to_public_pair sec) (fun pt =>
  bind (key_material_public pt) (fun k => Ret (OKey k (is_sec_compressed sec)))).

(* ---------------------------------------------------------------------------------------------- *)
(* address templates (ContractAPI.for_p2pkh ... compile the fixed texts) *)
Definition script_p2pkh (h : bytes) : bytes := [x76; xa9; x14] ++ h ++ [x88; xac].
Definition script_p2sh (h : bytes) : bytes := [xa9; x14] ++ h ++ [x87].
Definition script_wit0 (h : bytes) : bytes := [x00; n2b (N.of_nat (length h))] ++ h.
Definition script_p2tr (k : bytes) : bytes := [x51; x20] ++ k.

(* p2pkh / p2sh from the decoded payload *)
Definition b58_script_of_payload (prefix : option bytes) (mk : bytes -> bytes) (data : bytes) : result :=
  match prefix with
  | None => Ret None
  | Some pre =>
    if negb (starts_with pre data) then Ret None
    else if negb (Nat.eqb (length data) (length pre + 20)) then Ret None
    else Ret (Some (OContract (mk (drop (length pre) data))))
  end.

Definition p2pkh_of_payload (net : netcfg) := b58_script_of_payload (n_address net) script_p2pkh.
Definition p2sh_of_payload (net : netcfg) := b58_script_of_payload (n_p2sh net) script_p2sh.

Definition via_b58 (f : bytes -> result) (s : text) : result :=
  match b58c s with
  | None => Ret None
  | Some data => f data
  end.

Definition p2pkh (net : netcfg) (s : text) : result := via_b58 (p2pkh_of_payload net) s.
Definition p2sh (net : netcfg) (s : text) : result := via_b58 (p2sh_of_payload net) s.

(* ParseAPI._bech32m from the decoded tuple *)
Definition segwit_of_decoded (net : netcfg) (expected_version : Z) (blob_len : nat) (mk : bytes -> bytes)
    (v : text * Z * bytes * bool) : result :=
  let '(hrp, version, data, is_m) := v in
  match n_hrp net with
  | None => Ret None
  | Some h =>
    if negb (text_eqb hrp h) then Ret None
    else if negb (Nat.eqb (length data) blob_len) then Ret None
    else if negb (expected_version =? version) then Ret None
    else if (version =? 0) && is_m then Ret None
    else if negb (version =? 0) && negb is_m then Ret None
    else Ret (Some (OContract (mk data)))
  end.

Definition via_bech32 (f : text * Z * bytes * bool -> result) (s : text) : result :=
  match bech32c s with
  | None => Ret None
  | Some v => f v
  end.

Definition p2pkh_segwit net := via_bech32 (segwit_of_decoded net 0 20 script_wit0).
Definition p2sh_segwit net := via_bech32 (segwit_of_decoded net 0 32 script_wit0).
Definition p2tr net := via_bech32 (segwit_of_decoded net 1 32 script_p2tr).

(* ParseAPI.script: blanket except *)
Definition script (net : netcfg) (s : text) : result :=
  match compile s with
  | Some b => Ret (Some (OContract b))
  | None => Ret None
  end.

(* ParseAPI.as_number *)
Definition as_number (s : text) : option Z :=
  match int10 s with
  | Some v => Some v
  | None => int16 s
  end.

(* ---------------------------------------------------------------------------------------------- *)
(* ParseAPI.wif from the decoded payload *)
Definition wif_of_payload (net : netcfg) (data : bytes) : result :=
  match n_wif net with
  | None => Ret None
  | Some pre =>
    if negb (starts_with pre data) then Ret None
    else
      let body := drop (length pre) data in
      let is_compressed := Nat.ltb 32 (length body) in
      if is_compressed then
        if negb (Nat.eqb (length body) 33) || negb (bytes_eqb (drop 32 body) [x01]) then Ret None
        else catch_value (keys_private (from_bytes (take 32 body)) true)
      else if negb (Nat.eqb (length body) 32) then Ret None
      else catch_value (keys_private (from_bytes body) false)
  end.

Definition wif (net : netcfg) (s : text) : result := via_b58 (wif_of_payload net) s.

(* ParseAPI.secret_exponent *)
Definition secret_exponent (net : netcfg) (s : text) : result :=
  match as_number s with
  | Some v => if v =? 0 then Ret None else catch_value (keys_private v true)
  | None => Ret None
  end.

(* ParseAPI.public_pair.  `generator = Key(1)._generator` constructs the key for exponent 1 first. *)
Definition public_pair_step (c : N) (s : text) (point : option (Z * Z)) : outcome (option (option (Z * Z))) :=
  (* Ret None = `return None` from inside the loop; Ret (Some point') = fall through with the new value of point *)
  match split_at c s with
  | None => Ret (Some point)
  | Some (s0, s1) =>
    match as_number s0 with
    | None => Ret (Some point)
    | Some v0 =>
      if v0 =? 0 then Ret (Some point)
      else
        let even_odd := text_eqb s1 (text_of_string "even") || text_eqb s1 (text_of_string "odd") in
        let step1 : outcome (option (option (Z * Z))) :=
          if even_odd then
            match points_for_x v0 with
            | Ret pp => Ret (Some (Some (pick (text_eqb s1 (text_of_string "odd")) pp)))
            | Raise e => if is_value_error e then Ret None else Raise e
            | OutOfFuel => OutOfFuel
            end
          else Ret (Some point) in
        match step1 with
        | Ret (Some point1) =>
          match as_number s1 with
          | None => Ret (Some point1)
          | Some v1 =>
            if v1 =? 0 then Ret (Some point1)
            else if on_curve (v0, v1) then bind (mk_point v0 v1) (fun pt => Ret (Some (Some pt)))
            else Ret (Some point1)
          end
        | other => other
        end
    end
  end.

(* the loop over "," and "/": Ret None = nothing to build a key from; Ret (Some pt) = the point handed to keys.public *)
Definition public_pair_point (s : text) : outcome (option (Z * Z)) :=
  match public_pair_step 44%N s None with          (* "," *)
  | Ret (Some pt1) =>
    match public_pair_step 47%N s pt1 with          (* "/" *)
    | Ret (Some r) => Ret r
    | Ret None => Ret None
    | Raise e => Raise e
    | OutOfFuel => OutOfFuel
    end
  | Ret None => Ret None
  | Raise e => Raise e
  | OutOfFuel => OutOfFuel
  end.

(* `if point: try: return self._network.keys.public(point) except ValueError: return None` *)
Definition public_pair (net : netcfg) (s : text) : result :=
  bind (keys_private 1 true) (fun _ =>
  bind (public_pair_point s) (fun r =>
  match r with
  | Some pt => catch_value (keys_public_pair pt)
  | None => Ret None
  end)).

(* ParseAPI.sec: a leading SEC text prefix of the network is stripped; blanket except *)
Definition strip_sec_prefix (net : netcfg) (s : text) : text :=
  match n_sec_prefix net with
  | [] => s
  | pre => if text_starts_with pre s then drop (length pre) s else s
  end.

Definition sec (net : netcfg) (s : text) : result :=
  match h2b (strip_sec_prefix net s) with
  | None => Ret None
  | Some b => catch_all (key_from_sec b)
  end.

(* ---------------------------------------------------------------------------------------------- *)
(* BIP32Node.deserialize (also BIP49Node / BIP84Node: inherited) *)
Definition hd_deserialize (kind : hdkind) (data : bytes) : outcome obj :=
  if negb (Nat.eqb (length data) 78) then Raise E_VALUE
  else
    let fp := slice 5 9 data in
    let idx := be_decode (slice 9 13 data) in
    let chain := slice 13 45 data in
    let depth := be_decode (slice 4 5 data) in
    if bytes_eqb (slice 45 46 data) [x00] then
      bind (key_material_private (from_bytes (drop 46 data))) (fun k => Ret (OHd kind depth fp idx chain k))
    else
      bind (sec_to_public_pair (drop 45 data)) (fun pt =>
      bind (key_material_public pt) (fun k => Ret (OHd kind depth fp idx chain k))).

(* hparse from the decoded payload *)
Definition hd_of_payload (prefix : option bytes) (kind : hdkind) (data : bytes) : result :=
  match prefix with
  | None => Ret None
  | Some pre => if negb (starts_with pre data) then Ret None else catch_value (hd_deserialize kind data)
  end.

Definition hd_prv (net : netcfg) (kind : hdkind) (s : text) : result := via_b58 (hd_of_payload (n_hd_prv net kind) kind) s.
Definition hd_pub (net : netcfg) (kind : hdkind) (s : text) : result := via_b58 (hd_of_payload (n_hd_pub net kind) kind) s.
(* bip32 / bip49 / bip84 : prv(s) or pub(s) *)
Definition hd_any (net : netcfg) (kind : hdkind) (s : text) : result :=
  orelse (hd_prv net kind s) (fun _ => hd_pub net kind s).

(* BIP32Node.from_master_secret *)
Definition from_master_secret (secret : bytes) : outcome obj :=
  let i64 := hmac512 secret in
  bind (key_material_private (from_bytes (take 32 i64))) (fun k =>
  if negb (Nat.eqb (length (drop 32 i64)) 32) then Raise E_VALUE
  else Ret (OHd Bip32 0 [x00; x00; x00; x00] 0 (drop 32 i64) k)).

(* the common head of bip32_seed / hd_seed: Ret None = return None; Ret (Some secret) *)
Definition seed_secret (s : text) : outcome (option bytes) :=
  match parse_colon_prefix s with
  | None => Ret None
  | Some (a, b) =>
    if negb (in_HP a) then Ret None
    else if text_eqb a tH then
      match h2b b with
      | Some m => Ret (Some m)
      | None => Ret None
      end
    else
      match utf8 b with
      | Some m => Ret (Some m)
      | None => Ret None               (* UnicodeEncodeError is caught *)
      end
  end.

Definition bip32_seed (net : netcfg) (s : text) : result :=
  bind (seed_secret s) (fun m =>
  match m with
  | None => Ret None
  | Some secret => bind (from_master_secret secret) (fun o => Ret (Some o))
  end).

(* hd_seed(s) = self.bip32_seed(s) *)
Definition hd_seed (net : netcfg) (s : text) : result := bip32_seed net s.

(* ---------------------------------------------------------------------------------------------- *)
(* electrum *)
Definition electrum_to_blob (s : text) : option bytes :=
  match parse_colon_prefix s with
  | None => None
  | Some (a, b) => if text_eqb a tE then h2b b else None
  end.

Definition electrum_seed (net : netcfg) (s : text) : result :=
  match electrum_to_blob s with
  | Some blob =>
    if Nat.eqb (length blob) 16 then
      bind (key_material_private (stretch blob)) (fun k => Ret (Some (OElectrum (Some blob) k)))
    else Ret None
  | None => Ret None
  end.

Definition electrum_prv (net : netcfg) (s : text) : result :=
  match electrum_to_blob s with
  | Some blob =>
    if Nat.eqb (length blob) 32 then
      catch_value (bind (key_material_private (from_bytes blob)) (fun k => Ret (OElectrum None k)))
    else Ret None
  | None => Ret None
  end.

Definition electrum_pub (net : netcfg) (s : text) : result :=
  match electrum_to_blob s with
  | Some blob =>
    if Nat.eqb (length blob) 64 then
      catch_value (bind (key_material_public (from_bytes (take 32 blob), from_bytes (drop 32 blob)))
                        (fun k => Ret (OElectrum None k)))
    else Ret None
  | None => Ret None
  end.

(* ---------------------------------------------------------------------------------------------- *)
(* dispatchers *)
Definition disabled_or (net : netcfg) (r : unit -> result) : result :=
  if n_disabled net then Ret None else r tt.

Definition address_body (net : netcfg) (s : text) : result :=
  orelse (p2pkh net s) (fun _ => orelse (p2sh net s) (fun _ => orelse (p2pkh_segwit net s) (fun _ =>
  orelse (p2sh_segwit net s) (fun _ => p2tr net s)))).
Definition address (net : netcfg) (s : text) : result := disabled_or net (fun _ => address_body net s).

Definition payable (net : netcfg) (s : text) : result := orelse (address net s) (fun _ => script net s).

Fixpoint first_of (fs : list (text -> result)) (s : text) : result :=
  match fs with
  | [] => Ret None
  | f :: r => orelse (f s) (fun _ => first_of r s)
  end.

Definition hierarchical_key (net : netcfg) (s : text) : result :=
  disabled_or net (fun _ =>
    first_of [bip32_seed net; hd_any net Bip32; hd_any net Bip49; hd_any net Bip84;
              electrum_seed net; electrum_prv net; electrum_pub net] s).

Definition private_key (net : netcfg) (s : text) : result :=
  disabled_or net (fun _ => first_of [wif net; secret_exponent net] s).

Definition secret (net : netcfg) (s : text) : result :=
  first_of [private_key net; hierarchical_key net] s.

Definition public_key (net : netcfg) (s : text) : result :=
  disabled_or net (fun _ => first_of [public_pair net; sec net] s).

(* input / tx / spendable / script_preimage *)
Definition unsupported (net : netcfg) (s : text) : result := Ret None.

(* ParseAPI.__call__ *)
Definition parse_any (net : netcfg) (s : text) : result :=
  orelse (payable net s) (fun _ => secret net s).

End Parse.

(* ---------------------------------------------------------------------------------------------- *)
(* serialisers (payload level): what as_text()/address()/wif()/hwif() hand to the Base58Check encoder *)
Definition sec_compressed (pt : Z * Z) : outcome bytes :=
  bind (to_bytes_32 (fst pt)) (fun xs => Ret (n2b (Z.to_N (2 + Z.land (snd pt) 1)) :: xs)).

Definition keymat_pub (k : keymat) : Z * Z := match k with Prv _ p => p | Pub p => p end.
Definition keymat_se (k : keymat) : option Z := match k with Prv se _ => Some se | Pub _ => None end.

(* Key.wif() *)
Definition wif_payload (net : netcfg) (o : obj) : option bytes :=
  match o, n_wif net with
  | OKey (Prv se _) c, Some pre =>
    match to_bytes_32 se with
    | Ret b => Some (pre ++ b ++ (if c then [x01] else []))
    | _ => None
    end
  | _, _ => None
  end.

(* BIP32Node.serialize + network.bipNN_as_string(as_private = is_private) *)
Definition hd_payload (net : netcfg) (o : obj) : option bytes :=
  match o with
  | OHd kind depth fp idx chain k =>
    let head := [n2b depth] ++ fp ++ be_encode 4 idx ++ chain in
    match k with
    | Prv se _ =>
      match n_hd_prv net kind, to_bytes_32 se with
      | Some pre, Ret b => Some (pre ++ head ++ [x00] ++ b)
      | _, _ => None
      end
    | Pub pt =>
      match n_hd_pub net kind, sec_compressed pt with
      | Some pre, Ret b => Some (pre ++ head ++ b)
      | _, _ => None
      end
    end
  | _ => None
  end.

(* Contract.address() for a p2pkh / p2sh contract: prefix + hash160 found in the script *)
Definition p2pkh_payload (net : netcfg) (o : obj) : option bytes :=
  match o, n_address net with
  | OContract s, Some pre => Some (pre ++ take 20 (drop 3 s))
  | _, _ => None
  end.
Definition p2sh_payload (net : netcfg) (o : obj) : option bytes :=
  match o, n_p2sh net with
  | OContract s, Some pre => Some (pre ++ take 20 (drop 2 s))
  | _, _ => None
  end.

(* Key.as_text() of a public key: sec_prefix + hex(sec) *)
Definition sec_bytes (pt : Z * Z) (compressed : bool) : outcome bytes :=
  if compressed then sec_compressed pt
  else bind (to_bytes_32 (fst pt)) (fun xs => bind (to_bytes_32 (snd pt)) (fun ys => Ret (x04 :: xs ++ ys))).

Definition public_key_text (net : netcfg) (o : obj) : outcome text :=
  match o with
  | OKey (Pub pt) c => bind (sec_bytes pt c) (fun b => Ret (n_sec_prefix net ++ b2h b))
  | _ => Raise E_OTHER
  end.

(* ElectrumWallet.as_text(): "E:" + initial key, or "E:" + hex(serialize()) *)
Definition electrum_text (o : obj) : outcome text :=
  match o with
  | OElectrum (Some blob) _ => Ret (tE ++ [58%N] ++ b2h blob)
  | OElectrum None (Prv se _) => bind (to_bytes_32 se) (fun b => Ret (tE ++ [58%N] ++ b2h b))
  | OElectrum None (Pub pt) =>
    bind (to_bytes_32 (fst pt)) (fun xs => bind (to_bytes_32 (snd pt)) (fun ys => Ret (tE ++ [58%N] ++ b2h (xs ++ ys))))
  | _ => Raise E_OTHER
  end.

(* ---------------------------------------------------------------------------------------------- *)
(* checksummed kinds and the decidable separation condition on a network's prefixes *)
Inductive b58kind := KP2PKH | KP2SH | KWIF | KHD (kind : hdkind) (prv : bool).

Definition all_kinds : list b58kind :=
  [KP2PKH; KP2SH; KWIF; KHD Bip32 true; KHD Bip32 false; KHD Bip49 true; KHD Bip49 false; KHD Bip84 true; KHD Bip84 false].

Definition kind_prefix (net : netcfg) (k : b58kind) : option bytes :=
  match k with
  | KP2PKH => n_address net
  | KP2SH => n_p2sh net
  | KWIF => n_wif net
  | KHD kind true => n_hd_prv net kind
  | KHD kind false => n_hd_pub net kind
  end.

(* the payload lengths (after the prefix) a kind can accept *)
Definition kind_body_lengths (k : b58kind) : list nat :=
  match k with
  | KP2PKH | KP2SH => [20%nat]
  | KWIF => [32%nat; 33%nat]
  | KHD _ _ => []          (* total length fixed instead, see kind_total *)
  end.
Definition kind_total (k : b58kind) : option nat := match k with KHD _ _ => Some 78%nat | _ => None end.

(* total payload lengths kind k can accept under prefix pre *)
Definition kind_lengths (pre : bytes) (k : b58kind) : list nat :=
  match kind_total k with
  | Some t => [t]
  | None => map (fun b => (length pre + b)%nat) (kind_body_lengths k)
  end.

Definition comparable (a b : bytes) : bool := starts_with a b || starts_with b a.

Definition lengths_meet (l1 l2 : list nat) : bool := existsb (fun a => existsb (Nat.eqb a) l2) l1.

Definition kind_eqb (a b : b58kind) : bool :=
  match a, b with
  | KP2PKH, KP2PKH | KP2SH, KP2SH | KWIF, KWIF => true
  | KHD k1 p1, KHD k2 p2 =>
    Bool.eqb p1 p2 && match k1, k2 with Bip32, Bip32 | Bip49, Bip49 | Bip84, Bip84 => true | _, _ => false end
  | _, _ => false
  end.

(* two kinds can never accept the same payload: one of them is undefined on the network, or their
   prefixes are incomparable (neither is a prefix of the other), or no total length fits both *)
Definition pair_separated (net : netcfg) (k1 k2 : b58kind) : bool :=
  match kind_prefix net k1, kind_prefix net k2 with
  | Some p1, Some p2 => negb (comparable p1 p2) || negb (lengths_meet (kind_lengths p1 k1) (kind_lengths p2 k2))
  | _, _ => true
  end.

Definition kinds_separated (net : netcfg) : bool :=
  forallb (fun k1 => forallb (fun k2 => kind_eqb k1 k2 || pair_separated net k1 k2) all_kinds) all_kinds.

Section Kinds.
Variable mulG : Z -> Z * Z.
Variable modsqrt : Z -> Z.
Definition parse_kind (net : netcfg) (k : b58kind) (data : bytes) : result :=
  match k with
  | KP2PKH => p2pkh_of_payload net data
  | KP2SH => p2sh_of_payload net data
  | KWIF => wif_of_payload mulG net data
  | KHD kind prv => hd_of_payload mulG modsqrt (kind_prefix net (KHD kind prv)) kind data
  end.
End Kinds.

Definition accepted (r : result) : Prop := exists o, r = Ret (Some o).
Definition returns (r : result) : Prop := exists v, r = Ret v.

Definition obj_is_private (o : obj) : bool :=
  match o with
  | OKey (Prv _ _) _ | OHd _ _ _ _ _ (Prv _ _) | OElectrum _ (Prv _ _) => true
  | _ => false
  end.
