(* Model/Bip32.v — transcription of
     pycoin/key/bip32.py        subkey_secret_exponent_chain_code_pair, subkey_public_pair_chain_code_pair
     pycoin/key/Key.py          Key.__init__ (range / infinity checks), fingerprint
     pycoin/key/BIP32Node.py    from_master_secret, deserialize, __init__, serialize, hwif (BIP32/49/84), public_copy,
                                _subkey, subkey (with _subkey_cache as explicit state), subkey_for_path
     pycoin/key/HierarchicalKey.py  subkeys
     pycoin/key/subpaths.py     subpaths_for_path_range
     pycoin/key/electrum.py     ElectrumWallet.__init__/master_public_key/public_copy/subkey/subkeys
     pycoin/networks/ParseAPI.py    hparse, bipNN_prv / bipNN_pub / bipNN
     pycoin/networks/bitcoinish.py  bipNN_as_string
   NO proofs here.

   The elliptic-curve group is ABSTRACT: a type [pt] with addition, identity, Z-action, generator and order, the
   compressed encoding [sec] (public_pair_to_sec(.., compressed=True)), the 64-byte x||y encoding [xy], and the decoder
   [unsec] (sec_to_public_pair with the network generator, as used by deserialize on a 33-byte key field).
   HMAC-SHA512, hash160, double-SHA256 and the two base58check codecs are parameters as well.

   Python str values (paths) are byte lists holding the code points (Latin-1 range).  PublicPrivateMismatchError
   (a direct subclass of Exception) is represented by E_OTHER: it is the only use of E_OTHER in this file. *)
From Coq Require Import List ZArith NArith Bool.
From Coq Require Import Strings.Byte.
From PV Require Import Base.Bytes Base.Outcome.
Import ListNotations.
Local Open Scope Z_scope.
Local Open Scope outcome_scope.

(* ---------------------------------------------------------------------------------------------- *)
(* Python helpers that do not depend on the group *)

Definition from_bytes_32 (b : bytes) : Z := Z.of_N (be_decode b).      (* int.from_bytes(b, "big"): any length *)
Definition to_bytes_32 (v : Z) : outcome bytes :=                       (* v.to_bytes(32, "big") *)
  if (0 <=? v) && (v <? 2 ^ 256) then Ret (be_encode 32 (Z.to_N v)) else Raise E_OVERFLOW.
Definition pack_BE_L (i : Z) : outcome bytes :=                         (* struct.pack(">L", i) *)
  if (0 <=? i) && (i <? 2 ^ 32) then Ret (be_encode 4 (Z.to_N i)) else Raise E_STRUCT.
Definition pack_BE_l (i : Z) : outcome bytes :=                         (* struct.pack(">l", i): SIGNED *)
  if (- 2 ^ 31 <=? i) && (i <? 2 ^ 31) then Ret (be_encode 4 (Z.to_N (i mod 2 ^ 32))) else Raise E_STRUCT.

Definition is_some {A} (o : option A) : bool := match o with Some _ => true | None => false end.

Fixpoint starts_with (p d : bytes) : bool :=
  match p, d with
  | [], _ => true
  | a :: p', b :: d' => byte_eqb a b && starts_with p' d'
  | _ :: _, [] => false
  end.

(* exceptions that `except ValueError` in hparse catches: ValueError and its subclasses *)
Definition is_value_error (e : pyexn) : bool :=
  match e with
  | E_VALUE | E_ENCODING | E_SECRET | E_PUBPAIR | E_NOPOINT | E_DER => true
  | _ => false
  end.

(* --- str helpers --- *)
Definition ch_slash : byte := x2f.
Definition ch_comma : byte := x2c.
Definition ch_minus : byte := x2d.
Definition ch_plus : byte := x2b.
Definition ch_under : byte := x5f.
Definition ch_colon : byte := x3a.
Definition ch_H : byte := x48.
Definition str_pub : bytes := [x2e; x70; x75; x62].       (* ".pub" *)
Definition is_hardening_char (b : byte) : bool :=          (* b in "'pH" *)
  byte_eqb b x27 || byte_eqb b x70 || byte_eqb b x48.

(* s.split(sep) for a one-character separator *)
Fixpoint split (sep : byte) (s : bytes) : list bytes :=
  match s with
  | [] => [[]]
  | b :: r =>
    if byte_eqb b sep then [] :: split sep r
    else match split sep r with
         | h :: t => (b :: h) :: t
         | [] => [[b]]
         end
  end.
(* s.split(sep, 1) when sep occurs in s: (before, after) the first occurrence; None when sep not in s *)
Fixpoint split_once (sep : byte) (s : bytes) : option (bytes * bytes) :=
  match s with
  | [] => None
  | b :: r =>
    if byte_eqb b sep then Some ([], r)
    else match split_once sep r with
         | Some (a, c) => Some (b :: a, c)
         | None => None
         end
  end.
Fixpoint join (sep : byte) (l : list bytes) : bytes :=
  match l with
  | [] => []
  | [x] => x
  | x :: r => x ++ sep :: join sep r
  end.

(* int(str): surrounding whitespace, optional sign, decimal digits with single underscores between digits.
   Whitespace among the Latin-1 code points as accepted by CPython's int(): 09-0d, 20, 85, a0.
   (The 4300-digit limit of CPython is not modelled; the harness stays below it.) *)
Definition is_ws (b : byte) : bool :=
  let v := b2z b in ((9 <=? v) && (v <=? 13)) || (v =? 32) || (v =? 133) || (v =? 160).
Fixpoint lstrip (s : bytes) : bytes :=
  match s with
  | b :: r => if is_ws b then lstrip r else s
  | [] => []
  end.
Definition strip (s : bytes) : bytes := rev (lstrip (rev (lstrip s))).
Definition digit_val (b : byte) : option Z :=
  let v := b2z b in if (48 <=? v) && (v <=? 57) then Some (v - 48) else None.
Fixpoint parse_digits (s : bytes) (acc : Z) (prev_digit : bool) : option Z :=
  match s with
  | [] => if prev_digit then Some acc else None
  | b :: r =>
    match digit_val b with
    | Some d => parse_digits r (acc * 10 + d) true
    | None => if byte_eqb b ch_under && prev_digit then parse_digits r acc false else None
    end
  end.
Definition py_int (s : bytes) : outcome Z :=
  let s1 := strip s in
  let r := match s1 with
           | b :: t => if byte_eqb b ch_plus then parse_digits t 0 false
                       else if byte_eqb b ch_minus then option_map Z.opp (parse_digits t 0 false)
                       else parse_digits s1 0 false
           | [] => None
           end in
  match r with Some v => Ret v | None => Raise E_VALUE end.

(* "%d" % v *)
Definition digit_char (d : Z) : byte := z2b (48 + d).
Fixpoint dec_pos (fuel : nat) (v : Z) : bytes :=
  match fuel with
  | O => []
  | S f => if v <? 10 then [digit_char v] else dec_pos f (v / 10) ++ [digit_char (v mod 10)]
  end.
Definition dec_fuel (v : Z) : nat := S (Z.to_nat (Z.log2 v)).
Definition py_dec (v : Z) : bytes :=
  if v <? 0 then ch_minus :: dec_pos (dec_fuel (- v)) (- v) else dec_pos (dec_fuel v) v.

Fixpoint contains (c : byte) (s : bytes) : bool :=
  match s with [] => false | b :: r => byte_eqb b c || contains c r end.

(* itertools.product over the lists: lexicographic, rightmost varies fastest *)
Fixpoint product {A} (ls : list (list A)) : list (list A) :=
  match ls with
  | [] => [[]]
  | l :: r => flat_map (fun x => map (fun t => x :: t) (product r)) l
  end.

(* range(lo, hi+1) as Z list; refuses (OutOfFuel) when longer than [limit] so that no data-dependent
   number is ever turned into a nat unchecked *)
Fixpoint zrange_aux (n : nat) (lo : Z) : list Z :=
  match n with O => [] | S k => lo :: zrange_aux k (lo + 1) end.
Definition zrange (limit : Z) (lo hi : Z) : outcome (list Z) :=
  if hi <? lo then Ret []
  else if limit <? hi + 1 - lo then OutOfFuel
  else Ret (zrange_aux (Z.to_nat (hi + 1 - lo)) lo).

(* subpaths.py: range_iterator(the_range) with hardening_chars = "'pH" (the only value the anchors pass) *)
Definition range_item (limit : Z) (r : bytes) : outcome (list bytes) :=
  match last_opt r with
  | None => Raise E_INDEX                                   (* r[-1] on "" *)
  | Some c =>
    let is_hardened := is_hardening_char c in
    let hardened_char := if is_hardened then [ch_H] else [] in
    let r1 := if is_hardened then removelast r else r in
    match split_once ch_minus r1 with
    | Some (lo_s, hi_s) =>
      do lo <- py_int lo_s;
      do hi <- py_int hi_s;
      do ts <- zrange limit lo hi;
      Ret (map (fun t => py_dec t ++ hardened_char) ts)
    | None => Ret [r1 ++ hardened_char]
    end
  end.
Definition range_iterator (limit : Z) (the_range : bytes) : outcome (list bytes) :=
  do ls <- mapM (range_item limit) (split ch_comma the_range);
  Ret (concat ls).
Definition subpaths_for_path_range (limit : Z) (path_range : bytes) : outcome (list bytes) :=
  match path_range with
  | [] => Ret [[]]
  | _ =>
    do its <- mapM (range_iterator limit) (split ch_slash path_range);
    Ret (map (join ch_slash) (product its))
  end.

(* one path element of subkey_for_path: v -> (int(v without hardening char), is_hardened) *)
Definition path_token (v : bytes) : outcome (Z * bool) :=
  match last_opt v with
  | None => Raise E_INDEX
  | Some c =>
    let h := is_hardening_char c in
    do vi <- py_int (if h then removelast v else v);
    Ret (vi, h)
  end.
(* path -> (force_public, invocations) *)
Definition path_tokens (path : bytes) : bool * list bytes :=
  let n := length path in
  let force_public := bytes_eqb (skipn (n - 4) path) str_pub in
  let path1 := if force_public then firstn (n - 4) path else path in
  (force_public, match path1 with [] => [] | _ => split ch_slash path1 end).

(* str.encode("utf8") of a str whose code points are below 256 (the representation of str used here): code points
   0x80..0xff become the two bytes 110000xx 10xxxxxx *)
Fixpoint utf8_latin1 (s : bytes) : bytes :=
  match s with
  | [] => []
  | b :: r =>
    let v := b2z b in
    if v <? 128 then b :: utf8_latin1 r
    else z2b (192 + v / 64) :: z2b (128 + v mod 64) :: utf8_latin1 r
  end.

(* ---------------------------------------------------------------------------------------------- *)
Section Bip32.
Variable pt : Type.
Variable padd : pt -> pt -> pt.
Variable pO : pt.                       (* generator.infinity() *)
Variable smul : Z -> pt -> pt.          (* k * P *)
Variable pG : pt.
Variable order : Z.                     (* generator.order() *)
Variable pt_eqb : pt -> pt -> bool.
Variable sec : pt -> bytes.             (* public_pair_to_sec(P, compressed=True) *)
Variable xy : pt -> bytes.              (* to_bytes_32(x) + to_bytes_32(y) = uncompressed sec without the 04 *)
Variable unsec : bytes -> outcome pt.   (* sec_to_public_pair(b, generator): EncodingError / NoSuchPointError / point *)
Variable hmac512 : bytes -> bytes -> bytes.   (* key, msg *)
Variable hash160 : bytes -> bytes.
Variable dsha256 : bytes -> bytes.
Variable b58enc : N -> bytes -> bytes.            (* codec id, payload -> text *)
Variable b58dec : N -> bytes -> option bytes.     (* codec id, text -> payload (parse_b58_hashed: None on any failure) *)
Variable loop_fuel : nat.               (* bound on the `while True` of the private derivation *)

(* ---- bip32.py ---- *)
Fixpoint ckd_priv_loop (fuel : nat) (k : Z) (chain data i_as_bytes : bytes) : outcome (Z * bytes) :=
  match fuel with
  | O => OutOfFuel
  | S f =>
    let I64 := hmac512 chain data in
    let I_left := from_bytes_32 (firstn 32 I64) in
    let new_secret := (I_left + k) mod order in
    if (I_left <? order) && negb (new_secret =? 0) then Ret (new_secret, skipn 32 I64)
    else ckd_priv_loop f k chain (x01 :: skipn 32 I64 ++ i_as_bytes) i_as_bytes
  end.

Definition subkey_secret_exponent_chain_code_pair (fuel : nat) (k : Z) (chain : bytes) (i : Z) (is_hardened : bool)
    (public_pair : option pt) : outcome (Z * bytes) :=
  do ib <- pack_BE_L i;
  do data <- (if is_hardened then do kb <- to_bytes_32 k; Ret (x00 :: kb ++ ib)
              else let P := match public_pair with Some P => P | None => smul k pG end in Ret (sec P ++ ib));
  ckd_priv_loop fuel k chain data ib.

Definition subkey_public_pair_chain_code_pair (P : pt) (chain : bytes) (i : Z) : outcome (pt * bytes) :=
  do ib <- pack_BE_l i;
  let I64 := hmac512 chain (sec P ++ ib) in
  let e := from_bytes_32 (firstn 32 I64) mod order in
  let Q := padd (smul e pG) P in
  if pt_eqb Q pO then Raise E_VALUE                      (* DerivationError(ValueError) *)
  else Ret (Q, skipn 32 I64).

(* ---- Key.__init__ ---- *)
Definition key_init (secret : option Z) (pub : option pt) : outcome (option Z * pt) :=
  match secret, pub with
  | Some k, None =>
    if (k <? 1) || (order <=? k) then Raise E_SECRET
    else let P := smul k pG in if pt_eqb P pO then Raise E_PUBPAIR else Ret (Some k, P)
  | None, Some P => if pt_eqb P pO then Raise E_PUBPAIR else Ret (None, P)
  | _, _ => Raise E_VALUE
  end.

(* ---- BIP32Node ---- *)
Record node : Type := mkNode {
  nd_chain : bytes; nd_depth : Z; nd_fpr : bytes; nd_index : Z; nd_secret : option Z; nd_point : pt }.

Definition node_init (chain : bytes) (depth : Z) (fpr : bytes) (idx : Z) (secret : option Z) (pub : option pt)
    : outcome node :=
  do '(s, P) <- key_init secret pub;                    (* the count(None) test raises ValueError as well *)
  do _ <- match s with                                   (* self._secret_exponent_bytes = to_bytes_32(secret_exponent) *)
          | Some k => if k =? 0 then Ret [] else to_bytes_32 k
          | None => Ret []
          end;
  if negb (Nat.eqb (length chain) 32) then Raise E_VALUE
  else if negb (Nat.eqb (length fpr) 4) then Raise E_ENCODING
  else Ret (mkNode chain depth fpr idx s P).

Definition str_bitcoin_seed : bytes := [x42; x69; x74; x63; x6f; x69; x6e; x20; x73; x65; x65; x64].
Definition from_master_secret (master_secret : bytes) : outcome node :=
  let I64 := hmac512 str_bitcoin_seed master_secret in
  node_init (skipn 32 I64) 0 [x00; x00; x00; x00] 0 (Some (from_bytes_32 (firstn 32 I64))) None.

Definition deserialize (data : bytes) : outcome node :=
  if negb (Nat.eqb (length data) 78) then Raise E_VALUE
  else
    let fpr := slice 5 9 data in
    let idx := Z.of_N (be_decode (slice 9 13 data)) in
    let chain := slice 13 45 data in
    let depth := match slice 4 5 data with b :: _ => b2z b | [] => 0 end in
    if bytes_eqb (slice 45 46 data) [x00]
    then node_init chain depth fpr idx (Some (from_bytes_32 (skipn 46 data))) None
    else do P <- unsec (skipn 45 data); node_init chain depth fpr idx None (Some P).

Definition serialize (nd : node) (as_private : option bool) : outcome bytes :=
  let ap := match as_private with Some b => b | None => is_some (nd_secret nd) end in
  if negb (is_some (nd_secret nd)) && ap then Raise E_OTHER      (* PublicPrivateMismatchError *)
  else
    do d <- (if (0 <=? nd_depth nd) && (nd_depth nd <? 256) then Ret [z2b (nd_depth nd)] else Raise E_VALUE);
    do ib <- pack_BE_L (nd_index nd);
    let head := d ++ nd_fpr nd ++ ib ++ nd_chain nd in
    if ap then
      match nd_secret nd with
      | Some k => do kb <- to_bytes_32 k; Ret (head ++ x00 :: kb)
      | None => Raise E_OTHER
      end
    else Ret (head ++ sec (nd_point nd)).

Definition public_copy (nd : node) : outcome node :=
  node_init (nd_chain nd) (nd_depth nd) (nd_fpr nd) (nd_index nd) None (Some (nd_point nd)).

Definition fingerprint (nd : node) : bytes := firstn 4 (hash160 (sec (nd_point nd))).

Definition subkey_raw (nd : node) (i : Z) (is_hardened as_private : bool) : outcome node :=     (* _subkey *)
  if i <? 0 then Raise E_VALUE
  else if 2147483648 <=? i then Raise E_VALUE
  else
    let i1 := Z.land i 2147483647 in
    let i2 := if is_hardened then Z.lor i1 2147483648 else i1 in
    let fp := fingerprint nd in
    do key <- match nd_secret nd with
              | None =>
                if is_hardened then Raise E_OTHER
                else do '(Q, c) <- subkey_public_pair_chain_code_pair (nd_point nd) (nd_chain nd) i2;
                     node_init c (nd_depth nd + 1) fp i2 None (Some Q)
              | Some k =>
                do '(k', c) <- subkey_secret_exponent_chain_code_pair loop_fuel k (nd_chain nd) i2 is_hardened
                                 (Some (nd_point nd));
                node_init c (nd_depth nd + 1) fp i2 (Some k') None
              end;
    if as_private then Ret key else public_copy key.

(* the _subkey_cache dictionaries of a node and of every node reachable through them, as ONE association list keyed by
   the sequence of cache keys (i, is_hardened, as_private) leading from the root object to the cached object *)
Definition ckey : Type := Z * bool * bool.
Definition ckey_eqb (a b : ckey) : bool :=
  let '(i, h, p) := a in let '(j, g, q) := b in (i =? j) && Bool.eqb h g && Bool.eqb p q.
Fixpoint cpath_eqb (a b : list ckey) : bool :=
  match a, b with
  | [], [] => true
  | x :: a', y :: b' => ckey_eqb x y && cpath_eqb a' b'
  | _, _ => false
  end.
Definition cache : Type := list (list ckey * node).
Fixpoint cache_lookup (c : cache) (p : list ckey) : option node :=
  match c with
  | [] => None
  | (q, nd) :: r => if cpath_eqb q p then Some nd else cache_lookup r p
  end.

(* nd.subkey(i, is_hardened, as_private) where nd is the object at cache path p *)
Definition subkey (c : cache) (p : list ckey) (nd : node) (i : Z) (is_hardened : bool) (as_private : option bool)
    : outcome node * cache :=
  let ap := match as_private with Some b => b | None => is_some (nd_secret nd) end in
  let q := p ++ [(i, is_hardened, ap)] in
  match cache_lookup c q with
  | Some k => (Ret k, c)
  | None =>
    match subkey_raw nd i is_hardened ap with
    | Ret k => (Ret k, (q, k) :: c)
    | other => (other, c)
    end
  end.

Fixpoint path_walk (c : cache) (p : list ckey) (key : node) (invocations : list bytes) : outcome node * cache :=
  match invocations with
  | [] => (Ret key, c)
  | v :: r =>
    match path_token v with
    | Ret (vi, h) =>
      let ap := is_some (nd_secret key) in
      match subkey c p key vi h (Some ap) with
      | (Ret k, c') => path_walk c' (p ++ [(vi, h, ap)]) k r
      | (other, c') => (other, c')
      end
    | Raise e => (Raise e, c)
    | OutOfFuel => (OutOfFuel, c)
    end
  end.

Definition subkey_for_path (c : cache) (p : list ckey) (nd : node) (path : bytes) : outcome node * cache :=
  let '(force_public, invocations) := path_tokens path in
  match path_walk c p nd invocations with
  | (Ret key, c') =>
    if force_public && is_some (nd_secret key) then (public_copy key, c') else (Ret key, c')
  | other => other
  end.

(* HierarchicalKey.subkeys(path): a generator; the nodes yielded before the first exception, and that exception *)
Fixpoint subkeys_walk (c : cache) (p : list ckey) (nd : node) (paths : list bytes)
    : list node * option pyexn * cache :=
  match paths with
  | [] => ([], None, c)
  | s :: r =>
    match subkey_for_path c p nd s with
    | (Ret k, c') => let '(ks, e, c'') := subkeys_walk c' p nd r in (k :: ks, e, c'')
    | (Raise e, c') => ([], Some e, c')
    | (OutOfFuel, c') => ([], Some E_OTHER, c')
    end
  end.
Definition subkeys (limit : Z) (c : cache) (p : list ckey) (nd : node) (path : bytes)
    : outcome (list node * option pyexn * cache) :=
  do paths <- subpaths_for_path_range limit path;
  Ret (subkeys_walk c p nd paths).

(* ---- a history of calls on one root object and on the objects it caches ---- *)
Inductive hdop : Type :=
| OpSubkey (p : list ckey) (i : Z) (is_hardened : bool) (as_private : option bool)   (* obj(p).subkey(i, h, ap) *)
| OpPath (p : list ckey) (path : bytes)                                                (* obj(p).subkey_for_path(path) *)
| OpSubkeys (p : list ckey) (path : bytes).                                            (* list(obj(p).subkeys(path)) *)
Inductive opres : Type :=
| RNode (r : outcome node)
| RList (r : outcome (list node * option pyexn))
| RSkip.                                   (* the addressed object does not exist (yet): not a call *)
Definition op_target (root : node) (c : cache) (p : list ckey) : option node :=
  match p with [] => Some root | _ => cache_lookup c p end.
Definition run_op (limit : Z) (root : node) (c : cache) (o : hdop) : opres * cache :=
  match o with
  | OpSubkey p i h ap =>
    match op_target root c p with
    | Some nd => let '(r, c') := subkey c p nd i h ap in (RNode r, c')
    | None => (RSkip, c)
    end
  | OpPath p path =>
    match op_target root c p with
    | Some nd => let '(r, c') := subkey_for_path c p nd path in (RNode r, c')
    | None => (RSkip, c)
    end
  | OpSubkeys p path =>
    match op_target root c p with
    | Some nd =>
      match subkeys limit c p nd path with
      | Ret (ks, e, c') => (RList (Ret (ks, e)), c')
      | Raise e => (RList (Raise e), c)
      | OutOfFuel => (RList OutOfFuel, c)
      end
    | None => (RSkip, c)
    end
  end.
Fixpoint run_ops (limit : Z) (root : node) (c : cache) (ops : list hdop) : list opres :=
  match ops with
  | [] => []
  | o :: r => let '(x, c') := run_op limit root c o in x :: run_ops limit root c' r
  end.

(* ---- histories over a FAMILY of related objects ----
   Objects that own a _subkey_cache of their own ("root objects"): the initial node, every node returned by
   obj.public_copy() (BIP32Node.public_copy builds a NEW node: fresh empty cache, nothing shared with its twin), and every
   node re-read from its own serialization (BIP32Node.deserialize(4 bytes + obj.serialize())).  Objects cached below a root
   object are addressed by (root number, cache path).  State: one (node, cache universe) per root object, in creation order. *)
Definition reload (nd : node) : outcome node :=
  do blob <- serialize nd None;
  deserialize ([x00; x00; x00; x00] ++ blob).

Inductive fop : Type :=
| FCall (r : nat) (o : hdop)                     (* the call o on root object r (or on an object cached below it) *)
| FPublicCopy (r : nat) (p : list ckey)          (* obj(r, p).public_copy(): a new root object *)
| FReload (r : nat) (p : list ckey).             (* deserialize(0000 + obj(r, p).serialize()): a new root object *)
Inductive fres : Type :=
| FRes (x : opres)
| FNew (x : outcome node)
| FSkip.                                         (* no such object (yet): not a call *)
Definition fstate : Type := list (node * cache).
Fixpoint set_nth {A} (n : nat) (x : A) (l : list A) : list A :=
  match l, n with
  | [], _ => []
  | _ :: t, O => x :: t
  | h :: t, S k => h :: set_nth k x t
  end.
Definition fres_of (x : opres) : fres := match x with RSkip => FSkip | _ => FRes x end.
Definition new_root (st : fstate) (x : outcome node) : fstate :=
  match x with Ret k => st ++ [(k, [])] | _ => st end.
Definition run_fop (limit : Z) (st : fstate) (o : fop) : fres * fstate :=
  match o with
  | FCall r op =>
    match nth_error st r with
    | Some (root, c) => let '(x, c') := run_op limit root c op in (fres_of x, set_nth r (root, c') st)
    | None => (FSkip, st)
    end
  | FPublicCopy r p =>
    match nth_error st r with
    | Some (root, c) =>
      match op_target root c p with
      | Some nd => let x := public_copy nd in (FNew x, new_root st x)
      | None => (FSkip, st)
      end
    | None => (FSkip, st)
    end
  | FReload r p =>
    match nth_error st r with
    | Some (root, c) =>
      match op_target root c p with
      | Some nd => let x := reload nd in (FNew x, new_root st x)
      | None => (FSkip, st)
      end
    | None => (FSkip, st)
    end
  end.
(* each answer together with the root objects that existed when the call was made *)
Fixpoint run_fops (limit : Z) (st : fstate) (ops : list fop) : list (list node * fres) :=
  match ops with
  | [] => []
  | o :: r => let '(x, st') := run_fop limit st o in (map fst st, x) :: run_fops limit st' r
  end.

(* ---- text form ---- *)
(* one row of Gen/GenBip32Prefixes.v without the symbol *)
Record bipnet : Type := mkBipnet {
  bn_print_prv : option bytes; bn_print_pub : option bytes;
  bn_parse_prv : option bytes; bn_parse_pub : option bytes;
  bn_print_codec : N; bn_parse_codec : N }.

(* network.bipNN_as_string(self.serialize(as_private), as_private) without the base58 step *)
Definition hwif_data (net : bipnet) (nd : node) (as_private : bool) : outcome bytes :=
  do blob <- serialize nd (Some as_private);
  match (if as_private then bn_print_prv net else bn_print_pub net) with
  | None => Raise E_TYPE                                 (* None + bytes *)
  | Some prefix => Ret (prefix ++ blob)
  end.
Definition hwif (net : bipnet) (nd : node) (as_private : bool) : outcome bytes :=
  do data <- hwif_data net nd as_private;
  Ret (b58enc (bn_print_codec net) data).

(* hparse(api, pub_prv, key_type, s) after data = api.parse_b58_hashed(s) *)
Definition hparse_data (net : bipnet) (prv : bool) (data : option bytes) : outcome (option node) :=
  match data, (if prv then bn_parse_prv net else bn_parse_pub net) with
  | Some d, Some prefix =>
    if starts_with prefix d then
      match deserialize d with
      | Ret nd => Ret (Some nd)
      | Raise e => if is_value_error e then Ret None else Raise e
      | OutOfFuel => OutOfFuel
      end
    else Ret None
  | _, _ => Ret None
  end.
Definition hparse (net : bipnet) (prv : bool) (s : bytes) : outcome (option node) :=
  hparse_data net prv (b58dec (bn_parse_codec net) s).
(* ParseAPI.bipNN(s) = self.bipNN_prv(s) or self.bipNN_pub(s) *)
Definition parse_hd_data (net : bipnet) (data : option bytes) : outcome (option node) :=
  do r <- hparse_data net true data;
  match r with Some nd => Ret (Some nd) | None => hparse_data net false data end.
Definition parse_hd (net : bipnet) (s : bytes) : outcome (option node) :=
  parse_hd_data net (b58dec (bn_parse_codec net) s).

(* ---- electrum.py ---- *)
Record ewallet : Type := mkEw { ew_secret : option Z; ew_point : pt }.
Definition electrum_init (master_private_key : option Z) (public_pair : option pt) : outcome ewallet :=
  do '(s, P) <- key_init master_private_key public_pair;
  Ret (mkEw s P).
Definition electrum_mpk (w : ewallet) : bytes := xy (ew_point w).          (* self.sec()[1:], uncompressed *)
Definition electrum_public_copy (w : ewallet) : outcome ewallet :=
  match ew_secret w with
  | None => Ret w
  | Some _ => electrum_init None (Some (ew_point w))
  end.
Definition electrum_subkey (w : ewallet) (path : bytes) : outcome ewallet :=
  do '(n, for_change) <- match split ch_slash path with
                         | [n; fc] => Ret (n, fc)
                         | [n] => Ret (n, [x30])                            (* for_change = 0 -> "0" *)
                         | _ => Raise E_VALUE                               (* (n,) = t *)
                         end;
  let b := utf8_latin1 (n ++ ch_colon :: for_change ++ [ch_colon]) ++ electrum_mpk w in      (* (str(n) + ":" + str(for_change) + ":").encode("utf8") + mpk *)
  let offset := from_bytes_32 (dsha256 b) in
  match ew_secret w with
  | Some k =>
    if k =? 0 then electrum_init None (Some (padd (smul offset pG) (ew_point w)))   (* `if self.secret_exponent():` *)
    else electrum_init (Some ((k + offset) mod order)) None
  | None => electrum_init None (Some (padd (smul offset pG) (ew_point w)))
  end.
Fixpoint electrum_subkeys_walk (w : ewallet) (paths : list bytes) : list ewallet * option pyexn :=
  match paths with
  | [] => ([], None)
  | s :: r =>
    match electrum_subkey w s with
    | Ret k => let '(ks, e) := electrum_subkeys_walk w r in (k :: ks, e)
    | Raise e => ([], Some e)
    | OutOfFuel => ([], Some E_OTHER)
    end
  end.
Definition electrum_subkeys (limit : Z) (w : ewallet) (path : bytes) : outcome (list ewallet * option pyexn) :=
  do paths <- subpaths_for_path_range limit path;
  Ret (electrum_subkeys_walk w paths).

End Bip32.
