(* Model/Solve.v — property C05: the INPUT/OUTPUT CONTRACT of pycoin's signer per standard puzzle kind.
   No proofs here.

   Anchors: pycoin/coins/bitcoin/Solver.py (Solver.sign, Solver.solve, solve_for_constraints' variable order),
   pycoin/solve/some_solvers.py (_find_signatures, hash_lookup_solver, constant_equality_solver, signing_solver),
   pycoin/solve/utils.py (build_hash160_lookup, build_p2sh_lookup), pycoin/satoshi/der.py (the lax parser used
   by parse_signature_blob), pycoin/coins/bcash|bgold/Solver.py (fork-id bit forced into the hash type).

   The solver's symbolic executor (determine_constraints, DynamicStack, constraints.py, ConstraintSolver.py) is NOT
   transcribed.  What it computes for each of the eight standard puzzle kinds was read off the code and is written
   down here as the list of stack variables and the solver attached to each:
     P2PK        x_0 = sig                          SIGNATURES_CORRECT [key] [x_0]
     P2PKH       x_1 = sig, x_0 = sec               hash_lookup(h) -> x_0 ; SIGNATURES_CORRECT [x_0] [x_1]
     multisig    x_m = dummy = b"", x_{m-1}..x_0    SIGNATURES_CORRECT rev(keys) [x_0..x_{m-1}]
     P2SH        one more variable below: the redeem script, pushed last
     witness v0  the same variables named w_i, delivered as the witness list; P2SH-wrapped: scriptSig = push(program)
   signing_solver and _find_signatures ARE transcribed (they hold the partial-signing logic).
   Domain of the contract: push-only existing scriptSig; listed keys are valid SEC encodings (sec_to_public_pair
   does not raise on them); no signature hints.  ECDSA, the digest, hash160/sha256 and key derivation are Section
   variables (oracles after extraction). *)
From PV Require Import Base.Bytes Base.Outcome Gen.GenSolveC05 Spec.Templates.
Local Open Scope N_scope.

(* ---- pycoin/satoshi/der.py, as used by parse_signature_blob (use_broken_open_ssl_mechanism=True) ---- *)
(* s[:n] for an unbounded n without turning n into a nat *)
Definition take_N {A} (n : N) (l : list A) : list A :=
  if N.of_nat (length l) <=? n then l else firstn (N.to_nat n) l.
Definition drop_N {A} (n : N) (l : list A) : list A :=
  if N.of_nat (length l) <=? n then [] else skipn (N.to_nat n) l.

(* read_length: (length, lengthlength); None = UnexpectedDER / ValueError (int("", 16)) *)
Definition read_length (s : bytes) : option (N * nat) :=
  match s with
  | [] => None
  | b0 :: r =>
    let s0 := b2n b0 in
    if s0 <? 128 then Some (s0, 1%nat)
    else
      let llen := N.to_nat (s0 - 128) in
      if (length r <? llen)%nat then None
      else if (llen =? 0)%nat then None
      else Some (be_decode (firstn llen r), S llen)
  end.

(* remove_sequence: the sequence body (the remainder is ignored by the lax mode) *)
Definition remove_sequence (s : bytes) : option bytes :=
  match s with
  | b0 :: r =>
    if b2n b0 =? 48 then
      match read_length r with
      | Some (len, ll) => Some (take_N len (skipn ll r))
      | None => None
      end
    else None
  | [] => None
  end.

(* remove_integer: the rest after the integer (the value itself only matters to `verifies`) *)
Definition remove_integer (s : bytes) : option bytes :=
  match s with
  | b0 :: r =>
    if b2n b0 =? 2 then
      match read_length r with
      | Some (len, ll) =>
        if N.of_nat (length r - ll) <? len then None         (* ran out of integer bytes *)
        else if len =? 0 then None                           (* int(hexlify(b""), 16): ValueError *)
        else Some (skipn (N.to_nat len) (skipn ll r))
      | None => None
      end
    else None
  | [] => None
  end.

(* parse_signature_blob does not raise *)
Definition parse_sig_ok (blob : bytes) : bool :=
  match blob with
  | [] => false
  | _ =>
    match remove_sequence (removelast blob) with
    | Some body =>
      match remove_integer body with
      | Some rest => match remove_integer rest with Some _ => true | None => false end
      | None => false
      end
    | None => false
    end
  end.

(* ---- Python's sort of (int, bytes) tuples ---------------------------------------------------------- *)
Fixpoint bytes_leb (a b : bytes) : bool :=
  match a, b with
  | [], _ => true
  | _ :: _, [] => false
  | x :: a', y :: b' =>
    if b2n x <? b2n y then true else if b2n y <? b2n x then false else bytes_leb a' b'
  end.
Definition entry_leb (a b : Z * bytes) : bool :=
  if (fst a <? fst b)%Z then true else if (fst b <? fst a)%Z then false else bytes_leb (snd a) (snd b).
Fixpoint insert (x : Z * bytes) (l : list (Z * bytes)) : list (Z * bytes) :=
  match l with
  | [] => [x]
  | y :: r => if entry_leb x y then x :: l else y :: insert x r
  end.
Fixpoint isort (l : list (Z * bytes)) : list (Z * bytes) :=
  match l with
  | [] => []
  | x :: r => insert x (isort r)
  end.

Fixpoint enumerate_from {A} (i : nat) (l : list A) : list (nat * A) :=
  match l with
  | [] => []
  | x :: r => (i, x) :: enumerate_from (S i) r
  end.

(* result of Solver.solve as seen by Solver.sign *)
Inductive sres : Type :=
| Solved (script : bytes) (witness : option (list bytes))   (* None: solve returned the script only *)
| Unsolved                                                  (* SolvingError / ValueError, caught by sign *)
| Crash (e : pyexn).                                        (* any other exception: escapes Tx.sign *)

Definition lookup : Type := list (bytes * (bytes * bool)).     (* hash160 -> (secret exponent, compressed) *)
Fixpoint lookup_get (db : lookup) (h : bytes) : option (bytes * bool) :=
  match db with
  | [] => None
  | (h', v) :: r => if bytes_eqb h h' then Some v else lookup_get r h
  end.

Section Solve.
Variable hash160 : bytes -> bytes.
Variable sha256 : bytes -> bytes.
Variable verifies : bytes -> bytes -> bytes -> bool.     (* SEC key, digest, DER signature (lax) *)
Variable sign : bytes -> bytes -> bytes.                 (* secret, digest -> DER of (r, min(s, n-s)) *)
Variable pub_of : bytes -> bool -> bytes.                (* secret, compressed -> SEC *)

(* solve/utils.py build_hash160_lookup: for each secret d[h160(compressed)] = .., d[h160(uncompressed)] = ..;
   a later assignment overwrites, so new entries go in front *)
Definition build_hash160_lookup (secrets : list bytes) : lookup :=
  fold_left (fun d se => (hash160 (pub_of se false), (se, false)) :: (hash160 (pub_of se true), (se, true)) :: d)
            secrets [].

(* build_p2sh_lookup(scripts).get(h): keyed by hash160 and by sha256 of each script, later scripts win *)
Definition p2sh_get (scripts : list bytes) (h : bytes) : option bytes :=
  find (fun s => bytes_eqb (hash160 s) h || bytes_eqb (sha256 s) h) (rev scripts).

Section OneInput.
Variable sighash : bool -> N -> bytes -> option bytes.   (* witness v0?, hash type, script code; None: ScriptError *)
Variable db : lookup.
Variable p2sh : list bytes.

Fixpoint first_match (f : bytes -> bool) (keys : list bytes) (i : nat) : option (nat * bytes) :=
  match keys with
  | [] => None
  | k :: r => if f k then Some (i, k) else first_match f r (S i)
  end.

(* _find_signatures: (signatures as (index in sec_keys, blob), secs_solved) *)
Fixpoint find_sigs (wit : bool) (sc : bytes) (max_sigs : nat) (sec_keys : list bytes) (blobs : list bytes)
         (seen : nat) : list (Z * bytes) * list bytes :=
  match blobs with
  | [] => ([], [])
  | d :: r =>
    if (max_sigs <=? seen)%nat then ([], [])
    else if parse_sig_ok d then
      let found :=
        match sighash wit (hash_type_of d) sc with
        | Some dg => first_match (fun k => verifies k dg (removelast d)) sec_keys 0
        | None => None
        end in
      let '(sigs, solved) := find_sigs wit sc max_sigs sec_keys r (S seen) in
      match found with
      | Some (i, k) => ((Z.of_nat i, d) :: sigs, k :: solved)
      | None => (sigs, solved)
      end
    else find_sigs wit sc max_sigs sec_keys r seen
  end.

(* the `for signature_order, sec_key in reversed(list(enumerate(sec_keys)))` loop *)
Fixpoint sign_loop (wit : bool) (sc : bytes) (ht : N) (nvars : nat) (todo : list (nat * bytes)) (solved : list bytes)
         (acc : list (Z * bytes)) : outcome (list (Z * bytes)) :=
  match todo with
  | [] => Ret acc
  | (order, sec) :: r =>
    if existsb (bytes_eqb sec) solved then sign_loop wit sc ht nvars r solved acc
    else if (nvars <=? length acc)%nat then Ret acc
    else
      match lookup_get db (hash160 sec) with
      | Some (secret, _) =>
        match sighash wit ht sc with
        | None => Raise E_SCRIPT
        | Some dg =>
          if 256 <=? ht then Raise E_VALUE                         (* bytes([signature_type]) *)
          else sign_loop wit sc ht nvars r solved (acc ++ [(Z.of_nat order, sign secret dg ++ [n2b ht])])
        end
      | None => sign_loop wit sc ht nvars r solved acc            (* no signature hints in this contract *)
      end
  end.

(* signing_solver: the values of the signature variables, BOTTOM OF STACK FIRST.
   keys are in script order; sec_list = reversed (CHECKMULTISIG pops the last key first);
   the variables sig_list are top-first, so zip(sig_list, sorted) read bottom-first is the reverse *)
Definition signing_solver (wit : bool) (sc : bytes) (ht : N) (nvars : nat) (keys : list bytes) (blobs : list bytes)
  : outcome (list bytes) :=
  let sec_keys := rev keys in
  let '(existing, solved) := find_sigs wit sc nvars sec_keys blobs 0 in
  match sign_loop wit sc ht nvars (rev (enumerate_from 0 sec_keys)) solved existing with
  | Ret acc =>
    let padded := acc ++ repeat ((-1)%Z, gen_c05_placeholder) (nvars - length acc) in
    Ret (rev (map snd (firstn nvars (isort padded))))
  | Raise e => Raise e
  | OutOfFuel => OutOfFuel
  end.

(* kwargs["existing_script"]: the witness if there is one, else the data items of the scriptSig *)
Definition existing_blobs (script_sig : bytes) (wit : list bytes) : option (list bytes) :=
  match wit with
  | [] => match parse_pushes script_sig with Some (items, _) => Some items | None => None end
  | _ => Some wit
  end.

Definition pushes (items : list bytes) : bytes := flat_map push_data items.

Definition of_outcome (o : outcome (list bytes)) (k : list bytes -> sres) : sres :=
  match o with
  | Ret sigs => k sigs
  | Raise E_VALUE => Unsolved
  | Raise e => Crash e
  | OutOfFuel => Crash E_OTHER
  end.

(* the P2PKH family: hash_lookup_solver resolves the key variable, then signing_solver runs with sec_list = [that key]
   (_find_signatures is handed the solved value of the variable, so a stale existing signature is simply not
   recognised and gets replaced) *)
Definition solve_pkh (wit : bool) (h : bytes) (ht : N) (blobs : list bytes) (k : bytes -> bytes -> sres) : sres :=
  match lookup_get db h with
  | None => Unsolved                                          (* SolvingError: can't find public pair *)
  | Some (secret, compressed) =>
    let sec := pub_of secret compressed in
    of_outcome (signing_solver wit (p2pkh_script h) ht 1 [sec] blobs)
               (fun sigs => k (hd [] sigs) sec)
  end.

Definition solve_input (pz : puzzle) (ht : N) (script_sig : bytes) (wit : list bytes) : sres :=
  match existing_blobs script_sig wit with
  | None => Crash E_OTHER                                     (* outside the contract's domain *)
  | Some blobs =>
    let m := pz_m pz in
    let keys := pz_keys pz in
    let ms := ms_script m keys in
    match pz_kind pz with
    | K_P2PK =>
      let key := hd [] keys in
      of_outcome (signing_solver false (p2pk_script key) ht 1 [key] blobs) (fun sigs => Solved (pushes sigs) None)
    | K_P2PKH =>
      solve_pkh false (pz_hash pz) ht blobs (fun sig sec => Solved (pushes [sig; sec]) None)
    | K_P2WPKH =>
      solve_pkh true (pz_hash pz) ht blobs (fun sig sec => Solved [] (Some [sig; sec]))
    | K_P2SH_P2WPKH =>
      match p2sh_get p2sh (hash160 (wit0_script (pz_hash pz))) with
      | None => Unsolved                                      (* ValueError: p2sh_lookup not set *)
      | Some u => solve_pkh true (pz_hash pz) ht blobs (fun sig sec => Solved (pushes [u]) (Some [sig; sec]))
      end
    | K_MS =>
      of_outcome (signing_solver false ms ht m keys blobs) (fun sigs => Solved (pushes ([] :: sigs)) None)
    | K_P2SH_MS =>
      match p2sh_get p2sh (hash160 ms) with
      | None => Unsolved
      | Some u =>
        (* a redeem script over MAX_BLOB_LENGTH stops the symbolic run at the scriptSig: only x_0 is known *)
        if 520 <? lenN u then Solved (pushes [u]) None
        else of_outcome (signing_solver false ms ht m keys blobs)
                        (fun sigs => Solved (pushes ([] :: sigs ++ [u])) None)
      end
    | K_P2WSH_MS =>
      match p2sh_get p2sh (sha256 ms) with
      | None => Unsolved
      | Some u => of_outcome (signing_solver true ms ht m keys blobs) (fun sigs => Solved [] (Some ([] :: sigs ++ [u])))
      end
    | K_P2SH_P2WSH_MS =>
      match p2sh_get p2sh (hash160 (wit0_script (sha256 ms))) with
      | None => Unsolved
      | Some u1 =>
        match p2sh_get p2sh (sha256 ms) with
        | None => Unsolved
        | Some u2 =>
          of_outcome (signing_solver true ms ht m keys blobs)
                     (fun sigs => Solved (pushes [u1]) (Some ([] :: sigs ++ [u2])))
        end
      end
    end
  end.

(* one iteration of Solver.sign: skip when already valid under DEFAULT_FLAGS (= LAX), else solve and write;
   hash_type None -> SIGHASH_ALL; Bcash/Bgold solvers OR the fork-id bit in *)
Definition effective_hash_type (forkid : bool) (ht : option N) : N :=
  let h := match ht with Some h => h | None => 1 end in
  if forkid then N.lor h 64 else h.

Definition sign_input (forkid : bool) (pz : puzzle) (ht : option N) (script_sig : bytes) (wit : list bytes)
  : outcome (bytes * list bytes) :=
  if eval_input hash160 sha256 verifies sighash LAX pz script_sig wit then Ret (script_sig, wit)
  else
    match solve_input pz (effective_hash_type forkid ht) script_sig wit with
    | Solved s None => Ret (s, wit)
    | Solved s (Some w) => Ret (s, w)
    | Unsolved => Ret (script_sig, wit)
    | Crash e => Raise e
    end.
End OneInput.

(* Solver.sign over the transaction: inputs in increasing index order, only those in tx_in_idx_set; an escaping
   exception leaves the inputs signed so far modified and the rest untouched *)
Section SignTx.
Variable sighash_tx : nat -> bool -> N -> bytes -> option bytes.
Variable db : lookup.
Variable p2sh : list bytes.
Variable forkid : bool.
Variable ht : option N.

Definition txin_state : Type := (puzzle * bytes * list bytes)%type.

Fixpoint sign_tx_from (i : nat) (idxs : list nat) (inputs : list txin_state)
  : list (bytes * list bytes) * option pyexn :=
  match inputs with
  | [] => ([], None)
  | (pz, ss, w) :: r =>
    if existsb (Nat.eqb i) idxs then
      match sign_input (sighash_tx i) db p2sh forkid pz ht ss w with
      | Ret sw => let '(rs, e) := sign_tx_from (S i) idxs r in (sw :: rs, e)
      | Raise e => ((ss, w) :: map (fun '(_, s, x) => (s, x)) r, Some e)
      | OutOfFuel => ((ss, w) :: map (fun '(_, s, x) => (s, x)) r, Some E_OTHER)
      end
    else let '(rs, e) := sign_tx_from (S i) idxs r in ((ss, w) :: rs, e)
  end.
Definition sign_tx (idxs : list nat) (inputs : list txin_state) := sign_tx_from 0 idxs inputs.
End SignTx.
End Solve.
