(* Model/Commit.v — what a signature COMMITS to (property C06).  A compact transcription of
     pycoin/coins/bitcoin/SolutionChecker.py : _tx_in_for_idx, _signature_hash, tx_context_for_idx
     pycoin/coins/bitcoin/SegwitChecker.py   : _hash_prevouts, _hash_sequence, _hash_outputs,
                                               _segwit_signature_preimage, _signature_for_hash_type_segwit
     pycoin/coins/bitcoin/Tx.py              : stream(include_witness_data=False), hash(hash_type), is_coinbase,
                                               missing_unspent
     pycoin/coins/bitcoin/TxIn.py, TxOut.py  : stream ("#LSL", "QS")
     pycoin/coins/Tx.py                      : check_solution, is_solution_ok, bad_solution_count
   The script passed to the two digest functions is the SCRIPT CODE after signature / OP_CODESEPARATOR
   removal (delete_subscript is C04's subject and is not modelled here).  Hash functions are Section
   variables.  Constants come from Gen/GenCommitC06.v (regenerated from /repo).  No proofs here. *)
From PV Require Import Base.Bytes Base.Outcome Base.Varint Gen.GenCommitC06.
Local Open Scope N_scope.
Local Open Scope outcome_scope.

(* ---- data ---------------------------------------------------------------------------------------- *)
Record txin := mk_txin {
  ti_hash : bytes;          (* previous_hash (32 bytes in a well-formed transaction) *)
  ti_index : N;             (* previous_index *)
  ti_script : bytes;        (* scriptSig *)
  ti_witness : list bytes;  (* witness stack *)
  ti_seq : N }.             (* sequence *)
Record txout := mk_txout { to_amount : N; to_script : bytes }.
Record tx := mk_tx { tx_version : N; tx_ins : list txin; tx_outs : list txout; tx_lock : N }.

(* ---- streaming ----------------------------------------------------------------------------------- *)
Definition stream_L (v : N) : outcome bytes := write_le gen06_width_L v.   (* struct.pack("<L", v) *)
Definition stream_Q (v : N) : outcome bytes := write_le gen06_width_Q v.   (* struct.pack("<Q", v) *)
Definition stream_hash (h : bytes) : bytes := firstn gen06_hash_trunc h.   (* "#": f.write(v[:32]) *)

(* TxIn.stream: "#LSL" *)
Definition stream_txin (x : txin) : outcome bytes :=
  do a <- stream_L (ti_index x);
  do s <- stream_varstr (ti_script x);
  do q <- stream_L (ti_seq x);
  Ret (stream_hash (ti_hash x) ++ a ++ s ++ q).

(* TxOut.stream: "QS" *)
Definition stream_txout (o : txout) : outcome bytes :=
  do a <- stream_Q (to_amount o);
  do s <- stream_varstr (to_script o);
  Ret (a ++ s).

(* `for t in xs: t.stream(f)` *)
Fixpoint concatM {A} (f : A -> outcome bytes) (l : list A) : outcome bytes :=
  match l with
  | [] => Ret []
  | x :: r => do a <- f x; do b <- concatM f r; Ret (a ++ b)
  end.

(* Tx.stream(f, include_witness_data=False) *)
Definition stream_tx_nowit (t : tx) : outcome bytes :=
  do v <- stream_L (tx_version t);
  do ci <- stream_varint (N.of_nat (length (tx_ins t)));
  do bi <- concatM stream_txin (tx_ins t);
  do co <- stream_varint (N.of_nat (length (tx_outs t)));
  do bo <- concatM stream_txout (tx_outs t);
  do l <- stream_L (tx_lock t);
  Ret (v ++ ci ++ bi ++ co ++ bo ++ l).

(* the bytes Tx.hash(hash_type) feeds to double_sha256 *)
Definition hash_input (t : tx) (hash_type : N) : outcome bytes :=
  do b <- stream_tx_nowit t;
  do h <- stream_L hash_type;
  Ret (b ++ h).

(* ---- legacy: BitcoinSolutionChecker._signature_hash ------------------------------------------------ *)
Fixpoint mapi {A B} (f : nat -> A -> B) (i : nat) (l : list A) : list B :=
  match l with
  | [] => []
  | x :: r => f i x :: mapi f (S i) r
  end.

(* _tx_in_for_idx: a NEW TxIn (witness empty) carrying the script code at position idx, b"" elsewhere *)
Definition tx_in_for_idx (script_code : bytes) (idx : nat) (i : nat) (x : txin) : txin :=
  if Nat.eqb i idx then mk_txin (ti_hash x) (ti_index x) script_code [] (ti_seq x)
  else mk_txin (ti_hash x) (ti_index x) [] [] (ti_seq x).

(* `for i in range(len(txs_in)): if i != idx: txs_in[i].sequence = 0` *)
Definition zero_other_sequence (idx : nat) (i : nat) (x : txin) : txin :=
  if Nat.eqb i idx then x else mk_txin (ti_hash x) (ti_index x) (ti_script x) (ti_witness x) 0.

Definition blank_txout : txout := mk_txout gen06_blank_amount [].

(* what is handed to the hash: nothing at all (the constant 1 << 248 is returned), or one byte string *)
Inductive legacy_msg :=
| LM_one                      (* SIGHASH_SINGLE without a matching output *)
| LM_tx (tmp : tx).           (* tmp_tx, hashed through Tx.hash(hash_type) *)

Definition is_acp (hash_type : N) : bool := negb (N.land hash_type gen06_sighash_anyonecanpay =? 0).

(* the temporary transaction of _signature_hash (or the SINGLE special case); `txs_in[idx]` raises IndexError *)
Definition legacy_tmp_tx (t : tx) (script_code : bytes) (idx : nat) (hash_type : N) : outcome legacy_msg :=
  let txs_in := mapi (tx_in_for_idx script_code idx) 0 (tx_ins t) in
  let base := N.land hash_type gen06_mask_legacy in
  let acp (ins : list txin) (outs : list txout) : outcome legacy_msg :=
    if is_acp hash_type then
      match nth_error ins idx with
      | Some x => Ret (LM_tx (mk_tx (tx_version t) [x] outs (tx_lock t)))
      | None => Raise E_INDEX
      end
    else Ret (LM_tx (mk_tx (tx_version t) ins outs (tx_lock t))) in
  if base =? gen06_sighash_none then
    acp (mapi (zero_other_sequence idx) 0 txs_in) []
  else if base =? gen06_sighash_single then
    match nth_error (tx_outs t) idx with
    | None => Ret LM_one
    | Some o => acp (mapi (zero_other_sequence idx) 0 txs_in) (repeat blank_txout idx ++ [o])
    end
  else acp txs_in (tx_outs t).

Definition single_value : N := N.shiftl gen06_single_base gen06_single_shift.

(* ---- BIP143: SegwitChecker ------------------------------------------------------------------------- *)
(* the byte strings the three sub-hashes are computed from; None = ZERO32 is written instead *)
Definition prevout_entry (x : txin) : outcome bytes :=      (* f.write(previous_hash) — NOT truncated *)
  do a <- stream_L (ti_index x); Ret (ti_hash x ++ a).
Definition sequence_entry (x : txin) : outcome bytes := stream_L (ti_seq x).

Definition prevouts_blob (t : tx) (hash_type : N) : outcome (option bytes) :=
  if is_acp hash_type then Ret None
  else do b <- concatM prevout_entry (tx_ins t); Ret (Some b).

Definition sequences_blob (t : tx) (hash_type : N) : outcome (option bytes) :=
  if is_acp hash_type
     || (N.land hash_type gen06_mask_sequence =? gen06_sighash_single)
     || (N.land hash_type gen06_mask_sequence =? gen06_sighash_none)
  then Ret None
  else do b <- concatM sequence_entry (tx_ins t); Ret (Some b).

Definition outputs_blob (t : tx) (hash_type : N) (idx : nat) : outcome (option bytes) :=
  if N.land hash_type gen06_mask_outputs =? gen06_sighash_single then
    match nth_error (tx_outs t) idx with
    | None => Ret None                                     (* tx_in_idx >= len(txs_out) *)
    | Some o => do b <- concatM stream_txout [o]; Ret (Some b)
    end
  else if N.land hash_type gen06_mask_outputs =? gen06_sighash_none then Ret None
  else do b <- concatM stream_txout (tx_outs t); Ret (Some b).

(* everything _segwit_signature_preimage feeds to hashes, before any hashing:
   version | [prevouts] | [sequences] | outpoint script amount sequence | [outputs] | lock_time hash_type *)
Record segwit_fed := mk_fed {
  sf_head : bytes;
  sf_prevouts : option bytes;
  sf_sequences : option bytes;
  sf_mid : bytes;
  sf_outputs : option bytes;
  sf_tail : bytes }.

Definition segwit_fed_of (t : tx) (script_code : bytes) (amount : N) (idx : nat) (hash_type : N)
  : outcome segwit_fed :=
  do v <- stream_L (tx_version t);
  do hp <- prevouts_blob t hash_type;
  do hs <- sequences_blob t hash_type;
  match nth_error (tx_ins t) idx with
  | None => Raise E_INDEX
  | Some x =>
    do pi <- stream_L (ti_index x);
    do sc <- stream_varstr script_code;
    do am <- stream_Q amount;
    do sq <- stream_L (ti_seq x);
    do ho <- outputs_blob t hash_type idx;
    do lt <- stream_L (tx_lock t);
    do ht <- stream_L hash_type;
    Ret (mk_fed v hp hs (ti_hash x ++ pi ++ sc ++ am ++ sq) ho (lt ++ ht))
  end.

Section WithHash.
Variable dsha256 : bytes -> bytes.

Definition sub_hash (o : option bytes) : bytes :=
  match o with None => gen06_zero32 | Some b => dsha256 b end.

Definition segwit_assemble (f : segwit_fed) : bytes :=
  sf_head f ++ sub_hash (sf_prevouts f) ++ sub_hash (sf_sequences f) ++ sf_mid f
  ++ sub_hash (sf_outputs f) ++ sf_tail f.

(* _segwit_signature_preimage *)
Definition segwit_preimage (t : tx) (script_code : bytes) (amount : N) (idx : nat) (hash_type : N) : outcome bytes :=
  do f <- segwit_fed_of t script_code amount idx hash_type; Ret (segwit_assemble f).

(* _signature_for_hash_type_segwit: from_bytes_32(double_sha256(preimage)) *)
Definition segwit_digest (t : tx) (script_code : bytes) (amount : N) (idx : nat) (hash_type : N) : outcome bytes :=
  do p <- segwit_preimage t script_code amount idx hash_type; Ret (dsha256 p).
Definition segwit_sighash t script_code amount idx hash_type : outcome N :=
  do d <- segwit_digest t script_code amount idx hash_type; Ret (be_decode d).

(* _signature_hash: the bytes fed to the hash (None: nothing is hashed), the digest as 32 bytes, the integer *)
Definition legacy_fed_of (t : tx) (script_code : bytes) (idx : nat) (hash_type : N) : outcome (option bytes) :=
  do m <- legacy_tmp_tx t script_code idx hash_type;
  match m with
  | LM_one => Ret None
  | LM_tx tmp => do b <- hash_input tmp hash_type; Ret (Some b)
  end.
Definition legacy_digest (t : tx) (script_code : bytes) (idx : nat) (hash_type : N) : outcome bytes :=
  do f <- legacy_fed_of t script_code idx hash_type;
  match f with
  | None => Ret (be_encode 32 single_value)
  | Some b => Ret (dsha256 b)
  end.
Definition legacy_sighash t script_code idx hash_type : outcome N :=
  do f <- legacy_fed_of t script_code idx hash_type;
  match f with
  | None => Ret single_value
  | Some b => Ret (be_decode (dsha256 b))
  end.
End WithHash.

(* ---- one interface for both signature versions ------------------------------------------------------ *)
Inductive sigversion := SV_legacy | SV_bip143.

(* the signing context of input idx: the transaction, the script code, the recorded amount of the spent output *)
Record sctx := mk_sctx { sc_tx : tx; sc_code : bytes; sc_amount : N }.

Inductive fed :=
| Fed_none                          (* legacy SIGHASH_SINGLE bug: the digest is a constant *)
| Fed_legacy (b : bytes)            (* one string, double-SHA256'd *)
| Fed_segwit (f : segwit_fed).      (* three optional sub-strings and the frame around their digests *)

Definition fed_of (sv : sigversion) (hash_type : N) (idx : nat) (c : sctx) : outcome fed :=
  match sv with
  | SV_legacy =>
    do f <- legacy_fed_of (sc_tx c) (sc_code c) idx hash_type;
    Ret (match f with None => Fed_none | Some b => Fed_legacy b end)
  | SV_bip143 =>
    do f <- segwit_fed_of (sc_tx c) (sc_code c) (sc_amount c) idx hash_type; Ret (Fed_segwit f)
  end.

Definition digest_of (dsha256 : bytes -> bytes) (f : fed) : bytes :=
  match f with
  | Fed_none => be_encode 32 single_value
  | Fed_legacy b => dsha256 b
  | Fed_segwit s => dsha256 (segwit_assemble dsha256 s)
  end.

(* ---- the classification: which field does a hash type commit? (consensus constants, written out) ------ *)
Inductive field :=
| F_version | F_lock_time
| F_in_count | F_out_count
| F_single_has_output               (* the boolean idx < #outputs *)
| F_prev_hash (j : nat) | F_prev_index (j : nat) | F_sequence (j : nat)
| F_out_amount (k : nat) | F_out_script (k : nat)
| F_script_code | F_spent_amount
| F_script_sig (j : nat) | F_witness (j : nat).

Inductive fval := V_n (n : N) | V_bytes (b : bytes) | V_stack (l : list bytes) | V_nat (n : nat) | V_bool (b : bool) | V_missing.

Definition in_field {A} (f : txin -> A) (wrap : A -> fval) (c : sctx) (j : nat) : fval :=
  match nth_error (tx_ins (sc_tx c)) j with Some x => wrap (f x) | None => V_missing end.
Definition out_field {A} (f : txout -> A) (wrap : A -> fval) (c : sctx) (k : nat) : fval :=
  match nth_error (tx_outs (sc_tx c)) k with Some o => wrap (f o) | None => V_missing end.

Definition get (idx : nat) (fl : field) (c : sctx) : fval :=
  match fl with
  | F_version => V_n (tx_version (sc_tx c))
  | F_lock_time => V_n (tx_lock (sc_tx c))
  | F_in_count => V_nat (length (tx_ins (sc_tx c)))
  | F_out_count => V_nat (length (tx_outs (sc_tx c)))
  | F_single_has_output => V_bool (idx <? length (tx_outs (sc_tx c)))%nat
  | F_prev_hash j => in_field ti_hash V_bytes c j
  | F_prev_index j => in_field ti_index V_n c j
  | F_sequence j => in_field ti_seq V_n c j
  | F_out_amount k => out_field to_amount V_n c k
  | F_out_script k => out_field to_script V_bytes c k
  | F_script_code => V_bytes (sc_code c)
  | F_spent_amount => V_n (sc_amount c)
  | F_script_sig j => in_field ti_script V_bytes c j
  | F_witness j => in_field ti_witness V_stack c j
  end.

Definition ht_base (hash_type : N) : N := N.land hash_type 31.
Definition ht_none (hash_type : N) : bool := ht_base hash_type =? 2.
Definition ht_single (hash_type : N) : bool := ht_base hash_type =? 3.
Definition ht_acp (hash_type : N) : bool := negb (N.land hash_type 128 =? 0).

(* `has_out` = idx < #outputs of the transaction being classified *)
Definition committed (sv : sigversion) (hash_type : N) (idx : nat) (has_out : bool) (fl : field) : bool :=
  let none := ht_none hash_type in
  let single := ht_single hash_type in
  let acp := ht_acp hash_type in
  (* legacy SIGHASH_SINGLE without a matching output signs the constant: only that condition is bound *)
  let live := negb (match sv with SV_legacy => single && negb has_out | SV_bip143 => false end) in
  match fl with
  | F_version | F_lock_time | F_script_code => live
  | F_spent_amount => match sv with SV_bip143 => true | SV_legacy => false end
  | F_in_count => live && negb acp
  | F_out_count => negb none && negb single
  | F_single_has_output => single
  | F_prev_hash j | F_prev_index j => live && (Nat.eqb j idx || negb acp)
  | F_sequence j => live && (Nat.eqb j idx || (negb acp && negb none && negb single))
  | F_out_amount k | F_out_script k =>
    if none then false else if single then Nat.eqb k idx && has_out else true
  | F_script_sig _ | F_witness _ => false
  end.

Definition has_output (idx : nat) (c : sctx) : bool := (idx <? length (tx_outs (sc_tx c)))%nat.

(* ---- validation entry points (coins/Tx.py, coins/bitcoin/Tx.py) ------------------------------------- *)
Definition txin_is_coinbase (x : txin) : bool :=
  bytes_eqb (ti_hash x) gen06_coinbase_hash && (ti_index x =? gen06_coinbase_index).
Definition tx_is_coinbase (t : tx) : bool :=
  match tx_ins t with [x] => txin_is_coinbase x | _ => false end.

(* Tx.missing_unspent *)
Definition missing_unspent (t : tx) (unspents : list (option txout)) (idx : nat) : bool :=
  if tx_is_coinbase t then true
  else match nth_error unspents idx with
       | None => true                       (* len(self.unspents) <= idx *)
       | Some None => true
       | Some (Some _) => false
       end.

Record tx_context := mk_context {
  cx_lock_time : N; cx_version : N; cx_puzzle_script : bytes; cx_solution_script : bytes;
  cx_witness : list bytes; cx_sequence : N; cx_idx : nat }.

(* tx_context_for_idx; `self.tx.txs_in[tx_in_idx]` raises IndexError *)
Definition tx_context_for_idx (t : tx) (unspents : list (option txout)) (idx : nat) : outcome tx_context :=
  match nth_error (tx_ins t) idx with
  | None => Raise E_INDEX
  | Some x =>
    let puzzle := if missing_unspent t unspents idx then []
                  else match nth_error unspents idx with Some (Some u) => to_script u | _ => [] end in
    Ret (mk_context (tx_lock t) (tx_version t) puzzle (ti_script x) (ti_witness x) (ti_seq x) idx)
  end.

Section WithChecker.
(* SolutionChecker(tx).check_solution(tx_context, flags): the script interpreter, a function of the current
   transaction, the recorded unspents, the context and the flags — nothing else (this is the statelessness
   assumption; it is what the history checks of harness/c06.py test on the implementation) *)
Variable check_solution : tx -> list (option txout) -> tx_context -> N -> outcome unit.

(* coins/Tx.py Tx.is_solution_ok (base class): ScriptError -> False, any other exception propagates *)
Definition base_is_solution_ok (t : tx) (unspents : list (option txout)) (idx : nat) (flags : N) : outcome bool :=
  match nth_error unspents idx with
  | None => Ret false
  | Some None => Ret false
  | Some (Some _) =>
    match (do cx <- tx_context_for_idx t unspents idx; check_solution t unspents cx flags) with
    | Ret _ => Ret true
    | Raise E_SCRIPT => Ret false
    | Raise e => Raise e
    | OutOfFuel => OutOfFuel
    end
  end.

(* coins/bitcoin/Tx.py Tx.is_solution_ok (override): `if self.missing_unspent(idx): return False`, else the base class *)
Definition is_solution_ok (t : tx) (unspents : list (option txout)) (idx : nat) (flags : N) : outcome bool :=
  if missing_unspent t unspents idx then Ret false
  else base_is_solution_ok t unspents idx flags.

(* sum(0 if self.is_solution_ok(idx) else 1 for idx in range(len(txs_in))) — the override; bitcoin Tx: 0 for a coinbase *)
Fixpoint count_bad (t : tx) (unspents : list (option txout)) (flags : N) (idxs : list nat) : outcome nat :=
  match idxs with
  | [] => Ret O
  | i :: r => do ok <- is_solution_ok t unspents i flags;
              do n <- count_bad t unspents flags r;
              Ret (if ok then n else S n)
  end.
Definition bad_solution_count (t : tx) (unspents : list (option txout)) (flags : N) : outcome nat :=
  if tx_is_coinbase t then Ret O else count_bad t unspents flags (seq 0 (length (tx_ins t))).
End WithChecker.
