(* Model/Rfc6979.v — pycoin/ecdsa/rfc6979.py deterministic_generate_k, line by line.  No proofs here.
   hmac k m  stands for  hmac.new(k, m, hash_f).digest();  hlen for hash_f().digest_size
   (Generator.sign_with_recid always uses the default hash_f = hashlib.sha256: hlen = 32). *)
From PV Require Import Base.Bytes Base.Outcome.
Local Open Scope Z_scope.
Local Open Scope outcome_scope.

(* int.bit_length() *)
Definition bit_length (v : Z) : Z := if v =? 0 then 0 else Z.log2 (Z.abs v) + 1.

(* int.to_bytes(w, "big") of an unsigned conversion: OverflowError for negative or too large values *)
Definition to_bytes_be (w : nat) (v : Z) : outcome bytes :=
  if (v <? 0) || (256 ^ Z.of_nat w <=? v) then Raise E_OVERFLOW
  else Ret (be_encode w (Z.to_N v)).

(* int.from_bytes(b, "big") *)
Definition from_bytes_be (b : bytes) : Z := Z.of_N (be_decode b).

Section Rfc6979.
  Variable hmac : bytes -> bytes -> bytes.
  Variable hlen : nat.

  (* while len(t) < order_size: v = hmac(k, v); t.extend(v)      returns (v, t) *)
  Fixpoint gen_t (fuel : nat) (order_size : nat) (k v t : bytes) : outcome (bytes * bytes) :=
    match fuel with
    | O => OutOfFuel
    | S f =>
      if (length t <? order_size)%nat then
        let v := hmac k v in gen_t f order_size k v (t ++ v)
      else Ret (v, t)
    end.

  (* the `while 1` loop *)
  Fixpoint k_loop (fuel : nat) (n bln : Z) (order_size : nat) (k v : bytes) : outcome Z :=
    match fuel with
    | O => OutOfFuel
    | S f =>
      do '(v, t) <- gen_t (S order_size) order_size k v [];
      let k1 := from_bytes_be t in
      let k1 := Z.shiftr k1 (Z.of_nat (length t) * 8 - bln) in
      if (1 <=? k1) && (k1 <? n) then Ret k1
      else
        let k := hmac k (v ++ [x00]) in
        let v := hmac k v in
        k_loop f n bln order_size k v
    end.

  Definition deterministic_generate_k (fuel : nat) (generator_order secret_exponent val : Z) : outcome Z :=
    let n := generator_order in
    let bln := bit_length n in
    let order_size := Z.to_nat ((bln + 7) / 8) in
    let hash_size := hlen in
    let v := repeatb x01 hash_size in
    let k := repeatb x00 hash_size in
    do priv <- to_bytes_be order_size secret_exponent;
    let shift := 8 * Z.of_nat hash_size - bln in
    let val := if 0 <? shift then Z.shiftr val shift else val in
    let val := if n <=? val then val - n else val in
    do h1 <- to_bytes_be order_size val;
    let k := hmac k (v ++ [x00] ++ priv ++ h1) in
    let v := hmac k v in
    let k := hmac k (v ++ [x01] ++ priv ++ h1) in
    let v := hmac k v in
    k_loop fuel n bln order_size k v.
End Rfc6979.
