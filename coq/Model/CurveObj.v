(* Model/CurveObj.v — the OBJECT level of pycoin/ecdsa/Curve.py and Point.py: which Python object represents a point.
   Model/Curve.v works on coordinate values; here a Point object also carries the Curve object it references
   (self._curve) and its identity (id()), a Curve/Generator object carries its parameters and its identity, and every
   Curve object owns one singleton `_infinity`.  The functions follow the code as it is today:
     Curve.add        `if p0 == infinity: return p1` / `if p1 == infinity: return p0` compare TUPLES (by value) and
                      return the operand OBJECT itself; `return infinity` returns the singleton; otherwise a new Point
     Point.__add__    self._curve.add(self, other)          (the LEFT operand's curve object does the arithmetic)
     Point.__sub__    self._curve.add(self, -other)
     Point.__neg__    `if self[1] is None: return self` else Point(x, self._curve.p() - y, self._curve)
     Point.__mul__    self._curve.multiply(self, e);  Curve.multiply returns self._infinity or the ladder's result
   `fresh` is the identity given to a newly allocated object.  No proofs here (Proofs/CurveObjP.v). *)
From Coq Require Import ZArith.
From PV Require Import Base.Outcome Model.Curve.
Local Open Scope Z_scope.
Local Open Scope outcome_scope.

Record cobj := { co_curve : curve; co_id : nat }.
Record pobj := { po_xy : pt; po_owner : cobj; po_id : nat }.

(* c._infinity : identity 0 is reserved for the singleton of its curve object *)
Definition infinity_of (c : cobj) : pobj := {| po_xy := None; po_owner := c; po_id := 0 |}.

Definition is_inf_value (P : pobj) : bool := match po_xy P with None => true | Some _ => false end.

Definition new_point (c : cobj) (xy : pt) (fresh : nat) : pobj := {| po_xy := xy; po_owner := c; po_id := fresh |}.

(* Curve.add(self = c, p0, p1) *)
Definition obj_curve_add (c : cobj) (p0 p1 : pobj) (fresh : nat) : outcome pobj :=
  if is_inf_value p0 then Ret p1
  else if is_inf_value p1 then Ret p0
  else do R <- add (co_curve c) (po_xy p0) (po_xy p1);
       match R with
       | None => Ret (infinity_of c)
       | Some _ => Ret (new_point c R fresh)
       end.

Definition obj_add (P Q : pobj) (fresh : nat) : outcome pobj := obj_curve_add (po_owner P) P Q fresh.

Definition obj_neg (P : pobj) (fresh : nat) : outcome pobj :=
  match po_xy P with
  | None => Ret P
  | Some _ => do R <- neg (co_curve (po_owner P)) (po_xy P); Ret (new_point (po_owner P) R fresh)
  end.

Definition obj_sub (P Q : pobj) (fresh : nat) : outcome pobj :=
  do nQ <- obj_neg Q fresh; obj_curve_add (po_owner P) P nQ (S fresh).

(* Curve.multiply(self = c, p, e) *)
Definition obj_curve_multiply (c : cobj) (P : pobj) (e : Z) (fresh : nat) : outcome pobj :=
  do R <- multiply (co_curve c) (po_xy P) e;
  match R with
  | None => Ret (infinity_of c)
  | Some _ => Ret (new_point c R fresh)
  end.

Definition obj_mul (P : pobj) (e : Z) (fresh : nat) : outcome pobj := obj_curve_multiply (po_owner P) P e fresh.

Definition omap {A B} (f : A -> B) (m : outcome A) : outcome B :=
  match m with Ret a => Ret (f a) | Raise e => Raise e | OutOfFuel => OutOfFuel end.
