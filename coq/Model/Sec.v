(* Model/Sec.v — pycoin/encoding/sec.py, encoding/bytes32.py, ecdsa/Generator.py (modular_sqrt,
   points_for_x), ecdsa/Curve.py (contains_point), ecdsa/Point.py (check_on_curve) and the range /
   on-curve validation of key/Key.py (Key.__init__, Key.from_sec), function by function.  No proofs here.
   The curve enters only through its field prime p and coefficients a, b (Section variables; the
   extracted functions take them as arguments, the harness passes the live generator's values).
   Quirks kept: to_bytes_32 is fixed at 32 bytes while the decoder derives its byte count from
   p.bit_length(); points_for_x raises ValueError when the square root is 0 (a point with y = 0 is
   not decodable) and NoSuchPointError (from Point.__init__) when x is not an abscissa of the curve;
   the uncompressed form is NOT tested for curve membership by sec_to_public_pair itself — Key.__init__
   does that (InvalidPublicPairError). *)
From PV Require Import Base.Bytes Base.Outcome.
Local Open Scope Z_scope.
Local Open Scope outcome_scope.

(* ---- encoding/bytes32.py ---------------------------------------------------------------- *)
(* v.to_bytes(32, "big"): OverflowError for negative v or v >= 2^256 *)
Definition to_bytes_32 (v : Z) : outcome bytes :=
  if (v <? 0) || (2 ^ 256 <=? v) then Raise E_OVERFLOW
  else Ret (be_encode 32 (Z.to_N v)).

(* int.from_bytes(v, "big") of any length *)
Definition from_bytes_32 (v : bytes) : Z := Z.of_N (be_decode v).

(* ---- Python builtins -------------------------------------------------------------------- *)
(* int.bit_length() of a non-negative int *)
Definition bit_length (v : Z) : Z := if v <=? 0 then 0 else Z.log2 v + 1.

(* pow(a, e, m) for e >= 0, m > 0: square and multiply on the bits of e *)
Fixpoint powmod_pos (a : Z) (e : positive) (m : Z) : Z :=
  match e with
  | xH => a mod m
  | xO e' => let t := powmod_pos a e' m in (t * t) mod m
  | xI e' => let t := powmod_pos a e' m in ((t * t) mod m * a) mod m
  end.
Definition pymodpow (a e m : Z) : Z :=
  match e with
  | Z0 => 1 mod m
  | Zpos e' => powmod_pos a e' m
  | Zneg _ => 0            (* modular inverse: never reached, the exponents are 3 and (p+1)//4 *)
  end.

Section Curve.
Variables p a b : Z.

(* ---- ecdsa/Curve.py: contains_point (finite points) -------------------------------------- *)
Definition contains_point (x y : Z) : bool :=
  (y * y - (x * x * x + a * x + b)) mod p =? 0.

(* ---- ecdsa/Generator.py ------------------------------------------------------------------ *)
Definition modular_sqrt (v : Z) : Z := pymodpow v ((p + 1) / 4) p.

(* returns (p0, p1) with p0's y even *)
Definition points_for_x (x : Z) : outcome ((Z * Z) * (Z * Z)) :=
  let alpha := (pymodpow x 3 p + a * x + b) mod p in
  let y0 := modular_sqrt alpha in
  if y0 =? 0 then Raise E_VALUE
  else if negb (contains_point x y0) then Raise E_NOPOINT        (* Point(x, y0).check_on_curve *)
  else if negb (contains_point x (p - y0)) then Raise E_NOPOINT  (* Point(x, p - y0).check_on_curve *)
  else if Z.land y0 1 =? 0 then Ret ((x, y0), (x, p - y0))
  else Ret ((x, p - y0), (x, y0)).

(* ---- encoding/sec.py --------------------------------------------------------------------- *)
Definition public_pair_to_sec (pr : Z * Z) (compressed : bool) : outcome bytes :=
  let '(x, y) := pr in
  do x_str <- to_bytes_32 x;
  if compressed then Ret (z2b (2 + Z.land y 1) :: x_str)
  else
    do y_str <- to_bytes_32 y;
    Ret (x04 :: x_str ++ y_str).

(* (generator.p().bit_length() + 7) >> 3 *)
Definition byte_count : nat := Z.to_nat ((bit_length p + 7) / 8).

Definition sec0_is (sec : bytes) (c : byte) : bool :=
  match sec with [] => false | s0 :: _ => byte_eqb s0 c end.
Definition sec0_n (sec : bytes) : Z := match sec with [] => 0 | s0 :: _ => b2z s0 end.

(* sec_to_public_pair(sec, generator, strict) with a generator (Key.from_sec always passes one) *)
Definition sec_to_public_pair (sec : bytes) (strict : bool) : outcome (Z * Z) :=
  let bc := byte_count in
  let x := from_bytes_32 (slice 1 (1 + bc) sec) in
  if p <=? x then Raise E_ENCODING
  else if (length sec =? 1 + bc * 2)%nat then
    let isok := sec0_is sec x04 || (negb strict && (sec0_is sec x06 || sec0_is sec x07)) in
    if isok then
      let y := from_bytes_32 (slice (1 + bc) (1 + 2 * bc) sec) in
      if p <=? y then Raise E_ENCODING
      else if negb (sec0_is sec x04) && negb (Z.land y 1 =? Z.land (sec0_n sec) 1) then Raise E_ENCODING
      else Ret (x, y)
    else Raise E_ENCODING
  else if (length sec =? 1 + bc)%nat then
    if sec0_is sec x02 || sec0_is sec x03 then
      let is_y_odd := negb (sec0_is sec x02) in
      do '(p0, p1) <- points_for_x x;
      Ret (if is_y_odd then p1 else p0)
    else Raise E_ENCODING
  else Raise E_ENCODING.

Definition is_sec_compressed (sec : bytes) : bool := sec0_is sec x02 || sec0_is sec x03.

(* ---- key/Key.py --------------------------------------------------------------------------- *)
(* Key(public_pair=(x, y)): the on-curve test of Key.__init__, then the coordinate range test
   0 <= x < p and 0 <= y < p (both raise InvalidPublicPairError) *)
Definition in_field (v : Z) : bool := (0 <=? v) && (v <? p).
Definition key_public (pr : Z * Z) : outcome (Z * Z) :=
  let '(x, y) := pr in
  if negb (contains_point x y) then Raise E_PUBPAIR
  else if negb (in_field x && in_field y) then Raise E_PUBPAIR
  else Ret (x, y).

(* Key.from_sec(sec) -> (public_pair, is_compressed) *)
Definition key_from_sec (sec : bytes) : outcome ((Z * Z) * bool) :=
  do pr <- sec_to_public_pair sec true;
  do pr2 <- key_public pr;
  Ret (pr2, is_sec_compressed sec).

(* ---- the public_pair argument as Key.__init__ really receives it ------------------------------
   Any 2-sequence is taken: a tuple, a list, or a pycoin.ecdsa Point object (a tuple subclass that
   carries a reference to ITS OWN curve and was tested against that curve when it was built; e*G and
   the point at infinity (None, None) are Points).  Key.__init__ does
       if (None in pair) or not generator.contains_point(x, y): raise InvalidPublicPairError
       if not (0 <= pair[0] < p and 0 <= pair[1] < p):           raise InvalidPublicPairError
   against the KEY's generator: the carrier is never consulted. *)
Inductive presentation : Set :=
| Pr_tuple
| Pr_list
| Pr_point (cp ca cb : Z).          (* a Point object of the curve y^2 = x^3 + ca*x + cb over F_cp *)

Record pair_arg : Set := { pa_kind : presentation; pa_x : option Z; pa_y : option Z }.

Definition key_public_arg (pa : pair_arg) : outcome (Z * Z) :=
  match pa_x pa, pa_y pa with
  | Some x, Some y => key_public (x, y)
  | _, _ => Raise E_PUBPAIR                          (* None in self._public_pair *)
  end.

End Curve.

(* the invariant a Point object satisfies by construction (Point.__init__ -> check_on_curve):
   it is the point at infinity or lies on the curve it carries *)
Definition point_wf (pa : pair_arg) : Prop :=
  match pa_kind pa with
  | Pr_point cp ca cb =>
    match pa_x pa, pa_y pa with
    | Some x, Some y => contains_point cp ca cb x y = true
    | None, None => True
    | _, _ => False
    end
  | _ => True
  end.

(* Key(secret_exponent=e): the range test of Key.__init__ against generator.order().  The public pair
   e*G that the constructor then computes (and re-tests for curve membership) is C02's subject. *)
Definition key_private (order e : Z) : outcome Z :=
  if (e <? 1) || (order <=? e) then Raise E_SECRET else Ret e.
