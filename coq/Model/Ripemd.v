(* Model/Ripemd.v — pycoin/contrib/ripemd160.py (fi, rol, compress, ripemd160) and the selection logic of
   pycoin/encoding/hash.py (get_best_ripemd160, hash160, double_sha256), function by function.  No proofs here.

   Python ints are Z: NOTHING is masked except where the code masks (inside `rol` and at the very end), so the
   state words of `compress` are arbitrary integers (sums grow, `~x` is negative).  Tables and the named
   constants come from Gen/GenRipemd.v (regenerated from /repo on every run). *)
From PV Require Import Base.Bytes Base.Outcome Gen.GenRipemd.
Local Open Scope Z_scope.

(* l[i] for a Python list, negative indices included *)
Definition py_index {A} (l : list A) (i : Z) : outcome A :=
  let n := Z.of_nat (length l) in
  let k := if i <? 0 then i + n else i in
  if (0 <=? k) && (k <? n) then
    match nth_error l (Z.to_nat k) with Some v => Ret v | None => Raise E_INDEX end
  else Raise E_INDEX.

(* range(n) *)
Definition range (n : nat) : list Z := map Z.of_nat (seq 0 n).

(* def fi(x, y, z, i) *)
Definition fi (x y z i : Z) : outcome Z :=
  if i =? 0 then Ret (Z.lxor (Z.lxor x y) z)
  else if i =? 1 then Ret (Z.lor (Z.land x y) (Z.land (Z.lnot x) z))
  else if i =? 2 then Ret (Z.lxor (Z.lor x (Z.lnot y)) z)
  else if i =? 3 then Ret (Z.lor (Z.land x z) (Z.land y (Z.lnot z)))
  else if i =? 4 then Ret (Z.lxor x (Z.lor y (Z.lnot z)))
  else Raise E_ASSERT.

(* def rol(x, i): ((x << i) | ((x & 0xFFFFFFFF) >> (32 - i))) & 0xFFFFFFFF
   (for 0 <= i <= 32; Python raises ValueError on a negative shift count, which the tables never produce:
   RipemdP.rounds_wf) *)
Definition rol (x i : Z) : Z :=
  Z.land (Z.lor (Z.shiftl x i) (Z.shiftr (Z.land x 0xFFFFFFFF) (32 - i))) 0xFFFFFFFF.

(* struct.unpack("<L", bs)[0] *)
Definition unpack_L (bs : bytes) : outcome Z :=
  if (length bs =? 4)%nat then Ret (Z.of_N (le_decode bs)) else Raise E_STRUCT.

(* struct.pack("<L", v) and struct.pack("<Q", v) *)
Definition pack_L (v : Z) : outcome bytes :=
  if (0 <=? v) && (v <? 2 ^ 32) then Ret (le_encode 4 (Z.to_N v)) else Raise E_STRUCT.
Definition pack_Q (v : Z) : outcome bytes :=
  if (0 <=? v) && (v <? 2 ^ 64) then Ret (le_encode 8 (Z.to_N v)) else Raise E_STRUCT.

Definition st5 := (Z * Z * Z * Z * Z)%type.
Definition st10 := (Z * Z * Z * Z * Z * Z * Z * Z * Z * Z)%type.

(* body of `for j in range(80)` *)
Definition round (x : list Z) (j : Z) (s : st10) : outcome st10 :=
  let '(al, bl, cl, dl, el, ar, br, cr, dr, er) := s in
  let rnd := Z.shiftr j 4 in
  (* al = rol(al + fi(bl, cl, dl, rnd) + x[ML[j]] + KL[rnd], RL[j]) + el *)
  bind (fi bl cl dl rnd) (fun fl =>
  bind (py_index gen_ML j) (fun mlj =>
  bind (py_index x mlj) (fun xl =>
  bind (py_index gen_KL rnd) (fun kl =>
  bind (py_index gen_RL j) (fun rlj =>
  let al := rol (al + fl + xl + kl) rlj + el in
  (* al, bl, cl, dl, el = el, al, bl, rol(cl, 10), dl *)
  let '(al, bl, cl, dl, el) := (el, al, bl, rol cl 10, dl) in
  (* ar = rol(ar + fi(br, cr, dr, 4 - rnd) + x[MR[j]] + KR[rnd], RR[j]) + er *)
  bind (fi br cr dr (4 - rnd)) (fun fr =>
  bind (py_index gen_MR j) (fun mrj =>
  bind (py_index x mrj) (fun xr =>
  bind (py_index gen_KR rnd) (fun kr =>
  bind (py_index gen_RR j) (fun rrj =>
  let ar := rol (ar + fr + xr + kr) rrj + er in
  let '(ar, br, cr, dr, er) := (er, ar, br, rol cr 10, dr) in
  Ret (al, bl, cl, dl, el, ar, br, cr, dr, er))))))))))).

Fixpoint rounds_loop (x : list Z) (js : list Z) (s : st10) : outcome st10 :=
  match js with
  | [] => Ret s
  | j :: r => bind (round x j s) (fun s' => rounds_loop x r s')
  end.

(* def compress(h0, h1, h2, h3, h4, block) *)
Definition compress (h : st5) (block : bytes) : outcome st5 :=
  let '(h0, h1, h2, h3, h4) := h in
  (* x = [struct.unpack("<L", block[4*i : 4*(i+1)])[0] for i in range(16)] *)
  bind (mapM (fun i => unpack_L (slice (4 * i) (4 * (i + 1)) block)) (seq 0 16)) (fun x =>
  bind (rounds_loop x (range 80) (h0, h1, h2, h3, h4, h0, h1, h2, h3, h4)) (fun s =>
  let '(al, bl, cl, dl, el, ar, br, cr, dr, er) := s in
  Ret (h1 + cl + dr, h2 + dl + er, h3 + el + ar, h4 + al + br, h0 + bl + cr))).

(* for b in range(n): state = compress( *state, data[64*b : 64*(b+1)])   (b0 = first value of b) *)
Fixpoint blocks_loop (n : nat) (b : nat) (data : bytes) (st : st5) : outcome st5 :=
  match n with
  | O => Ret st
  | S n' => bind (compress st (slice (64 * b) (64 * (b + 1)) data)) (fun st' => blocks_loop n' (S b) data st')
  end.

(* def ripemd160(data) *)
Definition ripemd160 (data : bytes) : outcome bytes :=
  let len := Z.of_nat (length data) in
  bind (blocks_loop (Z.to_nat (Z.shiftr len 6)) 0 data gen_init) (fun st =>
  (* pad = b"\x80" + b"\x00" * ((119 - len(data)) & 63) *)
  let pad := x80 :: repeat x00 (Z.to_nat (Z.land (gen_pad_a - len) gen_pad_mask)) in
  (* fin = data[len(data) & ~63 :] + pad + struct.pack("<Q", 8 * len(data)) *)
  bind (pack_Q (8 * len)) (fun q =>
  let fin := skipn (Z.to_nat (Z.land len (Z.lnot gen_tail_mask))) data ++ pad ++ q in
  bind (blocks_loop (Z.to_nat (Z.shiftr (Z.of_nat (length fin)) 6)) 0 fin st) (fun st' =>
  let '(h0, h1, h2, h3, h4) := st' in
  (* b"".join(struct.pack("<L", h & 0xFFFFFFFF) for h in state) *)
  bind (mapM (fun h => pack_L (Z.land h 0xFFFFFFFF)) [h0; h1; h2; h3; h4]) (fun parts =>
  Ret (concat parts))))).

(* ---- pycoin/encoding/hash.py ----------------------------------------------------------------------- *)
Inductive ripemd_choice := Native | PyCrypto | PurePython.

(* def get_best_ripemd160():  the four facts about the platform it consults
     in_avail     "ripemd160" in hashlib.algorithms_available
     env_truthy   bool(os.getenv("PYCOIN_USE_PYTHON_RIPEMD160"))   (unset and "" are falsy; "0" is truthy)
     native_works ripemd160_native(b"").digest() does not raise
     pycrypto     `from Crypto.Hash.RIPEMD import RIPEMD160Hash` succeeds *)
Definition get_best_ripemd160 (in_avail env_truthy native_works pycrypto : bool) : ripemd_choice :=
  let use_native := in_avail && negb env_truthy in
  if use_native && native_works then Native
  else if pycrypto then PyCrypto else PurePython.

Section Hashes.
  (* hashlib.sha256, hashlib.new("ripemd160"), Crypto.Hash.RIPEMD: oracles *)
  Variable sha256 : bytes -> bytes.
  Variable native_ripemd160 : bytes -> bytes.
  Variable pycrypto_ripemd160 : bytes -> bytes.

  (* ripemd160(data).digest() for the module-level `ripemd160 = get_best_ripemd160()` *)
  Definition hash_ripemd160 (c : ripemd_choice) (data : bytes) : outcome bytes :=
    match c with
    | Native => Ret (native_ripemd160 data)
    | PyCrypto => Ret (pycrypto_ripemd160 data)
    | PurePython => ripemd160 data
    end.

  (* def hash160(data): return ripemd160(hashlib.sha256(data).digest()).digest() *)
  Definition hash160 (c : ripemd_choice) (data : bytes) : outcome bytes :=
    hash_ripemd160 c (sha256 data).

  (* def double_sha256(data): bytes_as_revhex is a bytes subclass that only changes str()/repr() *)
  Definition double_sha256 (data : bytes) : bytes := sha256 (sha256 data).
End Hashes.
