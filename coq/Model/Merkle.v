(* Model/Merkle.v — pycoin/merkle.py (merkle, merkle_pair), transcribed.  No proofs here.
   The hash function is a Section variable (pycoin passes double_sha256; the theorems hold for every function). *)
From PV Require Import Base.Bytes Base.Outcome.
Local Open Scope outcome_scope.

Section Merkle.
Variable hash_f : bytes -> bytes.

(* for i in range(0, len(hashes), 2): items.append(hash_f(hashes[i] + hashes[i + 1]))
   hashes[i + 1] past the end would be an IndexError (never reached: merkle_pair makes the length even) *)
Fixpoint pair_loop (hs : list bytes) : outcome (list bytes) :=
  match hs with
  | [] => Ret []
  | [_] => Raise E_INDEX
  | a :: b :: r => do items <- pair_loop r; Ret (hash_f (a ++ b) :: items)
  end.

(* if len(hashes) % 2 == 1: hashes = list(hashes); hashes.append(hashes[-1]) *)
Definition merkle_pair (hs : list bytes) : outcome (list bytes) :=
  let hs' := if Nat.odd (length hs) then hs ++ [last hs []] else hs in
  pair_loop hs'.

(* while len(hashes) > 1: hashes = merkle_pair(hashes, hash_f)
   return hashes[0]                      -- IndexError on the empty list *)
Fixpoint merkle_loop (fuel : nat) (hs : list bytes) : outcome bytes :=
  if (1 <? length hs)%nat then
    match fuel with
    | O => OutOfFuel
    | S f => do hs' <- merkle_pair hs; merkle_loop f hs'
    end
  else match hs with [] => Raise E_INDEX | x :: _ => Ret x end.

Definition merkle (hs : list bytes) : outcome bytes := merkle_loop (length hs) hs.
End Merkle.
