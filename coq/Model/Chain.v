(* Model/Chain.v — pycoin/blockchain/ChainFinder.py and pycoin/blockchain/BlockChain.py, function by
   function (state of /repo after the fixes cdbeb46, 30b0f94, 0658a14).  No proofs here.

   Representation.  Hashes are N (the code only hashes and compares them).  Python dicts are association
   lists read through [dget] (first binding), sets are duplicate-free lists.  Two things in the code depend
   on CPython's set order and are therefore supplied from OUTSIDE, the theorems quantify over them:
     * [prio]  — `new_hashes.pop()` in meld_new_hashes: the popped element is the first element of [prio]
                 that is still in the set (the head of the set if there is none).  Every pop behaviour is
                 obtained from some [prio]: list the popped elements in pop order.
     * [pref]  — iteration order of the set `descendents_by_top[h]` in all_chains_ending_at (it decides
                 which of several equally heavy chains `_longest_local_block_chain` keeps): elements of
                 [pref] come first, in that order.
   Weights and indices are Z (Python int).  Header objects are identified with their hash: an op is
   (is_add, hash, index).  `unlocked_block_storage`, `did_lock_to_index_f` and the callbacks (they receive the
   same `ops` list) are not modelled; `preload_locked_blocks` is modelled for a freshly constructed BlockChain.  Negative indices of tuple_for_index are
   not modelled.  The mutable default `cache`/`path_cache` arguments of maximum_path are write-only. *)
From Coq Require Import List NArith ZArith Bool.
From PV Require Import Base.Outcome.
Import ListNotations.
Local Open Scope N_scope.

Definition hash := N.

(* ---------------------------------------------------------------- dicts and sets *)
Definition dict (V : Type) := list (hash * V).

Fixpoint dget {V} (k : hash) (d : dict V) : option V :=
  match d with
  | [] => None
  | (k', v) :: r => if k =? k' then Some v else dget k r
  end.
Definition dhas {V} (k : hash) (d : dict V) : bool :=
  match dget k d with Some _ => true | None => false end.
Definition ddel {V} (k : hash) (d : dict V) : dict V :=
  filter (fun kv => negb (k =? fst kv)) d.
(* d[k] = v : replaces in place, else appends (Python insertion order) *)
Fixpoint dset {V} (k : hash) (v : V) (d : dict V) : dict V :=
  match d with
  | [] => [(k, v)]
  | (k', v') :: r => if k =? k' then (k, v) :: r else (k', v') :: dset k v r
  end.

Fixpoint mem (x : hash) (s : list hash) : bool :=
  match s with [] => false | y :: r => if x =? y then true else mem x r end.
Definition sadd (x : hash) (s : list hash) : list hash := if mem x s then s else s ++ [x].
Definition sdiscard (x : hash) (s : list hash) : list hash := filter (fun y => negb (x =? y)) s.
Definition sunion (s t : list hash) : list hash := fold_left (fun acc x => sadd x acc) t s.

(* set.pop() driven by the priority list *)
Fixpoint pick (prio : list hash) (s : list hash) : hash :=
  match prio with
  | [] => hd 0 s
  | x :: r => if mem x s then x else pick r s
  end.
(* iteration order of a set driven by the preference list *)
Definition iter_order (pref : list hash) (s : list hash) : list hash :=
  filter (fun x => mem x s) pref ++ filter (fun x => negb (mem x pref)) s.

(* ---------------------------------------------------------------- ChainFinder *)
Record finder := mkFinder {
  pl : dict hash;               (* parent_lookup *)
  dbt : dict (list hash);       (* descendents_by_top *)
  tfb : dict (list hash)        (* trees_from_bottom *)
}.
Definition empty_finder := mkFinder [] [] [].

(* the inner `while 1` of meld_new_hashes.  [cur] is the hash last appended to [path].
   Returns (path, new_hashes, finder). *)
Fixpoint walk (fuel : nat) (cur : hash) (path : list hash) (new : list hash) (cf : finder)
  : outcome (list hash * list hash * finder) :=
  match fuel with
  | O => OutOfFuel
  | S f =>
    match dget cur (pl cf) with
    | None => Ret (path, new, cf)                                   (* h is None: break *)
    | Some nxt =>
      if mem nxt new then Ret (path ++ [nxt], new, cf)              (* if h in new_hashes: path.append(h); break *)
      else
      match dget nxt (tfb cf) with
      | Some ((b0 :: _) as pre) =>                                    (* if preceding_path: *)
        let tfb' := ddel nxt (tfb cf) in
        let top := last pre b0 in
        match dget top (dbt cf) with
        | None => Raise E_KEY
        | Some s =>
          if mem b0 s then
            Ret (path ++ pre, new, mkFinder (pl cf) (dset top (sdiscard b0 s) (dbt cf)) tfb')
          else Raise E_KEY                                          (* set.remove of a missing element *)
        end
      | _ => walk f nxt (path ++ [nxt]) new cf
      end
    end
  end.

(* `for descendent in bottom_descendents: prior_path = tfb[descendent]; prior_path.extend(path[1:]);
    if path[0] in tfb: del tfb[path[0]]` *)
Fixpoint extend_all (path : list hash) (desc : list hash) (t : dict (list hash)) : outcome (dict (list hash)) :=
  match desc with
  | [] => Ret t
  | d :: r =>
    match dget d t with
    | None => Raise E_KEY
    | Some p => extend_all path r (ddel (hd 0 path) (dset d (p ++ tl path) t))
    end
  end.

(* one iteration of the outer `while len(new_hashes) > 0` *)
Definition meld_one (prio : list hash) (new : list hash) (cf : finder) : outcome (list hash * finder) :=
  let h := pick prio new in
  let new := sdiscard h new in
  match walk (S (length (pl cf))) h [h] new cf with
  | Ret (path, new, cf) =>
    let bottom := hd 0 path in
    let top := last path 0 in
    let tfb1 := dset bottom path (tfb cf) in
    let dbt1 := if dhas top (dbt cf) then dbt cf else dset top [] (dbt cf) in     (* setdefault *)
    match dget bottom dbt1 with
    | Some ((_ :: _) as desc) =>
      match extend_all path desc tfb1 with
      | Ret tfb2 =>
        let dbt2 := ddel bottom dbt1 in
        let topset := match dget top dbt1 with Some s => s | None => [] end in
        Ret (new, mkFinder (pl cf) (dset top (sunion topset desc) dbt2) tfb2)
      | Raise e => Raise e
      | OutOfFuel => OutOfFuel
      end
    | _ =>
      let topset := match dget top dbt1 with Some s => s | None => [] end in
      Ret (new, mkFinder (pl cf) (dset top (sadd bottom topset) dbt1) tfb1)
    end
  | Raise e => Raise e
  | OutOfFuel => OutOfFuel
  end.

Fixpoint meld (fuel : nat) (prio : list hash) (new : list hash) (cf : finder) : outcome finder :=
  match new with
  | [] => Ret cf
  | _ =>
    match fuel with
    | O => OutOfFuel
    | S f =>
      match meld_one prio new cf with
      | Ret (new', cf') => meld f prio new' cf'
      | Raise e => Raise e
      | OutOfFuel => OutOfFuel
      end
    end
  end.

(* the registration loop of load_nodes *)
Fixpoint register (nodes : list (hash * hash)) (p : dict hash) (new : list hash) : dict hash * list hash :=
  match nodes with
  | [] => (p, new)
  | (h, parent) :: r =>
    if dhas h p then register r p new
    else register r (dset h parent p) (sadd h new)
  end.

Definition load_nodes (prio : list hash) (nodes : list (hash * hash)) (cf : finder) : outcome finder :=
  let '(p, new) := register nodes (pl cf) [] in
  meld (length new) prio new (mkFinder p (dbt cf) (tfb cf)).

Fixpoint chains_of (t : dict (list hash)) (bottoms : list hash) : outcome (list (list hash)) :=
  match bottoms with
  | [] => Ret []
  | b :: r =>
    match dget b t with
    | None => Raise E_KEY
    | Some p => match chains_of t r with Ret l => Ret (p :: l) | e => e end
    end
  end.
Definition all_chains_ending_at (pref : list hash) (h : hash) (cf : finder) : outcome (list (list hash)) :=
  match dget h (dbt cf) with
  | None => Ret []
  | Some s => chains_of (tfb cf) (iter_order pref s)
  end.

(* the `while h1 is not None` loop of maximum_path *)
Fixpoint climb (fuel : nat) (p : dict hash) (h : hash) : outcome (list hash) :=
  match fuel with
  | O => OutOfFuel
  | S f =>
    match dget h p with
    | None => Ret [h]
    | Some h' => match climb f p h' with Ret l => Ret (h :: l) | e => e end
    end
  end.
Definition maximum_path (h : hash) (cf : finder) : outcome (list hash) :=
  match dget h (tfb cf) with
  | Some ((_ :: _) as v) => Ret v
  | _ => climb (S (length (pl cf))) (pl cf) h
  end.

(* the `while 1` of find_ancestral_path on the two aligned tails; i = common offset *)
Fixpoint first_common (a b : list hash) (i : nat) : option nat :=
  match a, b with
  | x :: a', y :: b' => if x =? y then Some i else first_common a' b' (S i)
  | _, _ => None                                                    (* p1[i1]: IndexError *)
  end.
Definition find_ancestral_path (h1 h2 : hash) (cf : finder) : outcome (list hash * list hash) :=
  match maximum_path h1 cf with
  | Ret p1 =>
    match maximum_path h2 cf with
    | Ret p2 =>
      if negb (last p1 0 =? last p2 0) then Ret ([], [])
      else
        let shorter := Nat.min (length p1) (length p2) in
        let i1 := (length p1 - shorter)%nat in
        let i2 := (length p2 - shorter)%nat in
        match first_common (skipn i1 p1) (skipn i2 p2) 0 with
        | None => Raise E_INDEX
        | Some k => Ret (firstn (i1 + k + 1) p1, firstn (i2 + k + 1) p2)
        end
    | e => match e with Raise x => Raise x | _ => OutOfFuel end
    end
  | Raise x => Raise x
  | _ => OutOfFuel
  end.

(* ---------------------------------------------------------------- BlockChain *)
Record blockchain := mkBC {
  bc_parent : hash;                                  (* parent_hash *)
  bc_locked : list (hash * hash * option Z);         (* _locked_chain *)
  bc_h2i : dict Z;                                   (* hash_to_index_lookup *)
  bc_w : dict Z;                                     (* weight_lookup *)
  bc_cf : finder;                                    (* chain_finder *)
  bc_cache : option (list hash)                      (* _longest_chain_cache *)
}.
Definition new_blockchain (parent : hash) := mkBC parent [] [] [] empty_finder None.

Definition weight_or_0 (w : dict Z) (h : hash) : Z := match dget h w with Some x => x | None => 0%Z end.
Definition chain_weight (w : dict Z) (c : list hash) : Z := fold_right (fun h acc => (weight_or_0 w h + acc)%Z) 0%Z c.

Fixpoint best_chain (w : dict Z) (chains : list (list hash)) (maxw : Z) (longest : list hash) : list hash :=
  match chains with
  | [] => longest
  | c :: r =>
    let wt := chain_weight w c in
    if (wt >? maxw)%Z then best_chain w r wt c else best_chain w r maxw longest
  end.

Definition longest_local (pref : list hash) (bc : blockchain) : outcome (list hash * blockchain) :=
  match bc_cache bc with
  | Some c => Ret (c, bc)
  | None =>
    match all_chains_ending_at pref (bc_parent bc) (bc_cf bc) with
    | Ret chains =>
      let c := removelast (best_chain (bc_w bc) chains 0%Z []) in
      Ret (c, mkBC (bc_parent bc) (bc_locked bc) (bc_h2i bc) (bc_w bc) (bc_cf bc) (Some c))
    | Raise e => Raise e
    | OutOfFuel => OutOfFuel
    end
  end.

Record header := mkHeader { hh : hash; hp : hash; hw : Z }.
Definition op := (bool * hash * Z)%type.          (* (is_add, hash, index) *)

(* `for idx, h in enumerate(old_path): ops.append(("remove", h, size-idx-1)); del h2i[h]` *)
Fixpoint remove_ops (size : Z) (idx : Z) (path : list hash) (m : dict Z) : outcome (list op * dict Z) :=
  match path with
  | [] => Ret ([], m)
  | h :: r =>
    if dhas h m then
      match remove_ops size (idx + 1)%Z r (ddel h m) with
      | Ret (ops, m') => Ret ((false, h, (size - idx - 1)%Z) :: ops, m')
      | e => e
      end
    else Raise E_KEY
  end.
(* `for idx, h in reversed(list(enumerate(new_path)))` : called on the reversed enumerated list *)
Fixpoint add_ops (size : Z) (items : list (Z * hash)) (m : dict Z) : list op * dict Z :=
  match items with
  | [] => ([], m)
  | (idx, h) :: r =>
    let i := (size - idx - 1)%Z in
    let '(ops, m') := add_ops size r (dset h i m) in
    ((true, h, i) :: ops, m')
  end.
Fixpoint enumerate {A} (i : Z) (l : list A) : list (Z * A) :=
  match l with [] => [] | x :: r => (i, x) :: enumerate (i + 1)%Z r end.

Definition set_weights (hs : list header) (w : dict Z) : dict Z :=
  fold_left (fun acc x => dset (hh x) (hw x) acc) hs w.

Definition lift {A B} (m : outcome A) (k : A -> outcome B) : outcome B := bind m k.

Definition add_headers (prio pref : list hash) (hs : list header) (bc : blockchain)
  : outcome (list op * blockchain) :=
  lift (longest_local pref bc) (fun '(old_chain, bc) =>
  let hs := filter (fun x => negb (hh x =? bc_parent bc)) hs in    (* if h == self.parent_hash: continue *)
  let w := set_weights hs (bc_w bc) in
  lift (load_nodes prio (map (fun x => (hh x, hp x)) hs) (bc_cf bc)) (fun cf =>
  let bc1 := mkBC (bc_parent bc) (bc_locked bc) (bc_h2i bc) w cf None in
  lift (longest_local pref bc1) (fun '(new_chain, bc2) =>
  lift (match old_chain, new_chain with
        | o0 :: _, n0 :: _ =>
          lift (find_ancestral_path o0 n0 cf) (fun '(op_, np_) => Ret (removelast op_, removelast np_))
        | _, _ => Ret (old_chain, new_chain)
        end) (fun '(old_path, new_path) =>
  let nlocked := Z.of_nat (length (bc_locked bc)) in
  let size_old := (Z.of_nat (length old_chain) + nlocked)%Z in
  lift (remove_ops size_old 0%Z old_path (bc_h2i bc)) (fun '(rops, m1) =>
  let size_new := (Z.of_nat (length new_chain) + nlocked)%Z in
  let '(aops, m2) := add_ops size_new (rev (enumerate 0%Z new_path)) m1 in
  Ret (rops ++ aops,
       mkBC (bc_parent bc2) (bc_locked bc2) m2 (bc_w bc2) (bc_cf bc2) (bc_cache bc2))))))).

(* the generator `iterate()` inside lock_to_index, one tree *)
Fixpoint lock_iter_tree (p : dict hash) (tree : list hash) (excl : list hash) (acc : list (hash * hash))
  : list hash * list (hash * hash) :=
  match tree with
  | [] => (excl, acc)
  | c :: r =>
    if mem c excl then (excl, acc)
    else
      let excl := c :: excl in
      match dget c p with
      | Some par => lock_iter_tree p r excl (acc ++ [(c, par)])
      | None => lock_iter_tree p r excl acc
      end
  end.
Fixpoint lock_iter (p : dict hash) (trees : list (hash * list hash)) (excl : list hash) (acc : list (hash * hash))
  : list (hash * hash) :=
  match trees with
  | [] => acc
  | (_, t) :: r => let '(excl, acc) := lock_iter_tree p t excl acc in lock_iter p r excl acc
  end.

(* the `for idx in range(index)` loop: [rl] = reversed longest chain (nearest to the anchor first) *)
Fixpoint lock_items (w : dict Z) (parent : hash) (rl : list hash) (k : nat) : option (list (hash * hash * option Z)) :=
  match k with
  | O => Some []
  | S k' =>
    match rl with
    | [] => None                                                    (* longest_chain[-idx-1]: IndexError *)
    | h :: r =>
      match lock_items w h r k' with
      | Some l => Some ((h, parent, dget h w) :: l)
      | None => None
      end
    end
  end.

Inductive lock_result := LockDone (bc : blockchain) | LockOutOfRange | LockCrash (e : pyexn) | LockFuel.

Definition lock_to_index (prio pref : list hash) (index : nat) (bc : blockchain) : lock_result :=
  match longest_local pref bc with
  | Ret (longest, bc) =>
    let old_length := length (bc_locked bc) in
    if (index <=? old_length)%nat then LockDone bc                  (* index - old_length < 1: return *)
    else
      let k := (index - old_length)%nat in
      match lock_items (bc_w bc) (bc_parent bc) (rev longest) k with
      | None => LockOutOfRange
      | Some items =>
        let excluded := map (fun it => fst (fst it)) items in
        let nodes := lock_iter (pl (bc_cf bc)) (tfb (bc_cf bc)) (rev excluded) [] in
        match load_nodes prio nodes empty_finder with
        | Ret cf =>
          LockDone (mkBC (last excluded (bc_parent bc)) (bc_locked bc ++ items) (bc_h2i bc) (bc_w bc) cf
                         (Some (firstn (length longest - k) longest)))   (* longest_chain[: len(longest_chain) - index] *)
        | Raise e => LockCrash e
        | OutOfFuel => LockFuel
        end
      end
  | Raise e => LockCrash e
  | OutOfFuel => LockFuel
  end.

(* ---------------------------------------------------------------- observation functions *)
Definition bc_length (pref : list hash) (bc : blockchain) : outcome (nat * blockchain) :=
  lift (longest_local pref bc) (fun '(c, bc) => Ret ((length c + length (bc_locked bc))%nat, bc)).

(* tuple_for_index for 0 <= index *)
Definition tuple_for_index (pref : list hash) (index : nat) (bc : blockchain)
  : outcome ((hash * hash * option Z) * blockchain) :=
  let size := length (bc_locked bc) in
  if (index <? size)%nat then
    match nth_error (bc_locked bc) index with
    | Some t => Ret (t, bc)
    | None => Raise E_INDEX
    end
  else
    let i := (index - size)%nat in
    lift (longest_local pref bc) (fun '(c, bc) =>
    match nth_error (rev c) i with                                  (* longest_chain[-index-1] *)
    | None => Raise E_INDEX
    | Some the_hash =>
      let parent :=
        match i with
        | O => Some (bc_parent bc)
        | S j => nth_error (rev c) j                                (* cache[-index] *)
        end in
      match parent with
      | None => Raise E_INDEX
      | Some ph => Ret ((the_hash, ph, dget the_hash (bc_w bc)), bc)
      end
    end).

Fixpoint tuples_upto (pref : list hash) (n : nat) (i : nat) (bc : blockchain)
  : outcome (list (hash * hash * option Z) * blockchain) :=
  match n with
  | O => Ret ([], bc)
  | S n' =>
    lift (tuple_for_index pref i bc) (fun '(t, bc) =>
    lift (tuples_upto pref n' (S i) bc) (fun '(l, bc) => Ret (t :: l, bc)))
  end.

Record snapshot := mkSnap {
  s_ops : option (list op);            (* None for a lock event *)
  s_locked : nat;                      (* locked_length() *)
  s_tuples : list (hash * hash * option Z);   (* tuple_for_index(i), i < length() *)
  s_h2i : dict Z;                      (* hash_to_index_lookup *)
  s_last : hash;                       (* last_block_hash() *)
  s_parent : hash                      (* parent_hash *)
}.
Definition s_chain (s : snapshot) : list hash := map (fun t => fst (fst t)) (s_tuples s).

Definition observe (pref : list hash) (ops : option (list op)) (bc : blockchain) : outcome (snapshot * blockchain) :=
  lift (bc_length pref bc) (fun '(n, bc) =>
  lift (tuples_upto pref n 0 bc) (fun '(ts, bc) =>
  let lastb := match n with O => bc_parent bc | _ => last (map (fun t => fst (fst t)) ts) 0 end in
  Ret (mkSnap ops (length (bc_locked bc)) ts (bc_h2i bc) lastb (bc_parent bc), bc))).

(* ---------------------------------------------------------------- histories *)
Inductive event :=
| Deliver (hs : list header) (prio pref : list hash)
| Lock (index : nat) (prio pref : list hash).

Inductive stop := Done | OutOfRange | Crash (e : pyexn) | Fuel.

Definition stop_of {A} (m : outcome A) : stop :=
  match m with Raise e => Crash e | _ => Fuel end.

Definition step (ev : event) (bc : blockchain) : (snapshot * blockchain) + stop :=
  match ev with
  | Deliver hs prio pref =>
    match add_headers prio pref hs bc with
    | Ret (ops, bc) =>
      match observe pref (Some ops) bc with
      | Ret r => inl r
      | e => inr (stop_of e)
      end
    | e => inr (stop_of e)
    end
  | Lock index prio pref =>
    match lock_to_index prio pref index bc with
    | LockDone bc =>
      match observe pref None bc with
      | Ret r => inl r
      | e => inr (stop_of e)
      end
    | LockOutOfRange => inr OutOfRange
    | LockCrash e => inr (Crash e)
    | LockFuel => inr Fuel
    end
  end.

Fixpoint run_from (bc : blockchain) (evs : list event) : list snapshot * stop :=
  match evs with
  | [] => ([], Done)
  | ev :: r =>
    match step ev bc with
    | inl (s, bc') => let '(tr, st) := run_from bc' r in (s :: tr, st)
    | inr st => ([], st)
    end
  end.
Definition run (anchor : hash) (evs : list event) := run_from (new_blockchain anchor) evs.

(* preload_locked_blocks(headers_iter): the locked chain is replaced by the given headers, their indices are
   entered into hash_to_index_lookup, the anchor moves to the last one; nothing else is touched *)
Definition preload_locked_blocks (hs : list header) (bc : blockchain) : blockchain :=
  mkBC (last (map hh hs) (bc_parent bc))
       (map (fun x => (hh x, hp x, Some (hw x))) hs)
       (fold_left (fun m ix => dset (hh (snd ix)) (fst ix) m) (enumerate 0%Z hs) (bc_h2i bc))
       (bc_w bc) (bc_cf bc) (bc_cache bc).
(* a BlockChain constructed with [anchor], optionally preloaded with [pre], then the events *)
Definition run_pre (anchor : hash) (pre : list header) (evs : list event) :=
  run_from (preload_locked_blocks pre (new_blockchain anchor)) evs.
