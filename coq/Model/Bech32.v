(* Model/Bech32.v — pycoin/contrib/bech32m.py, function by function (bech32_polymod, bech32_hrp_expand,
   bech32_verify_checksum, bech32_create_checksum, bech32_encode, bech32_decode, convertbits, decode, encode)
   and parse_bech32_or_32m / parse_bech32 of pycoin/networks/parseable_str.py.
   CHARSET, BECH32M_CONST, the Encoding constants and the constants inside bech32_polymod are REGENERATED
   from /repo into Gen/GenCodecsC11.v.  No proofs here.

   Python `str` = list of code points (pystr), Python `int` = Z (>>, &, ^, | are two's-complement on Z exactly
   as in Python), `list[int]` = list Z.  Shift counts / bit widths are assumed non-negative. *)
From PV Require Import Base.Bytes Base.Outcome Gen.GenCodecsC11 Model.Base58.
Local Open Scope Z_scope.

(* ---- small str helpers ----------------------------------------------------------------------- *)
Fixpoint pystr_eqb (a b : pystr) : bool :=
  match a, b with
  | [], [] => true
  | x :: a', y :: b' => (x =? y)%N && pystr_eqb a' b'
  | _, _ => false
  end.

(* str.lower / str.upper on printable ASCII (only reached after the 33..126 test) *)
Definition lower_c (c : N) : N := (if (65 <=? c) && (c <=? 90) then c + 32 else c)%N.
Definition upper_c (c : N) : N := (if (97 <=? c) && (c <=? 122) then c - 32 else c)%N.

(* s.rfind(ch) : index of the last occurrence, -1 if none *)
Fixpoint rfind_from (s : pystr) (ch : N) (i : Z) (best : Z) : Z :=
  match s with
  | [] => best
  | c :: r => rfind_from r ch (i + 1) (if (c =? ch)%N then i else best)
  end.
Definition rfind (s : pystr) (ch : N) : Z := rfind_from s ch 0 (-1).

(* CHARSET.find(x) for a one-character x: first index, -1 if absent; `x in CHARSET` *)
Fixpoint find_from (l : list N) (x : N) (i : Z) : Z :=
  match l with
  | [] => -1
  | c :: r => if (c =? x)%N then i else find_from r x (i + 1)
  end.
Definition charset_find (x : N) : Z := find_from bech32_charset x 0.
Definition in_charset (x : N) : bool := existsb (fun c => (c =? x)%N) bech32_charset.

(* CHARSET[d] with Python's negative indexing; None = IndexError *)
Definition charset_at (d : Z) : option N :=
  let n := Z.of_nat (length bech32_charset) in
  if (0 <=? d) && (d <? n) then nth_error bech32_charset (Z.to_nat d)
  else if (- n <=? d) && (d <? 0) then nth_error bech32_charset (Z.to_nat (n + d))
  else None.

(* ---- bech32_polymod ---------------------------------------------------------------------------- *)
(* for i in range(5): chk ^= generator[i] if ((top >> i) & 1) else 0 *)
Fixpoint xor_gens (g : list Z) (i : Z) (top chk : Z) : Z :=
  match g with
  | [] => chk
  | gi :: r => xor_gens r (i + 1) top (Z.lxor chk (if Z.land (Z.shiftr top i) 1 =? 0 then 0 else gi))
  end.

Definition polymod_step (chk value : Z) : Z :=
  let top := Z.shiftr chk polymod_top_shift in
  let chk1 := Z.lxor (Z.shiftl (Z.land chk polymod_mask) polymod_shift) value in
  xor_gens bech32_generator 0 top chk1.

Definition bech32_polymod (values : list Z) : Z := fold_left polymod_step values polymod_init.

(* [ord(x) >> 5 for x in hrp] + [0] + [ord(x) & 31 for x in hrp] *)
Definition bech32_hrp_expand (hrp : pystr) : list Z :=
  map (fun c => Z.shiftr (Z.of_N c) 5) hrp ++ [0] ++ map (fun c => Z.land (Z.of_N c) 31) hrp.

(* returns Encoding.BECH32 / Encoding.BECH32M / None *)
Definition bech32_verify_checksum (hrp : pystr) (data : list Z) : option Z :=
  let const := bech32_polymod (bech32_hrp_expand hrp ++ data) in
  if const =? 1 then Some enc_bech32
  else if const =? bech32m_const then Some enc_bech32m
  else None.

Definition bech32_create_checksum (hrp : pystr) (data : list Z) (spec : Z) : list Z :=
  let values := bech32_hrp_expand hrp ++ data in
  let const := if spec =? enc_bech32m then bech32m_const else 1 in
  let polymod := Z.lxor (bech32_polymod (values ++ [0; 0; 0; 0; 0; 0])) const in
  map (fun i => Z.land (Z.shiftr polymod (5 * (5 - i))) 31) [0; 1; 2; 3; 4; 5].

(* "".join([CHARSET[d] for d in combined]) : IndexError for d outside -32..31 *)
Fixpoint charset_map (l : list Z) : outcome pystr :=
  match l with
  | [] => Ret []
  | d :: r =>
    match charset_at d with
    | None => Raise E_INDEX
    | Some c => match charset_map r with Ret s => Ret (c :: s) | e => e end
    end
  end.

Definition bech32_encode (hrp : pystr) (data : list Z) (spec : Z) : outcome pystr :=
  let combined := data ++ bech32_create_checksum hrp data spec in
  match charset_map combined with
  | Ret s => Ret (hrp ++ [49%N] ++ s)
  | e => e
  end.

(* (None, None, None) is None here; otherwise (hrp, data[:-6], spec) *)
Definition bech32_decode_max (bech : pystr) (max_length : Z) : option (pystr * list Z * Z) :=
  if existsb (fun x => (x <? 33)%N || (126 <? x)%N) bech
     || (negb (pystr_eqb (map lower_c bech) bech) && negb (pystr_eqb (map upper_c bech) bech))
  then None else
  let bech := map lower_c bech in
  let pos := rfind bech 49%N in
  let len := Z.of_nat (length bech) in
  if (pos <? 1) || (len <? pos + 7) || (max_length <? len) then None else
  let tail := skipn (Z.to_nat (pos + 1)) bech in
  if negb (forallb in_charset tail) then None else
  let hrp := firstn (Z.to_nat pos) bech in
  let data := map charset_find tail in
  match bech32_verify_checksum hrp data with
  | None => None
  | Some spec => Some (hrp, firstn (length data - 6) data, spec)
  end.
Definition bech32_decode (bech : pystr) := bech32_decode_max bech 90.

(* ---- convertbits -------------------------------------------------------------------------------- *)
(* `while bits >= tobits: bits -= tobits; ret.append((acc >> bits) & maxv)` : the symbols appended and the
   final `bits`; None = out of fuel (tobits = 0 loops forever in Python) *)
Fixpoint cb_emit (fuel : nat) (acc bits tobits maxv : Z) : option (list Z * Z) :=
  if bits >=? tobits then
    match fuel with
    | O => None
    | S f =>
      let bits' := bits - tobits in
      match cb_emit f acc bits' tobits maxv with
      | Some (l, b) => Some (Z.land (Z.shiftr acc bits') maxv :: l, b)
      | None => None
      end
    end
  else Some ([], bits).

Section ConvertBits.
Variables (frombits tobits : Z) (pad : bool).
Let maxv := Z.shiftl 1 tobits - 1.
Let max_acc := Z.shiftl 1 (frombits + tobits - 1) - 1.

(* the result is `ret` (everything appended from here on), Ret None = Python's `return None` *)
Fixpoint cb_loop (data : list Z) (acc bits : Z) : outcome (option (list Z)) :=
  match data with
  | [] =>
    if pad then
      Ret (Some (if bits =? 0 then [] else [Z.land (Z.shiftl acc (tobits - bits)) maxv]))
    else if (bits >=? frombits) || negb (Z.land (Z.shiftl acc (tobits - bits)) maxv =? 0) then Ret None
    else Ret (Some [])
  | value :: r =>
    if (value <? 0) || negb (Z.shiftr value frombits =? 0) then Ret None else
    let acc1 := Z.land (Z.lor (Z.shiftl acc frombits) value) max_acc in
    let bits1 := bits + frombits in
    match cb_emit (S (Z.to_nat bits1)) acc1 bits1 tobits maxv with
    | None => OutOfFuel
    | Some (l, bits2) =>
      match cb_loop r acc1 bits2 with
      | Ret (Some rest) => Ret (Some (l ++ rest))
      | other => other
      end
    end
  end.
Definition convertbits_o (data : list Z) : outcome (option (list Z)) := cb_loop data 0 0.
End ConvertBits.

(* the two instances the library uses never run out of fuel (proved in Proofs/Bech32P.v); option view *)
Definition convertbits (data : list Z) (frombits tobits : Z) (pad : bool) : option (list Z) :=
  match convertbits_o frombits tobits pad data with Ret r => r | _ => None end.

(* ---- segwit addresses ---------------------------------------------------------------------------- *)
(* (None, None) is None here *)
Definition decode (hrp : pystr) (addr : pystr) : option (Z * list Z) :=
  match bech32_decode addr with
  | None => None                                   (* hrpgot (None) != hrp or data is None *)
  | Some (hrpgot, data, spec) =>
    if negb (pystr_eqb hrpgot hrp) then None else
    match convertbits (tl data) 5 8 false with
    | None => None
    | Some decoded =>
      let n := Z.of_nat (length decoded) in
      if (n <? 2) || (40 <? n) then None else
      let v := hd 0 data in                         (* data is non-empty here: decoded has >= 2 bytes *)
      if 16 <? v then None else
      if (v =? 0) && negb (n =? 20) && negb (n =? 32) then None else
      if ((v =? 0) && negb (spec =? enc_bech32)) || (negb (v =? 0) && negb (spec =? enc_bech32m)) then None
      else Some (v, decoded)
    end
  end.

Definition encode (hrp : pystr) (witver : Z) (witprog : list Z) : outcome (option pystr) :=
  let spec := if witver =? 0 then enc_bech32 else enc_bech32m in
  match convertbits witprog 8 5 true with
  | None => Ret None
  | Some converted =>
    match bech32_encode hrp (witver :: converted) spec with
    | Ret ret => match decode hrp ret with None => Ret None | Some _ => Ret (Some ret) end
    | Raise e => Raise e
    | OutOfFuel => OutOfFuel
    end
  end.

(* ---- parseable_str.parse_bech32_or_32m / parse_bech32 -------------------------------------------- *)
(* (hr_prefix, version, decoded_data, spec); `version = data[0]` raises IndexError on an empty data part *)
Definition parse_bech32_or_32m (s : pystr) : outcome (option (pystr * Z * bytes * Z)) :=
  match bech32_decode s with
  | None => Ret None
  | Some (hr_prefix, data, spec) =>
    match data with
    | [] => Raise E_INDEX
    | version :: rest =>
      let decoded := match convertbits rest 5 8 false with Some d => d | None => [] end in
      Ret (Some (hr_prefix, version, map z2b decoded, spec))
    end
  end.

(* parseable_str.cache swallows the exception *)
Definition parse_bech32 (s : pystr) : option (pystr * Z * bytes * Z) :=
  match parse_bech32_or_32m s with Ret r => r | _ => None end.
