(* Model/ParseTextHist.v — C18: histories.  ONE parseable_str object (one text s with one decode cache) is offered to
   a sequence of (network, entry point) calls, as `ku` does.  What the cache can hold in /repo today:
     "b58" / "b58_double_sha256" / "b58_groestl"   the Base58 decodings of s (one slot per DECODER, not per network),
     "bech32"                                      parse_bech32_or_32m(s),
     "colon_prefix"                                s.split(":", 1)            (a pure function of s, no oracle)
   i.e. slots keyed by the decoding function, whose value depends on the text only.  Nothing that depends on the
   network (prefixes, key classes, returned objects) is stored.  The model: a store of optional slots; a call reads a
   filled slot instead of running the decoder, and fills empty slots with the decoder's (exception-swallowed) value. *)
From Coq Require Import List NArith ZArith String Bool.
From Coq Require Import Strings.Byte.
From PV Require Import Base.Bytes Base.Outcome Gen.GenParsePrefixes Model.ParseText.
Import ListNotations.
Local Open Scope Z_scope.

(* every entry point of ParseAPI (bip32 / bip49 / bip84 families by kind) *)
Inductive entry :=
| EBip32Seed | EHdSeed | EHdPrv (k : hdkind) | EHdPub (k : hdkind) | EHdAny (k : hdkind)
| EElectrumSeed | EElectrumPrv | EElectrumPub | EP2pkh | EP2sh | EP2pkhSegwit | EP2shSegwit | EP2tr | EScript
| EWif | ESecretExponent | EPublicPair | ESec | EAddress | EPayable | EHierarchicalKey | EPrivateKey | ESecret
| EPublicKey | EUnsupported | ECall.

Section Hist.
Variable int10 int16 : text -> option Z.
Variable compile : text -> option bytes.
Variable hmac512 : bytes -> bytes.
Variable stretch : bytes -> Z.
Variable mulG : Z -> Z * Z.
Variable modsqrt : Z -> Z.

(* one call with explicit decoders *)
Definition run (b58 : text -> outcome (option bytes)) (bech32 : text -> outcome (option (text * Z * bytes * bool)))
    (e : entry) (net : netcfg) (s : text) : result :=
  match e with
  | EBip32Seed => bip32_seed hmac512 mulG net s
  | EHdSeed => hd_seed hmac512 mulG net s
  | EHdPrv k => hd_prv b58 mulG modsqrt net k s
  | EHdPub k => hd_pub b58 mulG modsqrt net k s
  | EHdAny k => hd_any b58 mulG modsqrt net k s
  | EElectrumSeed => electrum_seed stretch mulG net s
  | EElectrumPrv => electrum_prv mulG net s
  | EElectrumPub => electrum_pub net s
  | EP2pkh => p2pkh b58 net s
  | EP2sh => p2sh b58 net s
  | EP2pkhSegwit => p2pkh_segwit bech32 net s
  | EP2shSegwit => p2sh_segwit bech32 net s
  | EP2tr => p2tr bech32 net s
  | EScript => script compile net s
  | EWif => wif b58 mulG net s
  | ESecretExponent => secret_exponent int10 int16 mulG net s
  | EPublicPair => public_pair int10 int16 mulG modsqrt net s
  | ESec => sec modsqrt net s
  | EAddress => address b58 bech32 net s
  | EPayable => payable b58 bech32 compile net s
  | EHierarchicalKey => hierarchical_key b58 hmac512 stretch mulG modsqrt net s
  | EPrivateKey => private_key b58 int10 int16 mulG net s
  | ESecret => secret b58 int10 int16 hmac512 stretch mulG modsqrt net s
  | EPublicKey => public_key int10 int16 mulG modsqrt net s
  | EUnsupported => unsupported net s
  | ECall => parse_any b58 bech32 int10 int16 compile hmac512 stretch mulG modsqrt net s
  end.

(* the world: one Base58 decoder per cache key ("b58_double_sha256", "b58_groestl"), which key a network uses,
   one Bech32 decoder *)
Variable dec : N -> text -> outcome (option bytes).
Variable key_of : netcfg -> N.
Variable bech32 : text -> outcome (option (text * Z * bytes * bool)).

(* the decode cache of ONE parseable_str: optional slots *)
Record store := { st_b58 : N -> option (option bytes); st_bech32 : option (option (text * Z * bytes * bool)) }.
Definition empty_store : store := {| st_b58 := fun _ => None; st_bech32 := None |}.

(* the decoders as seen through the cache of the object *)
Definition b58_via (st : store) (k : N) (t : text) : outcome (option bytes) :=
  match st_b58 st k with Some v => Ret v | None => dec k t end.
Definition bech32_via (st : store) (t : text) : outcome (option (text * Z * bytes * bool)) :=
  match st_bech32 st with Some v => Ret v | None => bech32 t end.

(* what a call does to the cache: it may fill (some of) the empty slots it reads, with the decoder's value for s.
   (Which slots a given entry point touches is irrelevant: `fill` fills both; filling less is also consistent.) *)
Definition fill (st : store) (k : N) (s : text) : store :=
  {| st_b58 := fun k' => if N.eqb k' k then Some (ps_cache (b58_via st k) s) else st_b58 st k';
     st_bech32 := Some (ps_cache (bech32_via st) s) |}.

(* a call on the shared object, and a whole history *)
Definition step (st : store) (c : entry * netcfg) (s : text) : result * store :=
  let '(e, net) := c in
  (run (b58_via st (key_of net)) (bech32_via st) e net s, fill st (key_of net) s).

Fixpoint history (st : store) (calls : list (entry * netcfg)) (s : text) : list result :=
  match calls with
  | [] => []
  | c :: r => let '(res, st') := step st c s in res :: history st' r s
  end.

(* the same calls, each on a fresh plain str *)
Definition fresh (calls : list (entry * netcfg)) (s : text) : list result :=
  map (fun c : entry * netcfg => let '(e, net) := c in run (dec (key_of net)) bech32 e net s) calls.

(* every filled slot holds what its decoder gives for s *)
Definition consistent (st : store) (s : text) : Prop :=
  (forall k v, st_b58 st k = Some v -> v = ps_cache (dec k) s) /\
  (forall v, st_bech32 st = Some v -> v = ps_cache bech32 s).

End Hist.
