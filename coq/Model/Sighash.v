(* Model/Sighash.v — what pycoin's signature-hash code DOES (property C04).  No proofs here.
   Transcribed function by function from
     pycoin/coins/bitcoin/SolutionChecker.py   delete_subscript, _delete_signature, _make_sighash_f (script part),
                                               _tx_in_for_idx, _signature_hash
     pycoin/coins/bitcoin/SegwitChecker.py     _hash_prevouts, _hash_sequence, _hash_outputs,
                                               _segwit_signature_preimage, _signature_for_hash_type_segwit
     pycoin/coins/bcash|bgold|groestlcoin/SolutionChecker.py   the overrides
     pycoin/coins/bitcoin/Tx.py, TxIn.py, TxOut.py  Tx.stream(include_witness_data=False), Tx.hash(hash_type)
     pycoin/coins/groestlcoin/Tx.py            Tx.hash with single SHA-256
   The instruction decoder is the finished C12 model (Model/Push.v).
   Every constant comes from Gen/GenSighashC04.v (regenerated from /repo on every run).
   Python ints that the code packs are N here (negative values are outside the model);
   struct.pack range errors are E_STRUCT, list indexing errors E_INDEX, `None.coin_value` E_ATTR,
   the fork-id refusals ScriptError = E_SCRIPT.  Hash functions are Section variables. *)
From PV Require Import Base.Bytes Base.Outcome Base.Varint Gen.GenOpcodes Gen.GenSighashC04 Model.Push.
Local Open Scope N_scope.
Local Open Scope outcome_scope.

(* ---- Tx / TxIn / TxOut objects (only the attributes the anchored code reads) ------------------- *)
Record txin := mk_txin { ti_hash : bytes; ti_index : N; ti_script : bytes; ti_seq : N }.
Record txout := mk_txout { to_value : N; to_script : bytes }.
Record tx := mk_tx { tx_version : N; tx_ins : list txin; tx_outs : list txout; tx_lock : N;
                     tx_unspents : list (option txout) }.

(* ---- BitcoinSolutionChecker.delete_subscript (after /repo commit 50939fb) ---------------------------
   pc = 0
   while pc < len(script):
       opcode, data, new_pc, is_ok = scriptStreamer.get_opcode(script, pc)
       if not is_ok: new_script.extend(script[pc:]); break        # the rest is kept as it is
       section = script[pc:new_pc]
       if section != subscript: new_script.extend(section)
       pc = new_pc
   fuel: new_pc > pc always, so len(script) iterations suffice (proved). *)
Fixpoint delete_walk (fuel : nat) (script sub : bytes) (pc : nat) : outcome bytes :=
  if (length script <=? pc)%nat then Ret []
  else match fuel with
       | O => OutOfFuel
       | S f =>
         match btc_get_opcode script pc false with
         | Ret (_, _, new_pc, is_ok) =>
           if is_ok then
             let section := slice pc new_pc script in
             do rest <- delete_walk f script sub new_pc;
             Ret (if bytes_eqb section sub then rest else section ++ rest)
           else Ret (skipn pc script)
         | Raise e => Raise e
         | OutOfFuel => OutOfFuel
         end
       end.
Definition delete_subscript (script sub : bytes) : outcome bytes :=
  delete_walk (length script) script sub 0.

(* _delete_signature (/repo commits 2ba5b6d, 50939fb): the pattern is the PLAIN push of the blob —
     size < 76: bytes([size]);  <= 0xFF: 4c size;  <= 0xFFFF: 4d size.to_bytes(2,"little");
     else 4e size.to_bytes(4,"little")  (OverflowError from 2^32 on) — then self.delete_subscript(script, subscript) *)
Definition plain_push (blob : bytes) : outcome bytes :=
  let size := N.of_nat (length blob) in
  if size <? 76 then Ret (n2b size :: blob)
  else if size <=? 255 then Ret (x4c :: n2b size :: blob)
  else if size <=? 65535 then Ret (x4d :: le_encode 2 size ++ blob)
  else if size <? 4294967296 then Ret (x4e :: le_encode 4 size ++ blob)
  else Raise E_OVERFLOW.
Definition delete_signature (script sig_blob : bytes) : outcome bytes :=
  do sub <- plain_push sig_blob;
  delete_subscript script sub.

(* the script part of sig_for_hash_type_f: script = vm.script[vm.begin_code_hash:], every blob deleted in turn *)
Fixpoint delete_signatures (script : bytes) (sig_blobs : list bytes) : outcome bytes :=
  match sig_blobs with
  | [] => Ret script
  | b :: r => do s <- delete_signature script b; delete_signatures s r
  end.
Definition sighash_f_script (vm_script : bytes) (begin_code_hash : nat) (sig_blobs : list bytes) : outcome bytes :=
  delete_signatures (skipn begin_code_hash vm_script) sig_blobs.

(* ---- streaming (satoshi_struct "L" "Q" "I" "S" "#") ---------------------------------------------- *)
Definition stream_txin (i : txin) : outcome bytes :=      (* "#LSL": f.write(v[:32]) for "#" *)
  do a <- write_le 4 (ti_index i);
  do s <- stream_varstr (ti_script i);
  do q <- write_le 4 (ti_seq i);
  Ret (firstn 32 (ti_hash i) ++ a ++ s ++ q).
Definition stream_txout (o : txout) : outcome bytes :=    (* "QS" *)
  do v <- write_le 8 (to_value o);
  do s <- stream_varstr (to_script o);
  Ret (v ++ s).

Fixpoint stream_all {A} (f : A -> outcome bytes) (l : list A) : outcome bytes :=
  match l with
  | [] => Ret []
  | x :: r => do a <- f x; do b <- stream_all f r; Ret (a ++ b)
  end.

(* Tx.stream(f, include_witness_data=False) followed by stream_struct("L", s, hash_type): what Tx.hash hashes *)
Definition tx_hash_preimage (version : N) (ins : list txin) (outs : list txout) (lock hash_type : N) : outcome bytes :=
  do v <- write_le 4 version;
  do ci <- stream_varint (N.of_nat (length ins));
  do bi <- stream_all stream_txin ins;
  do co <- stream_varint (N.of_nat (length outs));
  do bo <- stream_all stream_txout outs;
  do l <- write_le 4 lock;
  do h <- write_le 4 hash_type;
  Ret (v ++ ci ++ bi ++ co ++ bo ++ l ++ h).

(* ---- BitcoinSolutionChecker._signature_hash ------------------------------------------------------ *)
Definition tx_in_for_idx (idx : nat) (ti : txin) (tx_out_script : bytes) (unsigned_txs_out_idx : nat) : txin :=
  if (idx =? unsigned_txs_out_idx)%nat
  then mk_txin (ti_hash ti) (ti_index ti) tx_out_script (ti_seq ti)
  else mk_txin (ti_hash ti) (ti_index ti) [] (ti_seq ti).

Fixpoint enumerate_from {A} (k : nat) (l : list A) : list (nat * A) :=
  match l with [] => [] | x :: r => (k, x) :: enumerate_from (S k) r end.

(* for i in range(len(txs_in)): if i != idx: txs_in[i].sequence = 0 *)
Definition zero_other_sequences (idx : nat) (ins : list txin) : list txin :=
  map (fun p : nat * txin => let (i, ti) := p in
         if (i =? idx)%nat then ti else mk_txin (ti_hash ti) (ti_index ti) (ti_script ti) 0)
      (enumerate_from 0 ins).

(* what the function returns before from_bytes_32: the constant, or the bytes that get hashed *)
Inductive presig := PConst (v : N) | PPreimage (p : bytes).

Definition legacy_presig (t : tx) (tx_out_script : bytes) (idx : nat) (hash_type : N) : outcome presig :=
  do script <- delete_subscript tx_out_script gen_codeseparator;
  let txs_in := map (fun p : nat * txin => let (i, ti) := p in tx_in_for_idx i ti script idx)
                    (enumerate_from 0 (tx_ins t)) in
  let finish (txs_in : list txin) (txs_out : list txout) : outcome presig :=
    do txs_in <- (if N.land hash_type gen_sighash_anyonecanpay =? 0 then Ret txs_in
                  else match nth_error txs_in idx with
                       | Some x => Ret [x]
                       | None => Raise E_INDEX
                       end);
    do p <- tx_hash_preimage (tx_version t) txs_in txs_out (tx_lock t) hash_type;
    Ret (PPreimage p) in
  if N.land hash_type gen_legacy_mask_none =? gen_sighash_none then
    finish (zero_other_sequences idx txs_in) []
  else if N.land hash_type gen_legacy_mask_single =? gen_sighash_single then
    match nth_error (tx_outs t) idx with
    | None => Ret (PConst (N.shiftl gen_single_value_base gen_single_value_shift))
    | Some o => finish (zero_other_sequences idx txs_in) (repeat (mk_txout gen_blank_amount []) idx ++ [o])
    end
  else finish txs_in (tx_outs t).

(* ---- SegwitChecker ---------------------------------------------------------------------------------- *)
Section Segwit.
Variable H : bytes -> bytes.    (* double_sha256 (bitcoin) / groestlcoin.hash.sha256 *)
Variables (mask_seq_single mask_seq_none mask_out_single mask_out_none : N).

Definition hash_prevouts (t : tx) (hash_type : N) : outcome bytes :=
  if negb (N.land hash_type gen_sighash_anyonecanpay =? 0) then Ret gen_zero32
  else do b <- stream_all (fun i => do a <- write_le 4 (ti_index i); Ret (ti_hash i ++ a)) (tx_ins t);
       Ret (H b).

Definition hash_sequence (t : tx) (hash_type : N) : outcome bytes :=
  if negb (N.land hash_type gen_sighash_anyonecanpay =? 0)
     || (N.land hash_type mask_seq_single =? gen_sighash_single)
     || (N.land hash_type mask_seq_none =? gen_sighash_none) then Ret gen_zero32
  else do b <- stream_all (fun i => write_le 4 (ti_seq i)) (tx_ins t);
       Ret (H b).

Definition hash_outputs (t : tx) (hash_type : N) (tx_in_idx : nat) : outcome bytes :=
  let go (outs : list txout) := do b <- stream_all stream_txout outs; Ret (H b) in
  if N.land hash_type mask_out_single =? gen_sighash_single then
    if (length (tx_outs t) <=? tx_in_idx)%nat then Ret gen_zero32
    else go (slice tx_in_idx (tx_in_idx + 1) (tx_outs t))
  else if N.land hash_type mask_out_none =? gen_sighash_none then Ret gen_zero32
  else go (tx_outs t).

Definition segwit_signature_preimage (t : tx) (script : bytes) (tx_in_idx : nat) (hash_type : N) : outcome bytes :=
  do v <- write_le 4 (tx_version t);
  do hp <- hash_prevouts t hash_type;
  do hs <- hash_sequence t hash_type;
  do tx_in <- (match nth_error (tx_ins t) tx_in_idx with Some x => Ret x | None => Raise E_INDEX end);
  do pi <- write_le 4 (ti_index tx_in);
  do tx_out <- (match nth_error (tx_unspents t) tx_in_idx with Some x => Ret x | None => Raise E_INDEX end);
  do sc <- stream_varstr script;
  do cv <- (match tx_out with Some o => write_le 8 (to_value o) | None => Raise E_ATTR end);
  do sq <- write_le 4 (ti_seq tx_in);
  do ho <- hash_outputs t hash_type tx_in_idx;
  do lt <- write_le 4 (tx_lock t);
  do ht <- write_le 4 hash_type;
  Ret (v ++ hp ++ hs ++ ti_hash tx_in ++ pi ++ sc ++ cv ++ sq ++ ho ++ lt ++ ht).
End Segwit.

(* ---- the five transaction classes ---------------------------------------------------------------- *)
Inductive coin := BTC | LTC | BCH | BTG | GRS.

Section Coins.
Variables (sha256 dsha256 : bytes -> bytes).

Definition from_bytes_32 (b : bytes) : N := be_decode b.

Definition btc_segwit_preimage :=
  segwit_signature_preimage dsha256 gen_sw_seq_mask_single gen_sw_seq_mask_none gen_sw_out_mask_single gen_sw_out_mask_none.
Definition grs_segwit_preimage :=
  segwit_signature_preimage sha256 gen_grs_seq_mask_single gen_grs_seq_mask_none gen_grs_out_mask_single gen_grs_out_mask_none.

(* the bytes _segwit_signature_preimage returns, per class (BTG: as called by its override, i.e. after the fold) *)
Definition segwit_preimage (c : coin) (t : tx) (script : bytes) (idx : nat) (hash_type : N) : outcome bytes :=
  match c with
  | GRS => grs_segwit_preimage t script idx hash_type
  | _ => btc_segwit_preimage t script idx hash_type
  end.

Definition forkid_missing (hash_type : N) : bool :=
  negb (N.land hash_type gen_sighash_forkid =? gen_sighash_forkid).

(* _signature_for_hash_type_segwit *)
Definition signature_for_hash_type_segwit (c : coin) (t : tx) (script : bytes) (idx : nat) (hash_type : N) : outcome N :=
  match c with
  | BTC | LTC | BCH =>
    do p <- btc_segwit_preimage t script idx hash_type; Ret (from_bytes_32 (dsha256 p))
  | BTG =>
    if forkid_missing hash_type then Raise E_SCRIPT
    else do p <- btc_segwit_preimage t script idx (N.lor hash_type (N.shiftl gen_forkid_btg gen_forkid_shift));
         Ret (from_bytes_32 (dsha256 p))
  | GRS =>
    do p <- grs_segwit_preimage t script idx hash_type; Ret (from_bytes_32 (sha256 p))
  end.

(* _signature_hash *)
Definition signature_hash (c : coin) (t : tx) (script : bytes) (idx : nat) (hash_type : N) : outcome N :=
  match c with
  | BTC | LTC =>
    do r <- legacy_presig t script idx hash_type;
    Ret (match r with PConst v => v | PPreimage p => from_bytes_32 (dsha256 p) end)
  | GRS =>
    do r <- legacy_presig t script idx hash_type;
    Ret (match r with PConst v => v | PPreimage p => from_bytes_32 (sha256 p) end)
  | BCH | BTG =>
    if forkid_missing hash_type then Raise E_SCRIPT
    else signature_for_hash_type_segwit c t script idx hash_type
  end.
End Coins.
