(* Model/MsgInst.v — an executable instance of the abstract group of Model/MsgSign.v: short-Weierstrass curves
   y^2 = x^3 + a x + b over F_p in affine coordinates, curve parameters given at run time.  Used
   (1) for the extracted correspondence run against pycoin's Generator(p, a, b, G, n) + MessageSigner, and
   (2) in Proofs/MsgInstP.v to show that the hypotheses of the C17 theorems are satisfiable (curve p=43).
   Own transcription; independent of the C01/C02 models.  No proofs here. *)
From PV Require Import Base.Bytes Base.Outcome Model.Base64 Model.MsgSign.
Local Open Scope Z_scope.

Record curve := { cp : Z; ca : Z; cb : Z; cgx : Z; cgy : Z; cn : Z }.

Definition tpt := option (Z * Z).            (* None = the point at infinity, as in pycoin *)
Definition tcoords (P : tpt) : option (Z * Z) := P.

Fixpoint powmod_pos (b : Z) (e : positive) (m : Z) : Z :=
  match e with
  | xH => b mod m
  | xO e' => let t := powmod_pos b e' m in (t * t) mod m
  | xI e' => let t := powmod_pos b e' m in (((t * t) mod m) * b) mod m
  end.
Definition powmod (b e m : Z) : Z :=
  match e with Z0 => 1 mod m | Zpos e' => powmod_pos b e' m | Zneg _ => 0 end.
(* inverse modulo a prime m (Fermat); Curve.inverse_mod computes the same value in [1, m) *)
Definition inv_mod (a m : Z) : Z := powmod (a mod m) (m - 2) m.

(* Curve.add *)
Definition tadd (cv : curve) (P Q : tpt) : tpt :=
  match P, Q with
  | None, _ => Q
  | _, None => P
  | Some (x0, y0), Some (x1, y1) =>
    let p := cp cv in
    if (x0 - x1) mod p =? 0 then
      if (y0 + y1) mod p =? 0 then None
      else
        let l := ((3 * x0 * x0 + ca cv) * inv_mod (2 * y0) p) mod p in
        let x3 := (l * l - x0 - x1) mod p in
        Some (x3, (l * (x0 - x3) - y0) mod p)
    else
      let l := ((y1 - y0) * inv_mod (x1 - x0) p) mod p in
      let x3 := (l * l - x0 - x1) mod p in
      Some (x3, (l * (x0 - x3) - y0) mod p)
  end.

(* e * P with e reduced modulo the order (Curve.multiply / Generator.__mul__), plain double-and-add *)
Fixpoint tmul_pos (cv : curve) (e : positive) (P : tpt) : tpt :=
  match e with
  | xH => P
  | xO e' => let T := tmul_pos cv e' P in tadd cv T T
  | xI e' => let T := tmul_pos cv e' P in tadd cv (tadd cv T T) P
  end.
Definition tsmul (cv : curve) (e : Z) (P : tpt) : tpt :=
  match e mod cn cv with Zpos q => tmul_pos cv q P | _ => None end.

Definition tG (cv : curve) : tpt := Some (cgx cv, cgy cv).

(* Generator.points_for_x (p = 3 mod 4): None models ValueError / NoSuchPointError *)
Definition t_points_for_x (cv : curve) (x : Z) : option (tpt * tpt) :=
  let p := cp cv in
  let alpha := (powmod x 3 p + ca cv * x + cb cv) mod p in
  let y0 := powmod alpha ((p + 1) / 4) p in
  if y0 =? 0 then None
  else if negb ((y0 * y0 - (x * x * x + ca cv * x + cb cv)) mod p =? 0) then None
  else
    let p0 : tpt := Some (x, y0) in
    let p1 : tpt := Some (x, p - y0) in
    if Z.land y0 1 =? 0 then Some (p0, p1) else Some (p1, p0).

Definition t_inv (cv : curve) (a : Z) : Z := inv_mod a (cn cv).

(* ---- the MessageSigner over this group; the nonce k is supplied by the caller -------------------- *)
Section Inst.
  Variable dsha256 : bytes -> bytes.
  Variable hash160 : bytes -> bytes.

  Definition t_sign_with_recid (cv : curve) (k : Z) (fuel : nat) (d z : Z) :=
    sign_with_recid tpt (tsmul cv) (tG cv) (cn cv) tcoords (t_inv cv) (fun _ _ _ => k) fuel d z.
  Definition t_signature_for_message_hash (cv : curve) (k : Z) (fuel : nat) (d z : Z) (c : bool) :=
    signature_for_message_hash tpt (tsmul cv) (tG cv) (cn cv) tcoords (t_inv cv) (fun _ _ _ => k) fuel d z c.
  Definition t_sign_message (cv : curve) (k : Z) (fuel : nat) (magic : bytes) (d : Z) (c : bool) (m : bytes) :=
    sign_message tpt (tsmul cv) (tG cv) (cn cv) tcoords (t_inv cv) (fun _ _ _ => k) dsha256 fuel magic d c m.
  Definition t_pair_for_message_hash (cv : curve) (text : bytes) (z : Z) :=
    pair_for_message_hash tpt (tadd cv) (tsmul cv) (tG cv) (cn cv) (cp cv) tcoords (t_points_for_x cv) (t_inv cv) text z.
  Definition t_verify_message (cv : curve) (key : keyref) (text magic : bytes) (m : option bytes) (mh : option Z) :=
    verify_message tpt (tadd cv) (tsmul cv) (tG cv) (cn cv) (cp cv) tcoords (t_points_for_x cv) (t_inv cv)
      dsha256 hash160 key text magic m mh.
  Definition t_hash_for_signing (network_name m : bytes) := hash_for_signing dsha256 (msg_magic network_name) m.
End Inst.

(* y^2 = x^3 + 7 over F_43, G = (2, 12), prime order 31 < 43 <= 62: 14 points have x > 31 (recid 2 and 3) *)
Definition cv43 : curve := {| cp := 43; ca := 0; cb := 7; cgx := 2; cgy := 12; cn := 31 |}.
