(* Model/Der.v — pycoin/satoshi/der.py, function by function.  No proofs here.
   Python `int` = Z, `bytes` = list byte, exceptions = outcome.  Quirks kept:
   * encode_length does `bytes([0x80 | llen])`: a length of 256^127 bytes or more (128+ length octets,
     beyond what the DER long form can carry) yields a wrong first octet (llen = 128..255, the bit-or
     drops or garbles the count) or ValueError (llen >= 256);
   * read_length refuses the empty string with UnexpectedDER, but does `int(hexlify(b""), 16)`
     (ValueError) for the long form with zero length bytes (0x80);
   * remove_sequence slices without checking that the announced length fits;
   * remove_integer with zero content bytes raises ValueError (int("", 16)). *)
From PV Require Import Base.Bytes Base.Outcome.
Local Open Scope N_scope.
Local Open Scope outcome_scope.

(* number of base-256 digits of v (0 for 0) *)
Definition nbytes (v : N) : nat :=
  match v with
  | N0 => O
  | Npos _ => S (N.to_nat (N.log2 v / 8))
  end.

(* `h = "%x" % v; if len(h) % 2: h = "0" + h; binascii.unhexlify(h)`: minimal big-endian bytes,
   one 00 byte for 0 *)
Definition hexbytes (v : N) : bytes :=
  match v with
  | N0 => [x00]
  | Npos _ => be_encode (nbytes v) v
  end.

(* `bytes([n])` *)
Definition byte_of_len (n : N) : outcome byte :=
  if n <? 256 then Ret (n2b n) else Raise E_VALUE.

(* `ord(s[:1])` of a string that is known to be non-empty here *)
Definition head_n (s : bytes) : N := match s with [] => 0 | b :: _ => b2n b end.

Definition encode_length (len : Z) : outcome bytes :=
  if (len <? 0)%Z then Raise E_ASSERT
  else if (len <? 128)%Z then Ret [n2b (Z.to_N len)]
  else
    let b := hexbytes (Z.to_N len) in
    let llen := N.of_nat (length b) in
    do l <- byte_of_len (N.lor 128 llen); Ret (l :: b).

Definition encode_integer (r : Z) : outcome bytes :=
  if (r <? 0)%Z then Raise E_ASSERT
  else
    let s := hexbytes (Z.to_N r) in
    if head_n s <=? 127 then
      do l <- encode_length (Z.of_nat (length s)); Ret (x02 :: l ++ s)
    else
      do l <- encode_length (Z.of_nat (length s) + 1); Ret (x02 :: l ++ x00 :: s).

(* encode_sequence: the pieces are passed as a list *)
Definition encode_sequence (pieces : list bytes) : outcome bytes :=
  let total := fold_right (fun p acc => N.of_nat (length p) + acc) 0 pieces in
  do l <- encode_length (Z.of_N total); Ret (x30 :: l ++ concat pieces).

Definition sigencode_der (r s : Z) : outcome bytes :=
  do a <- encode_integer r;
  do b <- encode_integer s;
  encode_sequence [a; b].

(* read_length(string) -> (length, lengthlength) *)
Definition read_length (s : bytes) : outcome (N * nat) :=
  match s with
  | [] => Raise E_DER                                    (* len(string) == 0: "ran out of length bytes" *)
  | s0 :: tl =>
    if N.land (b2n s0) 128 =? 0 then Ret (N.land (b2n s0) 127, 1%nat)
    else
      let llen := N.to_nat (N.land (b2n s0) 127) in       (* < 128: a real length *)
      if (length tl <? llen)%nat then Raise E_DER
      else match llen with
           | O => Raise E_VALUE                            (* int(b"", 16) *)
           | _ => Ret (be_decode (take llen tl), S llen)
           end
  end.

(* s[a:b] and s[b:] where b is an unbounded Python int (never converted to nat unless it is in range) *)
Definition take_to (e : N) (s : bytes) : bytes :=
  if N.of_nat (length s) <=? e then s else take (N.to_nat e) s.
Definition drop_from (e : N) (s : bytes) : bytes :=
  if N.of_nat (length s) <=? e then [] else drop (N.to_nat e) s.

Definition starts_with (b : byte) (s : bytes) : bool :=
  match s with [] => false | c :: _ => byte_eqb c b end.

Definition remove_sequence (s : bytes) : outcome (bytes * bytes) :=
  if negb (starts_with x30 s) then Raise E_DER
  else
    do '(len, ll) <- read_length (drop 1 s);
    let endseq := N.of_nat (1 + ll) + len in
    Ret (drop (1 + ll) (take_to endseq s), drop_from endseq s).

Definition remove_integer (s : bytes) (broken : bool) : outcome (Z * bytes) :=
  if negb (starts_with x02 s) then Raise E_DER
  else
    do '(len, llen) <- read_length (drop 1 s);
    if N.of_nat (length s) <? N.of_nat (1 + llen) + len then Raise E_DER
    else
      let k := N.to_nat len in                              (* len <= length s here *)
      let numberbytes := take k (drop (1 + llen) s) in
      let rest := drop (1 + llen + k) s in
      match numberbytes with
      | [] => Raise E_VALUE                                 (* int(b"", 16) *)
      | b0 :: _ =>
        let v := Z.of_N (be_decode numberbytes) in
        if (128 <=? b2n b0) && negb broken
        then Ret ((v - 2 ^ (8 * Z.of_N len))%Z, rest)
        else Ret (v, rest)
      end.

Definition nonempty (s : bytes) : bool := match s with [] => false | _ => true end.

Definition sigdecode_der (sig : bytes) (broken : bool) : outcome (Z * Z) :=
  do '(rs, remainder) <- remove_sequence sig;
  if nonempty remainder && negb broken then Raise E_DER
  else
    do '(r, rest) <- remove_integer rs broken;
    do '(s, remainder2) <- remove_integer rest broken;
    if nonempty remainder2 && negb broken then Raise E_DER
    else Ret (r, s).
