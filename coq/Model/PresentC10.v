(* Model/PresentC10.v — the ARGUMENT PRESENTATIONS and CALL HISTORIES that the C10 entry points accept
   in /repo today, on top of Model/Der.v and Model/Sec.v.  No proofs here.
   * byte-string arguments arrive as bytes, bytearray, or a memoryview (read-only or writable):
     encoding/sec.py only slices, compares with == / in (tuple) and calls int.from_bytes, all of which
     treat the four alike; satoshi/der.py calls string.startswith, which a memoryview does not have
     (AttributeError before anything else), and treats bytes and bytearray alike;
   * integer arguments arrive as int, an int subclass or a bool: arithmetic and comparisons only;
   * none of the functions keeps state: a history of calls (any curves, any order) is evaluated call by call. *)
From PV Require Import Base.Bytes Base.Outcome Model.Der Model.Sec.
Local Open Scope Z_scope.

Inductive blob_kind : Set := Bk_bytes | Bk_bytearray | Bk_mv_ro | Bk_mv_rw.
Record blob_arg : Set := { ba_kind : blob_kind; ba_data : bytes }.

Definition is_memoryview (k : blob_kind) : bool :=
  match k with Bk_mv_ro | Bk_mv_rw => true | _ => false end.

Definition sec_to_public_pair_arg (p a b : Z) (ba : blob_arg) (strict : bool) : outcome (Z * Z) :=
  sec_to_public_pair p a b (ba_data ba) strict.
Definition key_from_sec_arg (p a b : Z) (ba : blob_arg) : outcome ((Z * Z) * bool) :=
  key_from_sec p a b (ba_data ba).
Definition is_sec_compressed_arg (ba : blob_arg) : bool := is_sec_compressed (ba_data ba).

(* sigdecode_der -> remove_sequence -> string.startswith *)
Definition sigdecode_der_arg (ba : blob_arg) (broken : bool) : outcome (Z * Z) :=
  if is_memoryview (ba_kind ba) then Raise E_ATTR else sigdecode_der (ba_data ba) broken.

Inductive int_kind : Set := Ik_int | Ik_subclass | Ik_bool.
Record int_arg : Set := { ia_kind : int_kind; ia_val : Z }.
Definition key_private_arg (order : Z) (e : int_arg) : outcome Z := key_private order (ia_val e).
Definition sigencode_der_arg (r s : int_arg) : outcome bytes := sigencode_der (ia_val r) (ia_val s).
Definition public_pair_to_sec_arg (x y : int_arg) (compressed : bool) : outcome bytes :=
  public_pair_to_sec (ia_val x, ia_val y) compressed.

(* ---- histories: one process, many calls, any mix of curves ------------------------------------ *)
Record sec_call : Set := { sc_p : Z; sc_a : Z; sc_b : Z; sc_blob : blob_arg; sc_strict : bool }.
Definition eval_sec_call (c : sec_call) : outcome (Z * Z) :=
  sec_to_public_pair_arg (sc_p c) (sc_a c) (sc_b c) (sc_blob c) (sc_strict c).
Definition eval_from_sec_call (c : sec_call) : outcome ((Z * Z) * bool) :=
  key_from_sec_arg (sc_p c) (sc_a c) (sc_b c) (sc_blob c).
Definition run_sec_history (h : list sec_call) : list (outcome (Z * Z)) := map eval_sec_call h.
Definition run_from_sec_history (h : list sec_call) : list (outcome ((Z * Z) * bool)) := map eval_from_sec_call h.
