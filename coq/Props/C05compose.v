(* Props/C05compose.v — composition of property C05 (signing standard inputs) with the Core side of property C03:
   the template evaluator of Spec/Templates.v (`eval_input`, C05's own specification of the standard templates)
   is SOUND AND COMPLETE with respect to the executable transcription of Bitcoin Core's interpreter
   (Spec/VMcore.v `VerifyScript`, validated on Core's vectors, proved equal to the pycoin VM at script level in
   Props/C03agree.v) — for all eight standard kinds, every scriptSig / witness, every flag word related to LAX or STD.
   Only statements; every proof is `exact <lemma of Proofs/ComposeTemplates*.v>`.

   VOCABULARY (Proofs/ComposeTemplatesEnc.v, Proofs/ComposeTemplates.v).
   * oracles_inst hash160 sha256 verifies sighash o: the oracle record of Spec/VMTypes.v is instantiated from C05's
     abstract interface: o_hash160 = hash160, o_sha256 = sha256, o_order = the secp256k1 order, and
       o_checksig sig key code sv = match sighash (sv is witness v0) (last byte of sig) code with
                                    | Some digest => verifies key digest (sig without its last byte) | None => false end
     which is what TransactionSignatureChecker::CheckSig does; sha1 / ripemd160 / hash256 are never called by the
     templates and stay arbitrary.  `core_oracles` is the canonical instance.
   * flags_rel fl fw: the flag word fw has P2SH and WITNESS set, DERSIG / LOW_S / NULLDUMMY / MINIMALDATA / CLEANSTACK /
     WITNESS_PUBKEYTYPE exactly when f_std fl, STRICTENC exactly when f_std fl && f_strictenc fl; SIGPUSHONLY, NULLFAIL,
     MINIMALIF, CLTV, CSV and both DISCOURAGE bits are FREE (proved irrelevant on the templates).  Instances:
     DEFAULT_FLAGS for LAX, `std_policy_word forkid` (Core's STANDARD_SCRIPT_VERIFY_FLAGS, without STRICTENC on
     fork-id coins) for STD forkid.
   * spend_of hash160 sha256 fw ctx pz ss wit: the spend with that scriptSig, `script_pubkey pz`, witness, flags, context.
   * the domain.  The soundness clauses (puzzle_wf, fad_inert) are FORCED by mismatches between Templates.v and VMcore.v:
     computed counterexamples (accepted by the evaluator, rejected by Core) for FindAndDelete, the 520-byte element
     limit and the all-zero witness program are at the end of this file; Core's rule is the reference (DESIGN.md
     Appendix A), so Templates.v is the lax side on those inputs:
       puzzle_wf pz    sizes Core enforces and Templates ignores (pushed key / hash <= 520 bytes, bare multisig
                       scriptPubKey <= 10 000 bytes, 1 <= m <= n <= 20), key hash of the P2WPKH kinds 20 bytes long, and
                       a witness program that is not "false" for CastToBool (Core tests the program left on the stack
                       by `0 <program>`; an all-zero hash is unspendable in Core, accepted by Templates);
       fad_inert pz ss FindAndDelete of the plain push of each signature item leaves the script code unchanged
                       (Templates hashes the whole script; BASE signature version only; `C05c_std_fad_inert` derives
                       it from the verdict itself under a standard flag set when the pushed keys / hash are not
                       strictly DER-shaped, e.g. well-formed SEC keys);
       in_dom pz ss    (converse only) push-only scriptSig for P2PK / P2PKH / bare multisig, where Core does not demand it;
       no_collision pz (converse only) no second preimage of the committed redeem / witness script under hash160 / sha256. *)
From PV Require Import Base.Bytes Base.Outcome Gen.GenFlags Gen.GenSolveC05 Spec.Templates Spec.VMTypes Spec.VMcore Model.Solve.
From PV Require Import Proofs.SolveP Proofs.SolveToyC05.
From PV Require Import Proofs.ComposeTemplatesEnc Proofs.ComposeTemplates Proofs.ComposeTemplatesCor Proofs.ComposeTemplatesReach
                       Proofs.ComposeTemplatesToy.
Local Open Scope N_scope.

(* ---- the interface ------------------------------------------------------------------------------------------------ *)
Theorem C05c_oracle_instance :
  forall (hash160 sha256 : bytes -> bytes) (verifies : bytes -> bytes -> bytes -> bool)
         (sighash : bool -> N -> bytes -> option bytes) (sha1 ripemd160 hash256 : bytes -> bytes),
  oracles_inst hash160 sha256 verifies sighash (core_oracles hash160 sha256 verifies sighash sha1 ripemd160 hash256).
Proof. exact core_oracles_inst. Qed.

Theorem C05c_flag_words :
  flags_rel LAX DEFAULT_FLAGS /\
  (forall forkid, flags_rel (STD forkid) (std_policy_word forkid) /\ flags_permitted (std_policy_word forkid) = true) /\
  (forall fl, flags_rel fl (flags_word fl)).
Proof.
  exact (conj flags_rel_lax (conj (fun f => conj (flags_rel_std_policy f) (std_policy_permitted f)) flags_rel_word)).
Qed.

(* Templates' encoding predicates ARE Core's (IsValidSignatureEncoding, CheckLowS with the secp256k1 order,
   IsDefinedHashtypeSignature, the two public-key shape rules): no mismatch here *)
Theorem C05c_encoding_rules_agree :
  (forall sig, is_valid_signature_encoding sig = strict_der sig) /\
  (forall sig, check_low_s secp256k1_order sig = low_s sig) /\
  (forall sig, is_defined_hashtype_signature sig = defined_hashtype sig) /\
  (forall k, is_compressed_pubkey k = is_compressed k) /\
  (forall k, is_compressed_or_uncompressed_pubkey k = is_compressed k || is_uncompressed k).
Proof. exact (conj strict_der_core (conj low_s_core (conj defined_hashtype_core (conj compressed_core comp_or_uncomp_core)))). Qed.

Section C05compose.
Variable hash160 : bytes -> bytes.
Variable sha256 : bytes -> bytes.
Variable verifies : bytes -> bytes -> bytes -> bool.          (* SEC key, digest, DER signature *)
Variable sighash : bool -> N -> bytes -> option bytes.        (* witness v0?, hash type, script code -> digest *)
Hypothesis hash160_len : forall x, length (hash160 x) = 20%nat.
Hypothesis sha256_len : forall x, length (sha256 x) = 32%nat.

Variable fl : flags.                                           (* LAX or STD forkid, or any other value of the record *)
Variable fw : N.                                               (* Core's flag word *)
Hypothesis Hflags : flags_rel fl fw.
Variable o : oracles.
Hypothesis Horacles : oracles_inst hash160 sha256 verifies sighash o.
Variable ctx : txctx.

(* ---- SOUNDNESS, all eight kinds: P2PK, P2PKH, bare / P2SH / P2WSH / P2SH-P2WSH m-of-n, P2WPKH, P2SH-P2WPKH ---------- *)
(* whatever the template evaluator accepts, Core's VerifyScript accepts; no hash assumption, no push-only assumption *)
Theorem C05c_templates_sound :
  forall (pz : puzzle) (script_sig : bytes) (witness : list bytes),
  puzzle_wf sha256 pz -> fad_inert pz script_sig ->
  eval_input hash160 sha256 verifies sighash fl pz script_sig witness = true ->
  VerifyScript o (spend_of hash160 sha256 fw ctx pz script_sig witness) = VOk tt.
Proof. exact (templates_sound hash160 sha256 verifies sighash fl fw Hflags o Horacles ctx hash160_len sha256_len). Qed.

(* ---- COMPLETENESS on the evaluator's domain -------------------------------------------------------------------------- *)
Theorem C05c_templates_complete :
  forall (pz : puzzle) (script_sig : bytes) (witness : list bytes),
  puzzle_wf sha256 pz -> fad_inert pz script_sig -> in_dom pz script_sig -> no_collision hash160 sha256 pz ->
  VerifyScript o (spend_of hash160 sha256 fw ctx pz script_sig witness) = VOk tt ->
  eval_input hash160 sha256 verifies sighash fl pz script_sig witness = true.
Proof. exact (templates_complete hash160 sha256 verifies sighash fl fw Hflags o Horacles ctx hash160_len sha256_len). Qed.

(* both at once, with Core's error class left existential: VerifyScript's verdict IS eval_input's *)
Theorem C05c_templates_agree :
  forall (pz : puzzle) (script_sig : bytes) (witness : list bytes),
  puzzle_wf sha256 pz -> fad_inert pz script_sig -> in_dom pz script_sig -> no_collision hash160 sha256 pz ->
  exists e, VerifyScriptE o (spend_of hash160 sha256 fw ctx pz script_sig witness) =
            if eval_input hash160 sha256 verifies sighash fl pz script_sig witness then COk tt else CErr e.
Proof. exact (templates_agree hash160 sha256 verifies sighash fl fw Hflags o Horacles ctx hash160_len sha256_len). Qed.

(* under a standard flag set, acceptance by the evaluator already implies FindAndDelete inertness as soon as none of the
   data pushed by the script code (keys; the P2PKH hash) is strictly DER-shaped *)
Theorem C05c_std_fad_inert :
  f_std fl = true ->
  forall (pz : puzzle) (script_sig : bytes) (witness : list bytes),
  puzzle_wf sha256 pz -> (forall d, In d (code_data pz) -> strict_der d = false) ->
  eval_input hash160 sha256 verifies sighash fl pz script_sig witness = true -> fad_inert pz script_sig.
Proof. exact (std_inert hash160 sha256 verifies sighash fl). Qed.

(* ---- COROLLARIES: C05's theorems composed with the above ------------------------------------------------------------- *)
Variable sign : bytes -> bytes -> bytes.                      (* secret, digest -> DER signature *)
Variable pub_of : bytes -> bool -> bytes.                     (* secret, compressed -> SEC key *)
Hypothesis sign_verifies : forall se c d, verifies (pub_of se c) d (sign se d) = true.
Hypothesis sign_canonical : forall se d t, strict_der (sign se d ++ [t]) = true /\ low_s (sign se d ++ [t]) = true.
Hypothesis pub_wellformed : forall se, is_compressed (pub_of se true) = true /\ is_uncompressed (pub_of se false) = true.

(* C05_template_validates_multisig o soundness: what Solver.sign produces for an m-of-n input with all listed keys
   supplied is accepted by Core's VerifyScript under every flag word related to a standard flag set (in particular
   std_policy_word forkid, see C05c_flag_words).  New hypothesis beyond C05's: the P2WSH program is not all-zero. *)
Theorem C05c_signed_input_valid_under_core_multisig :
  f_std fl = true ->
  forall (forkid : bool) (kd : kind) (m : nat) (ks : list keyspec) (db : lookup) (hto : option N) (p2sh : list bytes),
  ms_shape pub_of kd m ks -> p2sh_ok hash160 sha256 pub_of kd m ks p2sh -> db_ok hash160 pub_of db ks ->
  (forall k, In k ks -> avail hash160 pub_of db k = true) ->
  ht_ok sighash (kwit kd) (ms_script m (map (pub pub_of) ks)) (effective_hash_type forkid hto) ->
  (f_std fl = true -> f_strictenc fl = true -> std_hash_type (effective_hash_type forkid hto)) ->
  (forall k, In k ks -> pub_enc_ok fl (kwit kd) (pub pub_of k) = true) ->
  (kwit kd = true -> cast_to_bool (sha256 (ms_script m (map (pub pub_of) ks))) = true) ->
  exists st, sign_input hash160 sha256 verifies sign pub_of sighash db p2sh forkid (pz_ms pub_of kd m ks) hto [] [] = Ret st /\
             VerifyScript o (spend_of hash160 sha256 fw ctx (pz_ms pub_of kd m ks) (fst st) (snd st)) = VOk tt.
Proof.
  intros Hstd forkid kd m ks db hto p2sh.
  exact (signed_multisig_valid_under_core hash160 sha256 verifies sign pub_of sighash sign_verifies sign_canonical sha256_len
           hash160_len pub_wellformed fl fw Hflags o Horacles ctx forkid kd m ks db hto p2sh Hstd).
Qed.

(* ... and under pycoin's own DEFAULT_FLAGS word (any word related to LAX), the flag set Solver.sign itself checks with:
   same hypotheses (those for the standard set fl give FindAndDelete inertness) *)
Theorem C05c_signed_input_valid_under_core_multisig_default_flags :
  f_std fl = true -> forall fw_lax, flags_rel LAX fw_lax ->
  forall (forkid : bool) (kd : kind) (m : nat) (ks : list keyspec) (db : lookup) (hto : option N) (p2sh : list bytes),
  ms_shape pub_of kd m ks -> p2sh_ok hash160 sha256 pub_of kd m ks p2sh -> db_ok hash160 pub_of db ks ->
  (forall k, In k ks -> avail hash160 pub_of db k = true) ->
  ht_ok sighash (kwit kd) (ms_script m (map (pub pub_of) ks)) (effective_hash_type forkid hto) ->
  (f_std fl = true -> f_strictenc fl = true -> std_hash_type (effective_hash_type forkid hto)) ->
  (forall k, In k ks -> pub_enc_ok fl (kwit kd) (pub pub_of k) = true) ->
  (kwit kd = true -> cast_to_bool (sha256 (ms_script m (map (pub pub_of) ks))) = true) ->
  exists st, sign_input hash160 sha256 verifies sign pub_of sighash db p2sh forkid (pz_ms pub_of kd m ks) hto [] [] = Ret st /\
             VerifyScript o (spend_of hash160 sha256 fw_lax ctx (pz_ms pub_of kd m ks) (fst st) (snd st)) = VOk tt.
Proof.
  intros Hstd fwl Hl forkid kd m ks db hto p2sh.
  exact (signed_multisig_valid_under_core_lax hash160 sha256 verifies sign pub_of sighash sign_verifies sign_canonical sha256_len
           hash160_len pub_wellformed fl o Horacles ctx fwl forkid kd m ks db hto p2sh Hstd Hl).
Qed.

(* C05_template_validates_single_key o soundness: P2PK, P2PKH, P2WPKH, P2SH-P2WPKH.  New hypotheses: the P2PKH hash
   does not read as a strictly encoded signature (FindAndDelete), the witness program (= key hash) is not all-zero. *)
Theorem C05c_signed_input_valid_under_core_single_key :
  f_std fl = true ->
  forall (forkid : bool) (kd : kind) (k : keyspec) (db : lookup) (hto : option N) (p2sh : list bytes),
  is_single_kind kd ->
  lookup_get db (hash160 (pub pub_of k)) = Some k ->
  (kd = K_P2SH_P2WPKH ->
   p2sh_get hash160 sha256 p2sh (hash160 (wit0_script (hash160 (pub pub_of k)))) = Some (wit0_script (hash160 (pub pub_of k)))) ->
  ht_ok sighash (single_wit kd) (single_sc hash160 pub_of kd k) (effective_hash_type forkid hto) ->
  (f_std fl = true -> f_strictenc fl = true -> std_hash_type (effective_hash_type forkid hto)) ->
  pub_enc_ok fl (single_wit kd) (pub pub_of k) = true ->
  (kd = K_P2PKH -> strict_der (hash160 (pub pub_of k)) = false) ->
  (single_wit kd = true -> cast_to_bool (hash160 (pub pub_of k)) = true) ->
  exists st, sign_input hash160 sha256 verifies sign pub_of sighash db p2sh forkid (pz_single hash160 pub_of kd k) hto [] [] = Ret st /\
             VerifyScript o (spend_of hash160 sha256 fw ctx (pz_single hash160 pub_of kd k) (fst st) (snd st)) = VOk tt.
Proof.
  intros Hstd forkid kd k db hto p2sh.
  exact (signed_single_key_valid_under_core hash160 sha256 verifies sign pub_of sighash sign_verifies sign_canonical sha256_len
           hash160_len pub_wellformed fl fw Hflags o Horacles ctx forkid kd k db hto p2sh Hstd).
Qed.

(* C05_partial_signing_order_free o completeness, all four multisig kinds: after ANY sequence of signing passes that
   supplied fewer than m listed keys, Core's VerifyScript rejects the input.  For the bare / P2SH kinds the reached
   states are shown push-only and FindAndDelete-inert from the signer model itself (Proofs/ComposeTemplatesReach.v). *)
Theorem C05c_too_few_keys_invalid_under_core :
  forall (forkid : bool) (p2sh : list bytes) (kd : kind) (m : nat) (ks : list keyspec),
  ms_ok verifies sign pub_of sighash kd m ks -> p2sh_ok hash160 sha256 pub_of kd m ks p2sh ->
  (forall k, In k ks -> pub_enc_ok fl (kwit kd) (pub pub_of k) = true) ->
  (kwit kd = true -> cast_to_bool (sha256 (ms_script m (map (pub pub_of) ks))) = true) ->
  no_collision hash160 sha256 (pz_ms pub_of kd m ks) ->
  forall passes : list pass,
  Forall (pass_ok hash160 pub_of sighash forkid kd m ks fl) passes ->
  (ncovered hash160 pub_of ks passes < m)%nat ->
  exists st, run hash160 sha256 verifies sign pub_of sighash forkid p2sh kd m ks passes ([], []) = Ret st /\
             VerifyScript o (spend_of hash160 sha256 fw ctx (pz_ms pub_of kd m ks) (fst st) (snd st)) <> VOk tt.
Proof.
  exact (too_few_keys_invalid_all hash160 sha256 verifies sign pub_of sighash sign_verifies sign_canonical sha256_len
           hash160_len pub_wellformed fl fw Hflags o Horacles ctx).
Qed.
End C05compose.

(* ---- computed inside Coq ------------------------------------------------------------------------------------------------ *)
(* Core's VerifyScript evaluated by the kernel on the states the signer model reaches on the toy instance (2-of-3, three
   kinds incl. bare and P2SH where FindAndDelete runs): invalid with one key, valid with two, both flag words *)
Example C05c_core_runs_on_toy_instance :
  toy_core (std_policy_word false) (toy_run []) = false /\
  toy_core (std_policy_word false) (toy_run [toy_pass1]) = false /\
  toy_core DEFAULT_FLAGS (toy_run [toy_pass1]) = false /\
  toy_core (std_policy_word false) (toy_run [toy_pass1; toy_pass2]) = true /\
  toy_core (std_policy_word false) (toy_run [toy_pass2; toy_pass1]) = true /\
  toy_core DEFAULT_FLAGS (toy_run [toy_pass1; toy_pass2]) = true.
Proof. exact toy_core_runs. Qed.
Example C05c_core_runs_on_toy_legacy :
  toy_core_kd K_MS (std_policy_word false) [toy_pass1] = false /\
  toy_core_kd K_MS (std_policy_word false) [toy_pass1; toy_pass2] = true /\
  toy_core_kd K_P2SH_MS (std_policy_word false) [toy_pass2] = false /\
  toy_core_kd K_P2SH_MS (std_policy_word false) [toy_pass2; toy_pass1] = true /\
  toy_core_kd K_P2WSH_MS (std_policy_word false) [toy_pass2; toy_pass1] = true.
Proof. exact toy_core_legacy_runs. Qed.

(* the three mismatches Templates.v / VMcore.v: inputs the template evaluator accepts and Core rejects, one per domain
   clause (FindAndDelete; element size; all-zero witness program).  Without the clause, soundness is FALSE. *)
Example C05c_mismatch_find_and_delete :
  eval_input t_hash160 t_sha256 mm1_verifies mm_sighash LAX mm1_pz mm1_ss [] = true /\
  VerifyScript (core_oracles t_hash160 t_sha256 mm1_verifies mm_sighash id_hash id_hash id_hash)
               (spend_of t_hash160 t_sha256 DEFAULT_FLAGS toy_ctx mm1_pz mm1_ss []) = VFail.
Proof. exact mismatch_find_and_delete. Qed.
Example C05c_mismatch_element_size :
  eval_input t_hash160 t_sha256 mm_true mm_sighash LAX mm2_pz mm2_ss [] = true /\
  VerifyScript (core_oracles t_hash160 t_sha256 mm_true mm_sighash id_hash id_hash id_hash)
               (spend_of t_hash160 t_sha256 DEFAULT_FLAGS toy_ctx mm2_pz mm2_ss []) = VFail.
Proof. exact mismatch_element_size. Qed.
Example C05c_mismatch_zero_witness_program :
  eval_input zero_hash160 t_sha256 mm_true mm_sighash LAX mm3_pz [] mm3_wit = true /\
  VerifyScript (core_oracles zero_hash160 t_sha256 mm_true mm_sighash id_hash id_hash id_hash)
               (spend_of zero_hash160 t_sha256 DEFAULT_FLAGS toy_ctx mm3_pz [] mm3_wit) = VFail.
Proof. exact mismatch_zero_program. Qed.

(* and why the converse needs `in_dom`: <sig> OP_NOP spends a P2PK output in Core, the evaluator answers false *)
Example C05c_converse_needs_push_only :
  eval_input t_hash160 t_sha256 mm_true mm_sighash LAX mm4_pz mm4_ss [] = false /\
  VerifyScript (core_oracles t_hash160 t_sha256 mm_true mm_sighash id_hash id_hash id_hash)
               (spend_of t_hash160 t_sha256 DEFAULT_FLAGS toy_ctx mm4_pz mm4_ss []) = VOk tt.
Proof. exact converse_needs_push_only. Qed.

Print Assumptions C05c_oracle_instance.
Print Assumptions C05c_flag_words.
Print Assumptions C05c_encoding_rules_agree.
Print Assumptions C05c_templates_sound.
Print Assumptions C05c_templates_complete.
Print Assumptions C05c_templates_agree.
Print Assumptions C05c_std_fad_inert.
Print Assumptions C05c_signed_input_valid_under_core_multisig.
Print Assumptions C05c_signed_input_valid_under_core_multisig_default_flags.
Print Assumptions C05c_signed_input_valid_under_core_single_key.
Print Assumptions C05c_too_few_keys_invalid_under_core.
Print Assumptions C05c_core_runs_on_toy_instance.
Print Assumptions C05c_core_runs_on_toy_legacy.
Print Assumptions C05c_mismatch_find_and_delete.
Print Assumptions C05c_mismatch_element_size.
Print Assumptions C05c_mismatch_zero_witness_program.
Print Assumptions C05c_converse_needs_push_only.
