(* Props/C13compose.v — C13 composed with C07: fee="standard" with the byte count computed by C07's model of Tx.stream
   instead of being an argument measured on the implementation.  Only statements; every proof is `exact <lemma>`
   (lemmas in Proofs/ComposeTxBuildWire.v; closed models in Model/TxBuildWire.v).

     recommended_fee_for_tx t = TX_FEE_PER_THOUSAND_BYTES * ((999 + len(Tx.stream(t))) // 1000)
     create_tx_wire           = tx_utils.create_tx   (Tx(...), set_unspents, distribute_from_split_pool)
     streamable t             = C07's tx_wf on the embedded transaction: version / lock_time / index / sequence in u32,
                                amounts in u64, 32-byte outpoint hashes (what struct.pack accepts without struct.error)

   What the composition adds to Props/C13.v:
   * the byte count is the length of the Bitcoin *legacy wire form* (Spec/TxWireSpec.v), with a closed formula;
   * amounts are fixed-width, so the size of what create_tx returns equals the size of the half-built transaction the
     fee was computed on: the fee charged by fee="standard" is the recommended fee OF THE RESULT (the source comment
     "the tx is not fully built out, so it will actually be larger" does not apply to the unsigned transaction);
   * conservation, the ValueError boundary and the outcome list hold with no parameter left; struct.error is the only
     new outcome, only for fee="standard", and is raised before anything is distributed. *)
From PV Require Import Base.Bytes Base.Outcome Base.Varint Gen.GenTxBuild.
From PV Require Import Model.TxBuild Model.TxBuildWire Proofs.TxBuildP Proofs.ComposeTxBuildWire.
Local Open Scope Z_scope.

Theorem C13c_stream_len_is_legacy_wire_size : forall t, streamable t -> stream_len t = Ret (wire_size t).
Proof. exact stream_len_spec. Qed.
Print Assumptions C13c_stream_len_is_legacy_wire_size.

Theorem C13c_recommended_fee_for_tx : forall t, streamable t ->
  recommended_fee_for_tx t = Ret (recommended_fee (wire_size t)).
Proof. exact recommended_fee_for_tx_spec. Qed.
Print Assumptions C13c_recommended_fee_for_tx.

Theorem C13c_wire_size_closed_form : forall t,
  wire_size t = 4 + cs_len (zlen (t_ins t)) + zsum (map in_size (t_ins t))
                  + cs_len (zlen (t_outs t)) + zsum (map out_size (t_outs t)) + 4.
Proof. exact wire_size_closed_form. Qed.
Print Assumptions C13c_wire_size_closed_form.

Theorem C13c_distribution_keeps_size : forall t outs',
  Forall2 out_preserved (t_outs t) outs' -> wire_size (set_outs t outs') = wire_size t.
Proof. exact wire_size_outs_preserved. Qed.
Print Assumptions C13c_distribution_keeps_size.

Theorem C13c_create_tx_is_create_tx_at_wire_size : forall sps pays fe lt ver,
  streamable (initial_tx sps pays lt ver) ->
  create_tx_wire sps pays fe lt ver =
  create_tx (fun _ => wire_size (initial_tx sps pays lt ver)) sps pays fe lt ver.
Proof. exact create_tx_wire_streamable. Qed.
Print Assumptions C13c_create_tx_is_create_tx_at_wire_size.

Theorem C13c_create_tx_conserves : forall sps pays fe lt ver t,
  streamable (initial_tx sps pays lt ver) \/ (exists f, fe = FeeInt f) ->
  create_tx_wire sps pays fe lt ver = Ret t -> 0 < pool_size pays ->
  let f := charged_fee sps pays fe lt ver in
  total_out t + f = spendables_total sps /\
  Forall (fun v => 1 <= v) (pool_values (map payable_txout pays) (t_outs t)) /\
  Forall2 out_preserved (map payable_txout pays) (t_outs t).
Proof. exact create_tx_wire_conserves. Qed.
Print Assumptions C13c_create_tx_conserves.

Theorem C13c_result_size_is_initial_size : forall sps pays fe lt ver t,
  create_tx_wire sps pays fe lt ver = Ret t -> wire_size t = wire_size (initial_tx sps pays lt ver).
Proof. exact create_tx_wire_size. Qed.
Print Assumptions C13c_result_size_is_initial_size.

Theorem C13c_standard_fee_is_fee_of_result : forall sps pays lt ver t,
  create_tx_wire sps pays FeeStandard lt ver = Ret t -> 0 < pool_size pays -> tx_is_coinbase t = false ->
  streamable t ->
  fee t = Ret (recommended_fee (wire_size t)) /\ recommended_fee_for_tx t = Ret (recommended_fee (wire_size t)).
Proof. exact standard_fee_is_fee_of_result. Qed.
Print Assumptions C13c_standard_fee_is_fee_of_result.

Theorem C13c_create_tx_outcomes : forall sps pays fe lt ver,
  streamable (initial_tx sps pays lt ver) \/ (exists f, fe = FeeInt f) ->
  (exists t, create_tx_wire sps pays fe lt ver = Ret t) \/ create_tx_wire sps pays fe lt ver = Raise E_VALUE.
Proof. exact create_tx_wire_outcomes. Qed.
Print Assumptions C13c_create_tx_outcomes.

Theorem C13c_create_tx_value_error_iff : forall sps pays fe lt ver,
  streamable (initial_tx sps pays lt ver) \/ (exists f, fe = FeeInt f) ->
  (create_tx_wire sps pays fe lt ver = Raise E_VALUE <->
   (0 < pool_size pays /\
    let remaining := spendables_total sps - (payables_total pays + charged_fee sps pays fe lt ver) in
    (remaining < 0 \/ remaining < pool_size pays))).
Proof. exact create_tx_wire_value_error_iff. Qed.
Print Assumptions C13c_create_tx_value_error_iff.

Theorem C13c_int_fee_never_struct_error : forall sps pays f lt ver,
  create_tx_wire sps pays (FeeInt f) lt ver <> Raise E_STRUCT.
Proof. exact create_tx_wire_int_fee_never_struct. Qed.
Print Assumptions C13c_int_fee_never_struct_error.

(* non-vacuity: a concrete fee="standard" construction (two inputs, two pool outputs and one fixed output) *)
Theorem C13c_example_standard :
  exists t, create_tx_wire ex_sps ex_pays FeeStandard 0 1 = Ret t /\
            map o_value (t_outs t) = [2529500; 1000; 2529500] /\
            stream_len t = Ret 124 /\ fee t = Ret 10000 /\ recommended_fee_for_tx t = Ret 10000.
Proof. exact ex_standard. Qed.
Print Assumptions C13c_example_standard.
