(* Props/C18compose.v — C18 composed with C11: the text-level re-serialisation theorem of Props/C18.v (C18_reserialize_text)
   with the Base58Check decoder/encoder pair instantiated by C11's finished model and the hypothesis
   `forall d, b58 (b58enc d) = Some d` discharged from C11's theorem.  Only statements; every proof is
   `exact <lemma of Proofs/ComposeCodecC18.v / ComposeCodecB58.v>`.

   C18's `text` = list of code points = C11's `pystr`: no conversion.  C18's decoder parameter is the UNCACHED decoder,
   outcome-valued (parseable_str.cache is modelled in Model/ParseText.v): c11_dec H s := Ret (c11_a2b_hashed H s)
   (Proofs/ComposeCodecC18.v; C11's model of the decoder never raises).
     c11_a2b_hashed H t = parse_b58_hashed(t) = parseable_str.parse_b58_double_sha256 (C11's btc_parse_b58_double_sha256 H)
     c11_b2a_hashed H d = b2a_hashed_base58(d)                                        (C11's btc_b2a_hashed_base58 H)
   H is an arbitrary function; the only fact used is that it returns 32 bytes; C18c_reserialize_same_text needs nothing.
   (The Bech32 parameter of C18 does not occur in C18_reserialize_text; C18's segwit re-serialisation theorem is stated on
   the decoded tuple and has no codec hypothesis.) *)
From Coq Require Import List NArith ZArith String Bool.
From Coq Require Import Strings.Byte.
From PV Require Import Base.Bytes Base.Outcome Gen.GenParsePrefixes Model.ParseText Proofs.ParseTextP
  Proofs.ComposeCodecB58 Proofs.ComposeCodecC18.
Import ListNotations.
Local Open Scope Z_scope.

(* the codec hypothesis of C18_reserialize_text, discharged *)
Theorem C18c_codec_hypothesis : forall (H : bytes -> bytes), (forall x, (4 <= length (H x))%nat) ->
  forall d, c11_a2b_hashed H (c11_b2a_hashed H d) = Some d.
Proof. exact c11_hashed_roundtrip. Qed.
Print Assumptions C18c_codec_hypothesis.

(* C18_reserialize_text with no codec hypothesis *)
Theorem C18c_reserialize_text : forall (H : bytes -> bytes), (forall x, length (H x) = 32%nat) ->
  forall mulG modsqrt net (s : text) o,
  (p2pkh (c11_dec H) net s = Ret (Some o) ->
     exists d, p2pkh_payload net o = Some d /\ p2pkh (c11_dec H) net (c11_b2a_hashed H d) = Ret (Some o)) /\
  (p2sh (c11_dec H) net s = Ret (Some o) ->
     exists d, p2sh_payload net o = Some d /\ p2sh (c11_dec H) net (c11_b2a_hashed H d) = Ret (Some o)) /\
  (wif (c11_dec H) mulG net s = Ret (Some o) ->
     exists d, wif_payload net o = Some d /\ wif (c11_dec H) mulG net (c11_b2a_hashed H d) = Ret (Some o)) /\
  (forall kind, hd_prefixes_ok net kind -> hd_any (c11_dec H) mulG modsqrt net kind s = Ret (Some o) ->
     exists d, hd_payload net o = Some d /\ hd_any (c11_dec H) mulG modsqrt net kind (c11_b2a_hashed H d) = Ret (Some o)).
Proof. exact compose_text_reserialize. Qed.
Print Assumptions C18c_reserialize_text.

(* new with the composition (any function H): for addresses and WIF the object's payload encodes to the very text that was
   parsed — Base58Check accepts only the canonical spelling.  (Extended keys are excluded on purpose: the serialiser
   chooses the prefix by the node's privacy, see C18_reserialize_hd_payload and the open bip32_pub finding.) *)
Theorem C18c_reserialize_same_text : forall (H : bytes -> bytes) mulG net (s : text) o,
  (p2pkh (c11_dec H) net s = Ret (Some o) -> exists d, p2pkh_payload net o = Some d /\ c11_b2a_hashed H d = s) /\
  (p2sh (c11_dec H) net s = Ret (Some o) -> exists d, p2sh_payload net o = Some d /\ c11_b2a_hashed H d = s) /\
  (wif (c11_dec H) mulG net s = Ret (Some o) -> exists d, wif_payload net o = Some d /\ c11_b2a_hashed H d = s).
Proof. exact compose_reserialize_same_text. Qed.
Print Assumptions C18c_reserialize_same_text.

(* non-vacuity: under a constant 32-byte hash the Bitcoin row accepts the encoding of version byte 00 + twenty bytes as a
   P2PKH contract *)
Example C18c_example :
  let H := fun _ : bytes => repeatb x00 32 in
  (forall x, length (H x) = 32%nat) /\
  exists o, p2pkh (c11_dec H) btc_cfg (c11_b2a_hashed H (x00 :: repeatb x11 20)) = Ret (Some o).
Proof. split; [reflexivity|]. eexists. vm_compute. reflexivity. Qed.
