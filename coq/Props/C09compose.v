(* Props/C09compose.v — C09 composed with C11: the extended-key TEXT round trip of Props/C09.v (C09_text_roundtrip) with the
   Base58Check codec parameters (b58enc, b58dec, indexed by the checksum-codec id of the row) instantiated by C11's
   finished model, and the hypothesis b58_roundtrip discharged from C11's theorem.  Only statements; every proof is
   `exact <lemma of Proofs/ComposeCodecC09.v>`.

     c09_b58enc chk_hash c d = b2a_hashed_base58(d) with the checksum function of codec c, as UTF-8 bytes
     c09_b58dec chk_hash c s = parse_b58_hashed(s) with the checksum function of codec c
   (C11's btc_b2a_hashed_base58 / btc_parse_b58_double_sha256 over `chk_hash c`, through the str <-> bytes conversion of
   Proofs/ComposeCodecB58.v).  chk_hash is ARBITRARY per codec id (0 = double SHA-256; 1 = groestl, the GRS rows): the
   only fact used is that every chk_hash c returns 32 bytes.  The remaining hypotheses are those of C09_text_roundtrip
   itself (group order, point encoding); the group addition, HMAC, hash160 and retry fuel do not occur any more. *)
From Coq Require Import List ZArith NArith Bool String.
From Coq Require Import Strings.Byte.
From PV Require Import Base.Bytes Base.Outcome Gen.GenBip32Prefixes Model.Bip32 Spec.Bip32Spec Proofs.Bip32P
  Proofs.ComposeCodecB58 Proofs.ComposeCodecC09.
Import ListNotations.
Local Open Scope Z_scope.

(* the hypothesis b58_roundtrip of Props/C09.v, discharged, per codec id *)
Theorem C09c_b58_roundtrip : forall (chk_hash : N -> bytes -> bytes), (forall c x, length (chk_hash c x) = 32%nat) ->
  forall c b, c09_b58dec chk_hash c (c09_b58enc chk_hash c b) = Some b.
Proof. exact c09_b58_roundtrip. Qed.
Print Assumptions C09c_b58_roundtrip.

(* ... and conversely the parser's Base58Check layer accepts only the canonical text (any chk_hash) *)
Theorem C09c_b58_canonical : forall (chk_hash : N -> bytes -> bytes) c s d,
  c09_b58dec chk_hash c s = Some d -> c09_b58enc chk_hash c d = s.
Proof. exact c09_b58_canonical. Qed.
Print Assumptions C09c_b58_canonical.

(* the representation of str (UTF-8 bytes here, code points in C11) is the faithful one *)
Theorem C09c_b58dec_faithful : forall (chk_hash : N -> bytes -> bytes) c (t : Base58.pystr) (s : bytes),
  Base58.utf8_encode t = Ret s -> c09_b58dec chk_hash c s = Base58.btc_parse_b58_double_sha256 (chk_hash c) t.
Proof. exact (fun chk_hash c => cc_b58check_decode_faithful (chk_hash c)). Qed.
Print Assumptions C09c_b58dec_faithful.

Theorem C09c_b58enc_faithful : forall (chk_hash : N -> bytes -> bytes) c (d : bytes),
  exists t, Base58.btc_b2a_hashed_base58 (chk_hash c) d = Ret t /\ Base58.utf8_encode t = Ret (c09_b58enc chk_hash c d).
Proof. exact (fun chk_hash c => cc_b58check_encode_faithful (chk_hash c)). Qed.
Print Assumptions C09c_b58enc_faithful.

(* C09_text_roundtrip with no codec hypothesis: every row of the regenerated table (all networks x bip32/49/84, GRS included) *)
Theorem C09c_text_roundtrip :
  forall (pt : Type) (pO : pt) (smul : Z -> pt -> pt) (pG : pt) (order : Z) (pt_eqb : pt -> pt -> bool)
         (sec : pt -> bytes) (unsec : bytes -> outcome pt) (chk_hash : N -> bytes -> bytes),
  1 < order <= 2 ^ 256 ->
  (forall a, smul a pG = pO <-> a mod order = 0) ->
  (forall P Q, pt_eqb P Q = true <-> P = Q) ->
  (forall P, P <> pO -> length (sec P) = 33%nat) ->
  (forall P, P <> pO -> exists b r, sec P = b :: r /\ b <> x00) ->
  (forall P, P <> pO -> unsec (sec P) = Ret P) ->
  (forall c x, length (chk_hash c x) = 32%nat) ->
  forall r (nd : node pt) (ap : bool),
  In r bip_prefix_table -> wf_node pt pO smul pG order nd -> ser_ok pt nd -> (ap = true -> nd_secret pt nd <> None) ->
  exists text, hwif pt sec (c09_b58enc chk_hash) (row_net r) nd ap = Ret text /\
    hparse pt pO smul pG order pt_eqb unsec (c09_b58dec chk_hash) (row_net r) ap text = Ret (Some (shown pt nd ap)) /\
    hparse pt pO smul pG order pt_eqb unsec (c09_b58dec chk_hash) (row_net r) (negb ap) text = Ret None /\
    parse_hd pt pO smul pG order pt_eqb unsec (c09_b58dec chk_hash) (row_net r) text = Ret (Some (shown pt nd ap)).
Proof. exact compose_text_roundtrip. Qed.
Print Assumptions C09c_text_roundtrip.

(* ---- non-vacuity ---- *)
(* all hypotheses hold together in the toy instance of Proofs/Bip32P.v with a constant 32-byte checksum function *)
Example C09c_hypotheses_satisfiable : forall r, In r bip_prefix_table ->
  exists text, hwif bool Toy.sec (c09_b58enc (fun _ _ => repeatb x00 32)) (row_net r) Toy.root true = Ret text.
Proof.
  intros r Hr.
  destruct (C09c_text_roundtrip bool false Toy.smul true 2 Bool.eqb Toy.sec Toy.unsec (fun _ _ => repeatb x00 32)
              Toy.order_range Toy.smul_zero Toy.pt_eqb_spec Toy.sec_len Toy.sec_head Toy.unsec_sec (fun _ _ => eq_refl)
              r Toy.root true Hr Toy.root_wf ltac:(split; [split; [reflexivity|reflexivity]|split; [discriminate|reflexivity]])
              ltac:(discriminate)) as (text & E & _).
  exists text. exact E.
Qed.
(* a computed instance: Bitcoin's xprv/xpub prefixes, toy group: 111 characters, and the text parses back *)
Example C09c_computed_example :
  let net := mkBipnet (Some [x04; x88; xad; xe4]) (Some [x04; x88; xb2; x1e]) (Some [x04; x88; xad; xe4]) (Some [x04; x88; xb2; x1e]) 0 0 in
  let enc := c09_b58enc (fun _ _ => repeatb x00 32) in let dec := c09_b58dec (fun _ _ => repeatb x00 32) in
  exists text, hwif bool Toy.sec enc net Toy.root true = Ret text /\ length text = 111%nat /\
    parse_hd bool false Toy.smul true 2 Bool.eqb Toy.unsec dec net text = Ret (Some Toy.root).
Proof. eexists. split; [vm_compute; reflexivity|]. split; vm_compute; reflexivity. Qed.
