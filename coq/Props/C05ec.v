(* Props/C05ec.v — composition C05 x C01 x C02 x C10: property C05 (signing standard inputs) with its abstract ECDSA
   interface INSTANTIATED by the finished models of what pycoin runs on secp256k1, and its interface hypotheses replaced by
   explicit domain conditions.  Only statements; every proof is `exact <lemma of Proofs/ComposeEcC05.v, ComposeRelC05.v>`.

   Props/C05.v quantifies over  verifies / sign / pub_of  and ASSUMES (for every secret, every digest)
       sign_verifies    verifies (pub_of se c) d (sign se d) = true
       sign_canonical   strict_der (sign se d ++ [t]) = true /\ low_s (sign se d ++ [t]) = true
       pub_wellformed   is_compressed (pub_of se true) = true /\ is_uncompressed (pub_of se false) = true.
   Here (Proofs/ComposeEcC05.v; `bz` = int.from_bytes(., "big"); G = the shipped secp256k1 generator, ANY blinding factor;
   group = E[n] of C02's curve model computed with C02's Curve.add / Curve.multiply)
       pub_of se c      = ec_pub_of blind se c            public_pair_to_sec(se * G, compressed=c)           (C02, C10 Model/Sec.v)
       sign se d        = ec_sign blind hmac kfuel fuel   r, s = generator.sign(se, d) with the RFC 6979 nonce (hmac = HMAC-SHA256,
                                                          digest size 32); if s + s > n: s = n - s; der.sigencode_der(r, s)
                                                                                                (C01 Model/Ecdsa.v, Rfc6979.v, C10 Model/Der.v)
       verifies pk d sg = ec_verifies blind strict        der.sigdecode_der(sg, use_broken_open_ssl_mechanism=True),
                                                          sec_to_public_pair(pk, generator, strict), generator.verify(.., d, (r, s));
                                                          UnexpectedDER / ValueError / EncodingError / NoSuchPointError = False
   (C05ec_instance_is_the_code spells the three definitions out), `strict` is sec_to_public_pair's flag — True in
   _find_signatures, the STRICTENC bit in checksig — and every theorem holds for both values; kfuel / fuel bound the two
   `while` loops of signing (RFC 6979 retry, k += 1).  All mathematical premises about the curve (p, n prime, associativity,
   n*G = O) are the theorems of Props/C01compose.v: NOTHING about secp256k1 is assumed.  What remains quantified:
   hash160 / sha256 (with their length laws), hmac (no law needed), sighash (the digest function, property C04).

   WHAT THE COMPOSITION FOUND.  The three hypotheses of Props/C05.v are FALSE for the real instance as stated:
     * at the zero digest sign raises ValueError and verify answers False        (C05ec_zero_digest_refused)
     * a secret that is a multiple of n has no public key                         (C05ec_zero_secret_has_no_key)
     * sign returns only if its two loops terminate within the fuel; C01 proves that it cannot RAISE for a secret in
       [0, n-1] and a digest 0 < z < 2^256, not that it returns                   (C05ec_sign_returns_or_diverges)
   and mo_excl of C05_partial_signing_order_free ("a signature of one listed key verifies under no other listed key", for
   EVERY digest) is not a fact about ECDSA: a valid (r, s) on z under Q, with verification point R, is also valid on z under
   the second key Q' = -(2z/r) G - Q (its verification point is -R, same abscissa); whether a listed key happens to be
   that Q' depends on z, so the statement can hold for the digests of an input, not for all 2^256 of them.
   They are TRUE where the signer uses them (C05ec_sign_verifies / _sign_canonical / _pub_wellformed):
       secret_ok se      1 <= bz se < n           what Key(secret_exponent=..) accepts (C10_key_range)
       ec_signs .. se d  generator.sign(se, d) returns (implies bz d <> 0; by the third bullet it can only fail by running
                         out of fuel when the secret is in range and 0 < bz d < 2^256).
   Proofs/ComposeRelC05.v re-derives C05's theorems from the hypotheses RESTRICTED to the listed keys and to the digests
   the coin can produce for the input's own script code (`produced sighash W SC d`: d = sighash W t SC for a hash type
   t < 256) — C05rel_* below, for an arbitrary interface; no proof of Proofs/SolveP.v is redone (the model cannot tell an
   interface that is good on that domain from a total one).  C05ec_* are those theorems at the real instance:
       keys_ok ks                 every listed secret is in [1, n-1]
       signs_on .. ks W SC        generator.sign returns for every listed key on every produced digest
   replace sign_verifies / sign_canonical / pub_wellformed.  For partial signing, "the placeholder verifies under no listed
   key" (mo_ph) is PROVED for the real instance (C05ec_placeholder_never_verifies); exclusivity between listed keys on the
   produced digests (excl_on) remains a hypothesis, now about the concrete functions (no longer about an abstract signer).
   One modelling caveat, inherited from Props/C01compose.v: a public key ON the curve but OUTSIDE E[n] is answered like an
   off-curve key (False).  No such point exists on secp256k1 (cofactor 1); that fact is not proved and not used. *)
From Coq Require Import ZArith List.
From PV Require Import Base.Bytes Base.Outcome Gen.GenCurves Gen.GenSolveC05 Spec.Templates Model.Solve Model.Ecdsa Model.Rfc6979
  Model.Der Model.Sec Proofs.SolveP Proofs.ComposeEcInst Proofs.ComposeEcC01 Proofs.ComposeRelC05 Proofs.ComposeEcC05.
From PV Require Import Spec.VMTypes Spec.VMcore Proofs.ComposeTemplatesEnc Proofs.ComposeTemplates Proofs.ComposeEcCoreC05.
From PV Require Import Model.Sighash Proofs.ComposeEcSighashC05.
Import ListNotations.
Local Open Scope N_scope.

(* ================================ the instance ================================ *)
Section Instance.
Variable blind : Z.
Variable hmac : bytes -> bytes -> bytes.
Variable kfuel fuel : nat.
Variable strict : bool.
Local Notation c := secp256k1_curve.
Local Notation G := (eG (secp256k1_gen blind)).
Local Notation n := secp256k1_n.

(* the instance, spelled out: exactly the calls of signing_solver / checksigops on the neighbours' models *)
Theorem C05ec_instance_is_the_code :
  (forall se comp, ec_pub_out blind se comp = sec_of_coords (ecoords (esmul c (bz se) G)) comp) /\
  (forall se d, ec_sign_out blind hmac kfuel fuel se d =
     bind (Ecdsa.sign (ept c) (esmul c) G n ecoords (deterministic_generate_k hmac 32 kfuel) fuel (bz se) (bz d))
          (fun rs => let '(r, s) := rs in sigencode_der r (if (n <? s + s)%Z then (n - s)%Z else s))) /\
  (forall pk d sig, ec_verify_out blind strict pk d sig =
     bind (sigdecode_der sig true) (fun rs => let '(r, s) := rs in
     bind (Sec.sec_to_public_pair secp256k1_p secp256k1_a secp256k1_b pk strict) (fun pr =>
     Ecdsa.verify (ept c) (eadd c) (esmul c) G n ecoords (ec_key pr) (bz d) r s))) /\
  (forall se comp, ec_pub_of blind se comp = ret_or [] (ec_pub_out blind se comp)) /\
  (forall se d, ec_sign blind hmac kfuel fuel se d = ret_or [] (ec_sign_out blind hmac kfuel fuel se d)) /\
  (forall pk d sig, ec_verifies blind strict pk d sig = ret_or false (ec_verify_out blind strict pk d sig)).
Proof. exact (ec_instance_unfold blind strict hmac kfuel fuel). Qed.

(* ---- the three interface hypotheses of Props/C05.v, on the domain where they are true ---- *)
Theorem C05ec_sign_verifies : forall se comp d, secret_ok se -> ec_signs blind hmac kfuel fuel se d ->
  ec_verifies blind strict (ec_pub_of blind se comp) d (ec_sign blind hmac kfuel fuel se d) = true.
Proof. exact (ec_sign_verifies blind strict hmac kfuel fuel). Qed.

Theorem C05ec_sign_canonical : forall se d t, ec_signs blind hmac kfuel fuel se d ->
  strict_der (ec_sign blind hmac kfuel fuel se d ++ [t]) = true /\ low_s (ec_sign blind hmac kfuel fuel se d ++ [t]) = true.
Proof. exact (ec_sign_canonical blind hmac kfuel fuel). Qed.

Theorem C05ec_pub_wellformed : forall se, secret_ok se ->
  is_compressed (ec_pub_of blind se true) = true /\ is_uncompressed (ec_pub_of blind se false) = true.
Proof. exact (ec_pub_wellformed blind). Qed.

(* what a returned signature is: DER(r, s) with 1 <= r < n, 1 <= s <= n/2, valid for the digest under se * G *)
Theorem C05ec_signature_spec : forall se d sig, ec_sign_out blind hmac kfuel fuel se d = Ret sig ->
  exists r s : Z, (1 <= r < n)%Z /\ (1 <= s)%Z /\ (2 * s <= n)%Z /\ sigencode_der r s = Ret sig /\
    Ecdsa.verify (ept c) (eadd c) (esmul c) G n ecoords (Some (esmul c (bz se) G)) (bz d) r s = Ret true.
Proof. exact (ec_sign_spec blind hmac kfuel fuel). Qed.

(* mo_ph of C05_partial_signing_order_free is a THEOREM for the real instance: pycoin's placeholder signature is
   DER(n - 1, (n - 1)/2) and n - 1 is not the abscissa of any point of secp256k1 ((n-1)^3 + 7 is a quadratic non-residue
   mod p: Euler's criterion computed, Fermat from the proved primality of p), so it verifies under NO key, for NO digest *)
Theorem C05ec_placeholder_never_verifies : forall pk d,
  ec_verifies blind strict pk d (removelast gen_c05_placeholder) = false.
Proof. exact (ec_placeholder_never_verifies blind strict). Qed.

(* ---- and where they are false ---- *)
Theorem C05ec_zero_digest_refused : forall se d, bz d = 0%Z ->
  ec_sign_out blind hmac kfuel fuel se d = Raise E_VALUE /\ forall pk sig, ec_verifies blind strict pk d sig = false.
Proof. exact (ec_zero_digest blind strict hmac kfuel fuel). Qed.

Theorem C05ec_zero_secret_has_no_key : forall se comp, (bz se mod n = 0)%Z ->
  ec_pub_out blind se comp = Raise E_TYPE /\ ec_pub_of blind se comp = [].
Proof. exact (ec_pub_zero blind). Qed.

(* in range signing never raises (C01c_secp256k1_sign_never_raises_unconditional + C10's encoder): it returns or diverges *)
Theorem C05ec_sign_returns_or_diverges : forall se d, (0 <= bz se < n)%Z -> digest_ok d ->
  ec_signs blind hmac kfuel fuel se d \/ ec_sign_out blind hmac kfuel fuel se d = OutOfFuel.
Proof. exact (ec_signs_or_diverges blind hmac kfuel fuel). Qed.
End Instance.

(* non-vacuity of the domain conditions: secret 1 and digest 1 are in range, and with an hmac whose RFC 6979 nonce is 1
   (nonce and residues computed, C01c_secp256k1_sign_is_rfc6979_unconditional) generator.sign returns *)
Example C05ec_domain_inhabited : forall (blind : Z) (fuel : nat),
  secret_ok [x01] /\ digest_ok [x01] /\ ec_signs blind const_hmac 1 (S fuel) [x01] [x01].
Proof. exact domain_inhabited. Qed.

(* ================================ C05 under restricted interface hypotheses (any interface) ================================ *)
Section C05rel.
Variable hash160 : bytes -> bytes.
Variable sha256 : bytes -> bytes.
Variable verifies : bytes -> bytes -> bytes -> bool.
Variable sign : bytes -> bytes -> bytes.
Variable pub_of : bytes -> bool -> bytes.
Variable sighash : bool -> N -> bytes -> option bytes.
Hypothesis sha256_len : forall x, length (sha256 x) = 32%nat.
Hypothesis hash160_len : forall x, length (hash160 x) = 20%nat.

(* sv_on / canon_on / pubwf_on ks W SC: sign_verifies / sign_canonical / pub_wellformed for the secrets of ks and the
   digests d = sighash W t SC, t < 256, only *)
Theorem C05rel_template_validates_multisig :
  forall (fl : flags) (forkid : bool) (kd : kind) (m : nat) (ks : list keyspec) (db : lookup) (hto : option N) (p2sh : list bytes),
  sv_on verifies sign pub_of sighash ks (kwit kd) (ms_script m (map (pub pub_of) ks)) ->
  canon_on sign sighash ks (kwit kd) (ms_script m (map (pub pub_of) ks)) ->
  ms_shape pub_of kd m ks -> p2sh_ok hash160 sha256 pub_of kd m ks p2sh -> db_ok hash160 pub_of db ks ->
  (forall k, In k ks -> avail hash160 pub_of db k = true) ->
  ht_ok sighash (kwit kd) (ms_script m (map (pub pub_of) ks)) (effective_hash_type forkid hto) ->
  (f_std fl = true -> f_strictenc fl = true -> std_hash_type (effective_hash_type forkid hto)) ->
  (forall k, In k ks -> pub_enc_ok fl (kwit kd) (pub pub_of k) = true) ->
  exists st, sign_input hash160 sha256 verifies sign pub_of sighash db p2sh forkid (pz_ms pub_of kd m ks) hto [] [] = Ret st /\
             eval_input hash160 sha256 verifies sighash fl (pz_ms pub_of kd m ks) (fst st) (snd st) = true.
Proof. exact (rel_ms_validates hash160 sha256 verifies sign pub_of sighash sha256_len). Qed.

Theorem C05rel_template_validates_single_key :
  forall (fl : flags) (forkid : bool) (kd : kind) (k : keyspec) (db : lookup) (hto : option N) (p2sh : list bytes),
  sv_on verifies sign pub_of sighash [k] (single_wit kd) (single_sc hash160 pub_of kd k) ->
  canon_on sign sighash [k] (single_wit kd) (single_sc hash160 pub_of kd k) ->
  pubwf_on pub_of [k] ->
  is_single_kind kd ->
  lookup_get db (hash160 (pub pub_of k)) = Some k ->
  (kd = K_P2SH_P2WPKH ->
   p2sh_get hash160 sha256 p2sh (hash160 (wit0_script (hash160 (pub pub_of k)))) = Some (wit0_script (hash160 (pub pub_of k)))) ->
  ht_ok sighash (single_wit kd) (single_sc hash160 pub_of kd k) (effective_hash_type forkid hto) ->
  (f_std fl = true -> f_strictenc fl = true -> std_hash_type (effective_hash_type forkid hto)) ->
  pub_enc_ok fl (single_wit kd) (pub pub_of k) = true ->
  exists st, sign_input hash160 sha256 verifies sign pub_of sighash db p2sh forkid (pz_single hash160 pub_of kd k) hto [] [] = Ret st /\
             eval_input hash160 sha256 verifies sighash fl (pz_single hash160 pub_of kd k) (fst st) (snd st) = true.
Proof. exact (rel_single_validates hash160 sha256 verifies sign pub_of sighash hash160_len). Qed.

(* excl_on: exclusivity between listed keys on the produced digests only; ph_on = mo_ph of Props/C05.v *)
Theorem C05rel_partial_signing_order_free :
  forall (forkid : bool) (p2sh : list bytes) (kd : kind) (m : nat) (ks : list keyspec) (fl0 : flags),
  sv_on verifies sign pub_of sighash ks (kwit kd) (ms_script m (map (pub pub_of) ks)) ->
  canon_on sign sighash ks (kwit kd) (ms_script m (map (pub pub_of) ks)) ->
  ms_shape pub_of kd m ks ->
  excl_on verifies sign pub_of sighash ks (kwit kd) (ms_script m (map (pub pub_of) ks)) ->
  ph_on verifies pub_of sighash ks (kwit kd) (ms_script m (map (pub pub_of) ks)) ->
  p2sh_ok hash160 sha256 pub_of kd m ks p2sh ->
  (forall k, In k ks -> pub_enc_ok fl0 (kwit kd) (pub pub_of k) = true) ->
  forall passes : list pass,
  Forall (pass_ok hash160 pub_of sighash forkid kd m ks fl0) passes ->
  exists st, run hash160 sha256 verifies sign pub_of sighash forkid p2sh kd m ks passes ([], []) = Ret st /\
             (eval_input hash160 sha256 verifies sighash fl0 (pz_ms pub_of kd m ks) (fst st) (snd st) = true <->
              (m <= ncovered hash160 pub_of ks passes)%nat).
Proof. exact (rel_partial_signing_order_free hash160 sha256 verifies sign pub_of sighash sha256_len). Qed.

(* the unrestricted hypotheses of Props/C05.v imply the restricted ones: C05rel_* generalise C05_* *)
Theorem C05rel_generalises_C05 :
  (forall se c d, verifies (pub_of se c) d (sign se d) = true) ->
  (forall se d t, strict_der (sign se d ++ [t]) = true /\ low_s (sign se d ++ [t]) = true) ->
  (forall se, is_compressed (pub_of se true) = true /\ is_uncompressed (pub_of se false) = true) ->
  forall ks W SC, sv_on verifies sign pub_of sighash ks W SC /\ canon_on sign sighash ks W SC /\ pubwf_on pub_of ks.
Proof. exact (rel_from_unrestricted verifies sign pub_of sighash). Qed.
End C05rel.

(* ================================ C05 at the real ECDSA ================================ *)
Section C05ec.
Variable hash160 : bytes -> bytes.
Variable sha256 : bytes -> bytes.
Variable hmac : bytes -> bytes -> bytes.                      (* HMAC-SHA256; no law is needed *)
Variable sighash : bool -> N -> bytes -> option bytes.        (* witness v0?, hash type, script code -> digest *)
Hypothesis sha256_len : forall x, length (sha256 x) = 32%nat.
Hypothesis hash160_len : forall x, length (hash160 x) = 20%nat.
Variable blind : Z.
Variable kfuel fuel : nat.
Variable strict : bool.
Local Notation verifies := (ec_verifies blind strict).
Local Notation sign := (ec_sign blind hmac kfuel fuel).
Local Notation pub_of := (ec_pub_of blind).
Local Notation signs_on := (signs_on blind hmac kfuel fuel sighash).

(* bare / P2SH / P2WSH / P2SH-P2WSH m-of-n, all listed keys supplied, nothing signed yet: Solver.sign produces an input the
   template evaluator accepts under every flag set (STD forkid included) *)
Theorem C05ec_template_validates_multisig :
  forall (fl : flags) (forkid : bool) (kd : kind) (m : nat) (ks : list keyspec) (db : lookup) (hto : option N) (p2sh : list bytes),
  keys_ok ks -> signs_on ks (kwit kd) (ms_script m (map (pub pub_of) ks)) ->
  ms_shape pub_of kd m ks -> p2sh_ok hash160 sha256 pub_of kd m ks p2sh -> db_ok hash160 pub_of db ks ->
  (forall k, In k ks -> avail hash160 pub_of db k = true) ->
  ht_ok sighash (kwit kd) (ms_script m (map (pub pub_of) ks)) (effective_hash_type forkid hto) ->
  (f_std fl = true -> f_strictenc fl = true -> std_hash_type (effective_hash_type forkid hto)) ->
  (forall k, In k ks -> pub_enc_ok fl (kwit kd) (pub pub_of k) = true) ->
  exists st, sign_input hash160 sha256 verifies sign pub_of sighash db p2sh forkid (pz_ms pub_of kd m ks) hto [] [] = Ret st /\
             eval_input hash160 sha256 verifies sighash fl (pz_ms pub_of kd m ks) (fst st) (snd st) = true.
Proof. exact (ec_ms_validates blind strict hmac kfuel fuel hash160 sha256 sighash sha256_len). Qed.

(* P2PK, P2PKH, P2WPKH, P2SH-P2WPKH *)
Theorem C05ec_template_validates_single_key :
  forall (fl : flags) (forkid : bool) (kd : kind) (k : keyspec) (db : lookup) (hto : option N) (p2sh : list bytes),
  secret_ok (fst k) -> signs_on [k] (single_wit kd) (single_sc hash160 pub_of kd k) ->
  is_single_kind kd ->
  lookup_get db (hash160 (pub pub_of k)) = Some k ->
  (kd = K_P2SH_P2WPKH ->
   p2sh_get hash160 sha256 p2sh (hash160 (wit0_script (hash160 (pub pub_of k)))) = Some (wit0_script (hash160 (pub pub_of k)))) ->
  ht_ok sighash (single_wit kd) (single_sc hash160 pub_of kd k) (effective_hash_type forkid hto) ->
  (f_std fl = true -> f_strictenc fl = true -> std_hash_type (effective_hash_type forkid hto)) ->
  pub_enc_ok fl (single_wit kd) (pub pub_of k) = true ->
  exists st, sign_input hash160 sha256 verifies sign pub_of sighash db p2sh forkid (pz_single hash160 pub_of kd k) hto [] [] = Ret st /\
             eval_input hash160 sha256 verifies sighash fl (pz_single hash160 pub_of kd k) (fst st) (snd st) = true.
Proof. exact (ec_single_validates blind strict hmac kfuel fuel hash160 sha256 sighash hash160_len). Qed.

(* any sequence of signing passes: never raises, and validates afterwards iff at least m listed keys were supplied.
   mo_ph of Props/C05.v is gone (C05ec_placeholder_never_verifies); exclusivity between listed keys remains, restricted to
   the digests of this input: `excl_on` is a statement about the concrete ec_verifies / ec_sign, decidable key by key *)
Theorem C05ec_partial_signing_order_free :
  forall (forkid : bool) (p2sh : list bytes) (kd : kind) (m : nat) (ks : list keyspec) (fl0 : flags),
  keys_ok ks -> signs_on ks (kwit kd) (ms_script m (map (pub pub_of) ks)) ->
  ms_shape pub_of kd m ks ->
  excl_on verifies sign pub_of sighash ks (kwit kd) (ms_script m (map (pub pub_of) ks)) ->
  p2sh_ok hash160 sha256 pub_of kd m ks p2sh ->
  (forall k, In k ks -> pub_enc_ok fl0 (kwit kd) (pub pub_of k) = true) ->
  forall passes : list pass,
  Forall (pass_ok hash160 pub_of sighash forkid kd m ks fl0) passes ->
  exists st, run hash160 sha256 verifies sign pub_of sighash forkid p2sh kd m ks passes ([], []) = Ret st /\
             (eval_input hash160 sha256 verifies sighash fl0 (pz_ms pub_of kd m ks) (fst st) (snd st) = true <->
              (m <= ncovered hash160 pub_of ks passes)%nat).
Proof. exact (ec_partial_signing_order_free blind strict hmac kfuel fuel hash160 sha256 sighash sha256_len). Qed.

(* acceptance under the standard set: push-only, minimally pushed scriptSig; CHECKMULTISIG stack = empty dummy + m signatures *)
Theorem C05ec_standard_valid_is_push_only_minimal :
  forall (fl : flags) (pz : puzzle) (ss : bytes) (w : list bytes), f_std fl = true ->
  eval_input hash160 sha256 verifies sighash fl pz ss w = true ->
  exists items, parse_pushes ss = Some (items, true) /\ all_le_520 items = true.
Proof. exact (eval_std_push_only hash160 sha256 verifies sighash). Qed.

Theorem C05ec_standard_multisig_stack_shape :
  forall (fl : flags) (wit : bool) (sc : bytes) (m : nat) (keys st : list bytes), f_std fl = true ->
  eval_multisig verifies sighash fl wit true sc m keys st = true ->
  exists sigs, st = [] :: sigs /\ length sigs = m.
Proof. exact (eval_multisig_std_shape hash160 sha256 verifies sighash). Qed.

(* frame and "no exception escapes": no hypothesis on the interface in Props/C05.v, hence none here.  (They are about the
   MODEL run with the totalised ec_sign; where generator.sign would raise — zero digest — the real Solver.sign catches the
   ValueError and leaves the input unsigned, where the model writes an empty signature: outside keys_ok / signs_on the
   instance is not the code.) *)
Theorem C05ec_frame :
  forall (sighash_tx : nat -> bool -> N -> bytes -> option bytes)
         (db : lookup) (p2sh : list bytes) (forkid : bool) (ht : option N) (idxs : list nat) (inputs : list txin_state),
  let res := fst (sign_tx hash160 sha256 verifies sign pub_of sighash_tx db p2sh forkid ht idxs inputs) in
  length res = length inputs /\
  forall j pz ss w, nth_error inputs j = Some (pz, ss, w) ->
    (~ In j idxs \/ eval_input hash160 sha256 verifies (sighash_tx j) LAX pz ss w = true) ->
    nth_error res j = Some (ss, w).
Proof. exact (sign_tx_frame hash160 sha256 verifies sign pub_of). Qed.

Theorem C05ec_sign_never_raises :
  forall (db : lookup) (p2sh : list bytes) (forkid : bool) (pz : puzzle) (hto : option N) (ss : bytes) (w : list bytes),
  existing_blobs ss w <> None ->
  effective_hash_type forkid hto < 256 ->
  (forall wit sc, sighash wit (effective_hash_type forkid hto) sc <> None) ->
  exists st, sign_input hash160 sha256 verifies sign pub_of sighash db p2sh forkid pz hto ss w = Ret st.
Proof. exact (sign_input_no_crash hash160 sha256 verifies sign pub_of sighash). Qed.
(* ---- composed once more, with Props/C05compose.v C05c_templates_sound (property C03's Core side): what Solver.sign
        produces with the real ECDSA is accepted by the executable transcription of Bitcoin Core's VerifyScript under every
        flag word fw related to a standard flag set fl (std_policy_word forkid in particular).  `o` is any oracle record
        whose o_checksig is ec_verifies on the coin's digest (oracles_inst; core_oracles .. is the canonical one).  Extra
        hypotheses, as in Props/C05compose.v: the witness program is not "false" for CastToBool, the P2PKH hash does not
        read as a strictly encoded signature (FindAndDelete) ---- *)
Variable fl : flags.
Variable fw : N.
Hypothesis Hflags : flags_rel fl fw.
Variable o : oracles.
Hypothesis Horacles : oracles_inst hash160 sha256 verifies sighash o.
Variable ctx : txctx.

Theorem C05ec_signed_input_valid_under_core_multisig :
  f_std fl = true ->
  forall (forkid : bool) (kd : kind) (m : nat) (ks : list keyspec) (db : lookup) (hto : option N) (p2sh : list bytes),
  keys_ok ks -> signs_on ks (kwit kd) (ms_script m (map (pub pub_of) ks)) ->
  ms_shape pub_of kd m ks -> p2sh_ok hash160 sha256 pub_of kd m ks p2sh -> db_ok hash160 pub_of db ks ->
  (forall k, In k ks -> avail hash160 pub_of db k = true) ->
  ht_ok sighash (kwit kd) (ms_script m (map (pub pub_of) ks)) (effective_hash_type forkid hto) ->
  (f_std fl = true -> f_strictenc fl = true -> std_hash_type (effective_hash_type forkid hto)) ->
  (forall k, In k ks -> pub_enc_ok fl (kwit kd) (pub pub_of k) = true) ->
  (kwit kd = true -> cast_to_bool (sha256 (ms_script m (map (pub pub_of) ks))) = true) ->
  exists st, sign_input hash160 sha256 verifies sign pub_of sighash db p2sh forkid (pz_ms pub_of kd m ks) hto [] [] = Ret st /\
             VerifyScript o (spend_of hash160 sha256 fw ctx (pz_ms pub_of kd m ks) (fst st) (snd st)) = VOk tt.
Proof.
  intros Hstd forkid kd m ks db hto p2sh.
  exact (ec_ms_valid_under_core hash160 sha256 hmac sighash sha256_len hash160_len blind kfuel fuel strict fl fw Hflags o Horacles ctx
           forkid kd m ks db hto p2sh Hstd).
Qed.

Theorem C05ec_signed_input_valid_under_core_single_key :
  f_std fl = true ->
  forall (forkid : bool) (kd : kind) (k : keyspec) (db : lookup) (hto : option N) (p2sh : list bytes),
  secret_ok (fst k) -> signs_on [k] (single_wit kd) (single_sc hash160 pub_of kd k) ->
  is_single_kind kd ->
  lookup_get db (hash160 (pub pub_of k)) = Some k ->
  (kd = K_P2SH_P2WPKH ->
   p2sh_get hash160 sha256 p2sh (hash160 (wit0_script (hash160 (pub pub_of k)))) = Some (wit0_script (hash160 (pub pub_of k)))) ->
  ht_ok sighash (single_wit kd) (single_sc hash160 pub_of kd k) (effective_hash_type forkid hto) ->
  (f_std fl = true -> f_strictenc fl = true -> std_hash_type (effective_hash_type forkid hto)) ->
  pub_enc_ok fl (single_wit kd) (pub pub_of k) = true ->
  (kd = K_P2PKH -> strict_der (hash160 (pub pub_of k)) = false) ->
  (single_wit kd = true -> cast_to_bool (hash160 (pub pub_of k)) = true) ->
  exists st, sign_input hash160 sha256 verifies sign pub_of sighash db p2sh forkid (pz_single hash160 pub_of kd k) hto [] [] = Ret st /\
             VerifyScript o (spend_of hash160 sha256 fw ctx (pz_single hash160 pub_of kd k) (fst st) (snd st)) = VOk tt.
Proof.
  intros Hstd forkid kd k db hto p2sh.
  exact (ec_single_valid_under_core hash160 sha256 hmac sighash sha256_len hash160_len blind kfuel fuel strict fl fw Hflags o Horacles ctx
           forkid kd k db hto p2sh Hstd).
Qed.
End C05ec.

(* ================================ and with the digest function of property C04 ================================ *)
(* `sighash` was the last abstract piece of the ECDSA side.  For input idx of transaction t on coin c it is C04's model of
   the two SolutionChecker methods the signer calls (Proofs/ComposeEcSighashC05.v; the integer written on 32 bytes, None when
   the call raises).  Every C05ec theorem above applies to it (sighash is universally quantified there); the two validity
   theorems are restated.  What remains quantified: sha256 / dsha256 / hash160 / hmac, the transaction, the keys. *)
Section C05ecC04.
Variable hash160 : bytes -> bytes.
Variable sha256 : bytes -> bytes.
Variable dsha256 : bytes -> bytes.
Variable hmac : bytes -> bytes -> bytes.
Hypothesis sha256_len : forall x, length (sha256 x) = 32%nat.
Hypothesis hash160_len : forall x, length (hash160 x) = 20%nat.
Variable blind : Z.
Variable kfuel fuel : nat.
Variable strict : bool.
Variable c : coin.
Variable t : tx.
Variable idx : nat.
Local Notation verifies := (ec_verifies blind strict).
Local Notation sign := (ec_sign blind hmac kfuel fuel).
Local Notation pub_of := (ec_pub_of blind).
Local Notation sighash := (c04_sighash sha256 dsha256 c t idx).
Local Notation signs_on := (signs_on blind hmac kfuel fuel sighash).

(* a digest of the instance is the integer _signature_hash / _signature_for_hash_type_segwit returned, read back by bz;
   it is defined exactly when that call returns *)
Theorem C05ec_c04_digest_is_the_model : forall wit ht sc,
  (forall d, sighash wit ht sc = Some d ->
     exists v, c04_digest_int sha256 dsha256 c t idx wit ht sc = Ret v /\ v < 2 ^ 256 /\ d = be_encode 32 v /\ bz d = Z.of_N v) /\
  (sighash wit ht sc <> None <-> exists v, c04_digest_int sha256 dsha256 c t idx wit ht sc = Ret v /\ v < 2 ^ 256) /\
  c04_digest_int sha256 dsha256 c t idx wit ht sc =
    (if wit then signature_for_hash_type_segwit sha256 dsha256 c t sc idx ht else signature_hash sha256 dsha256 c t sc idx ht).
Proof.
  exact (fun wit ht sc => conj (c04_digest_value sha256 dsha256 c t idx wit ht sc)
                         (conj (c04_defined sha256 dsha256 c t idx wit ht sc) eq_refl)).
Qed.

Theorem C05ec_c04_template_validates_multisig :
  forall (fl : flags) (forkid : bool) (kd : kind) (m : nat) (ks : list keyspec) (db : lookup) (hto : option N) (p2sh : list bytes),
  keys_ok ks -> signs_on ks (kwit kd) (ms_script m (map (pub pub_of) ks)) ->
  ms_shape pub_of kd m ks -> p2sh_ok hash160 sha256 pub_of kd m ks p2sh -> db_ok hash160 pub_of db ks ->
  (forall k, In k ks -> avail hash160 pub_of db k = true) ->
  ht_ok sighash (kwit kd) (ms_script m (map (pub pub_of) ks)) (effective_hash_type forkid hto) ->
  (f_std fl = true -> f_strictenc fl = true -> std_hash_type (effective_hash_type forkid hto)) ->
  (forall k, In k ks -> pub_enc_ok fl (kwit kd) (pub pub_of k) = true) ->
  exists st, sign_input hash160 sha256 verifies sign pub_of sighash db p2sh forkid (pz_ms pub_of kd m ks) hto [] [] = Ret st /\
             eval_input hash160 sha256 verifies sighash fl (pz_ms pub_of kd m ks) (fst st) (snd st) = true.
Proof. exact (C05ec_template_validates_multisig hash160 sha256 hmac sighash sha256_len blind kfuel fuel strict). Qed.

Theorem C05ec_c04_template_validates_single_key :
  forall (fl : flags) (forkid : bool) (kd : kind) (k : keyspec) (db : lookup) (hto : option N) (p2sh : list bytes),
  secret_ok (fst k) -> signs_on [k] (single_wit kd) (single_sc hash160 pub_of kd k) ->
  is_single_kind kd ->
  lookup_get db (hash160 (pub pub_of k)) = Some k ->
  (kd = K_P2SH_P2WPKH ->
   p2sh_get hash160 sha256 p2sh (hash160 (wit0_script (hash160 (pub pub_of k)))) = Some (wit0_script (hash160 (pub pub_of k)))) ->
  ht_ok sighash (single_wit kd) (single_sc hash160 pub_of kd k) (effective_hash_type forkid hto) ->
  (f_std fl = true -> f_strictenc fl = true -> std_hash_type (effective_hash_type forkid hto)) ->
  pub_enc_ok fl (single_wit kd) (pub pub_of k) = true ->
  exists st, sign_input hash160 sha256 verifies sign pub_of sighash db p2sh forkid (pz_single hash160 pub_of kd k) hto [] [] = Ret st /\
             eval_input hash160 sha256 verifies sighash fl (pz_single hash160 pub_of kd k) (fst st) (snd st) = true.
Proof. exact (C05ec_template_validates_single_key hash160 sha256 hmac sighash hash160_len blind kfuel fuel strict). Qed.
End C05ecC04.

Print Assumptions C05ec_instance_is_the_code.
Print Assumptions C05ec_sign_verifies.
Print Assumptions C05ec_sign_canonical.
Print Assumptions C05ec_pub_wellformed.
Print Assumptions C05ec_signature_spec.
Print Assumptions C05ec_placeholder_never_verifies.
Print Assumptions C05ec_zero_digest_refused.
Print Assumptions C05ec_zero_secret_has_no_key.
Print Assumptions C05ec_sign_returns_or_diverges.
Print Assumptions C05ec_domain_inhabited.
Print Assumptions C05rel_template_validates_multisig.
Print Assumptions C05rel_template_validates_single_key.
Print Assumptions C05rel_partial_signing_order_free.
Print Assumptions C05rel_generalises_C05.
Print Assumptions C05ec_template_validates_multisig.
Print Assumptions C05ec_template_validates_single_key.
Print Assumptions C05ec_partial_signing_order_free.
Print Assumptions C05ec_standard_valid_is_push_only_minimal.
Print Assumptions C05ec_standard_multisig_stack_shape.
Print Assumptions C05ec_frame.
Print Assumptions C05ec_sign_never_raises.
Print Assumptions C05ec_signed_input_valid_under_core_multisig.
Print Assumptions C05ec_signed_input_valid_under_core_single_key.
Print Assumptions C05ec_c04_digest_is_the_model.
Print Assumptions C05ec_c04_template_validates_multisig.
Print Assumptions C05ec_c04_template_validates_single_key.
