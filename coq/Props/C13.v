(* Props/C13.v — property C13: transaction construction conserves value to the satoshi; the fee; input pairing;
   validate_unspents; BTC/mBTC conversions.  Only statements; every proof is `exact <lemma>`.
   Python ints are Z everywhere (no sign or size restriction: the code makes none), so "values 1..21e14" of the
   property text is a special case of every statement below. *)
From PV Require Import Base.Bytes Base.Outcome Gen.GenTxBuild Model.TxBuild Model.DecimalConv
  Proofs.TxBuildP Proofs.DecimalConvP.
Local Open Scope Z_scope.

(* ---- split_with_remainder ------------------------------------------------------------------------- *)
(* for every total and every positive count: the shares add up to the total, there are `count` of them, share i is
   total/count plus one extra satoshi for the first (total mod count) shares; hence they differ by at most one and the
   larger ones come first *)
Theorem C13_split_sum : forall total k : Z, 0 < k ->
  exists l, split_with_remainder total k = Ret l /\
    zsum l = total /\ Z.of_nat (length l) = k /\
    (forall i, (i < length l)%nat ->
       nth i l 0 = total / k + (if Z.of_nat i <? total mod k then 1 else 0)) /\
    (forall i j, (i <= j < length l)%nat -> nth j l 0 <= nth i l 0 <= nth j l 0 + 1).
Proof. exact split_spec. Qed.
Print Assumptions C13_split_sum.

(* the only failure of the split is the division by a zero count (ZeroDivisionError, tagged E_OTHER) *)
Theorem C13_split_zero_division : forall total k : Z, split_with_remainder total k = Raise E_OTHER <-> k = 0.
Proof. exact split_zero. Qed.
Print Assumptions C13_split_zero_division.

(* ---- distribute_from_split_pool ---------------------------------------------------------------------- *)
(* normal return with at least one zero-valued output: outputs + fee = inputs exactly, every pool output gets at least
   one satoshi, the pool values are split_with_remainder of what is left, every other output (and every script, the
   inputs, the unspents) is untouched.  `bc` is len(tx.stream()), read only for fee="standard". *)
Theorem C13_distribute_conserves : forall (bc : tx -> Z) (t : tx) (fe : feearg) (t' : tx) (zc : Z),
  distribute_from_split_pool bc t fe = Ret (t', zc) -> 0 < zero_count_of (t_outs t) ->
  exists total vals,
    sum_unspents (t_unspents t) = Ret total /\
    zc = zero_count_of (t_outs t) /\
    zc <= total - (total_out t + fee_value bc t fe) /\
    split_with_remainder (total - (total_out t + fee_value bc t fe)) zc = Ret vals /\
    t' = set_outs t (fill_zero (t_outs t) vals) /\
    total_out t' + fee_value bc t fe = total /\
    pool_values (t_outs t) (t_outs t') = vals /\
    Forall (fun v => 1 <= v) vals /\
    Forall2 out_preserved (t_outs t) (t_outs t').
Proof. exact distribute_ret. Qed.
Print Assumptions C13_distribute_conserves.

(* ValueError is raised exactly under the condition the code tests (both directions) *)
Theorem C13_distribute_value_error_iff : forall (bc : tx -> Z) (t : tx) (fe : feearg),
  distribute_from_split_pool bc t fe = Raise E_VALUE <->
  (0 < zero_count_of (t_outs t) /\
   exists total, sum_unspents (t_unspents t) = Ret total /\
     let remaining := total - (total_out t + fee_value bc t fe) in
     (remaining < 0 \/ remaining < zero_count_of (t_outs t))).
Proof. exact distribute_value_error_iff. Qed.
Print Assumptions C13_distribute_value_error_iff.

(* there is no other outcome: a result, ValueError, or AttributeError from a None among the unspents *)
Theorem C13_distribute_outcomes : forall (bc : tx -> Z) (t : tx) (fe : feearg),
  (exists t' zc, distribute_from_split_pool bc t fe = Ret (t', zc)) \/
  distribute_from_split_pool bc t fe = Raise E_VALUE \/
  (distribute_from_split_pool bc t fe = Raise E_ATTR /\ In None (t_unspents t) /\ 0 < zero_count_of (t_outs t)).
Proof. exact distribute_outcomes. Qed.
Print Assumptions C13_distribute_outcomes.

(* scope: without a zero-valued output nothing is checked or changed, whatever the fee and the funds *)
Theorem C13_distribute_no_pool_is_identity : forall (bc : tx -> Z) (t : tx) (fe : feearg),
  zero_count_of (t_outs t) = 0 -> distribute_from_split_pool bc t fe = Ret (t, 0).
Proof. exact distribute_no_pool. Qed.
Print Assumptions C13_distribute_no_pool_is_identity.

(* ---- create_tx ------------------------------------------------------------------------------------------ *)
(* with at least one unspecified payable: outputs + fee = sum of the spendables; the pool shares are
   split_with_remainder of the rest, each >= 1; specified payables are untouched *)
Theorem C13_create_tx_conserves : forall (bc : tx -> Z) sps pays fe lt ver t,
  create_tx bc sps pays fe lt ver = Ret t -> 0 < pool_size pays ->
  let f := fee_value bc (initial_tx sps pays lt ver) fe in
  let remaining := spendables_total sps - (payables_total pays + f) in
  total_out t + f = spendables_total sps /\
  pool_size pays <= remaining /\
  split_with_remainder remaining (pool_size pays) = Ret (pool_values (map payable_txout pays) (t_outs t)) /\
  Forall (fun v => 1 <= v) (pool_values (map payable_txout pays) (t_outs t)) /\
  Forall2 out_preserved (map payable_txout pays) (t_outs t).
Proof. exact create_tx_conserves. Qed.
Print Assumptions C13_create_tx_conserves.

(* the same, spelled out on the shares: count, sum, positivity, at most one satoshi apart, larger ones first *)
Theorem C13_create_tx_pool_shares : forall (bc : tx -> Z) sps pays fe lt ver t,
  create_tx bc sps pays fe lt ver = Ret t -> 0 < pool_size pays ->
  let shares := pool_values (map payable_txout pays) (t_outs t) in
  Z.of_nat (length shares) = pool_size pays /\
  zsum shares = spendables_total sps - (payables_total pays + fee_value bc (initial_tx sps pays lt ver) fe) /\
  Forall (fun v => 1 <= v) shares /\
  (forall i j, (i <= j < length shares)%nat -> nth j shares 0 <= nth i shares 0 <= nth j shares 0 + 1).
Proof. exact create_tx_pool_shares. Qed.
Print Assumptions C13_create_tx_pool_shares.

(* insufficient funds raise ValueError, and ValueError means exactly that *)
Theorem C13_create_tx_value_error_iff : forall (bc : tx -> Z) sps pays fe lt ver,
  create_tx bc sps pays fe lt ver = Raise E_VALUE <->
  (0 < pool_size pays /\
   let remaining := spendables_total sps
                    - (payables_total pays + fee_value bc (initial_tx sps pays lt ver) fe) in
   (remaining < 0 \/ remaining < pool_size pays)).
Proof. exact create_tx_value_error_iff. Qed.
Print Assumptions C13_create_tx_value_error_iff.

(* create_tx produces a transaction or raises ValueError — nothing else *)
Theorem C13_create_tx_outcomes : forall (bc : tx -> Z) sps pays fe lt ver,
  (exists t, create_tx bc sps pays fe lt ver = Ret t) \/ create_tx bc sps pays fe lt ver = Raise E_VALUE.
Proof. exact create_tx_outcomes. Qed.
Print Assumptions C13_create_tx_outcomes.

(* input i carries the outpoint of spendable i and unspent i is spendable i's amount and script *)
Theorem C13_inputs_paired : forall (bc : tx -> Z) sps pays fe lt ver t,
  create_tx bc sps pays fe lt ver = Ret t ->
  length (t_ins t) = length sps /\ length (t_unspents t) = length sps /\
  forall i s, nth_error sps i = Some s ->
    exists tx_in,
      nth_error (t_ins t) i = Some tx_in /\
      i_hash tx_in = s_hash s /\ i_index tx_in = s_index s /\
      i_script tx_in = gen_txin_default_script /\ i_sequence tx_in = gen_txin_default_sequence /\
      nth_error (t_unspents t) i = Some (Some (mk_txout (s_value s) (s_script s))).
Proof. exact create_tx_paired. Qed.
Print Assumptions C13_inputs_paired.

(* ---- fee ------------------------------------------------------------------------------------------------ *)
(* fee() is total_in() - total_out(); for a non-coinbase transaction total_in() is the sum of the unspents and
   exists exactly when there is one (non-None) unspent per input *)
Theorem C13_fee_def : forall (t : tx) (f : Z),
  fee t = Ret f <-> exists ti, total_in t = Ret ti /\ f = ti - total_out t.
Proof. exact fee_def. Qed.
Print Assumptions C13_fee_def.

Theorem C13_total_in_def : forall t : tx, tx_is_coinbase t = false ->
  forall v, total_in t = Ret v <->
    (length (t_unspents t) = length (t_ins t) /\
     exists l, t_unspents t = map Some l /\ v = zsum (map o_value l)).
Proof. exact total_in_noncoinbase. Qed.
Print Assumptions C13_total_in_def.

(* the fee reported for a transaction built by create_tx (with a pool) is the fee that was requested *)
Theorem C13_created_fee : forall (bc : tx -> Z) sps pays fe lt ver t,
  create_tx bc sps pays fe lt ver = Ret t -> 0 < pool_size pays -> tx_is_coinbase t = false ->
  fee t = Ret (fee_value bc (initial_tx sps pays lt ver) fe).
Proof. exact create_tx_fee. Qed.
Print Assumptions C13_created_fee.

(* ---- validate_unspents ------------------------------------------------------------------------------------ *)
(* over any database (db : hash -> option source transaction) and any hash function on source transactions:
   a normal return means that for every non-coinbase input the database holds under the input's hash a transaction
   that hashes to it, and the output the input's index selects has exactly the recorded amount and script;
   the value returned is fee() *)
Theorem C13_validate_unspents_sound :
  forall (srctx : Type) (src_hash : srctx -> bytes) (src_outs : srctx -> list txout) (db : bytes -> option srctx)
         (t : tx) (f : Z),
  validate_unspents srctx src_hash src_outs db t = Ret f ->
  (forall k i, nth_error (t_ins t) k = Some i -> txin_is_coinbase i = false ->
     exists the_tx src_out recorded,
       db (i_hash i) = Some the_tx /\ src_hash the_tx = i_hash i /\
       py_index (src_outs the_tx) (i_index i) = Ret src_out /\
       nth_error (t_unspents t) k = Some (Some recorded) /\
       o_value recorded = o_value src_out /\ o_script recorded = o_script src_out) /\
  fee t = Ret f.
Proof. exact validate_unspents_sound. Qed.
Print Assumptions C13_validate_unspents_sound.

(* for an index >= 0 (every index that can be serialized) the selected output is the one at that position *)
Theorem C13_validate_unspents_sound_nonneg :
  forall (srctx : Type) (src_hash : srctx -> bytes) (src_outs : srctx -> list txout) (db : bytes -> option srctx)
         (t : tx) (f : Z),
  validate_unspents srctx src_hash src_outs db t = Ret f ->
  forall k i, nth_error (t_ins t) k = Some i -> txin_is_coinbase i = false -> 0 <= i_index i ->
    exists the_tx src_out recorded,
      db (i_hash i) = Some the_tx /\ src_hash the_tx = i_hash i /\
      nth_error (src_outs the_tx) (Z.to_nat (i_index i)) = Some src_out /\
      nth_error (t_unspents t) k = Some (Some recorded) /\
      o_value recorded = o_value src_out /\ o_script recorded = o_script src_out.
Proof.
  exact (fun srctx src_hash src_outs db t f H k i Hk Hc Hi =>
    input_authenticated_nonneg srctx src_hash src_outs db (t_unspents t) k i
      (proj1 (validate_unspents_sound srctx src_hash src_outs db t f H) k i Hk Hc) Hi).
Qed.
Print Assumptions C13_validate_unspents_sound_nonneg.

(* not vacuous: when every input is authenticated (non-null hash, index >= 0) validation does return fee() *)
Theorem C13_validate_unspents_complete :
  forall (srctx : Type) (src_hash : srctx -> bytes) (src_outs : srctx -> list txout) (db : bytes -> option srctx)
         (t : tx),
  (forall k i, nth_error (t_ins t) k = Some i ->
     i_hash i <> gen_zero32 /\ 0 <= i_index i /\
     input_authenticated srctx src_hash src_outs db (t_unspents t) k i) ->
  validate_unspents srctx src_hash src_outs db t = fee t.
Proof. exact validate_unspents_complete. Qed.
Print Assumptions C13_validate_unspents_complete.

(* ---- decimal conversions (Decimal model: sign, coefficient, exponent; prec 28, ROUND_HALF_EVEN) ------------ *)
(* satoshi_to_btc / satoshi_to_mbtc never round below 10^28 satoshi: the result is the integer itself at exponent -8 / -5 *)
Theorem C13_satoshi_to_btc_exact : forall s : Z, s <> 0 -> Z.abs s < 10 ^ 28 ->
  satoshi_to_btc s = Ret (mk_dec (s <? 0) (Z.abs s) (-8)).
Proof. exact satoshi_to_btc_exact. Qed.
Print Assumptions C13_satoshi_to_btc_exact.

Theorem C13_satoshi_to_mbtc_exact : forall s : Z, s <> 0 -> Z.abs s < 10 ^ 28 ->
  satoshi_to_mbtc s = Ret (mk_dec (s <? 0) (Z.abs s) (-5)).
Proof. exact satoshi_to_mbtc_exact. Qed.
Print Assumptions C13_satoshi_to_mbtc_exact.

(* btc_to_satoshi / mbtc_to_satoshi of a decimal with at most 20 / 23 digits is the exact product, truncated toward
   zero only if the decimal has more than 8 / 5 decimals *)
Theorem C13_btc_to_satoshi_exact : forall (n : bool) (c e : Z), 0 <= c < 10 ^ 20 ->
  btc_to_satoshi (mk_dec n c e) =
  sgn n * (if 0 <=? e then c * 10 ^ 8 * 10 ^ e else c * 10 ^ 8 / 10 ^ (- e)).
Proof. exact btc_to_satoshi_trunc. Qed.
Print Assumptions C13_btc_to_satoshi_exact.

Theorem C13_mbtc_to_satoshi_exact : forall (n : bool) (c e : Z), 0 <= c < 10 ^ 23 ->
  mbtc_to_satoshi (mk_dec n c e) =
  sgn n * (if 0 <=? e then c * 10 ^ 5 * 10 ^ e else c * 10 ^ 5 / 10 ^ (- e)).
Proof. exact mbtc_to_satoshi_trunc. Qed.
Print Assumptions C13_mbtc_to_satoshi_exact.

(* satoshi -> BTC -> satoshi and satoshi -> mBTC -> satoshi (the money range 0..21*10^14 is far inside the bound) *)
Theorem C13_decimal_roundtrip : forall s : Z, Z.abs s < 10 ^ 20 ->
  (exists d, satoshi_to_btc s = Ret d /\ btc_to_satoshi d = s) /\
  (exists d, satoshi_to_mbtc s = Ret d /\ mbtc_to_satoshi d = s).
Proof.
  exact (fun s H => conj (btc_roundtrip s H)
                         (mbtc_roundtrip s (Z.lt_trans _ _ _ H (eq_refl : (10 ^ 20 ?= 10 ^ 23) = Lt)))).
Qed.
Print Assumptions C13_decimal_roundtrip.

(* BTC -> satoshi -> BTC for a positive decimal with at most 8 decimals: the same number, written at exponent -8 *)
Theorem C13_decimal_roundtrip_rev_btc : forall (n : bool) (c e : Z),
  0 < c -> -8 <= e -> c * 10 ^ (8 + e) < 10 ^ 20 ->
  satoshi_to_btc (btc_to_satoshi (mk_dec n c e)) = Ret (mk_dec n (c * 10 ^ (8 + e)) (-8)) /\
  dec_same_value (mk_dec n (c * 10 ^ (8 + e)) (-8)) (mk_dec n c e).
Proof. exact btc_roundtrip_rev. Qed.
Print Assumptions C13_decimal_roundtrip_rev_btc.

Theorem C13_decimal_roundtrip_rev_mbtc : forall (n : bool) (c e : Z),
  0 < c -> -5 <= e -> c * 10 ^ (5 + e) < 10 ^ 23 ->
  satoshi_to_mbtc (mbtc_to_satoshi (mk_dec n c e)) = Ret (mk_dec n (c * 10 ^ (5 + e)) (-5)) /\
  dec_same_value (mk_dec n (c * 10 ^ (5 + e)) (-5)) (mk_dec n c e).
Proof. exact mbtc_roundtrip_rev. Qed.
Print Assumptions C13_decimal_roundtrip_rev_mbtc.

(* the reciprocal constants of the module are what Decimal division yields (ties the division model to the table) *)
Theorem C13_constants : dec_div (dec_of_int 1) SATOSHI_PER_COIN = Ret COIN_PER_SATOSHI /\
                        dec_div (dec_of_int 1) SATOSHI_TO_MBTC = Ret MBTC_PER_SATOSHI.
Proof. exact (conj COIN_PER_SATOSHI_computed MBTC_PER_SATOSHI_computed). Qed.
Print Assumptions C13_constants.

(* ---- the transaction as a mutable object: refused calls change nothing; value histories --------------------- *)
(* state-passing distribute_from_split_pool (result, object afterwards) agrees with the value-returning model, and *)
(* a refused distribution — ValueError at the boundary, AttributeError for a None unspent — leaves the object untouched *)
Theorem C13_distribute_st_agrees : forall (bc : tx -> Z) (t : tx) (fe : feearg),
  distribute_from_split_pool_st bc t fe =
  match distribute_from_split_pool bc t fe with
  | Ret (t', zc) => (Ret zc, t')
  | Raise e => (Raise e, t)
  | OutOfFuel => (OutOfFuel, t)
  end.
Proof. exact distribute_st_spec. Qed.
Print Assumptions C13_distribute_st_agrees.

Theorem C13_refused_distribute_changes_nothing : forall (bc : tx -> Z) (t : tx) (fe : feearg) (e : pyexn),
  fst (distribute_from_split_pool_st bc t fe) = Raise e -> snd (distribute_from_split_pool_st bc t fe) = t.
Proof. exact distribute_st_refused. Qed.
Print Assumptions C13_refused_distribute_changes_nothing.

(* hence trying again (e.g. with a smaller fee) on the same object is the same as a first attempt *)
Theorem C13_retry_after_refusal : forall (bc : tx -> Z) (t : tx) (fe1 fe2 : feearg) (e : pyexn),
  fst (distribute_from_split_pool_st bc t fe1) = Raise e ->
  distribute_from_split_pool_st bc (snd (distribute_from_split_pool_st bc t fe1)) fe2 =
  distribute_from_split_pool_st bc t fe2.
Proof. exact distribute_st_retry. Qed.
Print Assumptions C13_retry_after_refusal.

(* every operation of the object model (observers fee/total_in/total_out/is_coinbase/validate_unspents; mutators
   set_unspents, unspents_from_db, direct assignment of unspents/txs_out/txs_in, in-place edits, append, clear,
   distribute_from_split_pool), whatever exception it raises, leaves the object as it was when it raises *)
Theorem C13_refused_call_changes_nothing :
  forall (bc : tx -> Z) (srctx : Type) (src_hash : srctx -> bytes) (src_outs : srctx -> list txout)
         (dbs : nat -> bytes -> option srctx) (o : op) (t : tx) (e : pyexn),
  fst (step bc srctx src_hash src_outs dbs o t) = Raise e -> snd (step bc srctx src_hash src_outs dbs o t) = t.
Proof. exact step_refused. Qed.
Print Assumptions C13_refused_call_changes_nothing.

Theorem C13_observers_change_nothing :
  forall (bc : tx -> Z) (srctx : Type) (src_hash : srctx -> bytes) (src_outs : srctx -> list txout)
         (dbs : nat -> bytes -> option srctx) (o : op) (t : tx),
  is_observer o = true -> snd (step bc srctx src_hash src_outs dbs o t) = t.
Proof. exact step_observer. Qed.
Print Assumptions C13_observers_change_nothing.

(* history independence: after any history of calls the object is what the mutators alone make of it, so every
   observation (fee, total_in, total_out, is_coinbase, validate_unspents) is the one a transaction freshly built
   from the current fields gives — nothing remembered from earlier observations or earlier unspents *)
Theorem C13_history_independence :
  forall (bc : tx -> Z) (srctx : Type) (src_hash : srctx -> bytes) (src_outs : srctx -> list txout)
         (dbs : nat -> bytes -> option srctx) (h : list op) (t : tx) (o : op),
  snd (run bc srctx src_hash src_outs dbs h t) = snd (run bc srctx src_hash src_outs dbs (filter is_mutator h) t) /\
  fst (step bc srctx src_hash src_outs dbs o (snd (run bc srctx src_hash src_outs dbs h t))) =
  fst (step bc srctx src_hash src_outs dbs o (snd (run bc srctx src_hash src_outs dbs (filter is_mutator h) t))).
Proof.
  exact (fun bc srctx src_hash src_outs dbs h t o =>
    conj (run_state_mutators_only bc srctx src_hash src_outs dbs h t)
         (observation_history_independent bc srctx src_hash src_outs dbs h t o)).
Qed.
Print Assumptions C13_history_independence.

(* refused calls can be deleted from a history too *)
Theorem C13_history_without_refused_calls :
  forall (bc : tx -> Z) (srctx : Type) (src_hash : srctx -> bytes) (src_outs : srctx -> list txout)
         (dbs : nat -> bytes -> option srctx) (h : list op) (t : tx),
  snd (run bc srctx src_hash src_outs dbs h t) =
  snd (run bc srctx src_hash src_outs dbs (drop_refused bc srctx src_hash src_outs dbs h t) t).
Proof. exact run_state_drop_refused. Qed.
Print Assumptions C13_history_without_refused_calls.

(* loading the unspents from a database and validating against the same database succeeds with fee() of the
   loaded amounts (all inputs ordinary: not coinbase, hash not null, index >= 0) *)
Theorem C13_unspents_from_db_then_validate :
  forall (bc : tx -> Z) (srctx : Type) (src_hash : srctx -> bytes) (src_outs : srctx -> list txout)
         (dbs : nat -> bytes -> option srctx) (k : nat) (t : tx),
  (forall j i, nth_error (t_ins t) j = Some i ->
     txin_is_coinbase i = false /\ i_hash i <> gen_zero32 /\ 0 <= i_index i) ->
  fst (step bc srctx src_hash src_outs dbs (MutUnspentsFromDb k false) t) = Ret 0 ->
  let t' := snd (step bc srctx src_hash src_outs dbs (MutUnspentsFromDb k false) t) in
  t_ins t' = t_ins t /\ t_outs t' = t_outs t /\
  validate_unspents srctx src_hash src_outs (dbs k) t' = fee t'.
Proof. exact unspents_from_db_then_validate. Qed.
Print Assumptions C13_unspents_from_db_then_validate.

(* ---- non-vacuity ---------------------------------------------------------------------------------------------- *)
Definition ex_sps := [mk_spendable 100 [x51] (repeatb x01 32) 0; mk_spendable 16 [x52] (repeatb x02 32) 1].
Definition ex_pays := [PayAddr [x51]; PayPair [x52] 7; PayAddr [x53]].
(* 116 in, fee 10, 7 fixed: 99 left for two pool outputs -> 50 and 49 *)
Example C13_example_create :
  option_map (fun t => map o_value (t_outs t))
    (match create_tx (fun _ => 0) ex_sps ex_pays (FeeInt 10) 0 1 with Ret t => Some t | _ => None end)
  = Some [50; 7; 49].
Proof. vm_compute. reflexivity. Qed.
(* boundary: remaining = 1 < 2 pool outputs raises, remaining = 2 gives one satoshi each *)
Example C13_example_boundary :
  create_tx (fun _ => 0) ex_sps ex_pays (FeeInt 108) 0 1 = Raise E_VALUE /\
  option_map (fun t => map o_value (t_outs t))
    (match create_tx (fun _ => 0) ex_sps ex_pays (FeeInt 107) 0 1 with Ret t => Some t | _ => None end)
  = Some [1; 7; 1].
Proof. vm_compute. split; reflexivity. Qed.
(* a database with the source transaction accepts the honest unspent and rejects amount+1 *)
Definition ex_src : bytes * list txout := (repeatb x0a 32, [mk_txout 5 [x51]; mk_txout 9 [x52]]).
Definition ex_db (h : bytes) : option (bytes * list txout) := if bytes_eqb h (repeatb x0a 32) then Some ex_src else None.
Definition ex_tx (recorded : Z) : tx :=
  mk_tx 1 [mk_txin (repeatb x0a 32) 1 [] 4294967295] [mk_txout 8 [x53]] 0 [Some (mk_txout recorded [x52])].
Example C13_example_validate :
  validate_unspents _ fst snd ex_db (ex_tx 9) = Ret 1 /\
  validate_unspents _ fst snd ex_db (ex_tx 10) = Raise E_BADSPEND.
Proof. vm_compute. split; reflexivity. Qed.
Example C13_example_money_range :
  satoshi_to_btc (21 * 10 ^ 14) = Ret (mk_dec false (21 * 10 ^ 14) (-8)) /\
  satoshi_to_mbtc (21 * 10 ^ 14) = Ret (mk_dec false (21 * 10 ^ 14) (-5)) /\ 21 * 10 ^ 14 < 10 ^ 20.
Proof. vm_compute. repeat split; reflexivity. Qed.
(* the history of the "untrusted amounts first, authentic amounts from the database afterwards" kind: fee 1 from the
   reported amount 10 is not remembered once the database amount 9 is loaded (fee 1 -> BadSpendable -> reload -> fee 1... ) *)
Example C13_example_history :
  fst (run (fun _ => 0) _ fst snd (fun _ => ex_db)
         [ObsFee; ObsValidate 0; MutUnspentsFromDb 0 false; ObsFee; ObsValidate 0; MutAssignUnspents [Some (mk_txout 20 [x52])]; ObsFee]
         (ex_tx 10))
  = [Ret 2; Raise E_BADSPEND; Ret 0; Ret 1; Ret 1; Ret 0; Ret 12].
Proof. vm_compute. reflexivity. Qed.
(* refused distribution (1 satoshi left for 2 pool outputs) leaves [0;7;0]; the retry with fee 100 gives 5/7/4 *)
Example C13_example_refused :
  let t0 := TxBuildP.initial_tx ex_sps ex_pays 0 1 in
  let r1 := distribute_from_split_pool_st (fun _ => 0) t0 (FeeInt 108) in
  fst r1 = Raise E_VALUE /\ snd r1 = t0 /\
  map o_value (t_outs (snd (distribute_from_split_pool_st (fun _ => 0) (snd r1) (FeeInt 100)))) = [5; 7; 4].
Proof. vm_compute. repeat split; reflexivity. Qed.
