(* Props/C14.v — property C14: blocks round-trip, ids and merkle roots follow the Bitcoin definition,
   BIP37 merkleblock proofs.  Only statements; every proof is `exact <lemma>`.
   H / dsha256 is ANY function bytes -> bytes (pycoin passes double SHA-256); the transaction codec
   (parse_tx, stream_tx, tx_hash) is ANY codec meeting the hypotheses written in the statements. *)
From PV Require Import Base.Bytes Base.Outcome Base.Varint Model.Merkle Model.Block Model.MerkleBlock
  Spec.MerkleSpec Spec.PartialMerkle Proofs.MerkleP Proofs.BlockP Proofs.MerkleBlockP Proofs.C14Tie Model.BlockObj Proofs.BlockObjP Model.BlockCall Proofs.BlockCallP.

(* ---- tie to the source: the layouts the models transcribe are the ones /repo uses now -------------------- *)
(* block header "L##LLL", count "I", merkleblock "header:z total_transactions:L hashes:[#] flags:[1]" with
   post_unpack_merkleblock registered, "L" = 4 bytes little-endian, "#" = 32 raw bytes, "1" = 1 byte.
   Gen/GenBlockC14.v is regenerated from /repo on every run; a change breaks this theorem. *)
Theorem C14_layouts_as_modelled : layouts_as_modelled.
Proof. exact layouts_ok. Qed.
Print Assumptions C14_layouts_as_modelled.

(* ---- merkle root ------------------------------------------------------------------------------------ *)
(* pycoin's level-by-level loop = the recursive tree definition (BIP37 CalcHash at the root), for every non-empty
   list and every hash function; in particular the loop's fuel len(hashes) always suffices *)
Theorem C14_merkle_is_spec : forall (H : bytes -> bytes) (l : list bytes), l <> [] ->
  merkle H l = Ret (merkle_root H l).
Proof. exact merkle_is_spec. Qed.
Print Assumptions C14_merkle_is_spec.

(* the empty list is an IndexError, never an endless loop *)
Theorem C14_merkle_empty_and_total : forall (H : bytes -> bytes),
  merkle H [] = Raise E_INDEX /\ forall l, merkle H l <> OutOfFuel.
Proof. intros H. split; [exact (merkle_empty H) | exact (merkle_total H)]. Qed.
Print Assumptions C14_merkle_empty_and_total.

(* ---- header ------------------------------------------------------------------------------------------- *)
(* header -> 80 bytes -> the same header, with anything following left unread *)
Theorem C14_header_roundtrip : forall h : header, wf_header h ->
  exists s, stream_header h = Ret s /\ length s = 80 /\ forall rest, parse_header (s ++ rest) = Ret (h, rest).
Proof. exact header_stream_parse. Qed.
Print Assumptions C14_header_roundtrip.

(* bytes -> header -> the same first 80 bytes; fewer than 80 bytes is always struct.error *)
Theorem C14_header_parse_roundtrip : forall s : bytes,
  (80 <= length s -> exists h, parse_header s = Ret (h, skipn 80 s) /\ stream_header h = Ret (firstn 80 s) /\ wf_header h) /\
  (length s < 80 -> parse_header s = Raise E_STRUCT).
Proof. intros s. split; [exact (header_parse_long s) | exact (header_parse_short s)]. Qed.
Print Assumptions C14_header_parse_roundtrip.

(* hash() is the double hash of exactly the 80 header bytes; id() is its byte reversal *)
Theorem C14_id_is_dsha_of_80 : forall (dsha256 : bytes -> bytes),
  (forall s h rest, parse_header s = Ret (h, rest) ->
     block_hash dsha256 h = Ret (dsha256 (firstn 80 s)) /\ 80 <= length s) /\
  (forall h, wf_header h -> exists s, length s = 80 /\ block_hash dsha256 h = Ret (dsha256 s) /\
     block_id dsha256 h = Ret (rev (dsha256 s)) /\ forall rest, parse_header (s ++ rest) = Ret (h, rest)).
Proof. intros d. split; [exact (hash_of_parsed d) | exact (hash_of_wf d)]. Qed.
Print Assumptions C14_id_is_dsha_of_80.

(* the id holds for every HISTORY of one Block object, not only for fresh objects.  Model/BlockObj.v carries the
   object's memo attribute (_Block__hash) as state and transcribes hash()'s `hasattr(self, "__hash")` test, which
   never sees the name-mangled attribute.  For every sequence of hash()/id()/str()/as_bin() calls, set_nonce and plain
   assignments to version, previous_block_hash, merkle_root, timestamp, difficulty, and every initial memo:
   all observations equal the memo-free specification computed from the current field values only *)
Theorem C14_history_is_memo_free : forall (dsha256 : bytes -> bytes) (ops : list block_op) (o : block_obj),
  obj_run dsha256 o ops = spec_run dsha256 (o_header o) ops.
Proof. exact obj_run_is_spec. Qed.
Print Assumptions C14_history_is_memo_free.

(* ... hence after any history of well-formed updates, hash() = dsha256 of the 80 bytes of the CURRENT fields,
   id() its reversal, and those 80 bytes parse back to the current fields *)
Theorem C14_id_after_any_history : forall (dsha256 : bytes -> bytes) (o : block_obj) (ops : list block_op),
  wf_header (o_header o) -> Forall op_wf ops ->
  let h := final_header (o_header o) ops in
  exists s, length s = 80 /\ stream_header h = Ret s /\ (forall rest, parse_header (s ++ rest) = Ret (h, rest)) /\
    obj_run dsha256 o (ops ++ [OpHash; OpId; OpStreamHeader]) =
    obj_run dsha256 o ops ++ [Ret (dsha256 s); Ret (rev (dsha256 s)); Ret s].
Proof. exact id_after_any_history. Qed.
Print Assumptions C14_id_after_any_history.

(* ---- calling conventions ------------------------------------------------------------------------------------------ *)
(* inspect.signature of every public entry point of block.py / merkle.py / the merkleblock parser on the current tree
   (Gen/GenSigC14.v, regenerated each run) starts with the pinned parameters, same names and defaults, and adds only
   defaulted ones: a call written against the pinned signature binds the same way *)
Theorem C14_signatures_as_pinned : signatures_compatible = true.
Proof. exact signatures_ok. Qed.
Print Assumptions C14_signatures_as_pinned.

(* Python's argument binding for Block.parse(f, include_transactions=True, include_offsets=None, check_merkle_hash=True):
   positional in the documented order with 0..3 arguments = keywords in any order and any subset = mixed = defaults;
   a 4th positional, a repeated or unknown keyword is TypeError before anything is read *)
Theorem C14_parse_call_binding : forall a b c d : pyval,
  (bind_args block_parse_sig [] [] = Ret [VBool true; VNone; VBool true] /\
   bind_args block_parse_sig [a] [] = Ret [a; VNone; VBool true] /\
   bind_args block_parse_sig [a; b] [] = Ret [a; b; VBool true] /\
   bind_args block_parse_sig [a; b; c] [] = Ret [a; b; c] /\
   bind_args block_parse_sig [a; b; c; d] [] = Raise E_TYPE) /\
  (bind_args block_parse_sig [] [(name_include_transactions, a); (name_include_offsets, b); (name_check_merkle_hash, c)] = Ret [a; b; c] /\
   bind_args block_parse_sig [] [(name_check_merkle_hash, c); (name_include_offsets, b); (name_include_transactions, a)] = Ret [a; b; c] /\
   bind_args block_parse_sig [] [(name_check_merkle_hash, c)] = Ret [VBool true; VNone; c] /\
   bind_args block_parse_sig [] [(name_include_offsets, b)] = Ret [VBool true; b; VBool true]) /\
  (bind_args block_parse_sig [a] [(name_include_offsets, b); (name_check_merkle_hash, c)] = Ret [a; b; c] /\
   bind_args block_parse_sig [a; b] [(name_check_merkle_hash, c)] = Ret [a; b; c] /\
   bind_args block_parse_sig [a; b] [(name_include_offsets, b)] = Raise E_TYPE).
Proof.
  intros a b c d. split; [|split].
  - exact (bind_positional a b c d).
  - destruct (bind_keywords a b c) as (K1 & _ & _ & _ & _ & K6 & _ & K8 & K9 & _). repeat split; assumption.
  - destruct (bind_mixed a b c) as (M1 & _ & M3 & _ & M5 & _). repeat split; assumption.
Qed.
Print Assumptions C14_parse_call_binding.

(* presentation independence: however the call is written, it means block_parse on the truth values of the bound
   include_transactions and check_merkle_hash (include_offsets does not change what is parsed or checked) *)
Theorem C14_parse_call_is_bound : forall (tx : Type) (parse_tx : parser tx) (tx_hash : tx -> bytes) (dsha256 : bytes -> bytes)
    pos kw a b c s, bind_args block_parse_sig pos kw = Ret [a; b; c] ->
  block_parse_call tx parse_tx tx_hash dsha256 pos kw s =
  block_parse tx parse_tx tx_hash dsha256 (truthy a) (truthy c) s.
Proof. exact call_is_bound. Qed.
Print Assumptions C14_parse_call_is_bound.

(* every call form that asks for the transactions and does not switch the check off rejects a wrong root, e.g.
   parse(f, True, None), parse(f, True, False), parse(f, True, None, True), parse(f, check_merkle_hash=1) *)
Theorem C14_bad_root_rejected_any_call : forall (tx : Type) (parse_tx : parser tx) (stream_tx : tx -> bytes)
    (tx_hash : tx -> bytes) (dsha256 : bytes -> bytes) pos kw a b c (h : header) (ts : list tx),
  bind_args block_parse_sig pos kw = Ret [a; b; c] -> truthy a = true -> truthy c = true ->
  tx_parser_consumes tx parse_tx -> wf_header h -> ts <> [] -> (N.of_nat (length ts) < 2 ^ 64)%N ->
  Forall (tx_frame tx parse_tx stream_tx) ts ->
  h_merkle_root h <> merkle_root dsha256 (map tx_hash ts) ->
  exists s, block_stream tx stream_tx (mkBlock tx h ts) = Ret s /\
    forall rest, block_parse_call tx parse_tx tx_hash dsha256 pos kw (s ++ rest) = Raise E_BADMERKLE.
Proof. exact bad_root_rejected_any_call. Qed.
Print Assumptions C14_bad_root_rejected_any_call.

Theorem C14_block_roundtrip_any_call : forall (tx : Type) (parse_tx : parser tx) (stream_tx : tx -> bytes)
    (tx_hash : tx -> bytes) (dsha256 : bytes -> bytes) pos kw a b c (h : header) (ts : list tx),
  bind_args block_parse_sig pos kw = Ret [a; b; c] -> truthy a = true ->
  tx_parser_consumes tx parse_tx -> wf_header h -> ts <> [] -> (N.of_nat (length ts) < 2 ^ 64)%N ->
  Forall (tx_frame tx parse_tx stream_tx) ts ->
  h_merkle_root h = merkle_root dsha256 (map tx_hash ts) ->
  exists s, block_stream tx stream_tx (mkBlock tx h ts) = Ret s /\
    forall rest, block_parse_call tx parse_tx tx_hash dsha256 pos kw (s ++ rest) = Ret (mkBlock tx h ts, rest).
Proof. exact roundtrip_any_call. Qed.
Print Assumptions C14_block_roundtrip_any_call.

(* ---- full blocks (transaction codec abstract) ------------------------------------------------------------ *)
Theorem C14_block_roundtrip : forall (tx : Type) (parse_tx : parser tx) (stream_tx : tx -> bytes) (tx_hash : tx -> bytes)
    (dsha256 : bytes -> bytes) (h : header) (ts : list tx),
  tx_parser_consumes tx parse_tx -> wf_header h -> ts <> [] -> (N.of_nat (length ts) < 2 ^ 64)%N ->
  Forall (tx_frame tx parse_tx stream_tx) ts ->
  h_merkle_root h = merkle_root dsha256 (map tx_hash ts) ->
  exists s, block_stream tx stream_tx (mkBlock tx h ts) = Ret s /\
    forall rest, block_parse tx parse_tx tx_hash dsha256 true true (s ++ rest) = Ret (mkBlock tx h ts, rest).
Proof. exact block_roundtrip. Qed.
Print Assumptions C14_block_roundtrip.

(* bytes -> block -> the same bytes, when the count is minimally encoded and the tx codec is exact *)
Theorem C14_block_parse_roundtrip : forall (tx : Type) (parse_tx : parser tx) (stream_tx : tx -> bytes) (tx_hash : tx -> bytes)
    (dsha256 : bytes -> bytes) (check : bool) (s : bytes) (b : block tx) (rest : bytes),
  tx_parser_exact tx parse_tx stream_tx ->
  block_parse tx parse_tx tx_hash dsha256 true check s = Ret (b, rest) ->
  b_txs tx b <> [] -> varint_canonical (skipn 80 s) = true ->
  exists p, block_stream tx stream_tx b = Ret p /\ s = p ++ rest.
Proof. exact block_stream_of_parse. Qed.
Print Assumptions C14_block_parse_roundtrip.

(* a serialised block whose header root is not the root of its transactions is rejected with BadMerkleRootError *)
Theorem C14_bad_root_rejected : forall (tx : Type) (parse_tx : parser tx) (stream_tx : tx -> bytes) (tx_hash : tx -> bytes)
    (dsha256 : bytes -> bytes) (h : header) (ts : list tx),
  tx_parser_consumes tx parse_tx -> wf_header h -> ts <> [] -> (N.of_nat (length ts) < 2 ^ 64)%N ->
  Forall (tx_frame tx parse_tx stream_tx) ts ->
  h_merkle_root h <> merkle_root dsha256 (map tx_hash ts) ->
  exists s, block_stream tx stream_tx (mkBlock tx h ts) = Ret s /\
    forall rest, block_parse tx parse_tx tx_hash dsha256 true true (s ++ rest) = Raise E_BADMERKLE.
Proof. exact block_bad_root_rejected. Qed.
Print Assumptions C14_bad_root_rejected.

(* whatever the bytes: a block accepted with at least one transaction carries the root of its transactions *)
Theorem C14_accepted_block_has_root : forall (tx : Type) (parse_tx : parser tx) (tx_hash : tx -> bytes)
    (dsha256 : bytes -> bytes) (s : bytes) (b : block tx) (rest : bytes),
  block_parse tx parse_tx tx_hash dsha256 true true s = Ret (b, rest) -> b_txs tx b <> [] ->
  h_merkle_root (b_header tx b) = merkle_root dsha256 (map tx_hash (b_txs tx b)).
Proof. exact block_accepted_root. Qed.
Print Assumptions C14_accepted_block_has_root.

(* the fuel given to the transaction loop (bytes left + 1) always suffices *)
Theorem C14_block_parse_total : forall (tx : Type) (parse_tx : parser tx) (stream_tx : tx -> bytes) (tx_hash : tx -> bytes)
    (dsha256 : bytes -> bytes) (inc check : bool) (s : bytes),
  tx_parser_consumes tx parse_tx -> (forall s, parse_tx s <> OutOfFuel) ->
  block_parse tx parse_tx tx_hash dsha256 inc check s <> OutOfFuel.
Proof. exact block_parse_total. Qed.
Print Assumptions C14_block_parse_total.

(* ---- BIP37 merkleblock proofs ------------------------------------------------------------------------- *)
(* exact verdict on every honest proof: the matched ids in block order, unless two sibling nodes that the
   verifier computes have equal hashes (then ValueError) *)
Theorem C14_honest_proof_exact : forall (H : bytes -> bytes) (txids : list bytes) (matches : list bool),
  txids <> [] -> length matches = length txids ->
  let h := Nat.log2_up (length txids) in
  post_unpack H (N.of_nat (length txids)) (build_hashes H h txids matches)
              (pack_bits (build_bits h txids matches)) (sub H h txids) =
  if trav_collision H h txids matches then Raise E_VALUE else Ret (matched txids matches).
Proof. exact honest_proof_exact. Qed.
Print Assumptions C14_honest_proof_exact.

Theorem C14_honest_proof_accepted : forall (H : bytes -> bytes) (txids : list bytes) (matches : list bool) (root : bytes),
  txids <> [] -> length matches = length txids -> merkle H txids = Ret root ->
  let '(total, hashes, flags) := partial_merkle_tree H txids matches in
  post_unpack H total hashes flags root = Ret (matched txids matches) \/
  sibling_collision H (Nat.log2_up (length txids)) txids.
Proof. exact honest_proof_accepted. Qed.
Print Assumptions C14_honest_proof_accepted.

(* the same through the wire format: header, total, count + 32-byte hashes, count + flag bytes, anything after *)
Theorem C14_merkleblock_wire : forall (H : bytes -> bytes) (h : header) (total : N) (hs : list bytes) (flags : bytes),
  wf_header h -> (total < 2 ^ 32)%N -> Forall len32 hs ->
  (N.of_nat (length hs) < 2 ^ 64)%N -> (N.of_nat (length flags) < 2 ^ 64)%N ->
  exists s, merkleblock_wire h total hs flags = Ret s /\
    forall trailing, parse_merkleblock H (s ++ trailing) = post_unpack H total hs flags (h_merkle_root h).
Proof. exact parse_merkleblock_wire. Qed.
Print Assumptions C14_merkleblock_wire.

(* rejections.  `accepted` = post_unpack returned a list. *)
Theorem C14_reject_extra_hashes : forall (H : bytes -> bytes) total hs flags root acc extra,
  post_unpack H total hs flags root = Ret acc -> extra <> [] ->
  post_unpack H total (hs ++ extra) flags root = Raise E_VALUE.
Proof. exact reject_extra_hashes. Qed.
Print Assumptions C14_reject_extra_hashes.

(* hashes added or removed anywhere (same flags): rejected *)
Theorem C14_reject_hash_count : forall (H : bytes -> bytes) total hs hs' flags root acc,
  post_unpack H total hs flags root = Ret acc -> length hs' <> length hs ->
  exists e, post_unpack H total hs' flags root = Raise e.
Proof. exact reject_hash_count. Qed.
Print Assumptions C14_reject_hash_count.

Theorem C14_reject_extra_flag_bytes : forall (H : bytes -> bytes) total hs flags root acc extra,
  post_unpack H total hs flags root = Ret acc -> extra <> [] ->
  post_unpack H total hs (flags ++ extra) root = Raise E_VALUE.
Proof. exact reject_extra_flag_bytes. Qed.
Print Assumptions C14_reject_extra_flag_bytes.

(* accepted flag bytes are canonical (minimal length, zero padding); every other byte string with the same
   consumed bits — set padding bits, extra or missing bytes — is rejected *)
Theorem C14_flags_canonical : forall (H : bytes -> bytes) total hs flags root acc,
  post_unpack H total hs flags root = Ret acc ->
  exists nb, 0 < nb /\ length flags = (nb + 7) / 8 /\
    (forall k, nb <= k < 8 * length flags -> bit flags k = Some false) /\
    forall flags', (forall k, k < nb -> bit flags' k = bit flags k) -> flags' <> flags ->
      post_unpack H total hs flags' root = Raise E_VALUE.
Proof. exact flags_canonical. Qed.
Print Assumptions C14_flags_canonical.

Theorem C14_reject_wrong_root : forall (H : bytes -> bytes) total hs flags root root' acc,
  post_unpack H total hs flags root = Ret acc -> root' <> root ->
  post_unpack H total hs flags root' = Raise E_VALUE.
Proof. exact reject_wrong_root. Qed.
Print Assumptions C14_reject_wrong_root.

(* altered hashes: rejected, or two different strings with the same H are exhibited.
   (32-byte outputs of H is a hypothesis about the hash, as is the 32-byte shape of wire hashes.) *)
Theorem C14_reject_altered_hashes : forall (H : bytes -> bytes), (forall x, length (H x) = 32) ->
  forall total hs hs' flags root acc, Forall len32 hs -> Forall len32 hs' ->
  post_unpack H total hs flags root = Ret acc -> hs' <> hs ->
  (exists e, post_unpack H total hs' flags root = Raise e) \/ hash_collision H.
Proof. exact reject_altered_hashes. Qed.
Print Assumptions C14_reject_altered_hashes.

(* beyond the property text: soundness.  Whatever proof is accepted against the root of a block, the ids it
   returns are transactions of that block, in block order — or a collision of H is exhibited *)
Theorem C14_accepted_proof_sound : forall (H : bytes -> bytes), (forall x, length (H x) = 32) ->
  forall (txids : list bytes) total hs flags root acc,
  txids <> [] -> Forall len32 txids -> Forall len32 hs -> total = N.of_nat (length txids) ->
  merkle H txids = Ret root -> post_unpack H total hs flags root = Ret acc ->
  (exists m, length m = length txids /\ acc = matched txids m) \/ hash_collision H.
Proof. exact accepted_proof_sound. Qed.
Print Assumptions C14_accepted_proof_sound.

(* the verifier never runs out of the recursion depth it is given; total_transactions = 0 is handled as 1 *)
Theorem C14_post_unpack_total : forall (H : bytes -> bytes) total hs flags root,
  post_unpack H total hs flags root <> OutOfFuel /\
  post_unpack H 0 hs flags root = post_unpack H 1 hs flags root.
Proof. intros. split; [apply post_unpack_total | apply post_unpack_zero]. Qed.
Print Assumptions C14_post_unpack_total.

(* ---- non-vacuity ------------------------------------------------------------------------------------------ *)
Definition toyH (x : bytes) : bytes := firstn 32 (rev x ++ repeatb x00 32).
Definition toy_txids : list bytes := map (fun k => repeatb (n2b (N.of_nat k)) 32) (seq 1 5).

Example C14_ex_hash_hyp : forall x, length (toyH x) = 32.
Proof. intros x. unfold toyH. rewrite firstn_length, app_length. assert (length (repeatb x00 32) = 32) by reflexivity. lia. Qed.

(* 5 transactions, the 2nd and 5th matched: accepted with exactly those two, root = merkle of the ids *)
Example C14_ex_honest :
  let '(total, hashes, flags) := partial_merkle_tree toyH toy_txids [false; true; false; false; true] in
  match merkle toyH toy_txids with
  | Ret root => post_unpack toyH total hashes flags root = Ret [nth 1 toy_txids []; nth 4 toy_txids []]
                /\ total = 5%N /\ length hashes = 4 /\ flags = [xd7; x01]
  | _ => False
  end.
Proof. vm_compute. repeat split. Qed.

(* a set padding bit in the last flag byte is rejected *)
Example C14_ex_padding :
  let '(total, hashes, flags) := partial_merkle_tree toyH toy_txids [false; true; false; false; true] in
  post_unpack toyH total hashes [xd7; x03] (merkle_root toyH toy_txids) = Raise E_VALUE.
Proof. vm_compute. reflexivity. Qed.

Example C14_ex_header : wf_header (mkHeader 1 (repeatb x11 32) (repeatb x22 32) 5 6 7).
Proof. repeat split; vm_compute; reflexivity. Qed.

(* the abstract transaction-codec hypotheses are satisfiable: a one-byte toy codec meets all three, and a block of
   three toy transactions goes through stream and parse (with the merkle check on) *)
Definition toy_parse : parser byte := fun s => match s with [] => Raise E_STRUCT | b :: r => Ret (b, r) end.
Definition toy_stream (b : byte) : bytes := [b].
Example C14_ex_codec :
  tx_parser_consumes byte toy_parse /\ (forall t, tx_frame byte toy_parse toy_stream t) /\
  tx_parser_exact byte toy_parse toy_stream.
Proof.
  repeat split.
  - intros [|b s] t r E; [discriminate|]. injection E as _ <-. cbn. apply le_n.
  - intros [|b s] t r E; [discriminate|]. injection E as <- <-. reflexivity.
Qed.

Example C14_ex_block :
  let txh := fun b : byte => repeatb b 32 in
  let ts := [x01; x02; x03] in
  let h := mkHeader 1 (repeatb x11 32) (merkle_root toyH (map txh ts)) 5 6 7 in
  match block_stream byte toy_stream (mkBlock byte h ts) with
  | Ret s => length s = 84 /\
             block_parse byte toy_parse txh toyH true true (s ++ [xff]) = Ret (mkBlock byte h ts, [xff]) /\
             block_parse byte toy_parse txh toyH true true (firstn 36 s ++ [x00] ++ skipn 37 s) = Raise E_BADMERKLE
  | _ => False
  end.
Proof. vm_compute. repeat split. Qed.

(* a history: hash, bump the timestamp, hash again (differs, and is the hash of the new header), set_nonce, id *)
Example C14_ex_history :
  let o := mkObj (mkHeader 2 (repeatb x01 32) (repeatb x02 32) 1400000000 486604799 0) None in
  match obj_run toyH o [OpHash; OpSetTimestamp 1400000001; OpHash; OpSetNonce 7; OpId; OpSetRoot (repeatb x03 32); OpHash] with
  | [Ret a; Ret b; Ret c; Ret d] =>
      a <> b /\ Ret b = block_hash toyH (mkHeader 2 (repeatb x01 32) (repeatb x02 32) 1400000001 486604799 0) /\
      Ret (rev c) = block_hash toyH (mkHeader 2 (repeatb x01 32) (repeatb x02 32) 1400000001 486604799 7) /\
      Ret d = block_hash toyH (mkHeader 2 (repeatb x01 32) (repeatb x03 32) 1400000001 486604799 7)
  | _ => False
  end.
Proof. vm_compute. repeat split. discriminate. Qed.

(* the seeded shape: parse(f, True, None) — include_offsets given positionally and falsy — still checks the root *)
Example C14_ex_call :
  bind_args block_parse_sig [VBool true; VNone] [] = Ret [VBool true; VNone; VBool true] /\
  bind_args block_parse_sig [VBool true; VBool false] [] = Ret [VBool true; VBool false; VBool true] /\
  let txh := fun b : byte => repeatb b 32 in
  let h := mkHeader 1 (repeatb x11 32) (repeatb x22 32) 5 6 7 in
  match block_stream byte toy_stream (mkBlock byte h [x01; x02; x03]) with
  | Ret s => block_parse_call byte toy_parse txh toyH [VBool true; VNone] [] s = Raise E_BADMERKLE /\
             block_parse_call byte toy_parse txh toyH [VInt 1; VInt 0; VInt 0] [] s = Ret (mkBlock byte h [x01; x02; x03], [])
  | _ => False
  end.
Proof. vm_compute. repeat split. Qed.
