(* Props/C11.v — property C11 (under construction). *)
From PV Require Import Base.Bytes Base.Outcome Gen.GenCodecsC11 Model.Base58 Model.Bech32.
