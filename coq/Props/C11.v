(* Props/C11.v — property C11: Base58, Base58Check and Bech32/Bech32m codecs are exact and detect corruption.
   Only statements; every proof is `exact <lemma>`.  Python str = list of code points (pystr), bytes = list byte,
   int = Z.  `btc_*` = the Base58 functions instantiated with the alphabet REGENERATED from /repo; the Bech32
   functions use the regenerated CHARSET, generator constants and BECH32M_CONST (Gen/GenCodecsC11.v). *)
From PV Require Import Base.Bytes Base.Outcome Gen.GenCodecsC11 Model.Base58 Model.Bech32
  Proofs.Base58P Proofs.Bech32P Proofs.Bech32StrP Proofs.Bech32DetectP Proofs.Bech32DetectStrP
  Proofs.Bech32Detect3P Proofs.Bech32CanonP Model.ParseableStrC11 Proofs.ParseableStrC11P.
Local Open Scope Z_scope.

(* ================================ Base58 ================================================================== *)
(* a2b_base58 (b2a_base58 s) = s for EVERY byte string (any length, any number of leading zero bytes); the
   encoder neither raises nor runs out of fuel *)
Theorem C11_b58_decode_encode : forall s : bytes,
  exists t, btc_b2a_base58 s = Ret t /\ btc_a2b_base58 t = Ret s.
Proof. exact b58_decode_encode. Qed.
Print Assumptions C11_b58_decode_encode.

(* b2a_base58 (a2b_base58 t) = t for EVERY string over the alphabet (so the accepted form is unique) *)
Theorem C11_b58_encode_decode : forall t : pystr, Forall b58_char t ->
  exists s, btc_a2b_base58 t = Ret s /\ btc_b2a_base58 s = Ret t.
Proof. exact b58_encode_decode. Qed.
Print Assumptions C11_b58_encode_decode.

(* EVERY other str (a character outside the alphabet: non-ASCII text and lone surrogates included) raises
   EncodingError, nothing else *)
Theorem C11_b58_rejects_non_alphabet : forall t : pystr, ~ Forall b58_char t ->
  btc_a2b_base58 t = Raise E_ENCODING.
Proof. exact b58_rejects_non_alphabet. Qed.
Print Assumptions C11_b58_rejects_non_alphabet.

Example C11_b58_examples :
  btc_b2a_base58 [x00; x00; x01] = Ret [49; 49; 50]%N /\ btc_a2b_base58 [49; 49; 50]%N = Ret [x00; x00; x01]
  /\ btc_a2b_base58 [48]%N = Raise E_ENCODING /\ btc_a2b_base58 [55296]%N = Raise E_ENCODING.
Proof. vm_compute. repeat split. Qed.

(* ================================ Base58Check ============================================================ *)
(* for ANY hash function whose digests have at least four bytes: encode then decode is the identity, through
   all three entry points *)
Theorem C11_b58check_roundtrip : forall (H : bytes -> bytes), (forall x, (4 <= length (H x))%nat) ->
  forall d : bytes, exists t,
    btc_b2a_hashed_base58 H d = Ret t /\ btc_a2b_hashed_base58 H t = Ret d
    /\ btc_is_hashed_base58_valid H t = Ret true /\ btc_parse_b58_double_sha256 H t = Some d.
Proof. exact b58check_roundtrip. Qed.
Print Assumptions C11_b58check_roundtrip.

(* for ANY hash function: a string whose decoded last four bytes are not the first four bytes of the hash of
   the rest is rejected (EncodingError / False / None) *)
Theorem C11_b58check_rejects_bad_checksum : forall (H : bytes -> bytes) (t : pystr) (data : bytes),
  btc_a2b_base58 t = Ret data -> firstn 4 (H (but_last4 data)) <> last4 data ->
  btc_a2b_hashed_base58 H t = Raise E_ENCODING /\ btc_is_hashed_base58_valid H t = Ret false
  /\ btc_parse_b58_double_sha256 H t = None.
Proof. exact b58check_rejects_bad_checksum. Qed.
Print Assumptions C11_b58check_rejects_bad_checksum.

(* ... in particular every payload followed by four bytes that are not its checksum *)
Theorem C11_b58check_wrong_checksum_rejected : forall (H : bytes -> bytes) (d c : bytes),
  length c = 4%nat -> c <> firstn 4 (H d) ->
  exists t, btc_b2a_base58 (d ++ c) = Ret t /\ btc_a2b_hashed_base58 H t = Raise E_ENCODING
            /\ btc_is_hashed_base58_valid H t = Ret false.
Proof. exact b58check_wrong_checksum_rejected. Qed.
Print Assumptions C11_b58check_wrong_checksum_rejected.

(* acceptance is exactly "decodes, and the last four bytes are the checksum of the rest" *)
Theorem C11_b58check_accepts_iff : forall (H : bytes -> bytes) (t : pystr) (body : bytes),
  btc_a2b_hashed_base58 H t = Ret body <->
  exists data, btc_a2b_base58 t = Ret data /\ body = but_last4 data /\ firstn 4 (H body) = last4 data.
Proof. exact b58check_accepts_iff. Qed.
Print Assumptions C11_b58check_accepts_iff.

(* ================================ parseable_str: the per-object cache ======================================== *)
(* ONE parseable_str object through ANY history of observers (parse_b58, parse_b58_double_sha256, the Groestlcoin
   parse_b58_groestl, parse_bech32) and dict mutators (clear, pop of any key, re-wrapping) answers every time
   exactly as a fresh str would — for ANY two checksum functions: the cache holds one key per checksum function *)
Theorem C11_cache_history_independent : forall (dsha groestl : bytes -> bytes) (s : pystr) (ops : list pop),
  history dsha groestl s ops = map (fresh_op dsha groestl s) ops.
Proof. exact history_independent. Qed.
Print Assumptions C11_cache_history_independent.

(* in particular the verdict under one checksum function never leaks into the other, in either order *)
Theorem C11_dsha_verdict_after_any_history : forall (dsha groestl : bytes -> bytes) (s : pystr) (before : list pop),
  last (history dsha groestl s (before ++ [ODsha])) RNone = RBytes (btc_parse_b58_double_sha256 dsha s).
Proof. exact dsha_verdict_after_any_history. Qed.
Print Assumptions C11_dsha_verdict_after_any_history.

Theorem C11_grs_verdict_after_any_history : forall (dsha groestl : bytes -> bytes) (s : pystr) (before : list pop),
  last (history dsha groestl s (before ++ [OGrs])) RNone = RBytes (btc_parse_b58_double_sha256 groestl s).
Proof. exact grs_verdict_after_any_history. Qed.
Print Assumptions C11_grs_verdict_after_any_history.

(* ================================ convertbits ============================================================== *)
(* 8 -> 5 with padding then 5 -> 8 strict is the identity on every byte string; the output has ceil(8n/5) symbols *)
Theorem C11_convertbits_roundtrip : forall data, bytes8 data ->
  exists out, convertbits data 8 5 true = Some out /\ syms5 out
              /\ Z.of_nat (length out) = (8 * Z.of_nat (length data) + 4) / 5
              /\ convertbits out 5 8 false = Some data.
Proof. exact convertbits_roundtrip_8_5_8. Qed.
Print Assumptions C11_convertbits_roundtrip.

(* whatever 5 -> 8 strict accepts, 8 -> 5 maps back to it: the accepted symbol string of a program is unique *)
Theorem C11_convertbits_strict_inverse : forall syms data, convertbits syms 5 8 false = Some data ->
  bytes8 data /\ convertbits data 8 5 true = Some syms.
Proof. exact convertbits_roundtrip_5_8_5. Qed.
Print Assumptions C11_convertbits_strict_inverse.

(* 5 -> 8 strict rejects exactly: five or more left-over bits, or non-zero left-over bits *)
Theorem C11_convertbits_strict_accepts_iff : forall syms, syms5 syms ->
  let e := (5 * Z.of_nat (length syms)) mod 8 in
  match convertbits syms 5 8 false with
  | None => 5 <= e \/ valfrom 32 0 syms mod 2 ^ e <> 0
  | Some out => e < 5 /\ valfrom 32 0 syms mod 2 ^ e = 0 /\ bytes8 out
                /\ 8 * Z.of_nat (length out) = 5 * Z.of_nat (length syms) - e
                /\ valfrom 256 0 out = valfrom 32 0 syms / 2 ^ e
  end.
Proof. exact convertbits_5_8. Qed.
Print Assumptions C11_convertbits_strict_accepts_iff.

(* the inner while loop of the model never runs out of fuel (positive widths) *)
Theorem C11_convertbits_total : forall f t pad data, 0 < f -> 0 < t ->
  exists r, convertbits_o f t pad data = Ret r.
Proof. exact convertbits_o_total. Qed.
Print Assumptions C11_convertbits_total.

(* ================================ Bech32 / Bech32m ========================================================= *)
(* the checksum closes: whatever was created verifies under the same constant *)
Theorem C11_checksum_create_verify : forall hrp data spec, printable hrp -> syms5 data ->
  bech32_verify_checksum hrp (data ++ bech32_create_checksum hrp data spec) = Some (spec_norm spec).
Proof. exact verify_created. Qed.
Print Assumptions C11_checksum_create_verify.

(* bech32_decode (bech32_encode hrp data spec) = (hrp, data, spec): hrp printable, not upper case, non-empty *)
Theorem C11_bech32_encode_decode_low : forall hrp data spec max_length,
  hrp_ok hrp -> syms5 data -> Z.of_nat (length hrp + 1 + length data + 6) <= max_length ->
  exists s, bech32_encode hrp data spec = Ret s
            /\ length s = (length hrp + 1 + length data + 6)%nat
            /\ bech32_decode_max s max_length = Some (hrp, data, spec_norm spec).
Proof. exact bech32_encode_decode_low. Qed.
Print Assumptions C11_bech32_encode_decode_low.

(* segwit addresses: for EVERY human-readable part, witness version 0..16 and program BIP173/BIP350 allow
   (triple_ok) encode succeeds and decode returns exactly (version, program) *)
Theorem C11_bech32_encode_decode : forall hrp ver prog, triple_ok hrp ver prog ->
  exists s, encode hrp ver prog = Ret (Some s) /\ decode hrp s = Some (ver, prog)
            /\ Z.of_nat (length s) = Z.of_nat (length hrp) + 8 + (8 * Z.of_nat (length prog) + 4) / 5.
Proof. exact segwit_encode_decode. Qed.
Print Assumptions C11_bech32_encode_decode.

(* ... and encode is the inverse of decode: whatever decode accepts is, case aside, exactly the string encode
   produces for the decoded (version, program): the accepted spelling of an address is unique *)
Theorem C11_bech32_decode_encode : forall hrp s ver prog, decode hrp s = Some (ver, prog) ->
  bytes8 prog /\ encode hrp ver prog = Ret (Some (map lower_c s)).
Proof. exact segwit_decode_encode. Qed.
Print Assumptions C11_bech32_decode_encode.

(* Both theorems quantify over ALL strings and ALL human-readable parts, those containing the separator character
   '1' included: the model splits at the LAST '1' (rfind), exactly as the code does, and compares the decoded hrp
   with the caller's for equality.  So an address whose real hrp is "bc1" is NOT an address of "bc" although it
   starts with "bc1" — by C11_bech32_decode_encode anything decode("bc", s) accepts re-encodes under "bc" to
   lower(s).  bc11qqqqsyqcyq5rqwzqfpg9scrgwpugpzysnycvmza : *)
Definition C11_bc1_addr : pystr :=
  [98; 99; 49; 49; 113; 113; 113; 113; 115; 121; 113; 99; 121; 113; 53; 114; 113; 119; 122; 113; 102; 112; 103; 57;
   115; 99; 114; 103; 119; 112; 117; 103; 112; 122; 121; 115; 110; 121; 99; 118; 109; 122; 97]%N.
Example C11_hrp_containing_separator :
  decode [98; 99]%N C11_bc1_addr = None
  /\ decode [98; 99; 49]%N C11_bc1_addr = Some (0, [0; 1; 2; 3; 4; 5; 6; 7; 8; 9; 10; 11; 12; 13; 14; 15; 16; 17; 18; 19])
  /\ encode [98; 99; 49]%N 0 [0; 1; 2; 3; 4; 5; 6; 7; 8; 9; 10; 11; 12; 13; 14; 15; 16; 17; 18; 19] = Ret (Some C11_bc1_addr)
  /\ hrp_ok [98; 99; 49]%N.
Proof.
  split; [vm_compute; reflexivity|]. split; [vm_compute; reflexivity|]. split; [vm_compute; reflexivity|].
  split; [repeat constructor; lia|split; [repeat constructor|cbn; lia]].
Qed.

Example C11_triple_ok_example : triple_ok [98; 99]%N 1 (repeat 7 32).
Proof.
  split; [|lia|repeat constructor; lia|cbn; lia|lia|vm_compute; congruence].
  split; [repeat constructor; lia|split; [repeat constructor|cbn; lia]].
Qed.

(* a valid address without a single letter ("21939603636202595": hrp "2", version 5, every symbol a digit): both str.lower() and
   str.upper() leave it unchanged, so the mixed-case test must not fire; str.islower()/isupper() are both False on it
   (seeded change C11-d1 rejected exactly these) *)
Definition C11_letter_free_addr : pystr := [50; 49; 57; 51; 57; 54; 48; 51; 54; 51; 54; 50; 48; 50; 53; 57; 53]%N.
Example C11_letter_free_address_accepted :
  triple_ok [50]%N 5 [137; 116; 248; 234; 58]
  /\ decode [50]%N C11_letter_free_addr = Some (5, [137; 116; 248; 234; 58])
  /\ encode [50]%N 5 [137; 116; 248; 234; 58] = Ret (Some C11_letter_free_addr)
  /\ map lower_c C11_letter_free_addr = C11_letter_free_addr /\ map upper_c C11_letter_free_addr = C11_letter_free_addr.
Proof.
  split.
  { split; [|lia|repeat constructor; lia|cbn; lia|lia|vm_compute; congruence].
    split; [repeat constructor; lia|split; [repeat constructor|cbn; lia]]. }
  repeat split; vm_compute; reflexivity.
Qed.

(* decode accepts EXACTLY: bech32_decode succeeds with the caller's hrp, version <= 16, strictly convertible
   program of 2..40 bytes (20 or 32 for v0), and the checksum constant that belongs to the version *)
Theorem C11_segwit_decode_accepts_iff : forall hrp s ver prog,
  decode hrp s = Some (ver, prog) <->
  exists data spec, bech32_decode s = Some (hrp, ver :: data, spec)
    /\ convertbits data 5 8 false = Some prog
    /\ (2 <= length prog <= 40)%nat /\ ver <= 16
    /\ (ver = 0 -> length prog = 20%nat \/ length prog = 32%nat)
    /\ spec = expected_spec ver.
Proof. exact segwit_decode_accepts_iff. Qed.
Print Assumptions C11_segwit_decode_accepts_iff.

Theorem C11_mixed_case_rejected : forall s max_length cu cl,
  In cu s -> is_upper cu = true -> In cl s -> is_lower cl = true -> bech32_decode_max s max_length = None.
Proof. exact mixed_case_rejected. Qed.
Print Assumptions C11_mixed_case_rejected.

Theorem C11_wrong_constant_rejected : forall hrp s h ver data spec,
  bech32_decode s = Some (h, ver :: data, spec) -> spec <> expected_spec ver -> decode hrp s = None.
Proof. exact wrong_constant_rejected. Qed.
Print Assumptions C11_wrong_constant_rejected.

(* constructive form: the encoder's payload under the OTHER constant is a well-formed Bech32(m) string that the
   segwit decoder refuses *)
Theorem C11_other_constant_refused : forall hrp ver prog spec, triple_ok hrp ver prog ->
  spec_norm spec <> expected_spec ver ->
  exists conv s, convertbits prog 8 5 true = Some conv /\ bech32_encode hrp (ver :: conv) spec = Ret s
    /\ bech32_decode s = Some (hrp, ver :: conv, spec_norm spec) /\ decode hrp s = None.
Proof. exact segwit_other_constant_refused. Qed.
Print Assumptions C11_other_constant_refused.

Theorem C11_bad_length_rejected : forall hrp s h ver data spec prog,
  bech32_decode s = Some (h, ver :: data, spec) -> convertbits data 5 8 false = Some prog ->
  ((length prog < 2)%nat \/ (40 < length prog)%nat
   \/ (ver = 0 /\ length prog <> 20%nat /\ length prog <> 32%nat)) ->
  decode hrp s = None.
Proof. exact bad_length_rejected. Qed.
Print Assumptions C11_bad_length_rejected.

Theorem C11_bad_padding_rejected : forall hrp s h ver data spec,
  bech32_decode s = Some (h, ver :: data, spec) -> convertbits data 5 8 false = None -> decode hrp s = None.
Proof. exact bad_padding_rejected. Qed.
Print Assumptions C11_bad_padding_rejected.

(* strings are lists of code points over the FULL unicode range (N): any code point outside 33..126 anywhere in the
   string — controls, space, DEL, every non-ASCII character, those whose lower()/upper() image is an ASCII letter
   (U+212A KELVIN SIGN, U+017F LONG S, ...) included — is rejected: the range test runs on the string as given,
   before any case conversion *)
Theorem C11_unprintable_rejected : forall (s : pystr) max_length (c : N), In c s -> (c < 33 \/ 126 < c)%N ->
  bech32_decode_max s max_length = None.
Proof. exact unprintable_rejected. Qed.
Print Assumptions C11_unprintable_rejected.

Example C11_kelvin_sign_rejected :   (* "A1" ++ [U+212A] ++ "QQQQQQ..." style: one non-ASCII code point *)
  bech32_decode [65; 49; 8490; 81; 81; 81; 81; 81; 81]%N = None /\ decode [97]%N [65; 49; 8490; 81; 81; 81; 81; 81; 81]%N = None.
Proof. vm_compute. split; reflexivity. Qed.

Theorem C11_too_long_rejected : forall s max_length, max_length < Z.of_nat (length s) ->
  bech32_decode_max s max_length = None.
Proof. exact too_long_rejected. Qed.
Print Assumptions C11_too_long_rejected.

(* ================================ error detection ========================================================== *)
(* the checksum register is GF(2)-affine: the xor of two runs is the run of the xor *)
Theorem C11_polymod_affine : forall d d' a b, length d = length d' ->
  Z.lxor (pm_from a d) (pm_from b d') = pm_from (Z.lxor a b) (zipxor d d').
Proof. exact pm_from_lxor. Qed.
Print Assumptions C11_polymod_affine.

(* one register step with a zero symbol is injective on 30-bit states *)
Theorem C11_shift_injective : forall a b, small a -> small b -> lstep a = lstep b -> a = b.
Proof. exact lstep_inj. Qed.
Print Assumptions C11_shift_injective.

(* the finite statement, decided in the kernel by the meet-in-the-middle sweep (vm_compute) *)
Theorem C11_syndrome_sweep : forall a x u v, In a vals31 -> In x Z0 -> In u Z0 -> In v Z0 ->
  Z.lxor (Z.lxor a x) (Z.lxor u v) <> 0.
Proof. exact sweep_statement. Qed.
Print Assumptions C11_syndrome_sweep.

(* any two symbol strings of equal length <= 89 that differ in 1..4 positions never verify under the same constant *)
Theorem C11_checksum_detects_4_errors : forall hrp d d' spec, syms5 d -> syms5 d' -> length d = length d' ->
  (length d <= 89)%nat -> (1 <= hamming d d' <= 4)%nat ->
  bech32_verify_checksum hrp d = Some spec -> bech32_verify_checksum hrp d' <> Some spec.
Proof. exact verify_detects_4_errors. Qed.
Print Assumptions C11_checksum_detects_4_errors.

(* character strings: two accepted strings of equal length with the same human-readable part that differ (case
   aside) in 1..4 characters carry DIFFERENT checksum constants *)
Theorem C11_bech32_decode_detects_4_errors : forall s s' mx h d spec d' spec',
  bech32_decode_max s mx = Some (h, d, spec) -> bech32_decode_max s' mx = Some (h, d', spec') ->
  length s' = length s -> Z.of_nat (length s) <= 91 ->
  (1 <= str_hamming (map lower_c s) (map lower_c s') <= 4)%nat -> spec' <> spec.
Proof. exact bech32_decode_detects_4_errors. Qed.
Print Assumptions C11_bech32_decode_detects_4_errors.

(* segwit level.  The literal reading of the property ("any difference of up to four characters from a valid
   string is rejected") is FALSE for BIP350 decoders, pycoin included: *)
Definition C11_statement : Prop := segwit_detection_statement.
Theorem C11_refuted_bech32m_flip : ~ C11_statement.
Proof. exact segwit_detection_refuted. Qed.
Print Assumptions C11_refuted_bech32m_flip.

(* ... and the only exception is the one the witness shows: the witness version moves between 0 and non-zero
   (exclusion predicate version_flip).  Errors anywhere in the string are covered: human-readable part,
   separator, data and checksum characters. *)
Theorem C11_partial : forall hrp s s' v prog,
  decode hrp s = Some (v, prog) -> length s' = length s ->
  (str_hamming s s' <= 4)%nat -> map lower_c s' <> map lower_c s ->
  decode hrp s' = None \/ exists v' prog', decode hrp s' = Some (v', prog') /\ version_flip v v'.
Proof. exact segwit_detects_4_errors. Qed.
Print Assumptions C11_partial.

(* up to THREE characters: rejected without exception, the Bech32 <-> Bech32m switch included (second kernel
   sweep: for data parts of 39 / 59 symbols — the only lengths a v0 address can have — no pattern of weight <= 3
   that changes the first symbol has syndrome 1 ^ BECH32M_CONST).  So the exception of C11_partial needs exactly
   four errors. *)
Theorem C11_switch_sweep : forall L, L = 39%nat \/ L = 59%nat ->
  forall a x u, 1 <= a <= 31 -> In x (0 :: singles_upto (L - 1)) -> In u (0 :: singles_upto (L - 1)) ->
  Z.lxor (Z.lxor (S_ (L - 1) a) x) u <> flipC.
Proof. exact sweep3_statement. Qed.
Print Assumptions C11_switch_sweep.

Theorem C11_segwit_detects_3_errors : forall hrp s s' v prog,
  decode hrp s = Some (v, prog) -> length s' = length s ->
  (str_hamming s s' <= 3)%nat -> map lower_c s' <> map lower_c s -> decode hrp s' = None.
Proof. exact segwit_detects_3_errors. Qed.
Print Assumptions C11_segwit_detects_3_errors.
