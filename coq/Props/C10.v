(* Props/C10.v — property C10: key and signature encodings (WIF, SEC, DER) are lossless and strict.
   Only statements; every proof is `exact <lemma>`.

   The only number-theoretic premise of the GENERIC SEC theorems (any 32-byte field prime p = 3 mod 4) is `prime p`
   (M1 of DESIGN.md section 3); Fermat's little theorem (M3) is PROVED from it (Proofs/FermatC10.v).  `prime p` is
   used ONLY for "decompression finds the point back" (C10_sec_roundtrip, C10_sec_decode_roundtrip); it is proved by
   computation on the toy field p = 251 (C10_toy_premises_hold).  For secp256k1 — the curve the networks use, constants
   regenerated from pycoin/ecdsa/secp256k1.py — `prime k1_p` (and `prime k1_n`) is now PROVED by a kernel-checked
   Pocklington certificate (Proofs/Pocklington.v, CurvePrimes.v, CurvePrimesC10.v; C10_secp256k1_moduli_prime), so
   C10_sec_roundtrip_secp256k1_unconditional, C10_sec_decode_roundtrip_secp256k1 and C10_secp256k1_no_point_with_y0
   have NO premise left (C10_sec_roundtrip_secp256k1, with the premise as hypothesis, is kept).  The
   acceptance/strictness theorems never needed it.

   DER: the round trip is proved for every pair r, s >= 0 whose encoding DER can express at all: the
   signature body must be shorter than 256^127 bytes, the largest length a long-form length field (at
   most 127 length octets) can announce (`der_expressible`).  This is a limit of the format, not of
   pycoin, and it is beyond any byte string that can exist (C10_der_roundtrip_addressable: every
   integer of fewer than 2^64 bytes qualifies).  The former finding der-integer-length-128 is fixed in
   /repo (encode_integer now uses encode_length) and its exclusion is gone. *)
From Coq Require Import Znumtheory.
From PV Require Import Base.Bytes Base.Outcome Gen.GenWifPrefixes Gen.GenCurveC10
  Model.Der Model.Sec Model.Wif Spec.DerStrictSpec Proofs.DerP Proofs.SecP Proofs.WifP Proofs.SecK1Primes.
Local Open Scope Z_scope.

(* ================================ DER ================================ *)

(* every (r, s) with r, s >= 0 encodes and decodes back, in both decoder modes, short- and long-form
   lengths at both levels (integers and sequence); the only hypothesis is expressibility in DER:
   nbytes(r) + nbytes(s) + 264 <= 256^127 *)
Theorem C10_der_roundtrip : forall (r s : Z) (broken : bool),
  0 <= r -> 0 <= s -> der_expressible r s ->
  exists sig, sigencode_der r s = Ret sig /\ sigdecode_der sig broken = Ret (r, s).
Proof. exact der_roundtrip. Qed.
Print Assumptions C10_der_roundtrip.

(* in particular for every pair of integers that fit in addressable memory (below 2^(2^67), i.e. fewer
   than 2^64 bytes each) — no other size bound *)
Theorem C10_der_roundtrip_addressable : forall (r s : Z) (broken : bool),
  0 <= r -> 0 <= s -> Z.log2 r < 2 ^ 67 -> Z.log2 s < 2 ^ 67 ->
  exists sig, sigencode_der r s = Ret sig /\ sigdecode_der sig broken = Ret (r, s).
Proof. exact der_roundtrip_addressable. Qed.
Print Assumptions C10_der_roundtrip_addressable.

(* strict decoding is prefix-free: whatever blob it accepts (encoder output or not), the same blob
   followed by any non-empty trailing bytes is refused with UnexpectedDER *)
Theorem C10_der_strict_rejects_trailing : forall (blob t : bytes) (v : Z * Z),
  sigdecode_der blob false = Ret v -> t <> [] -> sigdecode_der (blob ++ t) false = Raise E_DER.
Proof. exact der_strict_prefix_free. Qed.
Print Assumptions C10_der_strict_rejects_trailing.

Theorem C10_der_strict_rejects_trailing_after_encoding : forall (r s : Z) (t : bytes),
  0 <= r -> 0 <= s -> der_expressible r s -> t <> [] ->
  exists sig, sigencode_der r s = Ret sig /\ sigdecode_der (sig ++ t) false = Raise E_DER.
Proof. exact der_trailing_after_encoding. Qed.
Print Assumptions C10_der_strict_rejects_trailing_after_encoding.

(* the encoder's output for a low-S signature of any group order below 2^256, followed by any
   sighash-type byte, passes Core's IsValidSignatureEncoding (BIP66, Spec/DerStrictSpec.v), decodes
   strictly to the same pair, and s is still low (used by C05) *)
Theorem C10_der_of_lows_passes_strict_checks : forall (n r s : Z) (hashtype : byte),
  n < 2 ^ 256 -> 1 <= r < n -> 1 <= s <= n / 2 ->
  exists sig, sigencode_der r s = Ret sig /\ bip66_valid (sig ++ [hashtype]) = true /\
    sigdecode_der sig false = Ret (r, s) /\ s <= n / 2.
Proof. exact der_of_lows. Qed.
Print Assumptions C10_der_of_lows_passes_strict_checks.

(* the BIP66 shape holds for every 1 <= r, s < 2^256 (no low-S needed for the shape) *)
Theorem C10_der_encoder_output_is_bip66 : forall (r s : Z) (hashtype : byte),
  1 <= r < 2 ^ 256 -> 1 <= s < 2 ^ 256 ->
  exists sig, sigencode_der r s = Ret sig /\ bip66_valid (sig ++ [hashtype]) = true.
Proof. exact der_bip66. Qed.
Print Assumptions C10_der_encoder_output_is_bip66.

(* ================================ SEC ================================ *)

(* every finite point with y <> 0 of every curve over a 32-byte field prime p = 3 (mod 4) goes through
   public_pair_to_sec and Key.from_sec (compressed and uncompressed) and comes back with its flag.
   (A point with y = 0 has order 2; points_for_x raises ValueError for it — see C10_sec_y0_not_decodable.) *)
Theorem C10_sec_roundtrip : forall p a b : Z,
  2 ^ 248 <= p < 2 ^ 256 -> prime p -> p mod 4 = 3 ->
  forall (x y : Z) (compressed : bool),
  0 <= x < p -> 0 < y < p -> contains_point p a b x y = true ->
  exists sec, public_pair_to_sec (x, y) compressed = Ret sec /\
    length sec = (if compressed then 33 else 65)%nat /\
    key_from_sec p a b sec = Ret ((x, y), compressed).
Proof. exact sec_roundtrip_generic. Qed.
Print Assumptions C10_sec_roundtrip.

(* the same at sec_to_public_pair level, strict and non-strict mode *)
Theorem C10_sec_decode_roundtrip : forall p a b : Z,
  2 ^ 248 <= p < 2 ^ 256 -> prime p -> p mod 4 = 3 ->
  forall (x y : Z) (compressed strict : bool),
  0 <= x < p -> 0 < y < p -> contains_point p a b x y = true ->
  exists sec, public_pair_to_sec (x, y) compressed = Ret sec /\
    sec_to_public_pair p a b sec strict = Ret (x, y).
Proof. exact sec_decode_roundtrip_generic. Qed.
Print Assumptions C10_sec_decode_roundtrip.

(* on the curve the networks use (constants regenerated from pycoin/ecdsa/secp256k1.py) EVERY finite
   point round-trips: y = 0 is impossible there (-7 is not a cube mod p: (-7)^((p-1)/3) is computed) *)
Theorem C10_sec_roundtrip_secp256k1 :
  prime k1_p ->
  forall (x y : Z) (compressed : bool),
  0 <= x < k1_p -> 0 <= y < k1_p -> contains_point k1_p k1_a k1_b x y = true ->
  exists sec, public_pair_to_sec (x, y) compressed = Ret sec /\
    length sec = (if compressed then 33 else 65)%nat /\
    key_from_sec k1_p k1_a k1_b sec = Ret ((x, y), compressed).
Proof. exact sec_roundtrip_k1. Qed.
Print Assumptions C10_sec_roundtrip_secp256k1.

(* ... and `prime k1_p` is a theorem (Pocklington certificate re-checked by the kernel, on the regenerated constant): the
   same statement with NO premise *)
Theorem C10_secp256k1_moduli_prime : prime k1_p /\ prime k1_n.
Proof. exact k1_moduli_prime. Qed.
Print Assumptions C10_secp256k1_moduli_prime.

Theorem C10_sec_roundtrip_secp256k1_unconditional :
  forall (x y : Z) (compressed : bool),
  0 <= x < k1_p -> 0 <= y < k1_p -> contains_point k1_p k1_a k1_b x y = true ->
  exists sec, public_pair_to_sec (x, y) compressed = Ret sec /\
    length sec = (if compressed then 33 else 65)%nat /\
    key_from_sec k1_p k1_a k1_b sec = Ret ((x, y), compressed).
Proof. exact sec_roundtrip_k1_unconditional. Qed.
Print Assumptions C10_sec_roundtrip_secp256k1_unconditional.

Theorem C10_sec_decode_roundtrip_secp256k1 :
  forall (x y : Z) (compressed strict : bool),
  0 <= x < k1_p -> 0 <= y < k1_p -> contains_point k1_p k1_a k1_b x y = true ->
  exists sec, public_pair_to_sec (x, y) compressed = Ret sec /\
    sec_to_public_pair k1_p k1_a k1_b sec strict = Ret (x, y).
Proof. exact sec_decode_roundtrip_k1_unconditional. Qed.
Print Assumptions C10_sec_decode_roundtrip_secp256k1.

(* no point of secp256k1 has y = 0 (Fermat from primality; (-7)^((p-1)/3) <> 1 is computed) *)
Theorem C10_secp256k1_no_point_with_y0 : forall x, 0 <= x < k1_p -> contains_point k1_p k1_a k1_b x 0 = false.
Proof. exact k1_no_y0_unconditional. Qed.
Print Assumptions C10_secp256k1_no_point_with_y0.

(* why 0 < y: for a curve point with y = 0 decompression raises ValueError (pycoin's documented curves
   have prime order, hence no such point) *)
Theorem C10_sec_y0_not_decodable : forall p a b x : Z, 3 <= p ->
  contains_point p a b x 0 = true -> points_for_x p a b x = Raise E_VALUE.
Proof. exact y0_not_decodable. Qed.
Print Assumptions C10_sec_y0_not_decodable.

(* Key.from_sec accepts a blob ONLY IF it is the encoding of a curve point with coordinates below p:
   the accepted blob equals public_pair_to_sec of the decoded pair and flag (so length 33 with prefix
   02/03 or length 65 with prefix 04, x < p, y < p, on the curve).  No primality needed. *)
Theorem C10_sec_accepts_only_canonical : forall p a b : Z,
  2 ^ 248 <= p < 2 ^ 256 -> p mod 2 = 1 ->
  forall (sec : bytes) (x y : Z) (compressed : bool),
  key_from_sec p a b sec = Ret ((x, y), compressed) ->
  0 <= x < p /\ 0 <= y < p /\ contains_point p a b x y = true /\
  public_pair_to_sec (x, y) compressed = Ret sec /\
  ((compressed = false /\ length sec = 65%nat /\ sec0_is sec x04 = true) \/
   (compressed = true /\ length sec = 33%nat /\ (sec0_is sec x02 = true \/ sec0_is sec x03 = true) /\ 0 < y)).
Proof. exact sec_canonical_generic. Qed.
Print Assumptions C10_sec_accepts_only_canonical.

(* hence the encoding of a key is unique: two accepted blobs giving the same (point, flag) are equal *)
Theorem C10_sec_unique : forall p a b : Z,
  2 ^ 248 <= p < 2 ^ 256 -> p mod 2 = 1 ->
  forall (sec1 sec2 : bytes) (k : (Z * Z) * bool),
  key_from_sec p a b sec1 = Ret k -> key_from_sec p a b sec2 = Ret k -> sec1 = sec2.
Proof. exact sec_injective_generic. Qed.
Print Assumptions C10_sec_unique.

(* the regenerated secp256k1 constants satisfy the computable side conditions of the four theorems *)
Theorem C10_secp256k1_side_conditions :
  2 ^ 248 <= k1_p < 2 ^ 256 /\ k1_p mod 4 = 3 /\ k1_p mod 2 = 1 /\ 1 < k1_n < 2 ^ 256 /\
  bytes32_width = 32%nat /\ byte_count k1_p = 32%nat.
Proof. exact (conj k1_p_range (conj k1_mod4 (conj k1_odd (conj k1_n_range (conj k1_width k1_byte_count))))). Qed.
Print Assumptions C10_secp256k1_side_conditions.

(* ================================ key ranges ================================ *)

(* Key(secret_exponent=e): accepted iff 1 <= e < order; 0, order and 2^256-1 raise
   InvalidSecretExponentError for every group order below 2^256 *)
Theorem C10_key_range : forall order : Z,
  (forall e, 1 <= e < order -> key_private order e = Ret e) /\
  (forall e, ~ (1 <= e < order) -> key_private order e = Raise E_SECRET) /\
  (0 < order <= 2 ^ 256 - 1 ->
     key_private order 0 = Raise E_SECRET /\ key_private order order = Raise E_SECRET /\
     key_private order (2 ^ 256 - 1) = Raise E_SECRET).
Proof. exact key_range_statement. Qed.
Print Assumptions C10_key_range.

(* Key(public_pair=(x, y)): accepted iff on the curve AND both coordinates in [0, p); everything else
   raises InvalidPublicPairError; whatever is accepted is the pair itself, on the curve and reduced *)
Theorem C10_public_pair_range : forall p a b x y : Z,
  (contains_point p a b x y = true /\ 0 <= x < p /\ 0 <= y < p -> key_public p a b (x, y) = Ret (x, y)) /\
  (~ (contains_point p a b x y = true /\ 0 <= x < p /\ 0 <= y < p) -> key_public p a b (x, y) = Raise E_PUBPAIR) /\
  (forall q, key_public p a b (x, y) = Ret q ->
     q = (x, y) /\ contains_point p a b x y = true /\ 0 <= x < p /\ 0 <= y < p).
Proof. exact key_public_statement. Qed.
Print Assumptions C10_public_pair_range.

(* the unreduced names (x+p, y), (x, y+p), (x, y-p) of a point are refused (they satisfy the curve
   equation mod p, so the on-curve test alone would let them through: a second key for one point) *)
Theorem C10_unreduced_pair_refused : forall p a b x y : Z, 0 < p -> 0 <= x < p -> 0 <= y < p ->
  key_public p a b (x + p, y) = Raise E_PUBPAIR /\ key_public p a b (x, y + p) = Raise E_PUBPAIR /\
  key_public p a b (x, y - p) = Raise E_PUBPAIR.
Proof. exact unreduced_pair_refused. Qed.
Print Assumptions C10_unreduced_pair_refused.

(* an off-curve uncompressed SEC blob gets through sec_to_public_pair and is refused by Key.from_sec *)
Theorem C10_off_curve_sec_refused : forall (p a b : Z) (sec : bytes) (x y : Z),
  sec_to_public_pair p a b sec true = Ret (x, y) -> contains_point p a b x y = false ->
  key_from_sec p a b sec = Raise E_PUBPAIR.
Proof. exact off_curve_refused. Qed.
Print Assumptions C10_off_curve_sec_refused.

(* ================================ WIF ================================ *)

(* for EVERY network of the regenerated table, every in-range secret exponent and both compression
   flags: Key.wif then ParseAPI.wif gives the exponent and flag back.  The Base58Check layer (C11) is
   the quantified pair (b2a_hashed, a2b_hashed) with its round-trip as hypothesis. *)
Theorem C10_wif_roundtrip : forall (text : Type) (b2a_hashed : bytes -> text) (a2b_hashed : text -> option bytes),
  (forall d, a2b_hashed (b2a_hashed d) = Some d) ->
  forall (sym : String.string) (prefix : bytes) (se : Z) (compressed : bool),
  In (sym, prefix) wif_prefixes -> 1 <= se < k1_n ->
  exists w, key_wif text b2a_hashed prefix se compressed = Ret w /\
    parse_wif text a2b_hashed (Some prefix) k1_n w = Some (se, compressed).
Proof. exact wif_table_roundtrip. Qed.
Print Assumptions C10_wif_roundtrip.

(* payload level, any prefix and any group order up to 2^256 *)
Theorem C10_wif_payload_roundtrip : forall (prefix : bytes) (order se : Z) (compressed : bool),
  1 <= se < order -> order <= 2 ^ 256 ->
  exists pl, wif_payload prefix se compressed = Ret pl /\
    parse_wif_payload (Some prefix) order (Some pl) = Some (se, compressed).
Proof. exact wif_payload_roundtrip. Qed.
Print Assumptions C10_wif_payload_roundtrip.

(* strictness: a payload parses ONLY IF it is exactly prefix ‖ 32 bytes [‖ 01] of an in-range exponent,
   i.e. the encoder's output for the parsed (exponent, flag) *)
Theorem C10_wif_strict : forall (prefix : bytes) (order : Z) (d : bytes) (se : Z) (compressed : bool),
  parse_wif_payload (Some prefix) order (Some d) = Some (se, compressed) ->
  1 <= se < order /\ wif_payload prefix se compressed = Ret d.
Proof. exact wif_payload_strict. Qed.
Print Assumptions C10_wif_strict.

(* exponents outside [1, order-1] (0, order, 2^256-1 ...) put into a WIF payload parse to None *)
Theorem C10_wif_refuses_out_of_range : forall (prefix : bytes) (order se : Z) (compressed : bool),
  0 <= se < 2 ^ 256 -> ~ (1 <= se < order) ->
  exists pl, wif_payload prefix se compressed = Ret pl /\
    parse_wif_payload (Some prefix) order (Some pl) = None.
Proof. exact wif_payload_refuses_out_of_range. Qed.
Print Assumptions C10_wif_refuses_out_of_range.

(* ================================ non-vacuity ================================ *)

(* the premises `prime p`, `p mod 4 = 3` are provable where computation reaches: p = 251 *)
Example C10_toy_premises_hold : prime 251 /\ 251 mod 4 = 3.
Proof. exact (conj prime_251 eq_refl). Qed.

(* ... and with them decompression finds every point of y^2 = x^3 + 7 over F_251 back *)
Example C10_toy_decompression : forall x y, 0 < y < 251 -> contains_point 251 0 7 x y = true ->
  exists p0 p1, points_for_x 251 0 7 x = Ret (p0, p1) /\ (if Z.land y 1 =? 0 then p0 else p1) = (x, y).
Proof. exact toy_points_for_x. Qed.

(* the generator of secp256k1 meets every computable hypothesis of C10_sec_roundtrip_secp256k1 (range,
   on-curve, its own Fermat instance) and does round-trip in the model, both forms, by evaluation *)
Example C10_secp256k1_G_roundtrips :
  contains_point k1_p k1_a k1_b k1_gx k1_gy = true /\ (k1_gy ^ (k1_p - 1)) mod k1_p = 1 /\
  (forall c : bool, match public_pair_to_sec (k1_gx, k1_gy) c with
                    | Ret sec => key_from_sec k1_p k1_a k1_b sec = Ret ((k1_gx, k1_gy), c)
                    | _ => False end).
Proof. exact k1_g_roundtrips. Qed.

(* DER: the hypotheses of the round trip are met by a 255-byte integer (256 content bytes: long-form
   INTEGER length 02 82 01 00, long-form sequence length) next to the formerly failing 2^1015, and the
   round trip is evaluated; and by the pair (n-1, n/2) of secp256k1 *)
Example C10_der_long_form :
  0 <= 2 ^ 2040 - 1 /\ 0 <= 2 ^ 1015 /\ Z.log2 (2 ^ 2040 - 1) < 2 ^ 67 /\ Z.log2 (2 ^ 1015) < 2 ^ 67 /\
  (exists sig, sigencode_der (2 ^ 2040 - 1) (2 ^ 1015) = Ret sig /\ (384 < length sig)%nat /\
     sigdecode_der sig false = Ret (2 ^ 2040 - 1, 2 ^ 1015)).
Proof. exact der_long_form_example. Qed.

Example C10_der_lows_k1 :
  match sigencode_der (k1_n - 1) (k1_n / 2) with
  | Ret sig => bip66_valid (sig ++ [x01]) = true /\ length sig = 71%nat
  | _ => False end.
Proof. exact der_lows_k1_example. Qed.

(* WIF: the prefix 80 (Bitcoin's) is in the table and exponent 1 is in range *)
Example C10_wif_btc : (exists sym, In (sym, [x80]) wif_prefixes) /\ 1 <= 1 < k1_n.
Proof. exact wif_btc_example. Qed.

(* ================================ public pair, however presented ================================ *)
(* Key.__init__ takes any 2-sequence: tuple, list, or a Point object carrying its own curve (Model/Sec.v
   pair_arg).  Acceptance and result depend only on the coordinates and the KEY's curve: *)
Theorem C10_public_pair_presentation_independent :
  forall (p a b : Z) (k1 k2 : presentation) (x y : option Z),
  key_public_arg p a b (mk_arg k1 x y) = key_public_arg p a b (mk_arg k2 x y).
Proof. exact key_public_arg_presentation_independent. Qed.
Print Assumptions C10_public_pair_presentation_independent.

(* accepted iff both coordinates are integers, satisfy the KEY's curve equation and lie in [0, p);
   everything else (None coordinate, off the key's curve, unreduced) is InvalidPublicPairError *)
Theorem C10_public_pair_arg_range : forall (p a b : Z) (pa : pair_arg),
  (forall q, key_public_arg p a b pa = Ret q ->
     exists x y, pa_x pa = Some x /\ pa_y pa = Some y /\ q = (x, y) /\
       contains_point p a b x y = true /\ 0 <= x < p /\ 0 <= y < p) /\
  ((forall x y, pa_x pa = Some x -> pa_y pa = Some y ->
      ~ (contains_point p a b x y = true /\ 0 <= x < p /\ 0 <= y < p)) ->
   key_public_arg p a b pa = Raise E_PUBPAIR) /\
  (forall x y, pa_x pa = Some x -> pa_y pa = Some y ->
     contains_point p a b x y = true -> 0 <= x < p -> 0 <= y < p ->
     key_public_arg p a b pa = Ret (x, y)).
Proof. exact key_public_arg_spec. Qed.
Print Assumptions C10_public_pair_arg_range.

(* a Point object built on ANOTHER curve (so validated there) that is not on the key's curve is refused,
   and so is the point at infinity in every presentation *)
Theorem C10_foreign_point_refused : forall p a b cp ca cb x y : Z,
  contains_point cp ca cb x y = true -> contains_point p a b x y = false ->
  point_wf (mk_arg (Pr_point cp ca cb) (Some x) (Some y)) /\
  key_public_arg p a b (mk_arg (Pr_point cp ca cb) (Some x) (Some y)) = Raise E_PUBPAIR.
Proof. exact foreign_point_refused. Qed.
Print Assumptions C10_foreign_point_refused.

Theorem C10_infinity_refused : forall (p a b : Z) (k : presentation),
  key_public_arg p a b (mk_arg k None None) = Raise E_PUBPAIR.
Proof. exact infinity_refused. Qed.
Print Assumptions C10_infinity_refused.

(* non-vacuity: (1, 2) lies on y^2 = x^3 + 3 over the field of secp256k1 and not on secp256k1 *)
Example C10_foreign_point_exists :
  contains_point k1_p 0 3 1 2 = true /\ contains_point k1_p k1_a k1_b 1 2 = false.
Proof. exact foreign_point_example. Qed.

(* ================================ presentations and histories ================================ *)
From PV Require Import Model.PresentC10 Proofs.PresentC10P.

(* a SEC blob is decoded alike whether it arrives as bytes, bytearray, read-only or writable memoryview
   (sec_to_public_pair, Key.from_sec, is_sec_compressed) *)
Theorem C10_sec_blob_presentation_independent :
  forall (p a b : Z) (k1 k2 : blob_kind) (d : bytes) (strict : bool),
  sec_to_public_pair_arg p a b (mk_blob k1 d) strict = sec_to_public_pair_arg p a b (mk_blob k2 d) strict /\
  key_from_sec_arg p a b (mk_blob k1 d) = key_from_sec_arg p a b (mk_blob k2 d) /\
  is_sec_compressed_arg (mk_blob k1 d) = is_sec_compressed_arg (mk_blob k2 d).
Proof. exact sec_blob_presentation_independent. Qed.
Print Assumptions C10_sec_blob_presentation_independent.

(* a DER blob is decoded alike as bytes and as bytearray; a memoryview is refused up front with
   AttributeError (str-method `startswith`), never decoded differently *)
Theorem C10_der_blob_presentation : forall (d : bytes) (broken : bool),
  sigdecode_der_arg (mk_blob Bk_bytearray d) broken = sigdecode_der_arg (mk_blob Bk_bytes d) broken /\
  sigdecode_der_arg (mk_blob Bk_bytes d) broken = sigdecode_der d broken /\
  sigdecode_der_arg (mk_blob Bk_mv_ro d) broken = Raise E_ATTR /\
  sigdecode_der_arg (mk_blob Bk_mv_rw d) broken = Raise E_ATTR.
Proof. exact der_blob_presentation. Qed.
Print Assumptions C10_der_blob_presentation.

(* integers are taken alike as int, int subclass or bool (secret exponent, r, s, coordinates) *)
Theorem C10_int_presentation_independent :
  forall (k1 k2 k3 k4 : int_kind) (order v w : Z) (c : bool),
  key_private_arg order (mk_int k1 v) = key_private_arg order (mk_int k2 v) /\
  sigencode_der_arg (mk_int k1 v) (mk_int k3 w) = sigencode_der_arg (mk_int k2 v) (mk_int k4 w) /\
  public_pair_to_sec_arg (mk_int k1 v) (mk_int k3 w) c = public_pair_to_sec_arg (mk_int k2 v) (mk_int k4 w) c.
Proof. exact int_presentation_independent. Qed.
Print Assumptions C10_int_presentation_independent.

(* history independence: in one process, whatever was decoded before and afterwards and for whichever
   curves, each call is answered as if it were the only one; in particular the same blob under two curves
   in either order gets each curve's own answer *)
Theorem C10_sec_history_independent : forall (h1 h2 : list sec_call) (c : sec_call),
  run_sec_history (h1 ++ c :: h2) = run_sec_history h1 ++ eval_sec_call c :: run_sec_history h2 /\
  run_from_sec_history (h1 ++ c :: h2) = run_from_sec_history h1 ++ eval_from_sec_call c :: run_from_sec_history h2.
Proof. exact sec_history_independent. Qed.
Print Assumptions C10_sec_history_independent.

Theorem C10_sec_two_curves_both_orders : forall c1 c2 : sec_call,
  run_sec_history [c1; c2] = [eval_sec_call c1; eval_sec_call c2] /\
  run_sec_history [c2; c1] = [eval_sec_call c2; eval_sec_call c1] /\
  run_sec_history [c1; c2; c1] = [eval_sec_call c1; eval_sec_call c2; eval_sec_call c1].
Proof. exact two_curves_both_orders. Qed.
Print Assumptions C10_sec_two_curves_both_orders.

(* ... and a key that Key.from_sec accepts anywhere in a history lies on the curve OF ITS OWN CALL, with
   reduced coordinates, its blob being the canonical encoding (no point of another curve leaks in) *)
Theorem C10_sec_history_accepts_only_own_curve :
  forall (h : list sec_call) (i : nat) (c : sec_call) (x y : Z) (flag : bool),
  nth_error h i = Some c ->
  2 ^ 248 <= sc_p c < 2 ^ 256 -> sc_p c mod 2 = 1 ->
  nth_error (run_from_sec_history h) i = Some (Ret ((x, y), flag)) ->
  contains_point (sc_p c) (sc_a c) (sc_b c) x y = true /\ 0 <= x < sc_p c /\ 0 <= y < sc_p c /\
  public_pair_to_sec (x, y) flag = Ret (ba_data (sc_blob c)).
Proof. exact history_accepts_only_own_curve. Qed.
Print Assumptions C10_sec_history_accepts_only_own_curve.
