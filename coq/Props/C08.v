(* placeholder while the model is being validated; replaced below *)
From PV Require Import Base.Bytes Model.Address.
Example C08_placeholder : kind_len 0 = 20%nat.
Proof. reflexivity. Qed.
