(* Props/C08.v — property C08: addresses and output scripts are in one-to-one correspondence on every network.
   Only statements; every proof is `exact <lemma of Proofs/AddressP.v>`.

   Reading guide.
   * `networks` is the GENERATED table of pycoin/symbols (Gen/GenNetworks.v, 51 rows today); `nr_std net = true` excludes the
     three Groestlcoin rows (their Base58 encoder needs the absent groestlcoin_hash package and their parsers are
     switched off by the symbol files: table-only, see harness/meta/C08.json).  `nr_kinds net` are the kinds for which the
     LIVE network object returns an address (0 P2PKH, 1 P2SH, 2 P2WPKH, 3 P2WSH, 4 P2TR).
   * The model functions (for_info, info_for_script, address_for_script, parse_address, ...) are Model/Address.v, the
     transcription of ContractAPI / AddressAPI / ParseAPI; `std_script k payload` is the independent byte-level
     specification of the five output scripts (Spec/AddressSpec.v).
   * The Base58Check / segwit-address codecs and hash160 are universally quantified functions; what the theorems need of
     them is the explicit premise `codec_laws` (B1 decode∘encode, B3 a Base58 length bound, S1 parse∘encode, S2 the encoder
     accepts the table's hrps for 20/32-byte programs, S4 a segwit length bound) — facts about the codecs that C11 owns,
     checked on pycoin's codecs by the direct checks of harness/c08.py and satisfiable (C08_codec_laws_satisfiable).
   * Results are `Ret ...`: the theorems also say that no exception escapes. *)
From PV Require Import Base.Bytes Base.Outcome Gen.GenNetworks Model.Address Spec.AddressSpec Proofs.AddressP.
Local Open Scope N_scope.

(* 1. script -> address -> script, on every table network and every kind it defines, for every payload of the kind's
      length: the constructor builds the specified script, the script has an address, and that address parses back
      (parse.address, contract.for_address) to exactly that script *)
Theorem C08_script_address_script :
  forall (enc : bytes -> bytes) (dec : bytes -> option bytes) (senc : bytes -> N -> bytes -> option bytes)
         (sparse : bytes -> option (bytes * N * bytes * N)) (hash160 : bytes -> bytes),
  codec_laws enc dec senc sparse ->
  forall (net : netrow) (k : N) (payload : bytes),
  In net networks -> nr_std net = true -> In k (nr_kinds net) -> length payload = kind_len k ->
  for_info (kind_info k payload) = Ret (std_script k payload) /\
  exists s, address_for_script enc senc hash160 net (std_script k payload) = Ret (Some s) /\
            parse_address dec sparse net s = Ret (Some (kind_info k payload)) /\
            contract_for_address dec sparse net s = Ret (Some (std_script k payload)).
Proof. exact table_script_address_script. Qed.
Print Assumptions C08_script_address_script.

(* 2. any string a network accepts is one of its kinds with a payload of exactly the kind's length (20/32), the Contract's
      script is the specified script, and the script's address (the re-encoding) is accepted as the same Contract *)
Theorem C08_accept_implies_reencode :
  forall (enc : bytes -> bytes) (dec : bytes -> option bytes) (senc : bytes -> N -> bytes -> option bytes)
         (sparse : bytes -> option (bytes * N * bytes * N)) (hash160 : bytes -> bytes),
  codec_laws enc dec senc sparse ->
  forall (net : netrow) (s : bytes) (i : info),
  In net networks -> nr_std net = true -> parse_address dec sparse net s = Ret (Some i) ->
  exists k payload s', In k (nr_kinds net) /\ length payload = kind_len k /\ i = kind_info k payload /\
    for_info i = Ret (std_script k payload) /\
    address_for_script enc senc hash160 net (std_script k payload) = Ret (Some s') /\
    parse_address dec sparse net s' = Ret (Some i).
Proof. exact table_accept_reencode. Qed.
Print Assumptions C08_accept_implies_reencode.

(* 2'. ... and the re-encoding is the accepted text itself for Base58 kinds, its lower-case form for Bech32 kinds (BIP173
       requires all-upper-case strings to be accepted; DESIGN.md's "= Some s" is inexact for those), given the two
       textual codec laws B2 (canonical Base58Check) and S3 (these alone suffice here) *)
Theorem C08_accept_reencode_text :
  forall (enc : bytes -> bytes) (dec : bytes -> option bytes) (senc : bytes -> N -> bytes -> option bytes)
         (sparse : bytes -> option (bytes * N * bytes * N)) (hash160 lower : bytes -> bytes)
         (net : netrow) (s : bytes) (i : info),
  codec_text_laws enc dec senc sparse lower ->
  In net networks -> nr_std net = true -> parse_address dec sparse net s = Ret (Some i) ->
  exists k payload, i = kind_info k payload /\ k <= 4 /\ length payload = kind_len k /\
    address_for_script enc senc hash160 net (std_script k payload) = Ret (Some (if k <=? 1 then s else lower s)).
Proof. exact table_accept_reencode_text. Qed.
Print Assumptions C08_accept_reencode_text.

(* 3. every ORDERED PAIR of table networks: an address produced on A for a standard script, if accepted on B, carries the
      same payload, and B itself produces that very string for the script it understood.  The script is the same one
      for the segwit kinds, and for Base58 kinds whenever A's and B's version prefixes do not coincide across kinds
      (`cross_kind_ok`, decidable on the table; e.g. BTG's P2SH prefix 0x17 is ARG's P2PKH prefix: inherent to those
      coins' parameters).  The six prefix-of-prefix offenders of DESIGN.md section 7 #17 are instances of this theorem now. *)
Theorem C08_cross_network :
  forall (enc : bytes -> bytes) (dec : bytes -> option bytes) (senc : bytes -> N -> bytes -> option bytes)
         (sparse : bytes -> option (bytes * N * bytes * N)) (hash160 : bytes -> bytes),
  codec_laws enc dec senc sparse ->
  forall (A B : netrow) (kA : N) (payload s : bytes) (i : info),
  In A networks -> In B networks -> nr_std A = true -> nr_std B = true ->
  In kA (nr_kinds A) -> length payload = kind_len kA ->
  address_for_script enc senc hash160 A (std_script kA payload) = Ret (Some s) ->
  parse_address dec sparse B s = Ret (Some i) ->
  exists kB, In kB (nr_kinds B) /\ kind_len kB = kind_len kA /\ i = kind_info kB payload /\
    address_for_script enc senc hash160 B (std_script kB payload) = Ret (Some s) /\
    (2 <= kA -> kB = kA) /\ (cross_kind_ok A B = true -> kB = kA).
Proof. exact table_cross_network. Qed.
Print Assumptions C08_cross_network.

(* 4. one-to-one: on a table network two standard scripts with the same address are the same script *)
Theorem C08_address_injective :
  forall (enc : bytes -> bytes) (dec : bytes -> option bytes) (senc : bytes -> N -> bytes -> option bytes)
         (sparse : bytes -> option (bytes * N * bytes * N)) (hash160 : bytes -> bytes),
  codec_laws enc dec senc sparse ->
  forall (net : netrow) (k1 : N) (p1 : bytes) (k2 : N) (p2 s : bytes),
  In net networks -> nr_std net = true -> In k1 (nr_kinds net) -> In k2 (nr_kinds net) ->
  length p1 = kind_len k1 -> length p2 = kind_len k2 ->
  address_for_script enc senc hash160 net (std_script k1 p1) = Ret (Some s) ->
  address_for_script enc senc hash160 net (std_script k2 p2) = Ret (Some s) -> k1 = k2 /\ p1 = p2.
Proof. exact table_address_injective. Qed.
Print Assumptions C08_address_injective.

(* 5. classification is faithful, for EVERY byte string: whatever info_for_script reports (p2pkh, p2pkh_wit, p2sh_wit,
      p2sh, p2pk, p2tr, nulldata, multisig, unknown), for_info rebuilds exactly the original bytes.  (Full statement:
      the former defects #16 non-minimal pushes and multisig-n-over-16 are fixed in /repo and the model follows.) *)
Theorem C08_classification_faithful : forall (s : bytes) (i : info), info_for_script s = Ret i -> for_info i = Ret s.
Proof. exact classification_faithful. Qed.
Print Assumptions C08_classification_faithful.

(* 5'. what a reported kind says about the script: payload lengths, 1 <= m <= 15, m <= n <= 16, keys of 33..120 bytes,
       and the exact byte layout *)
Theorem C08_classification_shape : forall (s : bytes) (i : info), info_for_script s = Ret i ->
  match i with
  | IMultisig m keys => (1 <= m <= 15)%Z /\ Forall key_ok keys /\ (m <= Z.of_nat (length keys))%Z /\ (length keys <= 16)%nat
  | _ => payload_ok i
  end /\ s = info_render i.
Proof. exact classification_shape. Qed.
Print Assumptions C08_classification_shape.

(* 5''. and conversely each of the five standard output scripts is reported as its kind *)
Theorem C08_standard_scripts_classified : forall (k : N) (payload : bytes), k <= 4 -> length payload = std_len k ->
  info_for_script (std_script k payload) = Ret (kind_info k payload).
Proof. exact info_for_script_std. Qed.
Print Assumptions C08_standard_scripts_classified.

(* 6. key -> address: Key.address is the address of the P2PKH script of hash160(sec); BIP84: of the P2WPKH script;
      BIP49: of the P2SH script of the hash of the P2WPKH script (hash160 yields 20 bytes: explicit premise) *)
Theorem C08_key_address :
  forall (enc : bytes -> bytes) (senc : bytes -> N -> bytes -> option bytes) (hash160 : bytes -> bytes)
         (net : netrow) (sec : bytes),
  length (hash160 sec) = 20%nat ->
  address_for_script enc senc hash160 net (std_script 0 (hash160 sec)) = Ret (key_address enc hash160 net sec).
Proof. exact key_address_is_p2pkh. Qed.
Print Assumptions C08_key_address.

Theorem C08_bip84_address :
  forall (enc : bytes -> bytes) (senc : bytes -> N -> bytes -> option bytes) (hash160 : bytes -> bytes)
         (net : netrow) (sec : bytes),
  length (hash160 sec) = 20%nat ->
  bip84_address senc hash160 net sec = address_for_script enc senc hash160 net (std_script 2 (hash160 sec)).
Proof. exact bip84_address_is_p2wpkh. Qed.
Print Assumptions C08_bip84_address.

Theorem C08_bip49_address :
  forall (enc : bytes -> bytes) (senc : bytes -> N -> bytes -> option bytes) (hash160 : bytes -> bytes)
         (net : netrow) (sec : bytes),
  (forall x, length (hash160 x) = 20%nat) ->
  bip49_address enc hash160 net sec =
  address_for_script enc senc hash160 net (std_script 1 (hash160 (std_script 2 (hash160 sec)))).
Proof. exact bip49_address_is_p2sh_p2wpkh. Qed.
Print Assumptions C08_bip49_address.

(* 6'. ParseAPI.address raises nothing, for every network row, every text and every codec behaviour *)
Theorem C08_parse_address_total :
  forall (dec : bytes -> option bytes) (sparse : bytes -> option (bytes * N * bytes * N)) (net : netrow) (s : bytes),
  exists r, parse_address dec sparse net s = Ret r.
Proof. exact parse_address_total. Qed.
Print Assumptions C08_parse_address_total.

(* 6''. history independence: ParseAPI.address wraps its argument in a parseable_str whose cache (modelled as explicit
       state with the keys the code uses today, all functions of the text alone) travels with the object when ONE
       parseable_str is offered to several networks in turn (pycoin.cmds.ku.parse_key).  Whatever the sequence of
       networks, each answer is the answer that network gives to a fresh string: so theorems 1-4 hold for shared
       objects too. *)
Theorem C08_parse_history_independent :
  forall (dec : bytes -> option bytes) (sparse : bytes -> option (bytes * N * bytes * N)) (s : bytes) (nets : list netrow),
  parse_address_seq dec sparse nets s pcache_empty = map (fun net => parse_address dec sparse net s) nets.
Proof. exact parse_address_seq_fresh_empty. Qed.
Print Assumptions C08_parse_history_independent.

(* 7. the table itself: every standard row is well-formed (prefixes of at most 2 bytes, P2PKH prefix <> P2SH prefix, an hrp
      the encoder accepts, recorded kinds = kinds with a prefix); a changed prefix that breaks this breaks the build here *)
Theorem C08_table_wellformed : forall net, In net networks -> nr_std net = true -> net_wf net = true.
Proof. exact table_wf. Qed.
Print Assumptions C08_table_wellformed.

(* ---- non-vacuity ---- *)
(* the codec premise has a model *)
Example C08_codec_laws_satisfiable : exists enc dec senc sparse, codec_laws enc dec senc sparse.
Proof. exists toy_enc, toy_dec, toy_senc, toy_sparse. exact toy_laws. Qed.
(* the table has standard rows with all five kinds (Bitcoin) and rows without segwit (Zcash, 2-byte prefixes) *)
Example C08_table_has_btc : exists net, In net networks /\ nr_std net = true /\ nr_kinds net = [0; 1; 2; 3; 4] /\
  nr_pkh net = Some [x00] /\ nr_hrp net = Some [x62; x63].
Proof. eexists. split; [do 5 right; left; reflexivity|]. repeat split. Qed.
Example C08_table_rows : (40 <= length networks)%nat /\ (40 <= length (filter nr_std networks))%nat.
Proof. split; vm_compute; repeat constructor. Qed.
(* the classifier on a concrete P2PKH script *)
Example C08_classify_example :
  info_for_script (std_script 0 (repeatb x11 20)) = Ret (IP2PKH (repeatb x11 20)).
Proof. vm_compute. reflexivity. Qed.
(* regression of the fixed multisig finding: 17 keys closed by OP_NOP (0x61) is no multisig any more *)
Example C08_multisig17_is_unknown :
  let s := x51 :: concat (repeat (x21 :: repeatb x02 33) 17) ++ [x61; xae] in info_for_script s = Ret (IUnknown s).
Proof. vm_compute. reflexivity. Qed.
