(* Props/C15.v — property C15: header-chain tracking (ChainFinder / BlockChain) reports a heaviest chain
   whatever the arrival order; index maps agree; the add/remove ops replay.
   Only statements; every proof is `exact <lemma>`.

   Model: Model/Chain.v (ChainFinder.load_nodes/meld_new_hashes/all_chains_ending_at/maximum_path/
   find_ancestral_path, BlockChain.add_headers/_longest_local_block_chain/lock_to_index/tuple_for_index ...).
   Python's `set.pop()` and the iteration order of a set are CHOICES supplied from outside: every event of a
   history carries a pop priority list [prio] and an iteration preference [pref]; all theorems below quantify
   over them (they are part of [evs]).  Spec: Spec/ChainSpec.v (headers = finite parent map with positive weights,
   [heaviest] = maximum-weight chain from the anchor among the delivered headers, [good_trace]).

   The full statement is REFUTED on the current tree: three defect families, each with a concrete witness
   history (replayed on the real BlockChain by harness/c15.py, listed in known/C15.txt) and an executable
   exclusion predicate on histories, Spec.ChainSpec.excluded : hash -> list event -> option N
     Some 1  orphan-parent-with-descendant : a batch brings a header that earlier-delivered orphans name as
             parent together with another new header that descends from it (walk runs through it, the orphan
             subtree is never attached);
     Some 2  anchor-redelivered            : a batch contains the header whose hash is the current anchor
             (the block at the lock point);
     Some 3  lock-with-tie                 : lock_to_index is called while two maximum-weight chains exist
             (the rebuilt finder may keep the other one: the reported chain changes without ops).
   Everything else is proved, without any bound on sizes: C15_partial.  In particular every single-header
   batch and every batch none of whose headers was being waited for is covered.
   NOT unconditional: the ops-replay and index-map clauses fail on the lock-with-tie witness (C15_refuted_3),
   so they are stated under the same exclusion (C15_partial_ops_replay, C15_partial_index_maps_agree). *)
From Coq Require Import List NArith ZArith Bool Lia.
From PV Require Import Base.Outcome Model.Chain Spec.ChainSpec
  Proofs.ChainP Proofs.ChainFinderP Proofs.ChainBestP Proofs.ChainHistP Proofs.ChainRefuteP.
Import ListNotations.
Local Open Scope N_scope.

(* ------------------------------------------------------------------ the full statement *)
(* for every forest of headers (a rank decreases towards the parent, a hash determines its header, weights
   are positive, no header has the anchor's hash), every batching, every lock index, every pop order and
   iteration order: the run does not crash (a lock index beyond the reported length stops it with
   IndexError, as in Python) and every snapshot — taken after each event — is good: the reported chain is a
   chain from the initial anchor, its unlocked part is a heaviest chain from the current anchor among the
   headers delivered so far, hash_to_index_lookup agrees with it, and all ops returned so far, applied to
   [], reproduce it *)
Definition C15_statement : Prop :=
  forall (anchor : hash) (evs : list event), wf_headers anchor (all_headers evs) ->
  forall tr st, run anchor evs = (tr, st) ->
  (st = Done \/ st = OutOfRange) /\ good_trace anchor [] [] evs tr.

Theorem C15_refuted : ~ C15_statement.
Proof. exact refuted. Qed.
Print Assumptions C15_refuted.

(* the three witnesses: well-formed, the model runs them to the end, some snapshot is not good, and the
   exclusion predicate names the family *)
Definition C15_violated_by (anchor : hash) (evs : list event) : Prop :=
  wf_headers anchor (all_headers evs) /\
  exists tr, run anchor evs = (tr, Done) /\ ~ good_trace anchor [] [] evs tr.

(* deliver [7<-9, 6<-7], then [8<-9, 9<-anchor] with 8 popped first: [9,8] reported, [9,7,6] known *)
Theorem C15_refuted_1 : C15_violated_by 0 refute1 /\ excluded 0 refute1 = Some 1.
Proof. exact refute1_violates. Qed.
Print Assumptions C15_refuted_1.
(* [1<-0, 2<-1, 3<-2]; lock_to_index(2); deliver 2<-1 again: 3 is never reported again *)
Theorem C15_refuted_2 : C15_violated_by 0 refute2 /\ excluded 0 refute2 = Some 2.
Proof. exact refute2_violates. Qed.
Print Assumptions C15_refuted_2.
(* [1<-0, 2<-1], [3<-2], [11<-2]; lock_to_index(1), the rebuilt finder iterates 11 first: the reported chain
   changes from [1,2,3] to [1,2,11] although no op was returned (ops replay and index maps break) *)
Theorem C15_refuted_3 : C15_violated_by 0 refute3 /\ excluded 0 refute3 = Some 3.
Proof. exact refute3_violates. Qed.
Print Assumptions C15_refuted_3.

(* ------------------------------------------------------------------ what holds *)
(* the statement restricted by the exclusion predicate, nothing else excluded *)
Theorem C15_partial :
  forall (anchor : hash) (evs : list event), wf_headers anchor (all_headers evs) ->
  excluded anchor evs = None ->
  forall tr st, run anchor evs = (tr, st) ->
  (st = Done \/ st = OutOfRange) /\ good_trace anchor [] [] evs tr.
Proof. exact partial_history. Qed.
Print Assumptions C15_partial.

(* the three clauses of the property for the snapshot after the k-th event, separately *)
Theorem C15_partial_reports_heaviest :
  forall anchor evs tr st, wf_headers anchor (all_headers evs) -> excluded anchor evs = None ->
  run anchor evs = (tr, st) ->
  forall k s, nth_error tr k = Some s -> (k < length evs)%nat ->
  is_chain (all_headers (firstn (S k) evs)) anchor (s_chain s) /\
  heaviest (all_headers (firstn (S k) evs)) (snapshot_anchor anchor s) (skipn (s_locked s) (s_chain s)).
Proof. exact snapshot_chain_heaviest. Qed.
Print Assumptions C15_partial_reports_heaviest.

Theorem C15_partial_index_maps_agree :
  forall anchor evs tr st, wf_headers anchor (all_headers evs) -> excluded anchor evs = None ->
  run anchor evs = (tr, st) ->
  forall k s, nth_error tr k = Some s -> (k < length evs)%nat ->
  (forall i h, nth_error (s_chain s) i = Some h -> dget h (s_h2i s) = Some (Z.of_nat i)) /\
  (forall h z, dget h (s_h2i s) = Some z -> exists i, z = Z.of_nat i /\ nth_error (s_chain s) i = Some h).
Proof. exact snapshot_maps. Qed.
Print Assumptions C15_partial_index_maps_agree.

Theorem C15_partial_ops_replay :
  forall anchor evs tr st, wf_headers anchor (all_headers evs) -> excluded anchor evs = None ->
  run anchor evs = (tr, st) ->
  forall k s, nth_error tr k = Some s -> (k < length evs)%nat ->
  apply_ops (flat_map ops_of (firstn (S k) tr)) [] = Some (s_chain s).
Proof. exact snapshot_ops. Qed.
Print Assumptions C15_partial_ops_replay.

(* ChainFinder alone: load_nodes keeps the invariant of DESIGN.md appendix D (finder_ok) for every batch that
   is not bad and every pop order; [p'] / [N0] are the parent map and the new hashes after registration *)
Theorem C15_finder_invariant_preserved :
  forall (rk : hash -> nat) (cf : finder) (nodes : list (hash * hash)) p' N0,
  finder_ok cf -> register nodes (pl cf) [] = (p', N0) -> ranked rk p' ->
  bad_batch (pl cf) nodes = false ->
  forall prio, exists cf', load_nodes prio nodes cf = Ret cf' /\ finder_ok cf' /\ pl cf' = p'.
Proof. exact load_nodes_ok. Qed.
Print Assumptions C15_finder_invariant_preserved.

(* under that invariant, with an anchor the finder does not know and positive weights of known hashes,
   `_longest_local_block_chain` returns (leaf first) a maximum-weight chain from the anchor, for every
   iteration order of the set *)
Theorem C15_reported_is_heaviest :
  forall pref a (w : dict Z) cf, finder_ok cf -> ~ kn (pl cf) a ->
  (forall h, 0 <= weight_or_0 w h)%Z -> (forall h, kn (pl cf) h -> 0 < weight_or_0 w h)%Z ->
  exists c, reported pref a w cf c /\ pchain (pl cf) a (rev c) /\
    (forall c', pchain (pl cf) a c' -> (chain_weight w c' <= chain_weight w (rev c))%Z) /\
    (c = [] \/ dget (hd 0 c) (tfb cf) = Some (c ++ [a])).
Proof. exact reported_heaviest. Qed.
Print Assumptions C15_reported_is_heaviest.

(* non-vacuity: a history with an orphan subtree that is adopted later, a fork, a lock and a later extension
   meets every hypothesis of C15_partial; the model reports [9,7,6] and then [9,7,6,13] *)
Example C15_partial_applies :
  wf_headers 0 (all_headers clean_example) /\ excluded 0 clean_example = None /\
  exists tr, run 0 clean_example = (tr, Done) /\
    map s_chain tr = [[]; [9; 7; 6]; [9; 7; 6]; [9; 7; 6]; [9; 7; 6; 13]].
Proof. exact clean_example_ok. Qed.
