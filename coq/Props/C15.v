(* Props/C15.v — property C15 (work in progress stub; replaced below) *)
From Coq Require Import List NArith ZArith Bool Lia.
From PV Require Import Base.Outcome Model.Chain Spec.ChainSpec.
Import ListNotations.
Local Open Scope N_scope.

Definition C15_statement : Prop :=
  forall (anchor : hash) (evs : list event), wf_headers anchor (all_headers evs) ->
  forall tr st, run anchor evs = (tr, st) ->
  (st = Done \/ st = OutOfRange) /\ good_trace anchor [] [] evs tr.
