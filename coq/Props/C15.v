(* Props/C15.v — property C15: header-chain tracking (ChainFinder / BlockChain) reports a heaviest chain
   whatever the arrival order; index maps agree; the add/remove ops replay.
   Only statements; every proof is `exact <lemma>`.

   Model: Model/Chain.v (ChainFinder.load_nodes/meld_new_hashes/all_chains_ending_at/maximum_path/
   find_ancestral_path, BlockChain.add_headers/_longest_local_block_chain/lock_to_index/tuple_for_index ...),
   following /repo after the fixes cdbeb46 (the upward walk of meld_new_hashes stops at an ancestor that is still
   in new_hashes), 30b0f94 (add_headers skips a header whose hash is parent_hash) and 0658a14 (lock_to_index keeps
   the rest of the reported chain as the cache).
   Python's `set.pop()` and the iteration order of a set are CHOICES supplied from outside: every event of a
   history carries a pop priority list [prio] and an iteration preference [pref]; all theorems below quantify
   over them (they are part of [evs]).  Spec: Spec/ChainSpec.v (headers = finite parent map with positive weights,
   [heaviest] = maximum-weight chain from the anchor among the delivered headers, [good_trace]).

   Hypothesis of the history-level theorems, [wf_headers]: the headers form a forest (a rank, e.g. the height,
   decreases towards the parent), a hash determines its header, weights are positive.  Nothing is assumed about the
   anchor: it may be the hash of a delivered header (checkpoint), see C15_example_checkpoint.  No exclusion predicate remains: duplicates (also of locked headers, also of the block at the lock
   point), orphans whose parent arrives in the same batch as other descendants, equally heavy chains at a lock —
   everything is covered.  A lock index beyond the reported length raises IndexError in Python and stops the
   modelled run with [OutOfRange]; every snapshot before it is covered. *)
From Coq Require Import List NArith ZArith Bool Lia.
From PV Require Import Base.Outcome Model.Chain Spec.ChainSpec
  Proofs.ChainP Proofs.ChainFinderP Proofs.ChainBestP Proofs.ChainHistP Proofs.ChainExamplesP.
Import ListNotations.
Local Open Scope N_scope.

(* ------------------------------------------------------------------ the full statement *)
(* A BlockChain is constructed with any anchor hash — the default, a checkpoint hash that is also the hash of a real
   header, anything — and optionally preloaded with a chain [pre] of locked headers (preload_locked_blocks); then any
   history follows.  For every forest of headers (which may contain the anchor block's own header, headers of its
   ancestors, of preloaded and of locked blocks, duplicates of all of them), every batching, every lock index, every
   pop order and iteration order: the run does not crash and every snapshot — taken after each event — is good: the
   reported chain is a chain from the initial anchor, its unlocked part is a heaviest chain from the current anchor
   among the headers known so far, hash_to_index_lookup agrees with it, and all ops returned so far, applied to the
   preloaded chain, reproduce it *)
Definition C15_statement : Prop :=
  forall (anchor : hash) (pre : list header) (evs : list event),
  wf_headers (pre ++ all_headers evs) -> chain_headers anchor pre ->
  forall tr st, run_pre anchor pre evs = (tr, st) ->
  (st = Done \/ st = OutOfRange) /\ good_trace anchor (map hh pre) pre [] evs tr.

Theorem C15_holds : C15_statement.
Proof. exact full_history. Qed.
Print Assumptions C15_holds.

(* without preloading ([run anchor evs] = [run_pre anchor [] evs]) *)
Theorem C15_holds_plain :
  forall (anchor : hash) (evs : list event), wf_headers (all_headers evs) ->
  forall tr st, run anchor evs = (tr, st) ->
  (st = Done \/ st = OutOfRange) /\ good_trace anchor [] [] [] evs tr.
Proof. exact full_history_plain. Qed.
Print Assumptions C15_holds_plain.

(* the three clauses of the property for the snapshot [s] taken after the k-th event, separately;
   [pre ++ all_headers (firstn (S k) evs)] = the headers known so far, [flat_map ops_of (firstn (S k) tr)] = all ops
   returned so far *)
Theorem C15_reports_heaviest :
  forall anchor pre evs tr st, wf_headers (pre ++ all_headers evs) -> chain_headers anchor pre ->
  run_pre anchor pre evs = (tr, st) ->
  forall k s, nth_error tr k = Some s -> (k < length evs)%nat ->
  is_chain (pre ++ all_headers (firstn (S k) evs)) anchor (s_chain s) /\
  heaviest (pre ++ all_headers (firstn (S k) evs)) (snapshot_anchor anchor s) (skipn (s_locked s) (s_chain s)).
Proof. exact snapshot_chain_heaviest. Qed.
Print Assumptions C15_reports_heaviest.

Theorem C15_index_maps_agree :
  forall anchor pre evs tr st, wf_headers (pre ++ all_headers evs) -> chain_headers anchor pre ->
  run_pre anchor pre evs = (tr, st) ->
  forall k s, nth_error tr k = Some s -> (k < length evs)%nat ->
  (forall i h, nth_error (s_chain s) i = Some h -> dget h (s_h2i s) = Some (Z.of_nat i)) /\
  (forall h z, dget h (s_h2i s) = Some z -> exists i, z = Z.of_nat i /\ nth_error (s_chain s) i = Some h).
Proof. exact snapshot_maps. Qed.
Print Assumptions C15_index_maps_agree.

Theorem C15_ops_replay :
  forall anchor pre evs tr st, wf_headers (pre ++ all_headers evs) -> chain_headers anchor pre ->
  run_pre anchor pre evs = (tr, st) ->
  forall k s, nth_error tr k = Some s -> (k < length evs)%nat ->
  apply_ops (flat_map ops_of (firstn (S k) tr)) (map hh pre) = Some (s_chain s).
Proof. exact snapshot_ops. Qed.
Print Assumptions C15_ops_replay.

(* ChainFinder alone: load_nodes keeps the invariant of DESIGN.md appendix D (finder_ok) for EVERY batch and every
   pop order, and never raises or runs out of fuel; [p'] / [N0] are the parent map and the new hashes after
   registration, [ranked] says the parent map has no cycle *)
Theorem C15_finder_invariant_preserved :
  forall (rk : hash -> nat) (cf : finder) (nodes : list (hash * hash)) p' N0,
  finder_ok cf -> register nodes (pl cf) [] = (p', N0) -> ranked rk p' ->
  forall prio, exists cf', load_nodes prio nodes cf = Ret cf' /\ finder_ok cf' /\ pl cf' = p'.
Proof. exact load_nodes_ok. Qed.
Print Assumptions C15_finder_invariant_preserved.

(* under that invariant, with an anchor the finder does not know and positive weights of known hashes,
   `_longest_local_block_chain` returns (leaf first) a maximum-weight chain from the anchor, for every
   iteration order of the set *)
Theorem C15_reported_is_heaviest :
  forall pref a (w : dict Z) cf, finder_ok cf -> ~ kn (pl cf) a ->
  (forall h, 0 <= weight_or_0 w h)%Z -> (forall h, kn (pl cf) h -> 0 < weight_or_0 w h)%Z ->
  exists c, reported pref a w cf c /\ pchain (pl cf) a (rev c) /\
    (forall c', pchain (pl cf) a c' -> (chain_weight w c' <= chain_weight w (rev c))%Z) /\
    (c = [] \/ dget (hd 0 c) (tfb cf) = Some (c ++ [a])).
Proof. exact reported_heaviest. Qed.
Print Assumptions C15_reported_is_heaviest.

(* the three histories on which the code used to fail, evaluated on the model with the pop order / preference that
   exposed the defect (they are also replayed on the real BlockChain by harness/c15.py on every run):
   1. [7<-9, 6<-7], then [8<-9, 9<-anchor] with 8 popped first: [9,7,6] is reported *)
Example C15_regression_orphan_parent : wf_headers (all_headers regress1) /\
  exists tr, run 0 regress1 = (tr, Done) /\ map s_chain tr = [[]; [9; 7; 6]].
Proof. exact regress1_ok. Qed.
(* 2. [1<-0, 2<-1, 3<-2]; lock_to_index(2); 2<-1 again; 4<-3: 3 and 4 stay reported *)
Example C15_regression_anchor_redelivered : wf_headers (all_headers regress2) /\
  exists tr, run 0 regress2 = (tr, Done) /\ map s_chain tr = [[1; 2; 3]; [1; 2; 3]; [1; 2; 3]; [1; 2; 3; 4]].
Proof. exact regress2_ok. Qed.
(* 3. [1<-0, 2<-1], [3<-2], [11<-2]; lock_to_index(1) with the other tied chain preferred afterwards: unchanged *)
Example C15_regression_lock_with_tie : wf_headers (all_headers regress3) /\
  exists tr, run 0 regress3 = (tr, Done) /\ map s_chain tr = [[1; 2]; [1; 2; 3]; [1; 2; 3]; [1; 2; 3]].
Proof. exact regress3_ok. Qed.
(* non-vacuity: an orphan subtree adopted later, a fork, a lock and a later extension *)
Example C15_example : wf_headers (all_headers clean_example) /\
  exists tr, run 0 clean_example = (tr, Done) /\
    map s_chain tr = [[]; [9; 7; 6]; [9; 7; 6]; [9; 7; 6]; [9; 7; 6; 13]].
Proof. exact clean_example_ok. Qed.
(* a BlockChain anchored at checkpoint block 2 by the constructor only; the checkpoint header, its parent's header and
   descendants arrive in overlapping batches: the chain from the checkpoint is reported *)
Example C15_example_checkpoint : wf_headers (all_headers checkpoint_example) /\
  exists tr, run 2 checkpoint_example = (tr, Done) /\ map s_chain tr = [[3]; [3; 4]; [3; 4]].
Proof. exact checkpoint_example_ok. Qed.
(* preload_locked_blocks [1<-0; 2<-1]; then the block at the lock point, a preloaded block and new blocks arrive *)
Example C15_example_preload : wf_headers (preload_example_pre ++ all_headers preload_example) /\
  chain_headers 0 preload_example_pre /\
  exists tr, run_pre 0 preload_example_pre preload_example = (tr, Done) /\
    map s_chain tr = [[1; 2; 3]; [1; 2; 3; 4]; [1; 2; 3; 4]; [1; 2; 3; 4]] /\ map s_locked tr = [2; 2; 3; 3]%nat.
Proof. exact preload_example_ok. Qed.
