(* Props/C15.v — property C15: header-chain tracking reports a heaviest chain whatever the arrival order;
   index maps agree; add/remove ops replay.  Only statements; every proof is `exact <lemma>`.

   The full statement is REFUTED on the current tree (three defect families, each with a witness history that
   is replayed on the real BlockChain by harness/c15.py, see known/C15.txt).  What is proved without any bound
   on sizes, for every pop order of `set.pop()` (priority list) and every set iteration order (preference):
     * C15_finder_invariant_preserved — ChainFinder.load_nodes keeps the invariant of DESIGN.md appendix D
       for every batch that does not bring a header earlier orphans were waiting for together with one of its
       new descendants (Spec.ChainSpec.bad_batch = false; single-header batches and in-order batches are
       special cases);
     * C15_reported_is_heaviest — under that invariant `_longest_local_block_chain` returns a maximum-weight
       chain from the anchor. *)
From Coq Require Import List NArith ZArith Bool Lia.
From PV Require Import Base.Outcome Model.Chain Spec.ChainSpec
  Proofs.ChainP Proofs.ChainFinderP Proofs.ChainBestP Proofs.ChainRefuteP.
Import ListNotations.
Local Open Scope N_scope.

(* ------------------------------------------------------------------ the full statement *)
Definition C15_statement : Prop :=
  forall (anchor : hash) (evs : list event), wf_headers anchor (all_headers evs) ->
  forall tr st, run anchor evs = (tr, st) ->
  (st = Done \/ st = OutOfRange) /\ good_trace anchor [] [] evs tr.

Theorem C15_refuted : ~ C15_statement.
Proof. exact refuted. Qed.
Print Assumptions C15_refuted.
