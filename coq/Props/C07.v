(* Props/C07.v — property C07: transactions round-trip through the wire format and have stable ids.
   Only statements; every proof is `exact <lemma>` (lemmas in Proofs/TxWireP.v, Base/Varint.v).
   Model: Model/TxWire.v (pycoin's Tx/TxIn/TxOut/Spendable codecs, format strings and codec table regenerated
   from /repo).  Spec: Spec/TxWireSpec.v (legacy / BIP144 wire format written independently).
   tx_wf = every field in the range of its wire width (u32 version/lock_time/index/sequence, u64 amounts,
   32-byte hashes; list lengths below 2^64, which is true of every real list). *)
From PV Require Import Base.Bytes Base.Outcome Base.Varint Gen.GenTxConsts Model.TxWire Model.TxObject Spec.TxWireSpec
  Proofs.TxWireP Proofs.TxObjectP.
Local Open Scope Z_scope.

(* compact sizes: both directions *)
Theorem C07_varint_roundtrip : forall (v : N) (r : bytes), (v < 2 ^ 64)%N ->
  exists p, stream_varint v = Ret p /\ parse_varint (p ++ r) = Ret (v, r) /\ varint_canonical (p ++ r) = true
            /\ (1 <= length p <= 9)%nat.
Proof. exact varint_frame. Qed.
Print Assumptions C07_varint_roundtrip.

Theorem C07_varint_canonical_reserialises : forall (s : bytes) (v : N) (r : bytes),
  parse_varint s = Ret (v, r) -> varint_canonical s = true -> exists p, stream_varint v = Ret p /\ s = p ++ r.
Proof. exact varint_parse_inv. Qed.
Print Assumptions C07_varint_canonical_reserialises.

(* serialise then parse: an equal transaction, in frame form (any suffix r is left untouched, so the
   statement composes: blocks, the unspents extension, p2p messages) *)
Theorem C07_parse_stream : forall (t : tx) (r : bytes), tx_wf t -> tx_ins t <> [] ->
  exists b, stream_tx false true t = Ret b /\ parse_tx true (b ++ r) = Ret (t, r).
Proof. exact parse_stream_frame. Qed.
Print Assumptions C07_parse_stream.

(* the witness-stripped serialisation parses to the witness-stripped transaction (also with allow_segwit off) *)
Theorem C07_parse_stream_stripped : forall (a : bool) (t : tx) (r : bytes), tx_wf t -> a = false \/ tx_ins t <> [] ->
  exists b, stream_tx false false t = Ret b /\ parse_tx a (b ++ r) = Ret (strip_witnesses t, r).
Proof. exact parse_stream_stripped_frame. Qed.
Print Assumptions C07_parse_stream_stripped.

(* the bytes are the standard wire format: BIP144 extended form iff some witness is non-empty, else legacy *)
Theorem C07_stream_is_bip144 : forall t : tx, tx_wf t ->
  exists b, stream_tx false true t = Ret b /\ wire_format t b.
Proof. exact stream_is_wire_format. Qed.
Print Assumptions C07_stream_is_bip144.

Theorem C07_stream_stripped_is_legacy : forall t : tx, tx_wf t -> stream_tx false false t = Ret (ser_legacy t).
Proof. exact (stream_tx_spec false). Qed.
Print Assumptions C07_stream_stripped_is_legacy.

(* parsing wire-format bytes and re-serialising returns them unchanged *)
Theorem C07_stream_parse : forall (t : tx) (b r : bytes), tx_wf t -> tx_ins t <> [] -> wire_format t b ->
  parse_tx true (b ++ r) = Ret (t, r) /\ stream_tx false true t = Ret b.
Proof. exact stream_parse_wire. Qed.
Print Assumptions C07_stream_parse.

(* the same for an INTRINSIC notion of canonical bytes: decode_strict (Spec/TxWireSpec.v) is an independent BIP144
   decoder that accepts only minimal compact sizes, fully present fields, flag 01 after the marker and an extended
   form carrying at least one non-empty witness.  Whatever it accepts, pycoin's parser reads as the same
   transaction and re-serialises to the same bytes ... *)
Theorem C07_stream_parse_canonical : forall (b : bytes) (t : tx) (r : bytes), decode_strict b = Some (t, r) ->
  parse_tx true b = Ret (t, r) /\ exists w, stream_tx false true t = Ret w /\ b = w ++ r.
Proof. exact stream_parse_canonical. Qed.
Print Assumptions C07_stream_parse_canonical.

(* ... and the canonical byte strings are exactly the wire-format serialisations of transactions with inputs *)
Theorem C07_canonical_sound : forall (b : bytes) (t : tx) (r : bytes), decode_strict b = Some (t, r) ->
  tx_wf t /\ tx_ins t <> [] /\ exists w, wire_format t w /\ b = w ++ r.
Proof. exact decode_strict_sound. Qed.
Print Assumptions C07_canonical_sound.

Theorem C07_canonical_complete : forall (t : tx) (w r : bytes), tx_wf t -> tx_ins t <> [] -> wire_format t w ->
  decode_strict (w ++ r) = Some (t, r).
Proof. exact decode_strict_complete. Qed.
Print Assumptions C07_canonical_complete.

(* Tx.parse never runs out of the fuel of the model's count loops: it is total *)
Theorem C07_parse_total : forall (a : bool) (s : bytes), parse_tx a s <> OutOfFuel.
Proof. exact parse_tx_fuel. Qed.
Print Assumptions C07_parse_total.

(* ids.  H is the hash (double SHA-256; single SHA-256 in the Groestlcoin Tx class): any function. *)
Theorem C07_txid_ignores_witness : forall (H : bytes -> bytes) (t t' : tx) (hash_type : option Z),
  strip_witnesses t = strip_witnesses t' -> tx_hash H t hash_type = tx_hash H t' hash_type.
Proof. exact hash_ignores_witness. Qed.
Print Assumptions C07_txid_ignores_witness.

Theorem C07_txid_is_hash_of_stripped : forall (H : bytes -> bytes) (t : tx), tx_wf t ->
  tx_hash H t None = Ret (H (ser_legacy t)).
Proof. exact hash_is_legacy. Qed.
Print Assumptions C07_txid_is_hash_of_stripped.

Theorem C07_wtxid_is_hash_of_wire_format : forall (H : bytes -> bytes) (t : tx), tx_wf t ->
  exists b, wire_format t b /\ tx_w_hash H t = Ret (H b).
Proof. exact w_hash_is_wire. Qed.
Print Assumptions C07_wtxid_is_hash_of_wire_format.

(* ... and the hashed bytes determine every field including the witnesses *)
Theorem C07_wtxid_covers_witness : forall t t' : tx, tx_wf t -> tx_wf t' -> tx_ins t <> [] -> tx_ins t' <> [] ->
  stream_tx false true t = stream_tx false true t' -> t = t'.
Proof. exact stream_injective. Qed.
Print Assumptions C07_wtxid_covers_witness.

(* hex form *)
Theorem C07_hex_roundtrip : forall (bl iu iw : bool) (t : tx) (us : list (option txout)) (b : bytes),
  tx_as_bin bl iu iw t us = Ret b ->
  exists h, tx_as_hex bl iu iw t us = Ret h /\ h = b2h b /\ tx_from_hex h = tx_from_bin b.
Proof. exact hex_roundtrip. Qed.
Print Assumptions C07_hex_roundtrip.

Theorem C07_h2b_b2h : forall b : bytes, h2b (b2h b) = Ret b.
Proof. exact h2b_b2h. Qed.
Print Assumptions C07_h2b_b2h.

(* from_bin / as_bin without and with the appended spent-output extension (non-zero amounts) *)
Theorem C07_from_bin_as_bin : forall t : tx, tx_wf t -> tx_ins t <> [] ->
  exists b, tx_as_bin false false true t [] = Ret b /\ wire_format t b /\ tx_from_bin b = Ret (t, []).
Proof. exact from_bin_plain. Qed.
Print Assumptions C07_from_bin_as_bin.

Theorem C07_unspents_extension_roundtrip : forall (t : tx) (us : list txout), tx_wf t -> tx_ins t <> [] ->
  length us = length (tx_ins t) -> Forall txout_wf us -> Forall (fun o => to_value o <> 0) us ->
  exists b w, wire_format t w /\ b = w ++ ser_unspents us /\
    tx_as_bin false true true t (map Some us) = Ret b /\ tx_from_bin b = Ret (t, map Some us).
Proof. exact unspents_roundtrip. Qed.
Print Assumptions C07_unspents_extension_roundtrip.

(* spendable records: binary (frame form), dictionary, text (field level: see Model/TxWire.v) *)
Theorem C07_spendable_bin_roundtrip : forall (sp : spendable) (r : bytes), spendable_wf sp ->
  stream_spendable true sp = Ret (ser_spendable sp) /\ parse_spendable (ser_spendable sp ++ r) = Ret (sp, r).
Proof. exact spendable_frame. Qed.
Print Assumptions C07_spendable_bin_roundtrip.

Theorem C07_spendable_dict_roundtrip : forall sp : spendable, spendable_from_dict (spendable_as_dict sp) = Ret sp.
Proof. exact spendable_dict_roundtrip. Qed.
Print Assumptions C07_spendable_dict_roundtrip.

Theorem C07_spendable_text_fields_roundtrip_partial : forall sp : spendable,
  sp_does_seem_spent sp = 0 \/ sp_does_seem_spent sp = 1 ->
  spendable_from_text_fields (spendable_as_text_fields sp) = Ret sp.
Proof. exact spendable_text_fields_roundtrip. Qed.
Print Assumptions C07_spendable_text_fields_roundtrip_partial.

(* Litecoin's parser agrees with Bitcoin's outside the MWEB dialect, in particular on every wire-format stream *)
Theorem C07_ltc_parse_agrees : forall s : bytes, ltc_same_dialect s -> parse_tx_ltc s = parse_tx true s.
Proof. exact ltc_agrees. Qed.
Print Assumptions C07_ltc_parse_agrees.

Theorem C07_ltc_parses_wire_format : forall (t : tx) (r : bytes), tx_wf t -> tx_ins t <> [] ->
  exists b, stream_tx false true t = Ret b /\ parse_tx_ltc (b ++ r) = Ret (t, r).
Proof. exact ltc_parses_wire. Qed.
Print Assumptions C07_ltc_parses_wire_format.

(* ---- histories of one Tx object (Model/TxObject.v): observe (as_bin / as_hex / hash / w_hash / id / w_id /
   has_witness_data / ...), mutate (set_witness, direct assignment of a witness, script, outpoint, sequence, version,
   lock time, append / pop / clear of inputs and outputs, unspents), observe again.  `run H ops ob` is the list of
   results of the operations `ops` applied in order to the object `ob`. *)

(* history independence: the last observation depends on the mutators of the history only - whatever was serialised
   or hashed from the object before (ops2 may contain no observation at all: a fresh object brought to the same fields) *)
Theorem C07_history_independent : forall (H : bytes -> bytes) (ops1 ops2 : list op) (o : obs) (ob : txobj),
  filter is_mut ops1 = filter is_mut ops2 ->
  last (run H (ops1 ++ [Obs o]) ob) (Raise E_OTHER) = last (run H (ops2 ++ [Obs o]) ob) (Raise E_OTHER).
Proof. exact history_independent. Qed.
Print Assumptions C07_history_independent.

Theorem C07_history_last_observation : forall (H : bytes -> bytes) (ops : list op) (o : obs) (ob : txobj),
  run H (ops ++ [Obs o]) ob = run H ops ob ++ [observe H o (state_after ops ob)].
Proof. exact run_last. Qed.
Print Assumptions C07_history_last_observation.

(* after ANY history whose current fields are in range, as_bin() is the wire format of the CURRENT fields (extended
   iff some witness is non-empty now), hash() hashes their legacy form and w_hash() their wire format *)
Theorem C07_history_wire_format : forall (H : bytes -> bytes) (ops : list op) (ob : txobj),
  let t := ob_tx (state_after ops ob) in tx_wf t ->
  exists b, last (run H (ops ++ [Obs (OAsBin false false true)]) ob) (Raise E_OTHER) = Ret (RBytes b) /\ wire_format t b.
Proof. exact history_wire_format. Qed.
Print Assumptions C07_history_wire_format.

Theorem C07_history_ids : forall (H : bytes -> bytes) (ops : list op) (ob : txobj),
  let t := ob_tx (state_after ops ob) in tx_wf t ->
  last (run H (ops ++ [Obs (OHash None)]) ob) (Raise E_OTHER) = Ret (RBytes (H (ser_legacy t))) /\
  exists b, wire_format t b /\ last (run H (ops ++ [Obs OWHash]) ob) (Raise E_OTHER) = Ret (RBytes (H b)).
Proof. exact history_ids. Qed.
Print Assumptions C07_history_ids.

(* ---- several live objects (Model/TxObject.v, World): no operation on one object is visible on another -------------
   wrun runs operations addressed to the objects of a list of transactions in any interleaving.  What object k shows is
   exactly what k's own operations produce on k alone (C07_world_projection); operations on other objects change nothing
   (C07_world_noninterference).  The harness runs such interleavings on live pycoin objects built by the parser and by
   default constructors and compares object k's trace with the single-object model: shared mutable state between objects
   (seed C07-e1: one witness list shared by every default-constructed TxIn) breaks that correspondence. *)
Theorem C07_world_projection : forall (H : bytes -> bytes) (ops : list (nat * op)) (w : list txobj) (k : nat) (ob : txobj),
  nth_error w k = Some ob ->
  map snd (filter (on_obj k) (wrun H ops w)) = run H (map snd (filter (on_obj k) ops)) ob.
Proof. exact world_projection. Qed.
Print Assumptions C07_world_projection.

Theorem C07_world_noninterference : forall (H : bytes -> bytes) (ops : list (nat * op)) (w : list txobj) (k : nat) (ob : txobj) (o : obs),
  nth_error w k = Some ob -> (forall x, In x ops -> fst x <> k) ->
  map snd (filter (on_obj k) (wrun H (ops ++ [(k, Obs o)]) w)) = [observe H o ob].
Proof. exact world_noninterference. Qed.
Print Assumptions C07_world_noninterference.

(* in-place extension of a witness list = assignment of the extended list *)
Theorem C07_extend_witness_is_assignment : forall (i : nat) (w : list bytes) (ob : txobj),
  apply_mut (MExtendWitness i w) ob =
  match nth_error (tx_ins (ob_tx ob)) i with
  | Some x => apply_mut (MAssignWitness i (ti_witness x ++ w)) ob
  | None => Raise E_INDEX
  end.
Proof. exact extend_witness_spec. Qed.
Print Assumptions C07_extend_witness_is_assignment.

(* set_witness and the plain assignment tx.txs_in[i].witness = w (what Tx.parse does) are the same mutation *)
Theorem C07_set_witness_is_assignment : forall (i : nat) (w : list bytes) (ob : txobj),
  apply_mut (MSetWitness i w) ob = apply_mut (MAssignWitness i w) ob.
Proof. exact set_witness_is_assignment. Qed.
Print Assumptions C07_set_witness_is_assignment.

(* ties for the above: the generated source scan finds no store into self / module state / caching decorator in any
   observer method of Tx (every coin class), TxIn, TxOut, Spendable; every coin class hashes the stripped (hash) and
   the full (w_hash) serialisation with double SHA-256, Groestlcoin with single SHA-256 (probed on a transaction
   that carries witness data) *)
Theorem C07_observers_are_stateless : object_table_facts.
Proof. exact object_facts. Qed.
Print Assumptions C07_observers_are_stateless.

(* ties to /repo: the generated format strings / codec kinds are the ones the proofs assume, and the shared
   compact-size model reproduces the live encoder on the dumped probe vectors *)
Theorem C07_tables : tx_table_facts.
Proof. exact table_facts. Qed.
Print Assumptions C07_tables.

(* non-vacuity: a two-input transaction with one empty and one non-empty witness stack, a 253-byte script and
   the amounts 2^63 and 2^64-1 meets the hypotheses; its serialisation is computed and read back *)
Definition ex_tx : tx :=
  mk_tx 2 [mk_txin (repeatb x11 32) 0 (repeatb x61 253) 4294967295 [];
           mk_txin (repeatb x22 32) 4294967295 [] 0 [[]; repeatb x77 3]]
          [mk_txout 9223372036854775808 [x51]; mk_txout 18446744073709551615 []] 4294967295.
Example C07_example_wf : tx_wf ex_tx /\ tx_ins ex_tx <> [].
Proof.
  unfold tx_wf, txin_wf, txout_wf, u32, u64, len64, zlen, ex_tx. cbn.
  repeat (split || constructor || discriminate || lia).
Qed.
Example C07_example_roundtrip :
  match stream_tx false true ex_tx with
  | Ret b => bytes_eqb (firstn 6 b) [x02; x00; x00; x00; x00; x01] && (length b =? 375)%nat
             && match parse_tx true (b ++ [xee]) with Ret (t, r) => bytes_eqb r [xee] | _ => false end
  | _ => false
  end = true.
Proof. vm_compute. reflexivity. Qed.
Example C07_example_canonical :
  match stream_tx false true ex_tx with
  | Ret b => match decode_strict (b ++ [xee]) with Some (t, r) => bytes_eqb r [xee] && (length (tx_ins t) =? 2)%nat | None => false end
             (* the same bytes with the input count written non-minimally (fd 02 00) are not canonical *)
             && match decode_strict (firstn 6 b ++ [xfd; x02; x00] ++ skipn 7 b) with None => true | _ => false end
             && match parse_tx true (firstn 6 b ++ [xfd; x02; x00] ++ skipn 7 b) with Ret (t, r) => (length (tx_ins t) =? 2)%nat | _ => false end
  | _ => false
  end = true.
Proof. vm_compute. reflexivity. Qed.

(* a history in the family of the witness-memoisation defect: serialise a legacy transaction, assign a witness to
   input 0, serialise again - the second serialisation is the extended form; clear it again - legacy *)
Example C07_example_history :
  let ob := mk_obj (mk_tx 1 [mk_txin (repeatb x11 32) 0 [] 0 []] [mk_txout 5 [x51]] 0) [] in
  match run (fun b => b) [Obs (OAsBin false false true); Mut (MAssignWitness 0 [[x30]]); Obs (OAsBin false false true);
                          Obs OHasWitness; Mut (MSetWitness 0 []); Obs (OAsBin false false true); Mut (MSetWitness 1 [])] ob with
  | [Ret (RBytes b1); Ret RNone; Ret (RBytes b2); Ret (RBool true); Ret RNone; Ret (RBytes b3); Raise E_INDEX] =>
    bytes_eqb (firstn 2 (skipn 4 b2)) [x00; x01] && bytes_eqb b1 b3 && (length b2 =? length b1 + 5)%nat
  | _ => false
  end = true.
Proof. vm_compute. reflexivity. Qed.
