(* Props/C16compose.v — C16 composed with C07 and C14: the peer-to-peer message theorems of Props/C16.v with the three
   object codecs INSTANTIATED and no codec hypothesis left.  Only statements; every proof is `exact <lemma>`
   (lemmas in Proofs/ComposeOkb.v, Proofs/ComposeStreamer.v, built on Proofs/ComposeBlockTx.v).

     "T" : (Tx.parse, tx.stream)                      := (m_parse_T, m_stream_T)  = C07's TxWire.parse_tx true / stream
     "B" : (Block.parse, block.stream)                := (m_parse_B Htx dsha256, m_stream_B) = C14's block_parse over the
                                                         C07 transaction codec, include_transactions = check_merkle_hash
                                                         = True (the defaults Block.parse is registered with)
     "z" : (Block.parse_as_header, stream_header)     := (m_parse_z, m_stream_z)  = C14's parse_header / stream_header
     header_of                                        := b_header
   Value types: TxWire.tx, Block.block TxWire.tx, Block.header.  Htx (hash of the Tx class) and dsha256 (Block's
   double_sha256) are ANY functions.  m_stream_* are the outcome-valued model streamers with the failure case mapped to
   []; on well-formed values they are the model's result and the C07 / C14 wire bytes (C16c_wire_forms).

   Well-formedness needed (and nothing else about the codecs):
     tx_ok t        = tx_wf t /\ tx_ins t <> []                                  (C07's predicate, see Props/C14compose.v)
     wf_header h    = four u32 fields, two 32-byte hashes                        (C14's predicate)
     block_ok b     = wf_header, at least one transaction, fewer than 2^64 of them, all tx_ok, and the header's merkle
                      root is the root of the transaction ids — Block.parse verifies the root, so a block with another
                      root does not come back (C14c_bad_root_rejected); a block with NO transactions is written as its 80
                      header bytes and cannot be read back by "B" (which then expects a count): excluded, it is what "z" is for
     c16_ok_field v = every VTx / VBlock / VHdr inside the field value v (bare, inside an array, inside an array of
                      tuples) satisfies the predicate of its kind.

   How: C16's theorems need the frame law for EVERY value of the codec's value type, which the real codecs have on
   well-formed values only.  They are applied to the codecs restricted to the (decidable) subsets of well-formed values
   and the result is carried back along the inclusion, using that the full parser returns whatever the restricted one
   returns (Proofs/ComposeStreamer.v, Section Sim).  The statements below mention the REAL parsers only. *)
From PV Require Import Base.Bytes Base.Outcome Base.Varint Gen.GenMessages Model.Streamer Spec.WireC16.
From PV Require Model.TxWire Spec.TxWireSpec Model.Block Proofs.BlockP.
From PV Require Import Proofs.ComposeBlockTx Proofs.ComposeOkb Proofs.ComposeStreamer.

Notation txT := TxWire.tx (only parsing).
Notation blkT := (Block.block TxWire.tx) (only parsing).
Notation hdrT := Block.header (only parsing).

(* ---- the three codecs: frame law on well-formed values, from C07 / C14 ------------------------------------------------ *)
Theorem C16c_frame_T : forall (t : txT) rest, tx_ok t -> m_parse_T (m_stream_T t ++ rest) = Ret (t, rest).
Proof. exact m_frame_T. Qed.
Print Assumptions C16c_frame_T.

Theorem C16c_frame_B : forall (Htx dsha256 : bytes -> bytes) (b : blkT) rest, block_ok Htx dsha256 b ->
  m_parse_B Htx dsha256 (m_stream_B b ++ rest) = Ret (b, rest).
Proof. exact m_frame_B. Qed.
Print Assumptions C16c_frame_B.

Theorem C16c_frame_z : forall (h : hdrT) rest, BlockP.wf_header h -> m_parse_z (m_stream_z h ++ rest) = Ret (h, rest).
Proof. exact m_frame_z. Qed.
Print Assumptions C16c_frame_z.

(* what the bytes are: the C07 wire format of the transaction, the 80 header bytes, header + minimal count + transactions *)
Theorem C16c_wire_forms : forall (Htx dsha256 : bytes -> bytes),
  (forall t : txT, TxWireSpec.tx_wf t ->
     TxWire.stream_tx false true t = Ret (m_stream_T t) /\ TxWireSpec.wire_format t (m_stream_T t)) /\
  (forall h : hdrT, BlockP.wf_header h ->
     Block.stream_header h = Ret (m_stream_z h) /\ m_stream_z h = BlockP.header_bytes h) /\
  (forall b : blkT, block_ok Htx dsha256 b ->
     Block.block_stream TxWire.tx c07_stream b = Ret (m_stream_B b) /\
     m_stream_B b = BlockP.header_bytes (Block.b_header TxWire.tx b) ++
                    TxWireSpec.compact_size (TxWireSpec.zlen (Block.b_txs TxWire.tx b)) ++
                    concat (map c07_stream (Block.b_txs TxWire.tx b))).
Proof.
  intros Htx dsha256. split; [exact c07_stream_ok|]. split; [exact m_stream_z_ok | exact (m_stream_B_ok Htx dsha256)].
Qed.
Print Assumptions C16c_wire_forms.

(* the boolean deciders used for the restriction are the Props of the statements *)
Theorem C16c_deciders : forall (Htx dsha256 : bytes -> bytes),
  (forall t, tx_okb t = true <-> tx_ok t) /\ (forall h, wf_headerb h = true <-> BlockP.wf_header h) /\
  (forall b, block_okb Htx dsha256 b = true <-> block_ok Htx dsha256 b).
Proof. intros Htx dsha256. split; [exact tx_okb_iff|]. split; [exact wf_headerb_iff | exact (block_okb_iff Htx dsha256)]. Qed.
Print Assumptions C16c_deciders.

(* ---- per-codec round trips of T, B, z inside Streamer (C16_codec_roundtrip_T/B/z without frame hypotheses) --------------- *)
Theorem C16c_codec_roundtrip_T : forall (Htx dsha256 : bytes -> bytes) ip4 ict (t : txT) rest, tx_ok t ->
  stream_codec m_stream_T m_stream_B m_stream_z (Block.b_header TxWire.tx) CT (VTx t) = Ret (m_stream_T t) /\
  parse_codec m_parse_T (m_parse_B Htx dsha256) m_parse_z ip4 ict CT (m_stream_T t ++ rest) = Ret (VTx t, rest).
Proof. exact real_rt_T. Qed.
Print Assumptions C16c_codec_roundtrip_T.

Theorem C16c_codec_roundtrip_B : forall (Htx dsha256 : bytes -> bytes) ip4 ict (b : blkT) rest, block_ok Htx dsha256 b ->
  stream_codec m_stream_T m_stream_B m_stream_z (Block.b_header TxWire.tx) CB (VBlock b) = Ret (m_stream_B b) /\
  parse_codec m_parse_T (m_parse_B Htx dsha256) m_parse_z ip4 ict CB (m_stream_B b ++ rest) = Ret (VBlock b, rest).
Proof. exact real_rt_B. Qed.
Print Assumptions C16c_codec_roundtrip_B.

Theorem C16c_codec_roundtrip_z : forall (Htx dsha256 : bytes -> bytes) ip4 ict (h : hdrT) rest, BlockP.wf_header h ->
  stream_codec m_stream_T m_stream_B m_stream_z (Block.b_header TxWire.tx) Cz (VHdr h) = Ret (m_stream_z h) /\
  parse_codec m_parse_T (m_parse_B Htx dsha256) m_parse_z ip4 ict Cz (m_stream_z h ++ rest) = Ret (VHdr h, rest).
Proof. exact real_rt_z. Qed.
Print Assumptions C16c_codec_roundtrip_z.

(* ---- totality: C16_parse_fuel_sufficient with its three hypotheses discharged ------------------------------------------------ *)
Theorem C16c_parse_fuel_sufficient : forall (Htx dsha256 : bytes -> bytes) ip4 ict layout data,
  parse_message m_parse_T (m_parse_B Htx dsha256) m_parse_z ip4 ict layout data <> OutOfFuel.
Proof. exact real_parse_message_no_oof. Qed.
Print Assumptions C16c_parse_fuel_sufficient.

(* ---- every message of ANY table that passes table_ok ------------------------------------------------------------------------- *)
Theorem C16c_all_messages_generic : forall (Htx dsha256 : bytes -> bytes) ip4 ict msgs, table_ok msgs = true ->
  forall name layout, In (name, layout) msgs ->
  exists fts, layout_ftypes layout = Some fts /\
  forall (vals : list (pyval txT blkT hdrT)) kwargs,
    Forall2 wt_field fts vals -> Forall (c16_ok_field Htx dsha256) vals ->
    (forall nm v, In (nm, v) (combine (map fst layout) vals) -> str_lookup kwargs nm = Some v) ->
    pack_from_data m_stream_T m_stream_B m_stream_z (Block.b_header TxWire.tx) msgs name kwargs
      = Ret (wire_message m_stream_T m_stream_B m_stream_z fts vals) /\
    parse_message m_parse_T (m_parse_B Htx dsha256) m_parse_z ip4 ict layout (wire_message m_stream_T m_stream_B m_stream_z fts vals)
      = Ret (combine (map fst layout) vals, []) /\
    forall al post, name <> str "alert" -> name <> str "merkleblock" ->
      parse_from_data m_parse_T (m_parse_B Htx dsha256) m_parse_z ip4 ict msgs al post name
                      (wire_message m_stream_T m_stream_B m_stream_z fts vals)
        = Ret (combine (map fst layout) vals).
Proof. exact real_all_messages_generic. Qed.
Print Assumptions C16c_all_messages_generic.

(* ---- C16, whole regenerated table, real codecs -------------------------------------------------------------------------------- *)
(* for every (name, layout) of STANDARD_P2P_MESSAGES, every list of field values of the declared types whose
   transactions / blocks / headers are well formed, and any keyword arguments that supply them:
     pack = the wire encoding of the fields (with the C07 / C14 serialisations for T / B / z);
     reading it back with the real Tx.parse / Block.parse / parse_as_header gives exactly those values, NO byte left;
     network.message.parse returns the same dict for every message without post-processing. *)
Theorem C16c_all_messages : forall (Htx dsha256 : bytes -> bytes) name layout, In (name, layout) std_messages ->
  exists fts, layout_ftypes layout = Some fts /\
  forall (vals : list (pyval txT blkT hdrT)) kwargs,
    Forall2 wt_field fts vals -> Forall (c16_ok_field Htx dsha256) vals ->
    (forall nm v, In (nm, v) (combine (map fst layout) vals) -> str_lookup kwargs nm = Some v) ->
    pack_from_data m_stream_T m_stream_B m_stream_z (Block.b_header TxWire.tx) std_messages name kwargs
      = Ret (wire_message m_stream_T m_stream_B m_stream_z fts vals) /\
    parse_message m_parse_T (m_parse_B Htx dsha256) m_parse_z ip4_header inv_checked_types layout
                  (wire_message m_stream_T m_stream_B m_stream_z fts vals)
      = Ret (combine (map fst layout) vals, []) /\
    forall post, name <> str "alert" -> name <> str "merkleblock" ->
      parse_from_data m_parse_T (m_parse_B Htx dsha256) m_parse_z ip4_header inv_checked_types std_messages alert_layout post name
                      (wire_message m_stream_T m_stream_B m_stream_z fts vals)
        = Ret (combine (map fst layout) vals).
Proof. exact real_std_all_messages. Qed.
Print Assumptions C16c_all_messages.

(* including the post-processing: alert for EVERY payload (alert_info appended), merkleblock for values on which the
   (still abstract, C14-owned) post_unpack_merkleblock succeeds and only appends keys, every other message unchanged *)
Theorem C16c_parse_with_post_processing : forall (Htx dsha256 : bytes -> bytes)
    (post : list (bytes * pyval txT blkT hdrT) -> outcome (list (bytes * pyval txT blkT hdrT)))
    name layout fts (vals : list (pyval txT blkT hdrT)),
  In (name, layout) std_messages -> layout_ftypes layout = Some fts ->
  Forall2 wt_field fts vals -> Forall (c16_ok_field Htx dsha256) vals ->
  (name = str "merkleblock" -> exists extra,
      post (combine (map fst layout) vals) = Ret (combine (map fst layout) vals ++ extra)) ->
  exists extra,
    parse_from_data m_parse_T (m_parse_B Htx dsha256) m_parse_z ip4_header inv_checked_types std_messages alert_layout post name
                    (wire_message m_stream_T m_stream_B m_stream_z fts vals)
      = Ret (combine (map fst layout) vals ++ extra).
Proof. exact real_std_parse_from_data. Qed.
Print Assumptions C16c_parse_with_post_processing.

(* ---- non-vacuity ------------------------------------------------------------------------------------------------------------------ *)
(* the well-formedness hypotheses are met by the example transactions (legacy and segwit), header and block of
   Proofs/ComposeOkb.v (toy hash ex_H for both hashes) ... *)
Example C16c_ex_values_ok :
  tx_ok ex_tx1 /\ tx_ok ex_tx2 /\ BlockP.wf_header ex_hdr /\ block_ok ex_H ex_H ex_blk.
Proof. exact (conj ex_tx1_ok (conj ex_tx2_ok (conj ex_hdr_ok ex_blk_ok))). Qed.

Definition exv (l : list (pyval txT blkT hdrT)) := l.
(* ... so the field values of a "tx", a "block", a "headers" ([zI]), a "blocktxn" (#[T]) and a "cmpctblock"
   (#Q[6][IT]) message are well typed and well formed ... *)
Example C16c_ex_fields_ok :
  Forall (c16_ok_field ex_H ex_H) (exv [VTx ex_tx2]) /\ Forall2 wt_field [FOne CT] (exv [VTx ex_tx2]) /\
  Forall (c16_ok_field ex_H ex_H) (exv [VBlock ex_blk]) /\ Forall2 wt_field [FOne CB] (exv [VBlock ex_blk]) /\
  Forall (c16_ok_field ex_H ex_H) (exv [VTuple [VTuple [VHdr ex_hdr; VInt 0]; VTuple [VBlock ex_blk; VInt 2]]]) /\
  Forall2 wt_field [FArr [Cz; CI]] (exv [VTuple [VTuple [VHdr ex_hdr; VInt 0]; VTuple [VHdr ex_hdr; VInt 2]]]) /\
  Forall (c16_ok_field ex_H ex_H) (exv [VBytes (repeatb x05 32); VTuple [VTx ex_tx1; VTx ex_tx2]]) /\
  Forall2 wt_field [FOne CHash; FArr [CT]] (exv [VBytes (repeatb x05 32); VTuple [VTx ex_tx1; VTx ex_tx2]]) /\
  Forall (c16_ok_field ex_H ex_H) (exv [VBytes (repeatb x05 32); VInt 7; VTuple [VInt 9]; VTuple [VTuple [VInt 0; VTx ex_tx1]]]).
Proof.
  pose proof ex_tx1_ok. pose proof ex_tx2_ok. pose proof ex_hdr_ok. pose proof ex_blk_ok.
  unfold exv, c16_ok_field.
  do 4 (repeat match goal with
               | |- _ /\ _ => split
               | |- Forall _ _ => constructor
               | |- Forall2 _ _ _ => constructor
               end; cbn [ComposeStreamer.ok_field ComposeStreamer.ok_elem ComposeStreamer.ok1 wt_field wt_elem wt]);
  try assumption; try exact I; try reflexivity; try (unfold zrange; cbn; lia); try (cbn; lia).
Qed.

(* ... and the round trips, computed through the real parsers: tx (375 bytes), block (519 bytes, merkle check on),
   headers with one header-only entry and one entry given as a full block (written as its header: comes back as a
   header), blocktxn *)
Example C16c_ex_roundtrips_computed :
  let pack := pack_from_data m_stream_T m_stream_B m_stream_z (Block.b_header TxWire.tx) std_messages in
  let parse := parse_from_data m_parse_T (m_parse_B ex_H ex_H) m_parse_z ip4_header inv_checked_types std_messages alert_layout
                 (fun d => Ret d) in
  match pack (str "tx") [(str "tx", VTx ex_tx2)] with
  | Ret bs => length bs = 375 /\ parse (str "tx") bs = Ret [(str "tx", VTx ex_tx2)]
  | _ => False end /\
  match pack (str "block") [(str "block", VBlock ex_blk)] with
  | Ret bs => length bs = 519 /\ parse (str "block") bs = Ret [(str "block", VBlock ex_blk)]
  | _ => False end /\
  match pack (str "headers") [(str "headers", VTuple [VTuple [VHdr ex_hdr; VInt 0]; VTuple [VBlock ex_blk; VInt 2]])] with
  | Ret bs => length bs = 163 /\
              parse (str "headers") bs = Ret [(str "headers", VTuple [VTuple [VHdr ex_hdr; VInt 0]; VTuple [VHdr ex_hdr; VInt 2]])]
  | _ => False end /\
  match pack (str "blocktxn") [(str "header_hash", VBytes (repeatb x05 32)); (str "txs", VTuple [VTx ex_tx1; VTx ex_tx2])] with
  | Ret bs => parse (str "blocktxn") bs = Ret [(str "header_hash", VBytes (repeatb x05 32)); (str "txs", VTuple [VTx ex_tx1; VTx ex_tx2])]
  | _ => False end.
Proof. vm_compute. repeat split. Qed.
