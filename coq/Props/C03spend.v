(* Props/C03spend.v — property C03 at the level of a whole spend: BitcoinSolutionChecker.check_solution (the pycoin
   model, Model/VMpy.v) against Bitcoin Core's VerifyScript (Spec/VMcore.v): for EVERY spend (scriptSig, scriptPubKey,
   witness stack, flags word, transaction context) both accept, or both reject with a clean script failure; pycoin
   never lets another exception escape.
   Proofs: Proofs/AgreeSpendBase.v (Core reads the flags through a fixed set of bits; one evaluation in Core's stack
   convention; size invariant of returned stacks), AgreeSpendPush.v (the two push-only tests), AgreeSpendWit.v
   (patterns, witness v0 rules), AgreeSpend.v (assembly), on top of C03_eval_agrees (Props/C03agree.v), which is used
   for each of the up to four evaluations (scriptSig, scriptPubKey, redeem script, witness script).

   Hypotheses (record AgreeSpend.spend_hyps) — nothing else is assumed, in particular NOT Core's flag asserts
   (flags_permitted), nothing about o_sha256, nothing about the scripts or the witness:
   sh_strict  strict flags = true  \/  (lax_contract o SV_BASE /\ lax_contract o SV_WITNESS_V0)
              (H2) of C03_eval_agrees for both signature versions: one of DERSIG / LOW_S / STRICTENC is set, or the
              signature oracle rejects every blob that pycoin's lax DER reader rejects (finding lax-der-parser).
   sh_hash    every hash oracle returns strings shorter than 2^32 bytes (the real ones: 20 or 32 bytes).  It keeps
              every stack item below 2^32 bytes, where _delete_signature would raise OverflowError.  No hypothesis on
              the witness items is needed: the witness stack only feeds a SV_WITNESS_V0 evaluation (no deletion).
   Discharged inside the proof:
   (H1)       check_solution strips MINIMALIF / WITNESS_PUBKEYTYPE (and P2SH) for the base runs and adds CLEANSTACK
              for the witness run; Core's EvalScript provably does not read those bits there (AgreeSpendBase.feq_eval).
   push-only  pycoin's data_opcodes lacks OP_RESERVED and its walk ignores undecodable instructions, Core's IsPushOnly
              does neither: the tests differ only on scriptSigs whose evaluation fails on both sides
              (AgreeSpendPush.po_cases: an undecodable instruction, or an executed OP_RESERVED).
   P2SH       solution_stack[-1] on an empty stack (IndexError) is unreachable: OP_HASH160 fails first.
   witness    program detection, P2WSH / P2WPKH rules, 520-byte item loop, implicit CLEANSTACK, future versions
              (b"", [VM_TRUE]), malleation tests (the minimal push of a 4..42-byte program is the plain push),
              CLEANSTACK on the last non-witness stack, WITNESS_UNEXPECTED. *)
From PV Require Import Base.Bytes Base.Outcome Gen.GenFlags Spec.VMTypes Model.VMpy Spec.VMcore.
From PV Require Import Proofs.AgreeSigEnc Proofs.AgreeInv Proofs.AgreeTop Proofs.AgreeSpend.

Theorem C03_spend_agrees : forall (o : oracles) (sp : spend),
  spend_hyps o sp ->
  res_agree (fun _ _ => true) (VMpy.check_solution o sp) (VMcore.VerifyScript o sp) = true.
Proof. exact spend_agree_res. Qed.
Print Assumptions C03_spend_agrees.

Example C03_spend_hyps_satisfiable :
  spend_hyps ex_oracles {| sp_script_sig := [x51]; sp_script_pubkey := [x51]; sp_witness := [];
                           sp_flags := N.lor VERIFY_P2SH VERIFY_DERSIG; sp_ctx := {| tc_version := 1; tc_lock_time := 0; tc_sequence := 0 |} |}.
Proof. exact spend_hyps_example. Qed.
