(* Props/C03.v — property C03: script evaluation agrees with Bitcoin consensus.
   What is PROVED here (unbounded, closed): the structural backbone of the agreement between the pycoin model
   Model/VMpy.v and the Core spec Spec/VMcore.v.  The per-opcode agreement itself is decided on every run by the
   implementation-vs-spec differential of harness/c03_spec.py (see DESIGN.md, C03): it is NOT a theorem yet
   (C03_eval_agrees below is stated and left as the goal; nothing is admitted). *)
From PV Require Import Base.Bytes Base.Outcome Gen.GenFlags Gen.GenOpcodes Spec.VMTypes
  Model.CondStack Spec.CondStackCore Proofs.CondStackP Model.VMpy Proofs.VMpyP Proofs.VMpySigP Spec.VMcore.

(* 1. conditional nesting: pycoin's two counters simulate Core's vector<bool> for EVERY sequence of
      IF/NOTIF/ELSE/ENDIF of any depth: same error cases, same "all branches executing", same balance test *)
Theorem C03_condstack_refines : forall ops : list cop,
  match c_run c_init ops, vf_run [] ops with
  | Some s, Some vf => c_all_if_true s = vf_all_true vf /\ c_final_ok s = vf_final_ok vf
  | None, None => True
  | _, _ => False
  end.
Proof. exact cond_observations. Qed.
Print Assumptions C03_condstack_refines.

(* the simulation relation is preserved step by step from any related pair of states (used for nested scripts) *)
Theorem C03_condstack_step : forall (s : cstate) (vf : list bool) (o : cop), cond_rel s vf ->
  match c_step s o, vf_step vf o with
  | Some s', Some vf' => cond_rel s' vf'
  | None, None => True
  | _, _ => False
  end.
Proof. exact cond_step_sim. Qed.
Print Assumptions C03_condstack_step.

(* 2. termination on both sides: evaluation never runs out of fuel (fuel = script length; pc strictly increases),
      and the Core spec never crashes *)
Theorem C03_model_terminates : forall (o : oracles) (flags : N) (sv : sigversion) (ctx : txctx) (script : bytes) (st : stack),
  Model.VMpy.eval_script o flags sv ctx script st <> VOutOfFuel.
Proof. exact vmpy_fuel_sufficient. Qed.
Print Assumptions C03_model_terminates.

Theorem C03_spec_terminates : forall (o : oracles) (flags : N) (sv : sigversion) (ctx : txctx) (script : bytes) (st : stack),
  vres_clean (EvalScript o flags sv ctx script st).
Proof. exact C03spec_eval_terminates. Qed.
Print Assumptions C03_spec_terminates.

Theorem C03_spec_verify_terminates : forall (o : oracles) (sp : spend), vres_clean (VerifyScript o sp).
Proof. exact C03spec_verify_terminates. Qed.
Print Assumptions C03_spec_verify_terminates.

(* 3. structure of one pycoin instruction: pc strictly increases; the branch counters move only through one
      ConditionalStack operation; inside an unexecuted branch nothing but pc / op count / counters changes
      (so dead code cannot affect the verdict except through the checks the step itself performs) *)
Theorem C03_step_advances_pc : forall (o : oracles) (flags : N) (sv : sigversion) (ctx : txctx) (script : bytes) (s s' : VMpy.vmstate),
  VMpy.step o flags sv ctx script s = VOk s' -> (st_pc s < st_pc s')%nat.
Proof. exact step_advances_pc. Qed.
Print Assumptions C03_step_advances_pc.

Theorem C03_step_cond : forall (o : oracles) (flags : N) (sv : sigversion) (ctx : txctx) (script : bytes) (s s' : VMpy.vmstate),
  VMpy.step o flags sv ctx script s = VOk s' ->
  st_cond s' = st_cond s \/ (exists op : cop, c_step (st_cond s) op = Some (st_cond s')).
Proof. exact step_cond. Qed.
Print Assumptions C03_step_cond.

Theorem C03_step_dead_branch : forall (o : oracles) (flags : N) (sv : sigversion) (ctx : txctx) (script : bytes) (s s' : VMpy.vmstate),
  c_all_if_true (st_cond s) = false -> VMpy.step o flags sv ctx script s = VOk s' ->
  st_stack s' = st_stack s /\ st_alt s' = st_alt s /\ st_bch s' = st_bch s.
Proof. exact step_dead_branch. Qed.
Print Assumptions C03_step_dead_branch.

Theorem C03_check_solution_terminates : forall (o : oracles) (sp : spend), VMpy.check_solution o sp <> VOutOfFuel.
Proof. exact check_solution_fuel_sufficient. Qed.
Print Assumptions C03_check_solution_terminates.

(* 4. ties to the GENERATED tables: the model's opcode -> handler map is the live BitcoinVM.INSTRUCTION_LOOKUP
      (all 256 entries: bound Python function and outside_conditional mark) and the live opcode names *)
Theorem C03_handler_table_tie :
  forallb handler_entry_ok GenFlags.handler_table = true /\
  map (fun e : N * String.string * bool => fst (fst e)) GenFlags.handler_table = map N.of_nat (seq 0 256).
Proof. exact hk_agrees_with_handler_table. Qed.
Print Assumptions C03_handler_table_tie.

Theorem C03_opcode_names_tie : forallb name_entry_ok GenOpcodes.opcode_list = true.
Proof. exact hk_agrees_with_opcode_list. Qed.
Print Assumptions C03_opcode_names_tie.

(* 5. signature encoding region: with any of DERSIG / LOW_S / STRICTENC set, a non-empty signature that passes
      the encoding checks is never on the "unparseable: matches no key" path (the lax parser of Core and pycoin
      differ only outside this region), and under LOW_S the accepted S is at most half the GROUP ORDER or the
      signature is out of range (and then cannot verify) *)
Theorem C03_strict_flags_never_unparsed : forall (o : oracles) (flags : N) (sig : bytes),
  flag_set flags (N.lor GenFlags.VERIFY_DERSIG (N.lor GenFlags.VERIFY_LOW_S GenFlags.VERIFY_STRICTENC)) = true ->
  sig <> [] -> parse_and_check_signature_blob o flags sig <> VOk None.
Proof. exact strict_flags_never_unparsed. Qed.
Print Assumptions C03_strict_flags_never_unparsed.

Theorem C03_low_s_uses_group_order : forall (o : oracles) (flags : N) (sig : bytes) (r s : Z),
  flag_set flags GenFlags.VERIFY_LOW_S = true ->
  parse_and_check_signature_blob o flags sig = VOk (Some (r, s)) ->
  (Z.of_N (o_order o) <= r)%Z \/ (Z.of_N (o_order o) <= s)%Z \/ (s <= Z.of_N (o_order o) - s)%Z.
Proof. intros o flags sig r s H1 H2. exact (proj1 (low_s_decision o flags sig r s H1 H2)). Qed.
Print Assumptions C03_low_s_uses_group_order.
