(* Props/C06.v — property C06: validation is tamper-evident (signatures bind what their hash type commits; an
   unknown spent output is never valid; re-validation is stateless).
   Only statements; every proof is `exact <lemma>` (lemmas in Proofs/CommitP.v).
   Model: Model/Commit.v — pycoin's BitcoinSolutionChecker._signature_hash (legacy) and
   SegwitChecker._segwit_signature_preimage with its three sub-hashes (BIP143), Tx.hash(hash_type), TxIn/TxOut
   streaming, Tx.is_solution_ok / missing_unspent / bad_solution_count; constants regenerated from /repo
   (Gen/GenCommitC06.v; Proofs.CommitP.gen06_consts_ok pins them to the consensus values).

   Vocabulary (all defined in Model/Commit.v):
     sctx                = (transaction, script code, recorded amount of the spent output) of the input being checked
     fed_of sv ht idx c  = the byte strings handed to the hash function for input idx under hash type ht
                           (Fed_none: nothing is hashed — legacy SIGHASH_SINGLE without a matching output signs the
                           constant 1<<248; Fed_legacy b; Fed_segwit: frame + prevouts/sequences/outputs strings)
     field / get         = the individual fields of a context (version, lock time, counts, outpoints, sequences,
                           output amounts and scripts, script code, spent amount, scriptSigs, witnesses)
     committed sv ht idx has_out fl = does hash type ht of input idx commit field fl (the classification, written
                           with the consensus constants 0x1f, 2, 3, 0x80; has_out = idx < #outputs)
   All theorems quantify over every hash type value ht : N (hence all 256 bytes and beyond), every transaction,
   every index. *)
From PV Require Import Base.Bytes Base.Outcome Base.Varint Gen.GenCommitC06 Model.Commit Proofs.CommitP.
Local Open Scope N_scope.

(* (1) the commitment is injective, at the level of the strings fed to the hash (no assumption on the hash):
   two contexts (32-byte outpoint hashes, idx an existing input) that feed the same strings agree on EVERY field
   the hash type commits.  For ht = SIGHASH_ALL legacy that is version, lock time, the number of inputs and
   outputs, every outpoint and sequence, every output amount and script, and the script code; BIP143 adds the spent
   amount (see C06_all_commits_everything). *)
Theorem C06_commitment_injective : forall (sv : sigversion) (ht : N) (idx : nat) (c c' : sctx) (f : fed),
  Forall (fun x => length (ti_hash x) = 32%nat) (tx_ins (sc_tx c)) ->
  Forall (fun x => length (ti_hash x) = 32%nat) (tx_ins (sc_tx c')) ->
  (idx < length (tx_ins (sc_tx c)))%nat -> (idx < length (tx_ins (sc_tx c')))%nat ->
  fed_of sv ht idx c = Ret f -> fed_of sv ht idx c' = Ret f ->
  forall fl, committed sv ht idx (has_output idx c) fl = true -> get idx fl c = get idx fl c'.
Proof. exact commitment_injective. Qed.
Print Assumptions C06_commitment_injective.

(* what SIGHASH_ALL (any base type other than NONE/SINGLE, no ANYONECANPAY) commits: everything but the unlocking
   data; the spent amount exactly under BIP143 *)
Theorem C06_all_commits_everything : forall (sv : sigversion) (ht : N) (idx : nat) (has_out : bool) (fl : field),
  ht_none ht = false -> ht_single ht = false -> ht_acp ht = false ->
  committed sv ht idx has_out fl =
  match fl with
  | F_script_sig _ | F_witness _ | F_single_has_output => false
  | F_spent_amount => match sv with SV_bip143 => true | SV_legacy => false end
  | _ => true
  end.
Proof. exact all_commits_everything. Qed.
Print Assumptions C06_all_commits_everything.

(* the hash type is itself bound: the same fed strings cannot come from two different hash types *)
Theorem C06_hash_type_bound : forall (sv : sigversion) (ht ht' : N) (idx : nat) (c c' : sctx) (f : fed),
  Forall (fun x => length (ti_hash x) = 32%nat) (tx_ins (sc_tx c)) ->
  Forall (fun x => length (ti_hash x) = 32%nat) (tx_ins (sc_tx c')) ->
  f <> Fed_none -> fed_of sv ht idx c = Ret f -> fed_of sv ht' idx c' = Ret f -> ht = ht'.
Proof. exact fed_binds_hash_type. Qed.
Print Assumptions C06_hash_type_bound.

(* (1') corollary at the level of digests, for ANY function dsha256 with 32-byte output: equal digests imply
   agreement on all committed fields, OR an explicit anomaly of the hash function is exhibited among the strings
   that were hashed (feeds): two distinct strings with equal hash, or a string hashing to ZERO32 or to the
   SIGHASH_SINGLE constant *)
Theorem C06_digest_commits : forall (dsha256 : bytes -> bytes), (forall x, length (dsha256 x) = 32%nat) ->
  forall (sv : sigversion) (ht : N) (idx : nat) (c c' : sctx) (f f' : fed),
  Forall (fun x => length (ti_hash x) = 32%nat) (tx_ins (sc_tx c)) ->
  Forall (fun x => length (ti_hash x) = 32%nat) (tx_ins (sc_tx c')) ->
  (idx < length (tx_ins (sc_tx c)))%nat -> (idx < length (tx_ins (sc_tx c')))%nat ->
  fed_of sv ht idx c = Ret f -> fed_of sv ht idx c' = Ret f' ->
  digest_of dsha256 f = digest_of dsha256 f' ->
  (forall fl, committed sv ht idx (has_output idx c) fl = true -> get idx fl c = get idx fl c')
  \/ (exists x y, In x (feeds dsha256 f) /\ In y (feeds dsha256 f') /\ x <> y /\ dsha256 x = dsha256 y)
  \/ (exists x, In x (feeds dsha256 f ++ feeds dsha256 f')
                /\ (dsha256 x = gen06_zero32 \/ dsha256 x = be_encode 32 single_value)).
Proof. exact digest_commits. Qed.
Print Assumptions C06_digest_commits.

(* (1'') verdict level, PARTIAL: with the signature check an arbitrary function `verify key digest signature`, a
   signature that verified before a change of a committed field verifies afterwards only if the hash function shows
   an anomaly (as above) or the same signature verifies under two DIFFERENT digests.  That the latter happens for at
   most a negligible set of digests is a fact about ECDSA (C01's verify_iff) and is not imported here. *)
Theorem C06_tamper_fails_partial : forall (dsha256 : bytes -> bytes), (forall x, length (dsha256 x) = 32%nat) ->
  forall (pubkey signature : Type) (verify : pubkey -> bytes -> signature -> bool)
         (sv : sigversion) (ht : N) (idx : nat) (c c' : sctx) (f f' : fed) (k : pubkey) (s : signature) (fl : field),
  Forall (fun x => length (ti_hash x) = 32%nat) (tx_ins (sc_tx c)) ->
  Forall (fun x => length (ti_hash x) = 32%nat) (tx_ins (sc_tx c')) ->
  (idx < length (tx_ins (sc_tx c)))%nat -> (idx < length (tx_ins (sc_tx c')))%nat ->
  fed_of sv ht idx c = Ret f -> fed_of sv ht idx c' = Ret f' ->
  committed sv ht idx (has_output idx c) fl = true -> get idx fl c <> get idx fl c' ->
  verify k (digest_of dsha256 f) s = true -> verify k (digest_of dsha256 f') s = true ->
  ((exists x y, In x (feeds dsha256 f) /\ In y (feeds dsha256 f') /\ x <> y /\ dsha256 x = dsha256 y)
   \/ (exists x, In x (feeds dsha256 f ++ feeds dsha256 f')
                 /\ (dsha256 x = gen06_zero32 \/ dsha256 x = be_encode 32 single_value)))
  \/ (digest_of dsha256 f <> digest_of dsha256 f'
      /\ verify k (digest_of dsha256 f) s = true /\ verify k (digest_of dsha256 f') s = true).
Proof. exact tamper_fails. Qed.
Print Assumptions C06_tamper_fails_partial.

(* (2) changes confined to uncommitted fields leave the hash input unchanged — exact equality of outcomes,
   exceptions included, for every hash type value: other inputs' sequences under NONE/SINGLE, other outputs under
   SINGLE, all outputs under NONE, all other inputs under ANYONECANPAY, scriptSigs and witnesses of every input,
   the spent amount under legacy, everything but "no matching output" for the legacy SINGLE bug *)
Theorem C06_uncommitted_invariant : forall (sv : sigversion) (ht : N) (idx : nat) (c c' : sctx),
  (forall fl, committed sv ht idx (has_output idx c) fl = true -> get idx fl c = get idx fl c') ->
  fed_of sv ht idx c = fed_of sv ht idx c'.
Proof. exact uncommitted_invariant. Qed.
Print Assumptions C06_uncommitted_invariant.

(* unlocking data is never committed, by any hash type *)
Theorem C06_unlocking_data_never_committed : forall sv ht idx has_out j,
  committed sv ht idx has_out (F_script_sig j) = false /\ committed sv ht idx has_out (F_witness j) = false.
Proof. exact unlocking_never_committed. Qed.
Print Assumptions C06_unlocking_data_never_committed.

(* (3) an input whose spent output is unknown (unspents too short, or None at idx) is never valid, whatever the
   script checker does; and it is counted by bad_solution_count of a non-coinbase transaction *)
Theorem C06_missing_unspent_never_valid :
  forall (check : tx -> list (option txout) -> tx_context -> N -> outcome unit)
         (t : tx) (unspents : list (option txout)) (idx : nat) (flags : N),
  nth_error unspents idx = None \/ nth_error unspents idx = Some None ->
  is_solution_ok check t unspents idx flags = Ret false.
Proof. exact missing_never_valid. Qed.
Print Assumptions C06_missing_unspent_never_valid.

Theorem C06_missing_unspent_counted_bad :
  forall (check : tx -> list (option txout) -> tx_context -> N -> outcome unit)
         (t : tx) (unspents : list (option txout)) (idx : nat) (flags : N) (n : nat),
  tx_is_coinbase t = false -> (idx < length (tx_ins t))%nat ->
  nth_error unspents idx = None \/ nth_error unspents idx = Some None ->
  bad_solution_count check t unspents flags = Ret n -> (1 <= n)%nat.
Proof. exact missing_counted_bad. Qed.
Print Assumptions C06_missing_unspent_counted_bad.

(* the same with Tx.missing_unspent as the notion of "unknown": short list, None, or a coinbase input (which has no
   spent output at all, whatever is recorded for it) — the override of coins/bitcoin/Tx.py *)
Theorem C06_statement_missing_unspent :
  forall (check : tx -> list (option txout) -> tx_context -> N -> outcome unit)
         (t : tx) (unspents : list (option txout)) (idx : nat) (flags : N),
  missing_unspent t unspents idx = true -> is_solution_ok check t unspents idx flags = Ret false.
Proof. exact missing_unspent_never_valid. Qed.
Print Assumptions C06_statement_missing_unspent.

Example C06_example_coinbase_recorded_unspent : forall check u flags,
  missing_unspent coinbase_witness_tx [Some u] 0 = true
  /\ is_solution_ok check coinbase_witness_tx [Some u] 0 flags = Ret false.
Proof. exact coinbase_recorded_unspent_not_valid. Qed.

(* (4) statelessness — PARTIAL: in the model validation is a function of (transaction, unspents, idx, flags), so
   after any history of states the k-th verdict is the verdict a fresh validation of the k-th state gives.  That
   the implementation keeps no state between calls (per-call sighash_cache, no per-object cache) is NOT proved;
   it is tested by the history checks of harness/c06.py. *)
Theorem C06_revalidation_partial :
  forall (check : tx -> list (option txout) -> tx_context -> N -> outcome unit)
         (hist : list (tx * list (option txout))) (idx : nat) (flags : N) (k : nat) t unspents,
  nth_error hist k = Some (t, unspents) ->
  nth_error (validate_history check hist idx flags) k = Some (is_solution_ok check t unspents idx flags).
Proof. exact history_is_fresh. Qed.
Print Assumptions C06_revalidation_partial.

(* non-vacuity: a 2-input 2-output transaction meets the hypotheses of (1); under SIGHASH_SINGLE (legacy) and
   SINGLE|ANYONECANPAY (BIP143) changing the other input's scriptSig, witness, sequence and the other output leaves
   the hash input unchanged, under SIGHASH_ALL it does not; SINGLE with idx = 5 >= 2 outputs hashes nothing *)
Example C06_example_hypotheses :
  Forall (fun x => length (ti_hash x) = 32%nat) (tx_ins (sc_tx ex_ctx)) /\ (0 < length (tx_ins (sc_tx ex_ctx)))%nat
  /\ is_ret (fed_of SV_legacy 1 0 ex_ctx) = true /\ is_ret (fed_of SV_bip143 1 0 ex_ctx) = true
  /\ fed_of SV_legacy 3 5 ex_ctx = Ret Fed_none.
Proof. split; [exact (proj1 ex_wf)|]. split; [exact (proj1 (proj2 (proj2 ex_wf)))|]. exact ex_fed_all. Qed.

Example C06_example_single :
  fed_of SV_legacy 3 0 ex_ctx = fed_of SV_legacy 3 0 ex_ctx'
  /\ fed_of SV_bip143 131 0 ex_ctx = fed_of SV_bip143 131 0 ex_ctx'
  /\ fed_of SV_legacy 1 0 ex_ctx <> fed_of SV_legacy 1 0 ex_ctx'.
Proof. exact ex_single_unchanged. Qed.
