(* Props/C12.v — property C12: script integers and data pushes encode canonically and losslessly.
   Only statements; every proof is `exact <lemma>`. *)
From PV Require Import Base.Bytes Base.Outcome Gen.GenOpcodes Model.ScriptNum Model.Push Model.ScriptText
  Proofs.ScriptNumP Proofs.PushP Proofs.ScriptTextP.
Local Open Scope N_scope.

(* every integer encodes (the encoder loop never runs out of fuel) and decodes back to itself,
   with and without the minimality requirement *)
Theorem C12_int_roundtrip : forall (v : Z) (require_minimal : bool),
  exists bs, int_to_script_bytes v = Ret bs /\ int_from_script_bytes bs require_minimal = Ret v.
Proof. exact int_roundtrip. Qed.
Print Assumptions C12_int_roundtrip.

(* decoding with minimality required accepts exactly the encoder's image (hence the form is unique) *)
Theorem C12_int_minimal_iff : forall (s : bytes) (v : Z),
  int_from_script_bytes s true = Ret v <-> int_to_script_bytes v = Ret s.
Proof. exact int_minimal_iff. Qed.
Print Assumptions C12_int_minimal_iff.

(* every byte string below 2^32 bytes is pushed by the consensus-minimal (shortest) form *)
Theorem C12_push_shortest : forall d : bytes, N.of_nat (length d) < 2 ^ 32 ->
  btc_compile_push_data d = Ret (spec_push d).
Proof. exact push_is_spec. Qed.
Print Assumptions C12_push_shortest.

(* ... which the instruction decoder reads back as the same data, consuming exactly the push, with and
   without the minimal-push rule (m) *)
Theorem C12_push_decodes_and_passes_minimal_rule : forall d : bytes, N.of_nat (length d) < 2 ^ 32 ->
  exists s, btc_compile_push_data d = Ret s /\
  forall m : bool, exists o, hd_error s = Some (n2b o) /\ o < 256 /\
    btc_get_opcode s 0 m = Ret (o, Some d, length s, true).
Proof. exact push_roundtrip. Qed.
Print Assumptions C12_push_decodes_and_passes_minimal_rule.

(* every proper non-empty prefix of a push is reported as malformed (is_ok = false, no data) *)
Theorem C12_truncated_reported : forall (d s : bytes) (k : nat) (m : bool),
  N.of_nat (length d) < 2 ^ 32 -> btc_compile_push_data d = Ret s -> (0 < k < length s)%nat ->
  exists o pc, btc_get_opcode (firstn k s) 0 m = Ret (o, None, pc, false).
Proof. exact push_truncated. Qed.
Print Assumptions C12_truncated_reported.

(* compiling the disassembly of any script made of known opcodes (good_op: every opcode value that is not a
   sized/variable push and whose name maps back to it — a decidable predicate on the GENERATED opcode table) and
   minimal pushes reproduces the script byte for byte.  Token level: names and [hex] tokens; the string layer
   (split/join/upper/hexlify) is Python's and is tied by the direct checks only. *)
Theorem C12_compile_disassemble : forall items : list item, Forall item_ok items ->
  exists toks, disassemble (flat items) = Ret toks /\ compile toks = Ret (flat items).
Proof. exact text_roundtrip. Qed.
Print Assumptions C12_compile_disassemble.

(* non-vacuity of good_op: how many of the 256 opcode values qualify on the current table *)
Example C12_good_op_count : good_op_count = 109%nat.
Proof. vm_compute. reflexivity. Qed.

(* non-vacuity: a 256-byte push (the boundary that used to fail) meets the hypotheses *)
Example C12_boundary_256 :
  btc_get_opcode (match btc_compile_push_data (repeatb x61 256) with Ret s => s | _ => [] end) 0 true
  = Ret (77, Some (repeatb x61 256), 259%nat, true).
Proof. vm_compute. reflexivity. Qed.
