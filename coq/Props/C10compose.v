(* Props/C10compose.v — C10 composed with C11: the WIF text theorem of Props/C10.v (C10_wif_roundtrip) with the Base58Check
   pair instantiated by C11's finished model, its round-trip hypothesis discharged from C11's theorem.  Only statements;
   every proof is `exact <lemma of Proofs/ComposeCodecC10.v>`.

   C10's `text` type parameter is C11's `pystr` (list of code points): no conversion.
     c11_b2a_hashed H d = pycoin.encoding.b58.b2a_hashed_base58(d)   (C11's btc_b2a_hashed_base58 H; it never raises)
     c11_a2b_hashed H t = parseable_str.parse_b58_double_sha256(t)    (C11's btc_parse_b58_double_sha256 H)
   H is an arbitrary function (double SHA-256 in Bitcoin-like networks, groestl for GRS: any 32-byte hash); the only
   fact used is that it returns 32 bytes (four would do).  The strictness theorem needs nothing of H. *)
From PV Require Import Base.Bytes Base.Outcome Gen.GenWifPrefixes Gen.GenCurveC10 Model.Base58 Model.Wif
  Proofs.ComposeCodecB58 Proofs.ComposeCodecC10.
Local Open Scope Z_scope.

(* the premise of C10_wif_roundtrip, discharged *)
Theorem C10c_b58check_roundtrip : forall (H : bytes -> bytes), (forall x, (4 <= length (H x))%nat) ->
  forall d, c11_a2b_hashed H (c11_b2a_hashed H d) = Some d.
Proof. exact c11_hashed_roundtrip. Qed.
Print Assumptions C10c_b58check_roundtrip.

(* c11_b2a_hashed is C11's encoder, which never raises *)
Theorem C10c_b2a_hashed_is_c11 : forall (H : bytes -> bytes) (d : bytes),
  btc_b2a_hashed_base58 H d = Ret (c11_b2a_hashed H d) /\ ascii_str (c11_b2a_hashed H d).
Proof. exact c11_b2a_hashed_total. Qed.
Print Assumptions C10c_b2a_hashed_is_c11.

(* C10_wif_roundtrip with no codec hypothesis: every network of the regenerated table, every in-range exponent, both flags *)
Theorem C10c_wif_roundtrip : forall (H : bytes -> bytes), (forall x, length (H x) = 32%nat) ->
  forall (sym : String.string) (prefix : bytes) (se : Z) (compressed : bool),
  In (sym, prefix) wif_prefixes -> 1 <= se < k1_n ->
  exists w, key_wif pystr (c11_b2a_hashed H) prefix se compressed = Ret w /\
    parse_wif pystr (c11_a2b_hashed H) (Some prefix) k1_n w = Some (se, compressed).
Proof. exact compose_wif_table_roundtrip. Qed.
Print Assumptions C10c_wif_roundtrip.

(* ... any prefix and any group order up to 2^256 *)
Theorem C10c_wif_text_roundtrip : forall (H : bytes -> bytes), (forall x, length (H x) = 32%nat) ->
  forall (prefix : bytes) (order se : Z) (compressed : bool),
  1 <= se < order -> order <= 2 ^ 256 ->
  exists w, key_wif pystr (c11_b2a_hashed H) prefix se compressed = Ret w /\
    parse_wif pystr (c11_a2b_hashed H) (Some prefix) order w = Some (se, compressed).
Proof. exact compose_wif_text_roundtrip. Qed.
Print Assumptions C10c_wif_text_roundtrip.

(* strictness at text level (new with the composition; any function H): an accepted WIF string is exactly the string Key.wif
   prints for the exponent and flag it denotes — so the accepted spelling of a key is unique *)
Theorem C10c_wif_text_strict : forall (H : bytes -> bytes) (prefix : bytes) (order : Z) (w : pystr) (se : Z) (compressed : bool),
  parse_wif pystr (c11_a2b_hashed H) (Some prefix) order w = Some (se, compressed) ->
  1 <= se < order /\ key_wif pystr (c11_b2a_hashed H) prefix se compressed = Ret w.
Proof. exact compose_wif_text_strict. Qed.
Print Assumptions C10c_wif_text_strict.

(* non-vacuity: a 32-byte hash exists; under it Bitcoin's prefix 80 with exponent 1 prints a 52-character string that
   parses back *)
Example C10c_example :
  let H := fun _ : bytes => repeatb x00 32 in
  (forall x, length (H x) = 32%nat) /\
  exists w, key_wif pystr (c11_b2a_hashed H) [x80] 1 true = Ret w /\ length w = 52%nat /\
            parse_wif pystr (c11_a2b_hashed H) (Some [x80]) k1_n w = Some (1, true).
Proof. split; [reflexivity|]. eexists. split; [vm_compute; reflexivity|]. split; vm_compute; reflexivity. Qed.
