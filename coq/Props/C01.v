(* Props/C01.v — property C01: ECDSA — deterministic signatures verify for the signer and for nobody else;
   RFC 6979; verification iff; public-key recovery.   Only statements; every proof is `exact <lemma>`.

   The model (Model/Ecdsa.v, Model/Rfc6979.v) is stated over an ABSTRACT group:
     pt, add, neg, O, smul : Z -> pt -> pt, generator G, order n, coords : pt -> option (Z * Z)   (None = infinity),
     lift_x (= Generator.points_for_x), hmac (HMAC-SHA256 in pycoin), hlen (the digest size),
   and the theorems assume  laws : group_laws ..  (abelian group, Z-action, n*P = O, x(-P) = x(P)),
   n_prime : prime n  (premise M2 of DESIGN.md), G_nonzero : G <> O (for totality of signing) and, for recovery,
   lifts : lift_laws ..  (abscissae are below p; points_for_x returns the two points of a reduced abscissa, even
   ordinate first).  These are hypotheses about the curve, not about
   pycoin; Proofs/EcdsaInstP.v proves them by computation for four toy curves (Examples at the end).  For
   secp256k1/secp256r1: `prime n` (and `prime p`) is PROVED for the regenerated constants (C01_production_moduli_prime:
   kernel-checked Pocklington certificates, Proofs/Pocklington.v + CurvePrimes.v + CurvePrimesC01.v); the two records
   `laws` / `lifts` and G <> O are proved in Props/C01compose.v from C02's model of pycoin's arithmetic, where for the shipped
   secp256k1 / secp256r1 generators NO mathematical premise is left (associativity M4 and n*G = O are theorems too): see
   C01c_secp256k1_*_unconditional there.  `gen_k` (the nonce callback of sign_with_recid) is arbitrary except
   where RFC 6979 is named.  Python exceptions are values: Ret v / Raise e / OutOfFuel. *)
From Coq Require Import ZArith List Znumtheory.
From PV Require Import Base.Bytes Base.Outcome Gen.GenCurvesC01 Model.Ecdsa Model.Rfc6979 Model.EcdsaInst
  Spec.EcdsaSpec Spec.Rfc6979Spec Model.EcdsaHist Proofs.EcdsaHistP Proofs.EcdsaP Proofs.Rfc6979P Proofs.EcdsaInstP Proofs.C01P Proofs.CurvePrimesC01.
Import ListNotations.
Local Open Scope Z_scope.

Section C01.
  Variable pt : Type.
  Variable add : pt -> pt -> pt.
  Variable neg : pt -> pt.
  Variable O : pt.
  Variable smul : Z -> pt -> pt.
  Variable G : pt.
  Variable n : Z.
  Variable coords : pt -> option (Z * Z).
  Variable p : Z.                       (* the field prime self._p: recover compares r with it *)
  Variable lift_x : Z -> option (pt * pt).
  Variable gen_k : Z -> Z -> Z -> outcome Z.
  Variable hmac : bytes -> bytes -> bytes.
  Variable hlen : nat.

  Hypothesis laws : group_laws pt add neg O smul n coords.
  Hypothesis n_prime : prime n.
  Hypothesis lifts : lift_laws pt coords lift_x (fun x => 0 <= x < p).
  Hypothesis G_nonzero : G <> O.

  Local Notation verify := (Ecdsa.verify pt add smul G n coords).
  Local Notation sign_with_recid := (Ecdsa.sign_with_recid pt smul G n coords).
  Local Notation sign := (Ecdsa.sign pt smul G n coords).
  Local Notation sign_step := (Ecdsa.sign_step pt smul G n coords).
  Local Notation sign_loop := (Ecdsa.sign_loop pt smul G n coords).
  Local Notation recover := (Ecdsa.recover pt add smul G n p lift_x).

  (* 1. Whatever the nonce function, whatever the fuel of the k += 1 loop, for every d and z: a returned
        signature is in range and verifies under the public key d*G.  (z = 0 raises ValueError, so a
        returned signature implies z <> 0; no hypothesis on d is needed.) *)
  Theorem C01_sign_verifies : forall (fuel : nat) (d z r s recid : Z),
    sign_with_recid gen_k fuel d z = Ret (r, s, recid) ->
    1 <= r < n /\ 1 <= s < n /\ 0 <= recid < 4 /\ verify (Some (smul d G)) z r s = Ret true.
  Proof. exact (sign_verifies pt add neg O smul G n coords laws n_prime gen_k). Qed.

  (* Generator.sign is sign_with_recid without the recovery id *)
  Theorem C01_sign_is_sign_with_recid : forall (fuel : nat) (d z r s : Z),
    sign gen_k fuel d z = Ret (r, s) <-> exists recid, sign_with_recid gen_k fuel d z = Ret (r, s, recid).
  Proof. exact (sign_plain pt smul G n coords gen_k). Qed.

  (* 2. Verification iff: for every group element Q (the point at infinity included), every z, r, s:
        verify answers True exactly when z <> 0 and (r, s) is a valid ECDSA signature in the textbook sense
        (ranges, and x((z/s)G + (r/s)Q) mod n = r for an inverse w of s; the sum being infinity is "not valid") *)
  Theorem C01_verify_iff : forall (Q : pt) (z r s : Z),
    verify (Some Q) z r s = Ret true <-> z <> 0 /\ ecdsa_valid pt add smul G n coords Q z r s.
  Proof. exact (verify_iff pt add neg O smul G n coords laws n_prime). Qed.

  (* ... and it always answers (no exception, in particular none when the sum is the point at infinity) *)
  Theorem C01_verify_total : forall (Q : pt) (z r s : Z), exists b : bool, verify (Some Q) z r s = Ret b.
  Proof. exact (verify_total pt add smul G n coords n_prime). Qed.

  (* out-of-range r or s is rejected before anything else is looked at, even an off-curve key (None) *)
  Theorem C01_verify_rejects_out_of_range : forall (Qo : option pt) (z r s : Z),
    ~ (1 <= r < n /\ 1 <= s < n) -> verify Qo z r s = Ret false.
  Proof. exact (verify_rejects pt add smul G n coords). Qed.

  (* low-S symmetry (used by C05): (r, n - s) is judged exactly like (r, s), for all inputs *)
  Theorem C01_verify_low_s_symmetry : forall (Q : pt) (z r s : Z),
    verify (Some Q) z r (n - s) = verify (Some Q) z r s.
  Proof. exact (verify_low_s pt add neg O smul G n coords laws n_prime). Qed.

  (* 3. Recovery: every key returned verifies (full; r >= p is refused by the code since commit 28216b2) *)
  Theorem C01_recover_sound : forall (z r s : Z) (y_parity : option Z) (l : list pt) (Q : pt),
    z <> 0 -> recover z r s y_parity = Ret l -> In Q l -> verify (Some Q) z r s = Ret true.
  Proof. exact (recover_sound pt add neg O smul G n coords laws n_prime p lift_x lifts). Qed.

  (* out-of-range signatures, and abscissae that are not below the field prime, recover nothing *)
  Theorem C01_recover_rejects_out_of_range : forall (z r s : Z) (y_parity : option Z),
    ~ (1 <= r < n /\ 1 <= s < n /\ r < p) -> recover z r s y_parity = Ret [].
  Proof. exact (recover_empty pt add smul G n p lift_x). Qed.

  (* completeness: every key Q under which (r, s) verifies with a sum point of abscissa exactly r (not r + n)
     is returned, and alone when the parity of that point's ordinate is passed *)
  Theorem C01_recover_complete : forall (Q : pt) (z r s w y : Z),
    z <> 0 -> 1 <= r < n -> 1 <= s < n -> (s * w) mod n = 1 ->
    coords (add (smul (z * w) G) (smul (r * w) Q)) = Some (r, y) ->
    (exists l, recover z r s None = Ret l /\ In Q l) /\
    (forall yp, Z.odd yp = Z.odd y -> recover z r s (Some yp) = Ret [Q]).
  Proof. exact (recover_complete' pt add neg O smul G n coords laws n_prime p lift_x lifts). Qed.

  (* the signer's key is recovered whenever the nonce point's abscissa is below n (recid < 2), at the position
     selected by recid & 1 *)
  Theorem C01_recover_signer : forall (fuel : nat) (d z r s recid : Z),
    sign_with_recid gen_k fuel d z = Ret (r, s, recid) -> recid < 2 ->
    recover z r s (Some recid) = Ret [smul d G] /\
    exists l, recover z r s None = Ret l /\ In (smul d G) l.
  Proof. exact (recover_signer pt add neg O smul G n coords laws n_prime p lift_x lifts gen_k). Qed.

  (* 4. RFC 6979.  The model of rfc6979.deterministic_generate_k equals RFC 6979 section 3.2 (Spec/Rfc6979Spec.v)
        on the octet string of the hash, for EVERY order n > 0, key, hash value below 2^(8 hlen), fuel and
        EVERY function hmac (both sides run out of fuel together) *)
  Theorem C01_nonce_is_rfc6979 : forall (q : Z) (fuel : nat) (d z : Z),
    0 < q -> 0 <= d < q -> 0 <= z < 256 ^ Z.of_nat hlen ->
    deterministic_generate_k hmac hlen fuel q d z =
    match rfc6979_k hmac q fuel d (int_to_octets hlen z) with Some k => Ret k | None => OutOfFuel end.
  Proof. exact (fun q fuel d z Hq => model_is_spec hmac hlen q Hq fuel d z). Qed.

  (* ... and sign_with_recid with that nonce function produces the ECDSA signature made with the RFC 6979
     nonce k whenever k gives non-zero r and s:  r = x(kG) mod n,  s*k = z + r*d (mod n) *)
  Theorem C01_sign_is_rfc6979 : forall (kfuel : nat) (d z k x y : Z),
    0 <= d < n -> 0 < z < 256 ^ Z.of_nat hlen ->
    rfc6979_k hmac n kfuel d (int_to_octets hlen z) = Some k ->
    coords (smul k G) = Some (x, y) -> x mod n <> 0 -> (z + (x mod n) * d) mod n <> 0 ->
    forall fuel, exists s recid,
      sign_with_recid (deterministic_generate_k hmac hlen kfuel) (S fuel) d z = Ret (x mod n, s, recid) /\
      1 <= s < n /\ (s * k) mod n = (z + (x mod n) * d) mod n.
  Proof. exact (sign_is_rfc6979 pt add neg O smul G n coords hmac hlen laws n_prime). Qed.

  (* the inner loop of the nonce function never exhausts its own fuel once HMAC outputs have a fixed non-zero length *)
  Theorem C01_nonce_inner_loop_fuel : forall (q : Z), 0 < q ->
    (forall k m, length (hmac k m) = hlen) -> (0 < hlen)%nat ->
    forall k v, let osz := Z.to_nat ((qlen_of q + 7) / 8) in gen_t hmac (S osz) osz k v [] <> OutOfFuel.
  Proof. exact (fun q Hq Hh Hl => gen_t_fuel hmac hlen q Hq Hh Hl). Qed.

  (* a returned nonce lies in [1, n-1] (any order, key, hash, hmac) *)
  Theorem C01_nonce_in_range : forall (q : Z) (fuel : nat) (d z k : Z),
    deterministic_generate_k hmac hlen fuel q d z = Ret k -> 1 <= k < q.
  Proof. exact (fun q fuel d z k => gen_k_range hmac hlen fuel q d z k). Qed.

  (* 5. Totality of signing (code since commit de8ed07: k += 1; if k >= n: k = 1).
        (a) started at a nonce in [1, n-1] the retry loop never raises, for any fuel, key and hash *)
  Theorem C01_sign_loop_never_raises : forall (fuel : nat) (d z k : Z) (e : pyexn),
    1 <= k < n -> sign_loop fuel d z k <> Raise e.
  Proof. exact (fun fuel d z k e => sign_loop_never_raises pt add neg O smul G n coords laws n_prime G_nonzero d z fuel k e). Qed.

  (*    (b) hence sign_with_recid with the default (RFC 6979) nonce function never raises for a key in [0, n-1]
            and a non-zero hash below 2^(8 hlen): the outcome is a signature or non-termination (OutOfFuel) *)
  Theorem C01_sign_never_raises : forall (kfuel fuel : nat) (d z : Z) (e : pyexn),
    0 <= d < n -> 0 < z < 256 ^ Z.of_nat hlen ->
    sign_with_recid (deterministic_generate_k hmac hlen kfuel) fuel d z <> Raise e.
  Proof. exact (fun kfuel fuel d z e => sign_never_raises_default pt add neg O smul G n coords hmac hlen laws n_prime G_nonzero kfuel fuel d z e). Qed.

  (*    (c) the loop walks k, k+1, .., n-1, 1, 2, ..; it returns within n - 1 iterations PROVIDED some nonce j of
            [1, n-1] gives non-zero r and s (nonce_good: x(jG) mod n <> 0 and z + r*d <> 0 mod n).  That such a j
            exists is an assumption about the curve (true when fewer than n - 1 nonces are bad, i.e. always except
            on degenerate toy groups; checked exhaustively for two toy curves below); without one the loop cycles
            forever (OutOfFuel for every fuel), it does not raise *)
  Theorem C01_sign_loop_total : forall (fuel : nat) (d z k j : Z),
    1 <= j < n -> nonce_good pt smul G n coords d z j -> 1 <= k < n -> n - 1 <= Z.of_nat fuel ->
    exists sig, sign_loop fuel d z k = Ret sig.
  Proof. exact (fun fuel d z k j => sign_loop_total_n pt add neg O smul G n coords laws n_prime G_nonzero d z j fuel k). Qed.

  (*    (d) with the default nonce function: once the RFC 6979 loop has produced its nonce (rfc6979_k = Some k0; it
            terminates with probability 1 for a real HMAC, which no theorem can state for an arbitrary hmac) *)
  Theorem C01_sign_total : forall (kfuel fuel : nat) (d z k0 j : Z),
    0 <= d < n -> 0 < z < 256 ^ Z.of_nat hlen ->
    rfc6979_k hmac n kfuel d (int_to_octets hlen z) = Some k0 ->
    1 <= j < n -> nonce_good pt smul G n coords d z j -> n - 1 <= Z.of_nat fuel ->
    exists sig, sign_with_recid (deterministic_generate_k hmac hlen kfuel) fuel d z = Ret sig.
  Proof. exact (sign_total_default pt add neg O smul G n coords hmac hlen laws n_prime G_nonzero). Qed.
End C01.

(* injectivity of the nonce input: the HMAC message int2octets(x) || bits2octets(h1) of RFC 6979 steps d/f determines
   the key and the reduced hash bits2int(h1) mod q.  (Two hashes with the same reduced value share the message by
   design of RFC 6979.)  That distinct messages give unrelated nonces is a PRF property of HMAC: no theorem. *)
Theorem C01_nonce_input_injective : forall (q x1 : Z) (h1 : bytes) (x2 : Z) (h2 : bytes),
  0 < q -> 0 <= x1 < q -> 0 <= x2 < q ->
  int2octets q x1 ++ bits2octets q h1 = int2octets q x2 ++ bits2octets q h2 ->
  x1 = x2 /\ bits2int q h1 mod q = bits2int q h2 mod q.
Proof. exact nonce_message_injective. Qed.

(* the regenerated production constants: both orders have 256 bits (no shift of a 32-byte hash, 32-byte
   int2octets), lie below the field prime (so x_canon excludes nothing there), p = 3 mod 4 (points_for_x) *)
Theorem C01_production_curve_constants :
  qlen_of gen_secp256k1_n = 256 /\ qlen_of gen_secp256r1_n = 256 /\
  gen_secp256k1_n < gen_secp256k1_p /\ gen_secp256r1_n < gen_secp256r1_p /\
  gen_secp256k1_p mod 4 = 3 /\ gen_secp256r1_p mod 4 = 3 /\ gen_rfc6979_hash_size = 32%nat.
Proof. exact production_constants. Qed.

(* premise M2 (`n_prime`) of the theorems above, and M1, hold for the regenerated production constants: no longer assumed *)
Theorem C01_production_moduli_prime :
  prime gen_secp256k1_p /\ prime gen_secp256k1_n /\ prime gen_secp256r1_p /\ prime gen_secp256r1_n.
Proof. exact production_moduli_prime. Qed.

(* hence on secp256k1 the value that enters the nonce is z mod n *)
Theorem C01_secp256k1_reduced_hash : forall z, 0 <= z < 2 ^ 256 ->
  reduced_hash gen_rfc6979_hash_size gen_secp256k1_n z = z mod gen_secp256k1_n.
Proof. exact secp256k1_reduced_hash. Qed.

(* ---- regression: the two inputs on which the code before commits de8ed07 / 28216b2 failed ------------- *)
(* toy curve y^2 = x^3 + 3 over Z_7, G = (1,2), n = 13.  d = 2, z = 11, first nonce 12 = n - 1 gives s = 0: the retry
   used to reach k = 13 (infinity, TypeError); it now wraps to k = 1 and signs *)
Example C01_regression_sign_wraps : toy_sign_with_k toy13 5 2 11 12 = Ret (6, 5, 1).
Proof. vm_compute. reflexivity. Qed.

(* r = 8 >= p = 7 used to yield two keys that did not verify; now nothing is returned *)
Example C01_regression_recover_r_above_p : toy_recover toy13 1 8 1 None = Ret [].
Proof. vm_compute. reflexivity. Qed.

(* ---- non-vacuity: the hypotheses hold for four toy curves, and a concrete signature ---------------- *)
Example C01_hypotheses_satisfiable :
  forall c, In c [toy13; toy11; toy19; toy23] ->
    group_laws (EcdsaInst.pt c) (padd c) (pneg c) (pO c) (psmul c) (cn c) (pcoords c) /\
    lift_laws (EcdsaInst.pt c) (pcoords c) (plift_x c) (fun x => 0 <= x < cp c) /\ prime (cn c) /\ pG c <> pO c.
Proof. exact toy_curves_satisfy_hypotheses. Qed.

(* ... and on two of them every key and every hash residue has a good nonce: C01_sign_total applies to all (d, z) there *)
Example C01_toy_good_nonce_exists :
  forall c, In c [toy13; toy11] -> forall d z, 1 <= d < cn c -> 0 <= z < cn c ->
    exists j, 1 <= j < cn c /\ nonce_good (EcdsaInst.pt c) (psmul c) (pG c) (cn c) (pcoords c) d z j.
Proof. exact toy_good_nonces. Qed.

Example C01_toy_signature :
  toy_sign_with_k toy13 5 3 6 4 = Ret (4, 11, 1) /\
  toy_verify toy13 (Some (psmul toy13 3 (pG toy13))) 6 4 11 = Ret true /\
  toy_verify toy13 (Some (psmul toy13 4 (pG toy13))) 6 4 11 = Ret false.
Proof. vm_compute. repeat split; reflexivity. Qed.

Print Assumptions C01_sign_verifies.
Print Assumptions C01_sign_is_sign_with_recid.
Print Assumptions C01_verify_iff.
Print Assumptions C01_verify_total.
Print Assumptions C01_verify_rejects_out_of_range.
Print Assumptions C01_verify_low_s_symmetry.
Print Assumptions C01_recover_sound.
Print Assumptions C01_recover_rejects_out_of_range.
Print Assumptions C01_recover_complete.
Print Assumptions C01_recover_signer.
Print Assumptions C01_nonce_is_rfc6979.
Print Assumptions C01_sign_is_rfc6979.
Print Assumptions C01_nonce_inner_loop_fuel.
Print Assumptions C01_nonce_in_range.
Print Assumptions C01_sign_loop_never_raises.
Print Assumptions C01_sign_never_raises.
Print Assumptions C01_sign_loop_total.
Print Assumptions C01_sign_total.
Print Assumptions C01_nonce_input_injective.
Print Assumptions C01_production_curve_constants.
Print Assumptions C01_production_moduli_prime.
Print Assumptions C01_secp256k1_reduced_hash.
Print Assumptions C01_regression_sign_wraps.
Print Assumptions C01_regression_recover_r_above_p.
Print Assumptions C01_hypotheses_satisfiable.
Print Assumptions C01_toy_good_nonce_exists.

(* ---- histories of calls (round c: module-level / object-level state) --------------------------------------
   The code in /repo keeps no state between calls: every model function above (deterministic_generate_k, verify,
   sign_with_recid, recover) is a function of its arguments, and the model of a history of calls is the list of their
   values (run_stateless).  So every theorem above holds after ANY history, in any order of curves / generators /
   hash functions; the tie to the implementation is the correspondence run and the `history` direct checks, which
   execute call sequences (incl. arguments colliding under Python's hash(), the same call under different
   configurations in both orders, fresh objects) in one process and compare every result with the stateless model /
   an independent reference. *)
Theorem C01_history_independence : forall (A B : Type) (f : A -> B) (h1 h2 : list A) (c : A) (d : B),
  last (run_stateless A B f (h1 ++ [c])) d = last (run_stateless A B f (h2 ++ [c])) d.
Proof. exact stateless_history_independent. Qed.

(* What a memoising implementation must satisfy: a memo `cache[key(args)]` is transparent on EVERY history as soon as
   the key determines the result ... *)
Theorem C01_memo_transparent : forall (A B K : Type) (f : A -> B) (key : A -> K) (key_eqb : K -> K -> bool),
  (forall a b, key_eqb a b = true <-> a = b) -> (forall a b, key a = key b -> f a = f b) ->
  forall h, memo_run A B K f key key_eqb [] h = run_stateless A B f h.
Proof. exact memo_transparent. Qed.

(* ... and any two arguments with the same key and different results give a history on which it is wrong *)
Theorem C01_memo_collision_visible : forall (A B K : Type) (f : A -> B) (key : A -> K) (key_eqb : K -> K -> bool),
  (forall a b, key_eqb a b = true <-> a = b) ->
  forall a b, key a = key b -> f a <> f b -> memo_run A B K f key key_eqb [] [a; b] <> run_stateless A B f [a; b].
Proof. exact memo_collision_visible. Qed.

(* CPython's int hash (residue modulo 2^61 - 1) is such a colliding key for every order above 2^62: two hash values
   below n with the same Python hash and different residues modulo n (hence, by C01_nonce_input_injective, different
   HMAC inputs of the nonce) *)
Theorem C01_python_hash_collides : forall n : Z, 2 ^ 62 < n ->
  exists z1 z2 : Z, 0 < z1 < n /\ 0 < z2 < n /\ z1 <> z2 /\ py_int_hash z1 = py_int_hash z2 /\ z1 mod n <> z2 mod n.
Proof. exact py_hash_collision. Qed.

Print Assumptions C01_history_independence.
Print Assumptions C01_memo_transparent.
Print Assumptions C01_memo_collision_visible.
Print Assumptions C01_python_hash_collides.
