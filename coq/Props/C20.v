(* Props/C20.v — property C20: the context-free transaction check accepts exactly the well-formed
   transactions.  Only statements; every proof is `exact <lemma>` (Proofs/TxCheckP.v).
   Model: Model/TxCheck.v (Tx.check and its helpers; MAX_MONEY / MAX_TX_SIZE are parameters, so every
   theorem holds for every coin; the per-coin values come from the generated coin_table).
   Spec: Spec/TxCheckSpec.v (`defect` = the disjunction of the seven defects the property lists).
   `ids` = identity tags of the objects in txs_in (Model/TxCheck.v explains why); ids_consistent = equal
   tag implies equal field values, true of any real list of objects. *)
From PV Require Import Base.Bytes Base.Outcome Gen.GenTxConsts Model.TxWire Model.TxCheck Model.TxObject Proofs.TxObjectP
  Spec.TxWireSpec Spec.TxCheckSpec Proofs.TxWireP Proofs.TxCheckP.
Local Open Scope Z_scope.

(* every listed defect => ValidationFailureError (no side condition: whatever else is wrong with the
   transaction, even if it cannot be serialised at all, and for any identity tagging) *)
Theorem C20_rejects : forall (max_money max_tx_size : Z) (ids : list N) (t : tx),
  defect max_money t -> check max_money max_tx_size ids t = Raise E_VALIDATION.
Proof. exact check_rejects. Qed.
Print Assumptions C20_rejects.

(* a witness-stripped serialisation above the limit => ValidationFailureError
   (the code measures the total size; stripped <= total is the next theorem) *)
Theorem C20_rejects_oversize : forall (max_money max_tx_size : Z) (ids : list N) (t : tx) (b b' : bytes),
  stream_tx false true t = Ret b -> stream_tx false false t = Ret b' ->
  Z.of_nat (length b') > max_tx_size -> check max_money max_tx_size ids t = Raise E_VALIDATION.
Proof. exact check_rejects_oversize. Qed.
Print Assumptions C20_rejects_oversize.

Theorem C20_stripped_le_total : forall (t : tx) (b b' : bytes),
  stream_tx false true t = Ret b -> stream_tx false false t = Ret b' -> (length b' <= length b)%nat.
Proof. exact stripped_le_total. Qed.
Print Assumptions C20_stripped_le_total.

(* none of the defects and total size within the limit => the check returns *)
Theorem C20_accepts : forall (max_money max_tx_size : Z) (ids : list N) (t : tx) (b : bytes),
  ids_consistent ids t -> ~ defect max_money t -> stream_tx false true t = Ret b ->
  Z.of_nat (length b) <= max_tx_size -> check max_money max_tx_size ids t = Ret tt.
Proof. exact check_accepts. Qed.
Print Assumptions C20_accepts.

(* both directions at once, for a transaction that serialises *)
Theorem C20_check_iff : forall (max_money max_tx_size : Z) (ids : list N) (t : tx) (b : bytes),
  ids_consistent ids t -> stream_tx false true t = Ret b ->
  (check max_money max_tx_size ids t = Ret tt <-> ~ defect max_money t /\ Z.of_nat (length b) <= max_tx_size) /\
  (check max_money max_tx_size ids t = Ret tt \/ check max_money max_tx_size ids t = Raise E_VALIDATION).
Proof. exact check_iff. Qed.
Print Assumptions C20_check_iff.

(* any other exception is the serialiser's (a field that does not fit its wire width), raised by the size test *)
Theorem C20_only_other_exception : forall (max_money max_tx_size : Z) (ids : list N) (t : tx) (e : pyexn),
  check max_money max_tx_size ids t = Raise e -> e <> E_VALIDATION -> stream_tx false true t = Raise e.
Proof. exact check_other_exception. Qed.
Print Assumptions C20_only_other_exception.

(* the duplicate pre-check by object identity never changes the verdict *)
Theorem C20_identity_precheck_redundant : forall (max_money max_tx_size : Z) (ids ids' : list N) (t : tx),
  ids_consistent ids t -> ids_consistent ids' t ->
  check max_money max_tx_size ids t = check max_money max_tx_size ids' t.
Proof. exact check_ids_irrelevant. Qed.
Print Assumptions C20_identity_precheck_redundant.

(* coinbase detection is the null outpoint (32 zero bytes, index 0xffffffff) in a one-input transaction *)
Theorem C20_is_coinbase_iff : forall t : tx, tx_is_coinbase t = true <-> coinbase_tx t.
Proof. exact tx_is_coinbase_iff. Qed.
Print Assumptions C20_is_coinbase_iff.

(* a coinbase transaction is never counted as having unsigned inputs, whatever script validation says *)
Theorem C20_coinbase_not_counted : forall (solution_ok : nat -> bool) (t : tx),
  coinbase_tx t -> bad_solution_count solution_ok t = 0%nat.
Proof. exact coinbase_not_counted. Qed.
Print Assumptions C20_coinbase_not_counted.

(* constants regenerated from /repo: null outpoint, coinbase script bounds 2..100, MAX_MONEY = 21,000,000 coins
   (Groestlcoin 105,000,000) of 10^8 units, MAX_TX_SIZE = 1,000,000 for every Tx class; and the frame condition:
   the source scan of Tx.check, its helpers and is_coinbase found no attribute/subscript store, delete or
   mutating call (the model is a pure function; the before/after comparison runs on the implementation) *)
Theorem C20_constants_and_frame : check_table_facts.
Proof. exact check_facts. Qed.
Print Assumptions C20_constants_and_frame.

(* ---- histories of one Tx object (Model/TxObject.v): check, mutate (grow or trim a script, append or pop outputs
   and inputs, change values ...), check again: the verdict is about the transaction as it is NOW *)
Theorem C20_history_rejects : forall (H : bytes -> bytes) (max_money max_tx_size : Z) (ops : list op) (ob : txobj),
  defect max_money (ob_tx (state_after ops ob)) ->
  last (run H (ops ++ [Obs (OCheck max_money max_tx_size)]) ob) (Raise E_OTHER) = Raise E_VALIDATION.
Proof. exact history_check_rejects. Qed.
Print Assumptions C20_history_rejects.

Theorem C20_history_accepts : forall (H : bytes -> bytes) (max_money max_tx_size : Z) (ops : list op) (ob : txobj) (b : bytes),
  let t := ob_tx (state_after ops ob) in
  ~ defect max_money t -> stream_tx false true t = Ret b -> Z.of_nat (length b) <= max_tx_size ->
  last (run H (ops ++ [Obs (OCheck max_money max_tx_size)]) ob) (Raise E_OTHER) = Ret RNone.
Proof. exact history_check_accepts. Qed.
Print Assumptions C20_history_accepts.

(* earlier checks (or any other observation) in the history do not matter *)
Theorem C20_history_independent : forall (H : bytes -> bytes) (ops1 ops2 : list op) (o : obs) (ob : txobj),
  filter is_mut ops1 = filter is_mut ops2 ->
  last (run H (ops1 ++ [Obs o]) ob) (Raise E_OTHER) = last (run H (ops2 ++ [Obs o]) ob) (Raise E_OTHER).
Proof. exact history_independent. Qed.
Print Assumptions C20_history_independent.

(* tie: the generated scan finds no store into self / module state / caching decorator in any observer method *)
Theorem C20_observers_are_stateless : object_table_facts.
Proof. exact object_facts. Qed.
Print Assumptions C20_observers_are_stateless.

(* non-vacuity: a coinbase with a 2-byte script paying exactly MAX_MONEY is accepted, 1 satoshi more is rejected *)
Definition ex_cb (v : Z) : tx := mk_tx 1 [mk_txin (repeat x00 32) 4294967295 [x51; x51] 0 []] [mk_txout v []] 0.
Example C20_example :
  check_coin coin_BTC [0%N] (ex_cb 2100000000000000) = Ret tt /\
  check_coin coin_BTC [0%N] (ex_cb 2100000000000001) = Raise E_VALIDATION /\
  check_coin coin_GRS [0%N] (ex_cb 2100000000000001) = Ret tt.
Proof. vm_compute. repeat split. Qed.

(* a history in the family of the size-memoisation defect, with MAX_TX_SIZE = 69: accepted at 61 bytes, the input
   script grown by 9 bytes (70 bytes): rejected; trimmed back: accepted again *)
Example C20_example_history :
  let ob := mk_obj (mk_tx 1 [mk_txin (repeatb x11 32) 0 [] 0 []] [mk_txout 5 [x51]] 0) [] in
  run (fun b => b) [Obs (OCheck 100 69); Mut (MAssignInScript 0 (repeatb x00 9)); Obs (OCheck 100 69);
                    Mut (MAssignInScript 0 []); Obs (OCheck 100 69)] ob
  = [Ret RNone; Ret RNone; Raise E_VALIDATION; Ret RNone; Ret RNone].
Proof. vm_compute. reflexivity. Qed.
