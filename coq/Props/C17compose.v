(* Props/C17compose.v — composition of C17 (signed text messages over an abstract prime-order group with points_for_x
   laws) with C02 (pycoin's curve arithmetic is the group law).  Only statements; every proof is `exact <lemma>`.

   Props/C17.v assumes nine facts about the group (n > 1, inverse mod n, smul on <G> is a module action, G has order
   exactly n, infinity iff n | a, abscissae below p, p <= 2n, points_for_x complete, coordinates determine the point).
   Here the group is the instance of Proofs/ComposeEcInst.v — C02's model functions Curve.add / Curve.multiply /
   Generator.points_for_x on the carrier E[n] (see Props/C01compose.v), `inv_n` = Curve.inverse_mod(., n) — and all
   nine are PROVED (Proofs/ComposeEcC17.v).  What is left:
     mathematics about the curve:   M1 c (p prime), M4 c (associativity), n*G = O, prime n (M2)
     decidable side conditions:     ec_sideb g (G on the curve, reduced, finite; p = 3 mod 4; n odd; n <= 2^bit_count)
                                    msg_sideb g (p <= 2n: two recovery-id bits suffice;  p <= 2^256: coordinates fit 32 bytes)
   both booleans decided by vm_compute for secp256k1 on Gen/GenCurves.v and for the toy generator (where the
   mathematical premises are decided too: no hypothesis left).  Totality (C17c_verify_total) needs NO mathematical premise.
   For the SHIPPED secp256k1 generator all four mathematical premises are now THEOREMS (C17c_secp256k1_premises_proved): M1 and
   M2 by kernel-checked Pocklington certificates (Proofs/CurvePrimesEc.v), M4 by Proofs/EcAssoc.v (associativity of
   chord-and-tangent addition on every non-singular curve over F_p, p odd prime), n*G = O by a checked double-and-add certificate
   (Proofs/ShippedOrder.v).  The theorems `C17c_secp256k1_*_unconditional` have NO hypothesis.  For an arbitrary generator M4
   follows from M1, ec_sideb and the decidable non-singularity (Props/C01compose.v C01c_M4_from_nonsingular).  The general
   section Secp256k1 (M1, M4, n*G = O, M2 as hypotheses) is kept.
   As in Props/C01compose.v the premise "cofactor 1" is needed only to identify elift with points_for_x on abscissae
   whose points lie outside E[n] (C01c_cofactor1); msg_sideb's p <= 2n fails for bls12_381_g1, which C17 does not use. *)
From Coq Require Import ZArith List Znumtheory.
From PV Require Import Base.Bytes Base.Outcome Gen.GenCurves Model.Curve Model.MsgSign
  Spec.Weierstrass Proofs.CurveP Proofs.ComposeEcInst Proofs.ComposeEcC01 Proofs.ComposeEcC17 Proofs.ComposeEcShipped Props.C17.
Local Open Scope Z_scope.

Section C17compose.
  Variable g : gen.
  Local Notation c := (gc g).
  Local Notation n := (cn (gc g)).
  Local Notation p := (cp (gc g)).
  Variable gen_k : Z -> Z -> Z -> Z.
  Variable dsha256 : bytes -> bytes.
  Variable hash160 : bytes -> bytes.

  Local Notation G := (eG g).
  Local Notation pair_for := (pair_for_message_hash (ept c) (eadd c) (esmul c) G n p ecoords (elift g) (einv g)).
  Local Notation verify := (verify_message (ept c) (eadd c) (esmul c) G n p ecoords (elift g) (einv g) dsha256 hash160).
  Local Notation sign_hash := (signature_for_message_hash (ept c) (esmul c) G n ecoords (einv g) gen_k).
  Local Notation sign_msg := (sign_message (ept c) (esmul c) G n ecoords (einv g) gen_k dsha256).

  (* ---- totality: only "coordinates fit 32 bytes" ---- *)
  Theorem C17c_verify_total : p <= 2 ^ 256 ->
    forall (key : keyref) (text magic : bytes) (msg_hash : option Z),
    exists b : bool, verify key text magic None msg_hash = Ret b.
  Proof. exact (fun p_fits => C17_verify_total (ept c) (eadd c) (esmul c) G n p ecoords (elift g) (einv g) dsha256 hash160
                  (fun _ => True) I (fun _ _ _ _ => I) (fun _ _ _ => I) (fun _ _ _ _ _ => conj I I)
                  (fun P x y _ E => ecoords_range c P x y E) p_fits). Qed.

  Hypothesis HM1 : M1 c.
  Hypothesis HM4 : M4 c.
  Hypothesis HnG : order_kills c (gG g).
  Hypothesis HM2 : prime n.
  Hypothesis Hside : ec_sideb g = true.    (* decidable *)
  Hypothesis Hmsg : msg_sideb g = true.    (* decidable *)

  (* the nine premises of Props/C17.v, for C02's arithmetic *)
  Theorem C17c_group_premises :
    1 < n /\
    (forall a, a mod n <> 0 -> (a * einv g a) mod n = 1) /\
    (forall a b, esmul c a (esmul c b G) = esmul c (a * b) G) /\
    (forall a b, eadd c (esmul c a G) (esmul c b G) = esmul c (a + b) G) /\
    (forall a b, esmul c a G = esmul c b G <-> a mod n = b mod n) /\
    (forall a, ecoords (esmul c a G) = None <-> a mod n = 0) /\
    (forall a x y, ecoords (esmul c a G) = Some (x, y) -> 0 <= x < p) /\
    p <= 2 * n /\
    (forall a x y, ecoords (esmul c a G) = Some (x, y) ->
       exists P0 P1, elift g x = Some (P0, P1) /\ (if Z.land y 1 =? 0 then P0 else P1) = esmul c a G) /\
    (forall a b, ecoords (esmul c a G) = ecoords (esmul c b G) -> esmul c a G = esmul c b G).
  Proof. exact (conj (m_n_gt1 g HM2) (conj (m_inv_ok g HM2) (conj (m_smulG_smul g HM1 HM4 HM2 Hside)
           (conj (m_smulG_add g HM1 HM4 HM2 Hside) (conj (m_smulG_eq g HM1 HM4 HnG HM2 Hside)
           (conj (m_smulG_inf g HM1 HM4 HnG HM2 Hside) (conj (m_coordsG_range g)
           (conj (proj1 (msg_side_facts g Hmsg)) (conj (m_pfx_complete g HM1 HM4 Hside) (m_coordsG_inj g)))))))))). Qed.

  (* the model's Generator.inverse is C02's inverse_mod(a, n), and G is the generator's point *)
  Theorem C17c_inverse_and_G_are_C02 :
    (forall a, MsgSign.inverse n (einv g) a = Curve.inverse_mod a n) /\ eval G = gG g.
  Proof. exact (conj (einv_run g HM2) (c_G_val g HM1 HnG Hside)). Qed.

  Theorem C17c_sign_verifies_and_recovers : forall (fuel : nat) (d z : Z) (cmp : bool) (text magic : bytes),
    d mod n <> 0 -> sign_hash fuel d z cmp = Ret text ->
    pair_for text z = Ret (esmul c d G, cmp) /\
    exists x y, ecoords (esmul c d G) = Some (x, y) /\
      verify (KPair x y) text magic None (Some z) = Ret true /\
      forall sec, public_pair_to_sec x y cmp = Ret sec ->
        verify (KHash (Some (hash160 sec))) text magic None (Some z) = Ret true /\
        forall k, refers_to_key k = true ->
          verify (KAddr k (Some (hash160 sec))) text magic None (Some z) = Ret true.
  Proof. exact (C17_sign_verifies_and_recovers (ept c) (eadd c) (esmul c) G n p ecoords (elift g) (einv g) gen_k dsha256 hash160
           (m_n_gt1 g HM2) (m_inv_ok g HM2) (m_smulG_smul g HM1 HM4 HM2 Hside) (m_smulG_add g HM1 HM4 HM2 Hside)
           (m_smulG_eq g HM1 HM4 HnG HM2 Hside) (m_smulG_inf g HM1 HM4 HnG HM2 Hside) (m_coordsG_range g)
           (proj1 (msg_side_facts g Hmsg)) (m_pfx_complete g HM1 HM4 Hside)). Qed.

  Theorem C17c_sign_message_verifies_and_recovers : forall (fuel : nat) (magic : bytes) (d : Z) (cmp : bool) (m text : bytes),
    d mod n <> 0 -> sign_msg fuel magic d cmp m = Ret text ->
    exists z, hash_for_signing dsha256 magic m = Ret z /\ pair_for text z = Ret (esmul c d G, cmp) /\
    exists x y, ecoords (esmul c d G) = Some (x, y) /\
      verify (KPair x y) text magic (Some m) None = Ret true /\
      forall sec, public_pair_to_sec x y cmp = Ret sec ->
        verify (KHash (Some (hash160 sec))) text magic (Some m) None = Ret true /\
        forall k, refers_to_key k = true ->
          verify (KAddr k (Some (hash160 sec))) text magic (Some m) None = Ret true.
  Proof. exact (C17_sign_message_verifies_and_recovers (ept c) (eadd c) (esmul c) G n p ecoords (elift g) (einv g) gen_k dsha256 hash160
           (m_n_gt1 g HM2) (m_inv_ok g HM2) (m_smulG_smul g HM1 HM4 HM2 Hside) (m_smulG_add g HM1 HM4 HM2 Hside)
           (m_smulG_eq g HM1 HM4 HnG HM2 Hside) (m_smulG_inf g HM1 HM4 HnG HM2 Hside) (m_coordsG_range g)
           (proj1 (msg_side_facts g Hmsg)) (m_pfx_complete g HM1 HM4 Hside)). Qed.

  Theorem C17c_other_key_fails : forall (fuel : nat) (magic : bytes) (d : Z) (cmp : bool) (m text : bytes) (key : keyref),
    d mod n <> 0 -> sign_msg fuel magic d cmp m = Ret text ->
    verify key text magic (Some m) None = Ret true ->
    exists x y, ecoords (esmul c d G) = Some (x, y) /\
      match key with
      | KPair x' y' => x' = x /\ y' = y
      | KHash h => exists sec, public_pair_to_sec x y cmp = Ret sec /\ h = Some (hash160 sec)
      | KAddr k h => refers_to_key k = true /\ exists sec, public_pair_to_sec x y cmp = Ret sec /\ h = Some (hash160 sec)
      | KUnparseable => False
      end.
  Proof. exact (C17_other_key_fails (ept c) (eadd c) (esmul c) G n p ecoords (elift g) (einv g) gen_k dsha256 hash160
           (m_n_gt1 g HM2) (m_inv_ok g HM2) (m_smulG_smul g HM1 HM4 HM2 Hside) (m_smulG_add g HM1 HM4 HM2 Hside)
           (m_smulG_eq g HM1 HM4 HnG HM2 Hside) (m_smulG_inf g HM1 HM4 HnG HM2 Hside) (m_coordsG_range g)
           (proj1 (msg_side_facts g Hmsg)) (m_pfx_complete g HM1 HM4 Hside)). Qed.

  Theorem C17c_other_hash_fails : forall (fuel : nat) (d z : Z) (cmp : bool) (text magic : bytes) (x y z' : Z),
    d mod n <> 0 -> sign_hash fuel d z cmp = Ret text -> ecoords (esmul c d G) = Some (x, y) ->
    (verify (KPair x y) text magic None (Some z') = Ret true <-> z' mod n = z mod n).
  Proof. exact (C17_other_hash_fails (ept c) (eadd c) (esmul c) G n p ecoords (elift g) (einv g) gen_k dsha256 hash160
           (m_n_gt1 g HM2) (m_inv_ok g HM2) (m_smulG_smul g HM1 HM4 HM2 Hside) (m_smulG_add g HM1 HM4 HM2 Hside)
           (m_smulG_eq g HM1 HM4 HnG HM2 Hside) (m_smulG_inf g HM1 HM4 HnG HM2 Hside) (m_coordsG_range g)
           (proj1 (msg_side_facts g Hmsg)) (m_pfx_complete g HM1 HM4 Hside) (m_coordsG_inj g)). Qed.
End C17compose.
Print Assumptions C17c_verify_total.
Print Assumptions C17c_group_premises.
Print Assumptions C17c_inverse_and_G_are_C02.
Print Assumptions C17c_sign_verifies_and_recovers.
Print Assumptions C17c_sign_message_verifies_and_recovers.
Print Assumptions C17c_other_key_fails.
Print Assumptions C17c_other_hash_fails.

(* ---- secp256k1 as shipped, any blinding factor: hypotheses exactly M1, M4, n*G = O, M2 (general form; all proved: below) ---- *)
Theorem C17c_secp256k1_side_conditions : forall blind : Z,
  ec_sideb (secp256k1_gen blind) = true /\ msg_sideb (secp256k1_gen blind) = true /\
  secp256k1_gen blind = shipped_gen (secp256k1_params, secp256k1_bits) blind.
Proof. exact (fun blind => conj (secp256k1_side blind) (conj (secp256k1_msg_side blind) (secp256k1_gen_is_shipped blind))). Qed.
Print Assumptions C17c_secp256k1_side_conditions.

Section Secp256k1.
  Variable blind : Z.
  Variable gen_k : Z -> Z -> Z -> Z.
  Variable dsha256 : bytes -> bytes.
  Variable hash160 : bytes -> bytes.
  Local Notation g := (secp256k1_gen blind).
  Local Notation c := secp256k1_curve.
  Local Notation n := secp256k1_n.
  Local Notation p := secp256k1_p.
  Local Notation G := (eG g).
  Local Notation pair_for := (pair_for_message_hash (ept c) (eadd c) (esmul c) G n p ecoords (elift g) (einv g)).
  Local Notation verify := (verify_message (ept c) (eadd c) (esmul c) G n p ecoords (elift g) (einv g) dsha256 hash160).
  Local Notation sign_hash := (signature_for_message_hash (ept c) (esmul c) G n ecoords (einv g) gen_k).
  Local Notation sign_msg := (sign_message (ept c) (esmul c) G n ecoords (einv g) gen_k dsha256).

  (* no hypothesis at all *)
  Theorem C17c_secp256k1_verify_total : forall (key : keyref) (text magic : bytes) (msg_hash : option Z),
    exists b : bool, verify key text magic None msg_hash = Ret b.
  Proof. exact (C17c_verify_total g dsha256 hash160 (proj2 (msg_side_facts g (secp256k1_msg_side blind)))). Qed.

  Hypothesis HM1 : prime secp256k1_p.                                    (* M1 *)
  Hypothesis HM4 : M4 secp256k1_curve.                                   (* M4 *)
  Hypothesis HnG : kP secp256k1_curve secp256k1_n secp256k1_G = None.    (* n*G = O *)
  Hypothesis HM2 : prime secp256k1_n.                                    (* M2 *)

  Theorem C17c_secp256k1_sign_verifies_and_recovers : forall (fuel : nat) (d z : Z) (cmp : bool) (text magic : bytes),
    d mod n <> 0 -> sign_hash fuel d z cmp = Ret text ->
    pair_for text z = Ret (esmul c d G, cmp) /\
    exists x y, ecoords (esmul c d G) = Some (x, y) /\
      verify (KPair x y) text magic None (Some z) = Ret true /\
      forall sec, public_pair_to_sec x y cmp = Ret sec ->
        verify (KHash (Some (hash160 sec))) text magic None (Some z) = Ret true /\
        forall k, refers_to_key k = true ->
          verify (KAddr k (Some (hash160 sec))) text magic None (Some z) = Ret true.
  Proof. exact (C17c_sign_verifies_and_recovers g gen_k dsha256 hash160 HM1 HM4 HnG HM2
                  (secp256k1_side blind) (secp256k1_msg_side blind)). Qed.

  Theorem C17c_secp256k1_other_key_fails : forall (fuel : nat) (magic : bytes) (d : Z) (cmp : bool) (m text : bytes) (key : keyref),
    d mod n <> 0 -> sign_msg fuel magic d cmp m = Ret text ->
    verify key text magic (Some m) None = Ret true ->
    exists x y, ecoords (esmul c d G) = Some (x, y) /\
      match key with
      | KPair x' y' => x' = x /\ y' = y
      | KHash h => exists sec, public_pair_to_sec x y cmp = Ret sec /\ h = Some (hash160 sec)
      | KAddr k h => refers_to_key k = true /\ exists sec, public_pair_to_sec x y cmp = Ret sec /\ h = Some (hash160 sec)
      | KUnparseable => False
      end.
  Proof. exact (C17c_other_key_fails g gen_k dsha256 hash160 HM1 HM4 HnG HM2
                  (secp256k1_side blind) (secp256k1_msg_side blind)). Qed.

  Theorem C17c_secp256k1_inverse_and_G_are_C02 :
    (forall a, MsgSign.inverse n (einv g) a = Curve.inverse_mod a n) /\ eval G = secp256k1_G.
  Proof. exact (C17c_inverse_and_G_are_C02 g HM1 HnG HM2 (secp256k1_side blind)). Qed.
End Secp256k1.
Print Assumptions C17c_secp256k1_verify_total.
Print Assumptions C17c_secp256k1_sign_verifies_and_recovers.
Print Assumptions C17c_secp256k1_other_key_fails.
Print Assumptions C17c_secp256k1_inverse_and_G_are_C02.

(* ---- secp256k1 as shipped, any blinding factor, with M1, M2, M4 and n*G = O PROVED (Proofs/CurvePrimesEc.v: kernel-checked
        Pocklington certificates; Proofs/EcAssoc.v: associativity; Proofs/ShippedOrder.v: checked double-and-add certificate):
        NO hypothesis is left (gen_k, dsha256, hash160 are arbitrary functions, not assumptions) ------------------------------ *)
Theorem C17c_secp256k1_premises_proved :
  prime secp256k1_p /\ prime secp256k1_n /\ M4 secp256k1_curve /\ kP secp256k1_curve secp256k1_n secp256k1_G = None.
Proof. exact (conj secp256k1_M1 (conj secp256k1_M2 (conj secp256k1_M4 secp256k1_nG_proved))). Qed.
Print Assumptions C17c_secp256k1_premises_proved.

Section Secp256k1_proved.
  Variable blind : Z.
  Variable gen_k : Z -> Z -> Z -> Z.
  Variable dsha256 : bytes -> bytes.
  Variable hash160 : bytes -> bytes.
  Local Notation g := (secp256k1_gen blind).
  Local Notation c := secp256k1_curve.
  Local Notation n := secp256k1_n.
  Local Notation p := secp256k1_p.
  Local Notation G := (eG g).
  Local Notation pair_for := (pair_for_message_hash (ept c) (eadd c) (esmul c) G n p ecoords (elift g) (einv g)).
  Local Notation verify := (verify_message (ept c) (eadd c) (esmul c) G n p ecoords (elift g) (einv g) dsha256 hash160).
  Local Notation sign_hash := (signature_for_message_hash (ept c) (esmul c) G n ecoords (einv g) gen_k).
  Local Notation sign_msg := (sign_message (ept c) (esmul c) G n ecoords (einv g) gen_k dsha256).

  (* the model's Generator.inverse is C02's inverse_mod(., n) (this used M2 only) *)
  Theorem C17c_secp256k1_inverse_is_C02 : forall a, MsgSign.inverse n (einv g) a = Curve.inverse_mod a n.
  Proof. exact (einv_run g secp256k1_M2). Qed.

  Theorem C17c_secp256k1_group_premises_unconditional :
    1 < n /\
    (forall a, a mod n <> 0 -> (a * einv g a) mod n = 1) /\
    (forall a b, esmul c a (esmul c b G) = esmul c (a * b) G) /\
    (forall a b, eadd c (esmul c a G) (esmul c b G) = esmul c (a + b) G) /\
    (forall a b, esmul c a G = esmul c b G <-> a mod n = b mod n) /\
    (forall a, ecoords (esmul c a G) = None <-> a mod n = 0) /\
    (forall a x y, ecoords (esmul c a G) = Some (x, y) -> 0 <= x < p) /\
    p <= 2 * n /\
    (forall a x y, ecoords (esmul c a G) = Some (x, y) ->
       exists P0 P1, elift g x = Some (P0, P1) /\ (if Z.land y 1 =? 0 then P0 else P1) = esmul c a G) /\
    (forall a b, ecoords (esmul c a G) = ecoords (esmul c b G) -> esmul c a G = esmul c b G).
  Proof. exact (C17c_group_premises g secp256k1_M1 secp256k1_M4 secp256k1_nG_proved secp256k1_M2
                  (secp256k1_side blind) (secp256k1_msg_side blind)). Qed.

  Theorem C17c_secp256k1_G_is_C02_unconditional : eval G = secp256k1_G.
  Proof. exact (proj2 (C17c_inverse_and_G_are_C02 g secp256k1_M1 secp256k1_nG_proved secp256k1_M2 (secp256k1_side blind))). Qed.

  Theorem C17c_secp256k1_sign_verifies_and_recovers_unconditional : forall (fuel : nat) (d z : Z) (cmp : bool) (text magic : bytes),
    d mod n <> 0 -> sign_hash fuel d z cmp = Ret text ->
    pair_for text z = Ret (esmul c d G, cmp) /\
    exists x y, ecoords (esmul c d G) = Some (x, y) /\
      verify (KPair x y) text magic None (Some z) = Ret true /\
      forall sec, public_pair_to_sec x y cmp = Ret sec ->
        verify (KHash (Some (hash160 sec))) text magic None (Some z) = Ret true /\
        forall k, refers_to_key k = true ->
          verify (KAddr k (Some (hash160 sec))) text magic None (Some z) = Ret true.
  Proof. exact (C17c_sign_verifies_and_recovers g gen_k dsha256 hash160 secp256k1_M1 secp256k1_M4 secp256k1_nG_proved secp256k1_M2
                  (secp256k1_side blind) (secp256k1_msg_side blind)). Qed.

  Theorem C17c_secp256k1_sign_message_verifies_and_recovers_unconditional :
    forall (fuel : nat) (magic : bytes) (d : Z) (cmp : bool) (m text : bytes),
    d mod n <> 0 -> sign_msg fuel magic d cmp m = Ret text ->
    exists z, hash_for_signing dsha256 magic m = Ret z /\ pair_for text z = Ret (esmul c d G, cmp) /\
    exists x y, ecoords (esmul c d G) = Some (x, y) /\
      verify (KPair x y) text magic (Some m) None = Ret true /\
      forall sec, public_pair_to_sec x y cmp = Ret sec ->
        verify (KHash (Some (hash160 sec))) text magic (Some m) None = Ret true /\
        forall k, refers_to_key k = true ->
          verify (KAddr k (Some (hash160 sec))) text magic (Some m) None = Ret true.
  Proof. exact (C17c_sign_message_verifies_and_recovers g gen_k dsha256 hash160 secp256k1_M1 secp256k1_M4 secp256k1_nG_proved secp256k1_M2
                  (secp256k1_side blind) (secp256k1_msg_side blind)). Qed.

  Theorem C17c_secp256k1_other_key_fails_unconditional :
    forall (fuel : nat) (magic : bytes) (d : Z) (cmp : bool) (m text : bytes) (key : keyref),
    d mod n <> 0 -> sign_msg fuel magic d cmp m = Ret text ->
    verify key text magic (Some m) None = Ret true ->
    exists x y, ecoords (esmul c d G) = Some (x, y) /\
      match key with
      | KPair x' y' => x' = x /\ y' = y
      | KHash h => exists sec, public_pair_to_sec x y cmp = Ret sec /\ h = Some (hash160 sec)
      | KAddr k h => refers_to_key k = true /\ exists sec, public_pair_to_sec x y cmp = Ret sec /\ h = Some (hash160 sec)
      | KUnparseable => False
      end.
  Proof. exact (C17c_other_key_fails g gen_k dsha256 hash160 secp256k1_M1 secp256k1_M4 secp256k1_nG_proved secp256k1_M2
                  (secp256k1_side blind) (secp256k1_msg_side blind)). Qed.

  Theorem C17c_secp256k1_other_hash_fails_unconditional : forall (fuel : nat) (d z : Z) (cmp : bool) (text magic : bytes) (x y z' : Z),
    d mod n <> 0 -> sign_hash fuel d z cmp = Ret text -> ecoords (esmul c d G) = Some (x, y) ->
    (verify (KPair x y) text magic None (Some z') = Ret true <-> z' mod n = z mod n).
  Proof. exact (C17c_other_hash_fails g gen_k dsha256 hash160 secp256k1_M1 secp256k1_M4 secp256k1_nG_proved secp256k1_M2
                  (secp256k1_side blind) (secp256k1_msg_side blind)). Qed.
End Secp256k1_proved.
Print Assumptions C17c_secp256k1_inverse_is_C02.
Print Assumptions C17c_secp256k1_group_premises_unconditional.
Print Assumptions C17c_secp256k1_G_is_C02_unconditional.
Print Assumptions C17c_secp256k1_sign_verifies_and_recovers_unconditional.
Print Assumptions C17c_secp256k1_sign_message_verifies_and_recovers_unconditional.
Print Assumptions C17c_secp256k1_other_key_fails_unconditional.
Print Assumptions C17c_secp256k1_other_hash_fails_unconditional.

(* ---- non-vacuity: the toy generator of Props/C01compose.v (y^2 = x^3 + 7 over F_43, G = (2,12), n = 31): NO hypothesis ---- *)
Section Toy43.
  Variable blind : Z.
  Variable gen_k : Z -> Z -> Z -> Z.
  Variable dsha256 : bytes -> bytes.
  Variable hash160 : bytes -> bytes.
  Local Notation g := (toy43_gen blind).
  Local Notation c := toy43.
  Local Notation G := (eG g).
  Local Notation pair_for := (pair_for_message_hash (ept c) (eadd c) (esmul c) G 31 43 ecoords (elift g) (einv g)).
  Local Notation verify := (verify_message (ept c) (eadd c) (esmul c) G 31 43 ecoords (elift g) (einv g) dsha256 hash160).
  Local Notation sign_hash := (signature_for_message_hash (ept c) (esmul c) G 31 ecoords (einv g) gen_k).
  Local Notation sign_msg := (sign_message (ept c) (esmul c) G 31 ecoords (einv g) gen_k dsha256).

  Theorem C17c_toy43_verify_total : forall (key : keyref) (text magic : bytes) (msg_hash : option Z),
    exists b : bool, verify key text magic None msg_hash = Ret b.
  Proof. exact (C17c_verify_total g dsha256 hash160 (proj2 (msg_side_facts g (toy43_msg_side blind)))). Qed.

  Theorem C17c_toy43_sign_verifies_and_recovers : forall (fuel : nat) (d z : Z) (cmp : bool) (text magic : bytes),
    d mod 31 <> 0 -> sign_hash fuel d z cmp = Ret text ->
    pair_for text z = Ret (esmul c d G, cmp) /\
    exists x y, ecoords (esmul c d G) = Some (x, y) /\
      verify (KPair x y) text magic None (Some z) = Ret true /\
      forall sec, public_pair_to_sec x y cmp = Ret sec ->
        verify (KHash (Some (hash160 sec))) text magic None (Some z) = Ret true /\
        forall k, refers_to_key k = true ->
          verify (KAddr k (Some (hash160 sec))) text magic None (Some z) = Ret true.
  Proof. exact (C17c_sign_verifies_and_recovers g gen_k dsha256 hash160 toy43_M1 toy43_M4 (toy43_nG blind) toy43_n_prime
                  (toy43_side blind) (toy43_msg_side blind)). Qed.

  Theorem C17c_toy43_other_key_fails : forall (fuel : nat) (magic : bytes) (d : Z) (cmp : bool) (m text : bytes) (key : keyref),
    d mod 31 <> 0 -> sign_msg fuel magic d cmp m = Ret text ->
    verify key text magic (Some m) None = Ret true ->
    exists x y, ecoords (esmul c d G) = Some (x, y) /\
      match key with
      | KPair x' y' => x' = x /\ y' = y
      | KHash h => exists sec, public_pair_to_sec x y cmp = Ret sec /\ h = Some (hash160 sec)
      | KAddr k h => refers_to_key k = true /\ exists sec, public_pair_to_sec x y cmp = Ret sec /\ h = Some (hash160 sec)
      | KUnparseable => False
      end.
  Proof. exact (C17c_other_key_fails g gen_k dsha256 hash160 toy43_M1 toy43_M4 (toy43_nG blind) toy43_n_prime
                  (toy43_side blind) (toy43_msg_side blind)). Qed.
End Toy43.
Print Assumptions C17c_toy43_verify_total.
Print Assumptions C17c_toy43_sign_verifies_and_recovers.
Print Assumptions C17c_toy43_other_key_fails.
