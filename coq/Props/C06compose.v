(* Props/C06compose.v — composition of C06 (what a signature commits to) with C04 (pycoin's preimages = Bitcoin
   Core's) and C01 (exactly when an ECDSA signature verifies).  Only statements; every proof is `exact <lemma>`
   (lemmas in Proofs/ComposeCommitBridge.v, ComposeCommitCore.v, ComposeCommitEcdsa.v, ComposeCommitTamper.v).

   (A) C06 was proved over its own compact model Model/Commit.v (C.), C04 over Model/Sighash.v (S.).  Both transcribe
       the same Python.  `sh_tx : C.tx -> unspents -> S.tx` forgets the witness stacks (never read by the digest
       functions) and is onto.  The two models produce EQUAL OUTCOMES (same bytes, same exception class) for every
       transaction, script, index and hash type, with no well-formedness hypothesis; the only representational gaps:
       Commit is handed the script code after OP_CODESEPARATOR removal and the spent amount, where the code computes
       delete_subscript and reads tx.unspents[idx].coin_value (raising when it is missing).
       Consequently C06's injectivity / invariance theorems hold for CORE's definition of the digest
       (`core_sighash_preimage`, `core_sighash_digest`: SignatureHash (original formulation, see Props/C04.v) and
       BIP143), for contexts within wire ranges (`core_wf`).  A context c here carries the RAW scriptCode that Core's
       SignatureHash receives; `commit_ctx sv c` is the context whose fields are committed (legacy: script code with
       OP_CODESEPARATOR removed).

   (B) Over C01's abstract group (group_laws, prime n, G <> O) — no discrete logarithm of the key assumed:
       V(z) = (z/s) G + (r/s) Q.   z = z' (mod n) -> same verdict;   V(z) = V(z') <-> z = z' (mod n);
       one signature is valid for two hash values in different residue classes IFF V(z), V(z') are two DISTINCT
       finite points whose abscissae both reduce to r modulo n (C06c_double_valid_iff).  With "at most two points per
       abscissa" (lift_laws) and n <> 2 that case splits into: abscissae that differ by a non-zero multiple of n, or
       opposite points, and then Q = d G with z + z' + 2 r d = 0 (mod n) (C06c_distinct_points_refined);
       conversely for Q = d G that z' IS accepted (C06c_second_residue_valid).
       C06c_tamper_fails / C06c_tamper_fails_core: C06_tamper_fails_partial with its ECDSA residue resolved.

   WHAT REMAINS CRYPTOGRAPHIC (not provable, and false for some functions dsha256 / some groups): after a change
   to a committed field the input still validates only if
     (i)   dsha256 collides on two distinct strings that were hashed, or maps a hashed string to ZERO32 or to the
           SIGHASH_SINGLE constant 1<<248                                      [collision / preimage resistance];
     (ii)  the two digests are different 256-bit integers congruent modulo n: z' = z + k n, k <> 0 — possible only
           for z < 2^256 - n (on secp256k1 a 2^-128 fraction of digests)         [hitting a 1-in-n target];
     (iii) z' lies in the ONE other residue class fixed by the key and the signature, z' = -z - 2 r d (mod n)
           (opposite verification points), or r and r + k n are both abscissae (r < p - n, again 2^-128 on
           secp256k1)                                                            [hitting a 1-in-n target].
   (ii) and (iii) are genuine acceptances of ECDSA (C06c_same_residue_same_verdict, C06c_second_residue_valid), so
   no stronger theorem exists without assumptions on the hash function: that dsha256 of a tampered preimage lands in
   a prescribed residue class with negligible probability is a (target-)preimage property of SHA-256. *)
From Coq Require Import ZArith List NArith Znumtheory Lia.
From PV Require Import Base.Bytes Base.Outcome Base.Varint Gen.GenCommitC06 Gen.GenSighashC04.
From PV Require Import Spec.SighashCore Spec.EcdsaSpec Model.Commit Proofs.CommitP.
From PV Require Import Proofs.ComposeCommitBridge Proofs.ComposeCommitCore Proofs.ComposeCommitEcdsa
  Proofs.ComposeCommitTamper.
From PV Require Model.Sighash Model.SighashBridge Proofs.SighashP Model.Ecdsa Model.EcdsaInst Proofs.EcdsaInstP Proofs.C01P Props.C01.
Import ListNotations.
Local Open Scope N_scope.
Local Open Scope outcome_scope.

(* =================================================================================================================
   (A) the two transaction models *)

(* the conversion reaches every C04 transaction *)
Theorem C06c_conversion_onto : forall t : S.tx, sh_tx (cm_tx t) (cm_unspents t) = t.
Proof. exact sh_tx_surjective. Qed.
Print Assumptions C06c_conversion_onto.

(* the two harvests of constants (Gen/GenCommitC06.v, Gen/GenSighashC04.v) coincide *)
Theorem C06c_constants_agree : consts_agree_t.
Proof. exact consts_agree. Qed.
Print Assumptions C06c_constants_agree.

(* legacy: what Sighash.legacy_presig returns (constant or preimage) = what Commit.legacy_fed_of feeds to the hash,
   for ALL inputs; `code` is delete_subscript(script, OP_CODESEPARATOR) (total: C04_delete_subscript_total) *)
Theorem C06c_models_agree_legacy :
  forall (t : C.tx) (unspents : list (option C.txout)) (script code : bytes) (idx : nat) (ht : N),
  S.delete_subscript script gen_codeseparator = Ret code ->
  S.legacy_presig (sh_tx t unspents) script idx ht
  = (do f <- C.legacy_fed_of t code idx ht;
     Ret (match f with None => S.PConst C.single_value | Some b => S.PPreimage b end)).
Proof. exact bridge_legacy. Qed.
Print Assumptions C06c_models_agree_legacy.

(* BIP143: the preimages are equal whenever the spent output is recorded (amount = its coin_value), ALL inputs, any H *)
Theorem C06c_models_agree_bip143 :
  forall (H : bytes -> bytes) (t : C.tx) (unspents : list (option C.txout)) (u : C.txout)
         (code : bytes) (idx : nat) (ht : N),
  nth_error unspents idx = Some (Some u) ->
  S.btc_segwit_preimage H (sh_tx t unspents) code idx ht = C.segwit_preimage H t code (C.to_amount u) idx ht.
Proof. exact bridge_segwit. Qed.
Print Assumptions C06c_models_agree_bip143.

(* ... and when it is not recorded the code raises (IndexError / AttributeError), where Commit is simply handed an amount *)
Theorem C06c_bip143_missing_unspent_raises :
  forall (H : bytes -> bytes) (t : C.tx) (unspents : list (option C.txout)) (code : bytes) (idx : nat) (ht : N) (p : bytes),
  nth_error unspents idx = None \/ nth_error unspents idx = Some None ->
  S.btc_segwit_preimage H (sh_tx t unspents) code idx ht <> Ret p.
Proof. exact segwit_missing_unspent_raises. Qed.
Print Assumptions C06c_bip143_missing_unspent_raises.

(* the integers _signature_hash / _signature_for_hash_type_segwit return *)
Theorem C06c_models_agree_sighash :
  forall (sha256 dsha256 : bytes -> bytes) (t : C.tx) (unspents : list (option C.txout)) (idx : nat) (ht : N),
  (forall (c : S.coin) (script code : bytes), c = S.BTC \/ c = S.LTC ->
     S.delete_subscript script gen_codeseparator = Ret code ->
     S.signature_hash sha256 dsha256 c (sh_tx t unspents) script idx ht = C.legacy_sighash dsha256 t code idx ht)
  /\ (forall (c : S.coin) (code : bytes) (u : C.txout), c = S.BTC \/ c = S.LTC \/ c = S.BCH ->
     nth_error unspents idx = Some (Some u) ->
     S.signature_for_hash_type_segwit sha256 dsha256 c (sh_tx t unspents) code idx ht
     = C.segwit_sighash dsha256 t code (C.to_amount u) idx ht).
Proof.
  intros sha dsha t us idx ht. split.
  - intros c script code. exact (bridge_legacy_sighash sha dsha c t us script code idx ht).
  - intros c code u. exact (bridge_segwit_sighash sha dsha c t us u code idx ht).
Qed.
Print Assumptions C06c_models_agree_sighash.

(* pycoin's hash input on the commit context IS Core's: fed_of succeeds within wire ranges, its digest is Core's digest,
   legacy: the string fed is Core's serialization (or nothing, for the SIGHASH_SINGLE constant);
   BIP143: the assembled string is BIP143's preimage *)
Theorem C06c_fed_is_core : forall (H : bytes -> bytes) (sv : sigversion) (ht : N) (idx : nat) (c : sctx),
  core_wf ht idx c ->
  exists f, fed_of sv ht idx (commit_ctx sv c) = Ret f
            /\ digest_of H f = core_sighash_digest H sv ht idx c
            /\ match sv with
               | SV_legacy => f = match core_signature_hash_old (sc_code c) (core_tx (sc_tx c)) idx ht with
                                  | CoreOne => Fed_none | CorePreimage p => Fed_legacy p end
               | SV_bip143 => exists s, f = Fed_segwit s
                              /\ segwit_assemble H s = bip143_preimage H (sc_code c) (core_tx (sc_tx c)) idx (sc_amount c) ht
               end.
Proof. exact fed_digest_is_core. Qed.
Print Assumptions C06c_fed_is_core.

(* C06 (1) for Core, legacy, no assumption on the hash: two contexts with the same Core SignatureHash input (equal
   serializations, or both the SIGHASH_SINGLE constant) agree on every field the hash type commits *)
Theorem C06c_commitment_injective_core : forall (ht : N) (idx : nat) (c c' : sctx),
  core_wf ht idx c -> core_wf ht idx c' ->
  core_signature_hash_old (sc_code c) (core_tx (sc_tx c)) idx ht
  = core_signature_hash_old (sc_code c') (core_tx (sc_tx c')) idx ht ->
  forall fl, committed SV_legacy ht idx (has_output idx c) fl = true ->
             get idx fl (commit_ctx SV_legacy c) = get idx fl (commit_ctx SV_legacy c').
Proof. exact commitment_injective_core. Qed.
Print Assumptions C06c_commitment_injective_core.

(* C06 (1') for Core, both signature versions (BIP143's preimage contains hashes, so its injectivity is a digest-level
   statement): equal CORE digests force agreement on the committed fields, or exhibit an anomaly of H — two distinct
   hashed strings with equal hash, or a hashed string mapped to ZERO32 / the SINGLE constant *)
Theorem C06c_digest_commits_core : forall (H : bytes -> bytes), (forall x, length (H x) = 32%nat) ->
  forall (sv : sigversion) (ht : N) (idx : nat) (c c' : sctx),
  core_wf ht idx c -> core_wf ht idx c' ->
  exists f f', fed_of sv ht idx (commit_ctx sv c) = Ret f /\ fed_of sv ht idx (commit_ctx sv c') = Ret f'
    /\ digest_of H f = core_sighash_digest H sv ht idx c /\ digest_of H f' = core_sighash_digest H sv ht idx c'
    /\ (core_sighash_digest H sv ht idx c = core_sighash_digest H sv ht idx c' ->
        (forall fl, committed sv ht idx (has_output idx c) fl = true ->
                    get idx fl (commit_ctx sv c) = get idx fl (commit_ctx sv c'))
        \/ (exists x y, In x (feeds H f) /\ In y (feeds H f') /\ x <> y /\ H x = H y)
        \/ (exists x, In x (feeds H f ++ feeds H f')
                      /\ (H x = gen06_zero32 \/ H x = be_encode 32 single_value))).
Proof. exact digest_commits_core. Qed.
Print Assumptions C06c_digest_commits_core.

(* C06 (2) for Core: contexts that agree on every committed field have the same Core preimage, hence digest, for
   every hash function (legacy: the same serialization; BIP143: the same preimage) *)
Theorem C06c_uncommitted_invariant_core :
  forall (H : bytes -> bytes) (sv : sigversion) (ht : N) (idx : nat) (c c' : sctx),
  core_wf ht idx c -> core_wf ht idx c' ->
  (forall fl, committed sv ht idx (has_output idx c) fl = true ->
              get idx fl (commit_ctx sv c) = get idx fl (commit_ctx sv c')) ->
  core_sighash_preimage H sv ht idx c = core_sighash_preimage H sv ht idx c'.
Proof. exact uncommitted_invariant_core. Qed.
Print Assumptions C06c_uncommitted_invariant_core.

(* non-vacuity of (A): C06's example contexts are within Core's wire ranges; ex_ctx' differs from ex_ctx in the other
   input's scriptSig, witness, sequence and the second output: same Core preimage under SINGLE, not under ALL *)
Example C06c_example_core_wf : core_wf 1 0 ex_ctx /\ core_wf 3 0 ex_ctx /\ core_wf 3 0 ex_ctx'.
Proof.
  assert (W : forall c, c = ex_ctx \/ c = ex_ctx' -> forall ht, (ht < 2 ^ 32)%N -> core_wf ht 0 c).
  { intros c Hc ht Hht. split; [|destruct Hc as [->| ->]; cbn; lia|exact Hht|destruct Hc as [->| ->]; cbn; lia
                                |destruct Hc as [->| ->]; cbn; lia].
    destruct Hc as [->| ->]; unfold SighashP.tx_wf, SighashP.txin_wf, SighashP.txout_wf; cbn;
      repeat split; repeat constructor; cbn; lia. }
  split; [|split]; apply W; auto; reflexivity.
Qed.
Example C06c_example_single_core : forall H,
  core_sighash_preimage H SV_legacy 3 0 ex_ctx = core_sighash_preimage H SV_legacy 3 0 ex_ctx'
  /\ core_sighash_preimage H SV_legacy 1 0 ex_ctx <> core_sighash_preimage H SV_legacy 1 0 ex_ctx'.
Proof. intros H. split; [reflexivity|]. vm_compute. discriminate. Qed.

(* =================================================================================================================
   (B) ECDSA: one signature, two hash values *)
Local Open Scope Z_scope.

Section C06compose.
  Variable pt : Type.
  Variable add : pt -> pt -> pt.
  Variable neg : pt -> pt.
  Variable O : pt.
  Variable smul : Z -> pt -> pt.
  Variable G : pt.
  Variable n : Z.
  Variable coords : pt -> option (Z * Z).

  Hypothesis laws : group_laws pt add neg O smul n coords.
  Hypothesis n_prime : prime n.
  Hypothesis G_nonzero : G <> O.

  Local Notation verify := (PV.Model.Ecdsa.verify pt add smul G n coords).
  Local Notation valid := (ecdsa_valid pt add smul G n coords).
  (* the verification point (z w) G + (r w) Q, w an inverse of s modulo n *)
  Local Notation V := (vpoint pt add smul G).

  (* congruent non-zero hash values get the same verdict from Generator.verify, for every key, r, s *)
  Theorem C06c_same_residue_same_verdict : forall (Q : pt) (r s z z' : Z),
    z <> 0 -> z' <> 0 -> z mod n = z' mod n -> verify (Some Q) z r s = verify (Some Q) z' r s.
  Proof. exact (same_residue_accepted pt add neg O smul G n coords laws n_prime). Qed.

  (* the verification point determines the residue of the hash value and nothing more *)
  Theorem C06c_verification_point_injective : forall (Q : pt) (r s w z z' : Z), inv_mod_n n s w ->
    (V Q r w z = V Q r w z' <-> z mod n = z' mod n).
  Proof. exact (vpoint_eq_iff pt add neg O smul G n coords laws n_prime G_nonzero). Qed.

  (* THE CHARACTERISATION (textbook validity; C01_verify_iff ties it to Generator.verify) *)
  Theorem C06c_double_valid_iff : forall (Q : pt) (z z' r s : Z),
    (valid Q z r s /\ valid Q z' r s /\ z mod n <> z' mod n)
    <-> (1 <= r < n /\ 1 <= s < n /\
         exists w x y x' y', inv_mod_n n s w /\
           coords (V Q r w z) = Some (x, y) /\ coords (V Q r w z') = Some (x', y') /\
           V Q r w z <> V Q r w z' /\ x mod n = r /\ x' mod n = r).
  Proof. exact (double_valid_iff pt add neg O smul G n coords laws n_prime G_nonzero). Qed.

  (* opposite verification points: a linear relation between the key and the generator ... *)
  Theorem C06c_opposite_points_key : forall (Q : pt) (r s w z z' : Z), inv_mod_n n s w ->
    V Q r w z' = neg (V Q r w z) -> smul (2 * r) Q = smul (- (z + z')) G.
  Proof. exact (opposite_points_key pt add neg O smul G n coords laws n_prime). Qed.

  (* ... conversely, for a key with discrete logarithm d the residue -z - 2 r d IS accepted with the same signature *)
  Theorem C06c_second_residue_valid : forall (d z z' r s : Z),
    (z + z' + 2 * r * d) mod n = 0 -> (valid (smul d G) z r s <-> valid (smul d G) z' r s).
  Proof. exact (second_residue_valid pt add neg O smul G n coords laws n_prime). Qed.

  (* with at most two points per abscissa (lift_laws, as in C01's recovery theorems) and n odd, the distinct-points
     case splits completely *)
  Theorem C06c_distinct_points_refined :
    forall (lift_x : Z -> option (pt * pt)) (x_canon : Z -> Prop),
    lift_laws pt coords lift_x x_canon -> n <> 2 ->
    forall (Q : pt) (r s w z z' x y x' y' : Z),
    1 <= r < n -> inv_mod_n n s w ->
    coords (V Q r w z) = Some (x, y) -> coords (V Q r w z') = Some (x', y') ->
    V Q r w z <> V Q r w z' -> x mod n = r -> x' mod n = r ->
    (x <> x' /\ x mod n = x' mod n)
    \/ (x = x' /\ V Q r w z' = neg (V Q r w z)
        /\ exists d, Q = smul d G /\ (z + z' + 2 * r * d) mod n = 0).
  Proof. exact (distinct_points_refined pt add neg O smul G n coords laws n_prime). Qed.

  (* two different 32-byte digests accepted by Generator.verify for one key and one signature: exactly two ways *)
  Theorem C06c_two_digests_one_signature : forall (Q : pt) (r s : Z) (d d' : bytes),
    length d = 32%nat -> length d' = 32%nat -> d <> d' ->
    verify (Some Q) (z_of d) r s = Ret true -> verify (Some Q) (z_of d') r s = Ret true ->
    z_of d <> 0 /\ z_of d' <> 0 /\ 1 <= r < n /\ 1 <= s < n /\
    ((z_of d <> z_of d' /\ z_of d mod n = z_of d' mod n)
     \/ (z_of d mod n <> z_of d' mod n /\
         exists w x y x' y', inv_mod_n n s w /\
           coords (V Q r w (z_of d)) = Some (x, y) /\ coords (V Q r w (z_of d')) = Some (x', y') /\
           V Q r w (z_of d) <> V Q r w (z_of d') /\ x mod n = r /\ x' mod n = r)).
  Proof. exact (two_digests_one_signature pt add neg O smul G n coords laws n_prime G_nonzero). Qed.

  (* C06_tamper_fails_partial with its residue resolved — pycoin's digests (Model/Commit.v), pycoin's verify
     (Model/Ecdsa.v), any 32-byte function dsha256.  z, z' are the digests read big-endian (from_bytes_32). *)
  Theorem C06c_tamper_fails : forall (dsha256 : bytes -> bytes), (forall x, length (dsha256 x) = 32%nat) ->
    forall (sv : sigversion) (ht : N) (idx : nat) (c c' : sctx) (f f' : fed) (Q : pt) (r s : Z) (fl : field),
    Forall (fun x => length (ti_hash x) = 32%nat) (tx_ins (sc_tx c)) ->
    Forall (fun x => length (ti_hash x) = 32%nat) (tx_ins (sc_tx c')) ->
    (idx < length (tx_ins (sc_tx c)))%nat -> (idx < length (tx_ins (sc_tx c')))%nat ->
    fed_of sv ht idx c = Ret f -> fed_of sv ht idx c' = Ret f' ->
    committed sv ht idx (has_output idx c) fl = true -> get idx fl c <> get idx fl c' ->
    let z := z_of (digest_of dsha256 f) in
    let z' := z_of (digest_of dsha256 f') in
    verify (Some Q) z r s = Ret true -> verify (Some Q) z' r s = Ret true ->
    (* (i) the hash function shows an anomaly on strings that were hashed *)
    ((exists x y, In x (feeds dsha256 f) /\ In y (feeds dsha256 f') /\ x <> y /\ dsha256 x = dsha256 y)
     \/ (exists x, In x (feeds dsha256 f ++ feeds dsha256 f')
                   /\ (dsha256 x = gen06_zero32 \/ dsha256 x = be_encode 32 single_value)))
    (* (ii) different digests, congruent modulo the group order *)
    \/ (z <> z' /\ z mod n = z' mod n)
    (* (iii) incongruent digests whose verification points are distinct points sharing the abscissa residue r *)
    \/ (z mod n <> z' mod n /\
        exists w x y x' y', inv_mod_n n s w /\
          coords (V Q r w z) = Some (x, y) /\ coords (V Q r w z') = Some (x', y') /\
          V Q r w z <> V Q r w z' /\ x mod n = r /\ x' mod n = r).
  Proof. exact (tamper_fails_ecdsa pt add neg O smul G n coords laws n_prime G_nonzero). Qed.

  (* the same over CORE's digest definition (through C04): c, c' carry the raw scriptCode; f, f' (the strings that were
     hashed) are determined by c, c' *)
  Theorem C06c_tamper_fails_core : forall (dsha256 : bytes -> bytes), (forall x, length (dsha256 x) = 32%nat) ->
    forall (sv : sigversion) (ht : N) (idx : nat) (c c' : sctx) (Q : pt) (r s : Z) (fl : field),
    core_wf ht idx c -> core_wf ht idx c' ->
    committed sv ht idx (has_output idx c) fl = true ->
    get idx fl (commit_ctx sv c) <> get idx fl (commit_ctx sv c') ->
    let z := z_of (core_sighash_digest dsha256 sv ht idx c) in
    let z' := z_of (core_sighash_digest dsha256 sv ht idx c') in
    verify (Some Q) z r s = Ret true -> verify (Some Q) z' r s = Ret true ->
    exists f f', fed_of sv ht idx (commit_ctx sv c) = Ret f /\ fed_of sv ht idx (commit_ctx sv c') = Ret f'
      /\ digest_of dsha256 f = core_sighash_digest dsha256 sv ht idx c
      /\ digest_of dsha256 f' = core_sighash_digest dsha256 sv ht idx c'
      /\ (((exists x y, In x (feeds dsha256 f) /\ In y (feeds dsha256 f') /\ x <> y /\ dsha256 x = dsha256 y)
           \/ (exists x, In x (feeds dsha256 f ++ feeds dsha256 f')
                         /\ (dsha256 x = gen06_zero32 \/ dsha256 x = be_encode 32 single_value)))
          \/ (z <> z' /\ z mod n = z' mod n)
          \/ (z mod n <> z' mod n /\
              exists w x y x' y', inv_mod_n n s w /\
                coords (V Q r w z) = Some (x, y) /\ coords (V Q r w z') = Some (x', y') /\
                V Q r w z <> V Q r w z' /\ x mod n = r /\ x' mod n = r)).
  Proof. exact (tamper_fails_core pt add neg O smul G n coords laws n_prime G_nonzero). Qed.
End C06compose.

(* non-vacuity of (B) on C01's toy curve y^2 = x^3 + 3 over Z_7, n = 13 (its laws: C01_hypotheses_satisfiable):
   key Q = 3 G, signature (4, 11) of z = 6 (C01_toy_signature).  Disjunct (ii): z' = 6 + 13 is accepted.
   Disjunct (iii): z' = -6 - 2*4*3 = 9 (mod 13) is accepted, every other residue is rejected. *)
Example C06c_toy_disjuncts_inhabited :
  let Q := EcdsaInst.psmul EcdsaInstP.toy13 3 (EcdsaInst.pG EcdsaInstP.toy13) in
  C01P.toy_verify EcdsaInstP.toy13 (Some Q) 6 4 11 = Ret true
  /\ C01P.toy_verify EcdsaInstP.toy13 (Some Q) 19 4 11 = Ret true
  /\ C01P.toy_verify EcdsaInstP.toy13 (Some Q) 9 4 11 = Ret true
  /\ (6 + 9 + 2 * 4 * 3) mod 13 = 0
  /\ forall z', In z' [1; 2; 3; 4; 5; 7; 8; 10; 11; 12] -> C01P.toy_verify EcdsaInstP.toy13 (Some Q) z' 4 11 = Ret false.
Proof.
  cbv zeta. split; [vm_compute; reflexivity|]. split; [vm_compute; reflexivity|]. split; [vm_compute; reflexivity|].
  split; [reflexivity|]. intros z' Hz. cbn in Hz.
  repeat (destruct Hz as [<-|Hz]; [vm_compute; reflexivity|]). destruct Hz.
Qed.

Print Assumptions C06c_same_residue_same_verdict.
Print Assumptions C06c_verification_point_injective.
Print Assumptions C06c_double_valid_iff.
Print Assumptions C06c_opposite_points_key.
Print Assumptions C06c_second_residue_valid.
Print Assumptions C06c_distinct_points_refined.
Print Assumptions C06c_two_digests_one_signature.
Print Assumptions C06c_tamper_fails.
Print Assumptions C06c_tamper_fails_core.
Print Assumptions C06c_example_core_wf.
Print Assumptions C06c_example_single_core.
Print Assumptions C06c_toy_disjuncts_inhabited.
