(* Props/C05.v — property C05: signing standard inputs yields valid canonical signatures, changing nothing else.
   Only statements; every proof is `exact <lemma of Proofs/SolveP.v>`.

   WHAT IS PROVED ABOUT WHAT.
   * Model/Solve.v is the input/output CONTRACT of pycoin's signer per standard puzzle kind (the symbolic executor is
     not transcribed; signing_solver and _find_signatures are); it is tied to /repo by the byte-exact correspondence
     run of harness/c05.py (sign_tx on random transactions x key-supply mechanisms x coins x pass orders).
   * `eval_input` (Spec/Templates.v) is THIS PROPERTY'S OWN SPECIFICATION of the consensus / standardness semantics of
     the standard templates (push-only scriptSig, <key> CHECKSIG, DUP HASH160 <h> EQUALVERIFY CHECKSIG,
     m <keys> n CHECKMULTISIG with Core's matching loop, HASH160 <h> EQUAL + redeem script, witness v0 programs); it is
     NOT the full script VM (property C03).  Its header lists what it does not cover (non-push-only scriptSigs on the
     legacy non-P2SH kinds, FindAndDelete, foreign redeem scripts).  It is compared with Tx.is_solution_ok on every
     state the correspondence run reaches and on mutated ones.  LAX = pycoin's DEFAULT_FLAGS (P2SH|WITNESS), what
     Solver.sign uses for "already valid"; STD forkid = the standard policy set of the property text (without
     STRICTENC on fork-id coins).
   * ECDSA, the signature digest, hash160/sha256 and public-key derivation are Section variables, i.e. universally
     quantified; what the theorems need of them is stated as hypotheses below, nothing else is assumed.

   Vocabulary (defined in Proofs/SolveP.v):
     keyspec = (secret, compressed);  pub pub_of k = the SEC encoding;  ks = the listed keys in script order;
     pz_ms kd m ks / pz_single kd k = the puzzle;  ms_shape = 1 <= m <= n <= 20, the 520-byte redeem script limit under
     P2SH, the 10 000-byte witness script limit;  p2sh_ok = the caller supplies the needed redeem / witness scripts;
     db_ok db ks = the lookup table maps the hash160 of a listed key to that key's secret;  avail db k = k is in the table;
     ht_ok t = the hash type fits a byte and the coin defines its digest (fork-id coins: the fork-id bit is set);
     std_hash_type t = ALL / NONE / SINGLE with or without ANYONECANPAY (required when STRICTENC is in force);
     effective_hash_type forkid hto = hash_type or SIGHASH_ALL, OR-ed with SIGHASH_FORKID on fork-id coins;
     run passes st = Solver.sign applied once per pass (each pass has its own lookup table and hash type);
     ncovered ks passes = the number of listed keys supplied to at least one pass. *)
From PV Require Import Base.Bytes Base.Outcome Gen.GenSolveC05 Spec.Templates Model.Solve Proofs.SolveP Proofs.SolveToyC05 Model.SolveKeychain Proofs.SolveKeychainP.
Local Open Scope N_scope.

Section C05.
Variable hash160 : bytes -> bytes.
Variable sha256 : bytes -> bytes.
Variable verifies : bytes -> bytes -> bytes -> bool.          (* SEC key, digest, DER signature *)
Variable sign : bytes -> bytes -> bytes.                      (* secret, digest -> DER signature *)
Variable pub_of : bytes -> bool -> bytes.                     (* secret, compressed -> SEC key *)
Variable sighash : bool -> N -> bytes -> option bytes.        (* witness v0?, hash type, script code -> digest *)

(* the abstract ECDSA interface (property C01 / C10 are about the real thing); that sign's output is accepted by
   the lax parser of parse_signature_blob is PROVED from its strict encoding (strict_der_parses) *)
Hypothesis sign_verifies : forall se c d, verifies (pub_of se c) d (sign se d) = true.
Hypothesis sign_canonical : forall se d t, strict_der (sign se d ++ [t]) = true /\ low_s (sign se d ++ [t]) = true.
Hypothesis sha256_len : forall x, length (sha256 x) = 32%nat.
Hypothesis hash160_len : forall x, length (hash160 x) = 20%nat.
Hypothesis pub_wellformed : forall se, is_compressed (pub_of se true) = true /\ is_uncompressed (pub_of se false) = true.

(* ---- C05_template_validates: all listed keys supplied, nothing signed yet ------------------------------------ *)
(* bare / P2SH / P2WSH / P2SH-P2WSH m-of-n, every 1 <= m <= n <= 20 within the size limits, every flag set fl
   (STD forkid: strict DER, low S, defined hash type, NULLDUMMY, MINIMALDATA, CLEANSTACK, WITNESS_PUBKEYTYPE).
   Needs sign => verifies only: no hypothesis on other keys, duplicates allowed. *)
Theorem C05_template_validates_multisig :
  forall (fl : flags) (forkid : bool) (kd : kind) (m : nat) (ks : list keyspec) (db : lookup) (hto : option N)
         (p2sh : list bytes),
  ms_shape pub_of kd m ks -> p2sh_ok hash160 sha256 pub_of kd m ks p2sh -> db_ok hash160 pub_of db ks ->
  (forall k, In k ks -> avail hash160 pub_of db k = true) ->
  ht_ok sighash (kwit kd) (ms_script m (map (pub pub_of) ks)) (effective_hash_type forkid hto) ->
  (f_std fl = true -> f_strictenc fl = true -> std_hash_type (effective_hash_type forkid hto)) ->
  (forall k, In k ks -> pub_enc_ok fl (kwit kd) (pub pub_of k) = true) ->
  exists st, sign_input hash160 sha256 verifies sign pub_of sighash db p2sh forkid (pz_ms pub_of kd m ks) hto [] [] = Ret st /\
             eval_input hash160 sha256 verifies sighash fl (pz_ms pub_of kd m ks) (fst st) (snd st) = true.
Proof. exact (ms_validates_c hash160 sha256 verifies sign pub_of sighash sign_verifies sign_canonical sha256_len). Qed.

(* P2PK, P2PKH, P2WPKH, P2SH-P2WPKH *)
Theorem C05_template_validates_single_key :
  forall (fl : flags) (forkid : bool) (kd : kind) (k : keyspec) (db : lookup) (hto : option N) (p2sh : list bytes),
  is_single_kind kd ->
  lookup_get db (hash160 (pub pub_of k)) = Some k ->
  (kd = K_P2SH_P2WPKH ->
   p2sh_get hash160 sha256 p2sh (hash160 (wit0_script (hash160 (pub pub_of k)))) = Some (wit0_script (hash160 (pub pub_of k)))) ->
  ht_ok sighash (single_wit kd) (single_sc hash160 pub_of kd k) (effective_hash_type forkid hto) ->
  (f_std fl = true -> f_strictenc fl = true -> std_hash_type (effective_hash_type forkid hto)) ->
  pub_enc_ok fl (single_wit kd) (pub pub_of k) = true ->
  exists st, sign_input hash160 sha256 verifies sign pub_of sighash db p2sh forkid (pz_single hash160 pub_of kd k) hto [] [] = Ret st /\
             eval_input hash160 sha256 verifies sighash fl (pz_single hash160 pub_of kd k) (fst st) (snd st) = true.
Proof.
  exact (single_validates_c hash160 sha256 verifies sign pub_of sighash sign_verifies sign_canonical hash160_len
           pub_wellformed).
Qed.

(* acceptance under the standard set means: push-only, minimally pushed scriptSig with items of at most 520 bytes ... *)
Theorem C05_standard_valid_is_push_only_minimal :
  forall (fl : flags) (pz : puzzle) (ss : bytes) (w : list bytes), f_std fl = true ->
  eval_input hash160 sha256 verifies sighash fl pz ss w = true ->
  exists items, parse_pushes ss = Some (items, true) /\ all_le_520 items = true.
Proof. exact (eval_std_push_only hash160 sha256 verifies sighash). Qed.

(* ... and, for CHECKMULTISIG, a stack of exactly an EMPTY dummy and m signatures (NULLDUMMY, CLEANSTACK) *)
Theorem C05_standard_multisig_stack_shape :
  forall (fl : flags) (wit : bool) (sc : bytes) (m : nat) (keys st : list bytes), f_std fl = true ->
  eval_multisig verifies sighash fl wit true sc m keys st = true ->
  exists sigs, st = [] :: sigs /\ length sigs = m.
Proof. exact (eval_multisig_std_shape hash160 sha256 verifies sighash). Qed.

(* ---- C05_partial_signing_order_free ----------------------------------------------------------------------------- *)
(* Any sequence of signing passes (each with its own key set and hash type, in any order, starting from the unsigned
   input): Solver.sign never raises, and afterwards the input validates under fl0 IF AND ONLY IF at least m distinct
   listed keys were supplied to some pass; applied to every prefix of the sequence this also says the input does not
   validate before that.  ms_ok adds to ms_shape the two facts about the abstract ECDSA the proof needs:
   (mo_excl) a signature made with one listed key does not verify under another listed key,
   (mo_ph)   the placeholder signature verifies under no listed key. *)
Theorem C05_partial_signing_order_free :
  forall (forkid : bool) (p2sh : list bytes) (kd : kind) (m : nat) (ks : list keyspec) (fl0 : flags),
  ms_ok verifies sign pub_of sighash kd m ks -> p2sh_ok hash160 sha256 pub_of kd m ks p2sh ->
  (forall k, In k ks -> pub_enc_ok fl0 (kwit kd) (pub pub_of k) = true) ->
  forall passes : list pass,
  Forall (pass_ok hash160 pub_of sighash forkid kd m ks fl0) passes ->
  exists st, run hash160 sha256 verifies sign pub_of sighash forkid p2sh kd m ks passes ([], []) = Ret st /\
             (eval_input hash160 sha256 verifies sighash fl0 (pz_ms pub_of kd m ks) (fst st) (snd st) = true <->
              (m <= ncovered hash160 pub_of ks passes)%nat).
Proof.
  exact (partial_signing_order_free_c hash160 sha256 verifies sign pub_of sighash sign_verifies sign_canonical
           sha256_len).
Qed.
End C05.

(* ---- C05_frame ----------------------------------------------------------------------------------------------------- *)
(* Solver.sign over a transaction (the model's state is the list of (puzzle, scriptSig, witness); version, lock time,
   outpoints, sequences and outputs are not even inputs of the model — observed differentially on the implementation):
   the number of inputs is unchanged, and an input that is not in the requested set, or that is already valid under
   DEFAULT_FLAGS, keeps its scriptSig and witness — also when an exception escapes half way.  No hypotheses. *)
Theorem C05_frame :
  forall (hash160 sha256 : bytes -> bytes) (verifies : bytes -> bytes -> bytes -> bool) (sign : bytes -> bytes -> bytes)
         (pub_of : bytes -> bool -> bytes) (sighash_tx : nat -> bool -> N -> bytes -> option bytes)
         (db : lookup) (p2sh : list bytes) (forkid : bool) (ht : option N) (idxs : list nat) (inputs : list txin_state),
  let res := fst (sign_tx hash160 sha256 verifies sign pub_of sighash_tx db p2sh forkid ht idxs inputs) in
  length res = length inputs /\
  forall j pz ss w, nth_error inputs j = Some (pz, ss, w) ->
    (~ In j idxs \/ eval_input hash160 sha256 verifies (sighash_tx j) LAX pz ss w = true) ->
    nth_error res j = Some (ss, w).
Proof. exact sign_tx_frame. Qed.

(* ---- no exception escapes Tx.sign -------------------------------------------------------------------------------- *)
(* On every input inside the contract's domain (push-only scriptSig), whatever it already holds — stale signatures,
   placeholders, garbage pushes — one iteration of Solver.sign returns (the input is rewritten or left as it was);
   hypotheses: the effective hash type fits a byte and the coin defines its digest. *)
Theorem C05_sign_never_raises :
  forall (hash160 sha256 : bytes -> bytes) (verifies : bytes -> bytes -> bytes -> bool) (sign : bytes -> bytes -> bytes)
         (pub_of : bytes -> bool -> bytes) (sighash : bool -> N -> bytes -> option bytes)
         (db : lookup) (p2sh : list bytes) (forkid : bool) (pz : puzzle) (hto : option N) (ss : bytes) (w : list bytes),
  existing_blobs ss w <> None ->
  effective_hash_type forkid hto < 256 ->
  (forall wit sc, sighash wit (effective_hash_type forkid hto) sc <> None) ->
  exists st, sign_input hash160 sha256 verifies sign pub_of sighash db p2sh forkid pz hto ss w = Ret st.
Proof. exact sign_input_no_crash. Qed.

(* ---- key-supply HISTORIES: one Keychain object across calls, passes and transactions ----------------------------- *)
(* Model/SolveKeychain.v is pycoin/key/Keychain.py (as repaired in /repo bacec40 and 50fdc0a) as a state machine:
   HASH160 rows (hash160, path, fingerprint) and P2S rows, the secrets, the secret-exponent cache; a history is any list
   of add_key_paths / add_keys_path / add_secret / add_p2s_script / get / clear_secrets operations (a Tx.sign pass is a
   sequence of get calls), `kc_run kc_empty ops` its final state.  Keys are opaque: kfp = fingerprint,
   derive kid path = the subkey's secret exponent (path [] = the key itself).
   Hypotheses of this block: no two (secret, form) pairs share a hash160; fingerprints identify keys. *)
Section C05_keychain.
Variable hash160 : bytes -> bytes.
Variable sha256 : bytes -> bytes.
Variable pub_of : bytes -> bool -> bytes.
Variable kfp : bytes -> bytes.
Variable derive : bytes -> bytes -> bytes.
Hypothesis key_hash_injective :
  forall se c se' c', key_hash hash160 pub_of se c = key_hash hash160 pub_of se' c' -> se = se' /\ c = c'.
Hypothesis fingerprint_injective : forall a b : bytes, kfp a = kfp b -> a = b.

(* HISTORY INDEPENDENCE: after ANY history the answer of get() for ANY hash is the answer of a keychain built afresh
   from the same tables and secrets and asked once.  A lookup made before the secret existed, a failed signing attempt
   with a watch-only keychain, secrets added in several steps, clear_secrets, other transactions signed in between,
   lookups of the other form of the same key: none of it changes what the keychain answers. *)
Theorem C05_keychain_history_independent :
  forall (ops : list kop) (h : bytes),
  let k := fst (kc_run hash160 sha256 pub_of kfp derive kc_empty ops) in
  fst (kc_get hash160 sha256 pub_of kfp derive k h) = kc_fresh_get hash160 sha256 pub_of kfp derive k h.
Proof. exact (history_independent hash160 sha256 pub_of kfp derive key_hash_injective fingerprint_injective). Qed.

(* SOUNDNESS: get() hands out a key only if its secret is known to what the keychain holds NOW — an added private
   key's own secret, or a subkey named by one of the hash's rows with the private key of that fingerprint present; in
   particular nothing before add_secret and nothing after clear_secrets. *)
Theorem C05_keychain_never_a_key_without_its_secret :
  forall (ops : list kop) (h se : bytes) (c : bool),
  let k := fst (kc_run hash160 sha256 pub_of kfp derive kc_empty ops) in
  fst (kc_get hash160 sha256 pub_of kfp derive k h) = KEntry se c ->
  h = key_hash hash160 pub_of se c /\ derivable_at kfp derive k h se.
Proof. exact (sound hash160 sha256 pub_of kfp derive fingerprint_injective). Qed.

(* COMPLETENESS: a route filed by add_key_paths at ANY point of the history — before or after the secret, before or
   after other routes to the same key, before or after failed lookups — with its private key present at the end: the
   subkey is answered, under its compressed and under its uncompressed hash. *)
Theorem C05_keychain_complete :
  forall (ops1 ops2 : list kop) (kid path : bytes) (c : bool),
  let k := fst (kc_run hash160 sha256 pub_of kfp derive kc_empty (ops1 ++ KAddPaths kid [path] :: ops2)) in
  In kid (kc_secrets k) ->
  p2s_get hash160 sha256 (kc_p2s k) (key_hash hash160 pub_of (derive kid path) c) = None ->
  fst (kc_get hash160 sha256 pub_of kfp derive k (key_hash hash160 pub_of (derive kid path) c)) = KEntry (derive kid path) c.
Proof. exact (complete hash160 sha256 pub_of kfp derive key_hash_injective fingerprint_injective). Qed.

(* ... and a private key that was added itself is answered under both of its hashes *)
Theorem C05_keychain_complete_added_key :
  forall (ops : list kop) (kid : bytes) (c : bool),
  let k := fst (kc_run hash160 sha256 pub_of kfp derive kc_empty ops) in
  p2s_get hash160 sha256 (kc_p2s k) (key_hash hash160 pub_of (derive kid []) c) = None -> In kid (kc_secrets k) ->
  fst (kc_get hash160 sha256 pub_of kfp derive k (key_hash hash160 pub_of (derive kid []) c)) = KEntry (derive kid []) c.
Proof. exact (complete_added hash160 sha256 pub_of kfp derive key_hash_injective fingerprint_injective). Qed.
End C05_keychain.

(* ---- non-vacuity: a toy instance of the abstract interface (Proofs/SolveToyC05.v) ------------------------------ *)
(* the interface hypotheses of Section C05 are jointly satisfiable *)
Example C05_interface_hypotheses_satisfiable : toy_interface.
Proof. exact toy_interface_holds. Qed.
(* so are the hypotheses of the validity theorems (2-of-3 P2SH-P2WSH, all keys in the table, SINGLE|ANYONECANPAY) *)
Example C05_validates_hypotheses_satisfiable : toy_validates_hypotheses.
Proof. exact toy_validates_hypotheses_hold. Qed.
(* and those of the partial-signing theorem (exclusivity, placeholder, two passes with different hash types) *)
Example C05_partial_signing_hypotheses_satisfiable : forall fl, toy_partial_hypotheses fl.
Proof. exact toy_partial_hypotheses_hold. Qed.
(* the model and the evaluator computed inside Coq on that instance: not valid after no / one pass, valid under the
   standard flag set after both passes in either order, the same bytes whatever the order, 1 resp. 2 keys covered *)
Example C05_model_runs_on_toy_instance :
  toy_valid (STD false) (toy_run []) = false /\
  toy_valid (STD false) (toy_run [toy_pass1]) = false /\ toy_valid LAX (toy_run [toy_pass1]) = false /\
  toy_valid (STD false) (toy_run [toy_pass2]) = false /\
  toy_valid (STD false) (toy_run [toy_pass1; toy_pass2]) = true /\
  toy_valid (STD false) (toy_run [toy_pass2; toy_pass1]) = true /\
  toy_run [toy_pass1; toy_pass2] = toy_run [toy_pass2; toy_pass1; toy_pass1] /\
  ncovered t_hash160 t_pub_of toy_ks [toy_pass1] = 1%nat /\ ncovered t_hash160 t_pub_of toy_ks [toy_pass1; toy_pass2] = 2%nat.
Proof. exact toy_runs. Qed.

(* ---- the regenerated constants (placeholder, opcodes, flag values, 520 / 10 000 / 1000 limits, fork-id coins) --- *)
Theorem C05_generated_constants : gen_c05_consts_ok = true.
Proof. exact gen_c05_consts. Qed.

Print Assumptions C05_template_validates_multisig.
Print Assumptions C05_template_validates_single_key.
Print Assumptions C05_standard_valid_is_push_only_minimal.
Print Assumptions C05_standard_multisig_stack_shape.
Print Assumptions C05_partial_signing_order_free.
Print Assumptions C05_frame.
Print Assumptions C05_sign_never_raises.
Print Assumptions C05_keychain_history_independent.
Print Assumptions C05_keychain_never_a_key_without_its_secret.
Print Assumptions C05_keychain_complete.
Print Assumptions C05_keychain_complete_added_key.
Print Assumptions C05_generated_constants.
