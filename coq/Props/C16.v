(* stub: replaced below *)
From PV Require Import Model.Streamer.
