(* Props/C16.v — property C16: peer-to-peer messages round-trip through pack and parse for every message type,
   and the packed bytes are the wire encoding of the fields.  Only statements; every proof is `exact <lemma>`.

   Model   : Model/Streamer.v   (Streamer.parse_struct / stream_struct, the 16 field codecs, pack_from_data /
             parse_from_data with the tuple / array conventions, PeerAddress / InvItem)
   Spec    : Spec/WireC16.v     (declared types `wt`, wire forms `wire*`, the protocol's layout table)
   Table   : Gen/GenMessages.v  (STANDARD_P2P_MESSAGES, regenerated from /repo on every run)

   The transaction, block and block-header codecs (format characters T, B, z) belong to C07 / C14: they are
   parameters here and enter only through the frame round-trip hypotheses frame_T / frame_B / frame_z.
   post_unpack_merkleblock (the merkle-proof check, C14) is the parameter post_merkleblock: for merkleblock the
   field-level round trip (pack, wire bytes, parse_message) is unconditional and parse_from_data is stated for
   values on which the post-processing succeeds.  alert is covered for EVERY payload (the alert finding was
   repaired in /repo: post_unpack_alert now sets alert_info = None when the payload is not a serialized alert). *)
From PV Require Import Base.Bytes Base.Outcome Base.Varint Gen.GenMessages Model.Streamer Spec.WireC16
  Proofs.StreamerP.
From Coq Require Import Permutation.
Local Open Scope N_scope.

(* ---- the regenerated layout table: a typo in /repo re-fails one of these ----------------------------------- *)
(* every layout text reads as single registered characters or one-level arrays of them, prints back to itself,
   message names and field names are distinct, the optional boolean 'O' is only ever a last field *)
Theorem C16_table_well_formed : table_ok std_messages = true /\ layout_ok alert_layout = true.
Proof. exact (conj std_table_ok std_alert_layout_ok). Qed.

(* same messages, same order, same field types as the hand-written protocol table of Spec/WireC16.v *)
Theorem C16_layouts_are_the_protocol_layouts : layouts_match std_messages protocol_layouts = true.
Proof. exact std_layouts_match. Qed.

(* the characters registered in network.message's streamer are exactly the sixteen codecs of the model *)
Theorem C16_registered_characters : forall c, In c registered_chars <-> exists k, codec_of_char c = Some k.
Proof. exact registered_chars_exact. Qed.

Theorem C16_post_unpack_names : post_unpack_names = [str "alert"; str "merkleblock"].
Proof. exact std_post_unpack_names. Qed.

(* ---- helper objects --------------------------------------------------------------------------------------- *)
(* PeerAddress: IPv4 (4 bytes -> ::ffff:a.b.c.d) and IPv6 (16 bytes) forms, everything else refused *)
Theorem C16_peer_address_forms : forall (TxV BlockV HdrV : Type) (s : Z) (ip : bytes) (p : Z),
  (length ip = 4%nat -> @mk_addr TxV BlockV HdrV ip4_header s ip p = Ret (VAddr s (ip4_header ++ ip) p)
                        /\ length (ip4_header ++ ip) = 16%nat) /\
  (length ip = 16%nat -> @mk_addr TxV BlockV HdrV ip4_header s ip p = Ret (VAddr s ip p)) /\
  (length ip <> 4%nat -> length ip <> 16%nat -> @mk_addr TxV BlockV HdrV ip4_header s ip p = Raise E_ASSERT).
Proof. exact (@peer_address_forms). Qed.

Theorem C16_inv_item_forms : forall (TxV BlockV HdrV : Type) (t : Z) (d : bytes),
  (length d = 32%nat -> (t = 1 \/ t = 2 \/ t = 3)%Z -> @mk_inv TxV BlockV HdrV inv_checked_types t d false = Ret (VInv t d)) /\
  (length d = 32%nat -> @mk_inv TxV BlockV HdrV inv_checked_types t d true = Ret (VInv t d)) /\
  (length d <> 32%nat -> forall dc, @mk_inv TxV BlockV HdrV inv_checked_types t d dc = Raise E_ASSERT).
Proof. exact (@inv_item_forms). Qed.

Section C16.
Variables TxV BlockV HdrV : Type.
Variable parse_T : parser TxV.
Variable stream_T : TxV -> bytes.
Variable parse_B : parser BlockV.
Variable stream_B : BlockV -> bytes.
Variable parse_z : parser HdrV.
Variable stream_z : HdrV -> bytes.
Variable header_of : BlockV -> HdrV.
Variable ip4 : bytes.          (* the codec theorems hold for any IP4_HEADER / checked-type list *)
Variable ict : list Z.
Hypothesis frame_T : forall v rest, parse_T (stream_T v ++ rest) = Ret (v, rest).
Hypothesis frame_B : forall v rest, parse_B (stream_B v ++ rest) = Ret (v, rest).
Hypothesis frame_z : forall v rest, parse_z (stream_z v ++ rest) = Ret (v, rest).
Variable post_merkleblock : list (bytes * pyval TxV BlockV HdrV) -> outcome (list (bytes * pyval TxV BlockV HdrV)).

Notation pyv := (pyval TxV BlockV HdrV).
Notation sc := (stream_codec stream_T stream_B stream_z header_of).
Notation pc := (parse_codec parse_T parse_B parse_z ip4 ict).
Notation ss := (stream_struct stream_T stream_B stream_z header_of).
Notation ps := (parse_struct parse_T parse_B parse_z ip4 ict).
Notation wire_ := (wire stream_T stream_B stream_z).
Notation wire_tuple_ := (wire_tuple stream_T stream_B stream_z).
Notation wire_message_ := (wire_message stream_T stream_B stream_z).
Notation named L := (L TxV BlockV HdrV parse_T stream_T parse_B stream_B parse_z stream_z header_of ip4 ict
                       frame_T frame_B frame_z) (only parsing).

(* ---- per-codec frame round trips: value-range hypotheses explicit; `rest` is whatever follows on the wire -- *)
(* all sixteen at once: a value of the declared type is written as its wire form and read back *)
Theorem C16_codec_roundtrip_all : forall k (v : pyv) rest,
  wt k v -> (k = CO -> v = VNone -> rest = []) ->
  sc k v = Ret (wire_ k v) /\ pc k (wire_ k v ++ rest) = Ret (v, rest).
Proof. exact (named codec_frame). Qed.

Theorem C16_codec_roundtrip_I : forall (z : Z) rest, (0 <= z < 2 ^ 64)%Z ->
  sc CI (VInt z) = Ret (compact_size (Z.to_N z)) /\ pc CI (compact_size (Z.to_N z) ++ rest) = Ret (VInt z, rest).
Proof. exact (named rt_I). Qed.
Theorem C16_codec_roundtrip_S : forall (b : bytes) rest, N.of_nat (length b) < 2 ^ 63 ->
  sc CS (VBytes b) = Ret (compact_size (N.of_nat (length b)) ++ b) /\
  pc CS ((compact_size (N.of_nat (length b)) ++ b) ++ rest) = Ret (VBytes b, rest).
Proof. exact (named rt_S). Qed.
Theorem C16_codec_roundtrip_h : forall (z : Z) rest, (0 <= z < 2 ^ 16)%Z ->
  sc Ch (VInt z) = Ret (be_bytes 2 (Z.to_N z)) /\ pc Ch (be_bytes 2 (Z.to_N z) ++ rest) = Ret (VInt z, rest).
Proof. exact (named rt_h). Qed.
Theorem C16_codec_roundtrip_L : forall (z : Z) rest, (0 <= z < 2 ^ 32)%Z ->
  sc CL (VInt z) = Ret (le_bytes 4 (Z.to_N z)) /\ pc CL (le_bytes 4 (Z.to_N z) ++ rest) = Ret (VInt z, rest).
Proof. exact (named rt_L). Qed.
Theorem C16_codec_roundtrip_Q : forall (z : Z) rest, (0 <= z < 2 ^ 64)%Z ->
  sc CQ (VInt z) = Ret (le_bytes 8 (Z.to_N z)) /\ pc CQ (le_bytes 8 (Z.to_N z) ++ rest) = Ret (VInt z, rest).
Proof. exact (named rt_Q). Qed.
Theorem C16_codec_roundtrip_1 : forall (z : Z) rest, (0 <= z < 2 ^ 8)%Z ->
  sc C1 (VInt z) = Ret (le_bytes 1 (Z.to_N z)) /\ pc C1 (le_bytes 1 (Z.to_N z) ++ rest) = Ret (VInt z, rest).
Proof. exact (named rt_1). Qed.
Theorem C16_codec_roundtrip_6 : forall (z : Z) rest, (0 <= z < 2 ^ 48)%Z ->
  sc C6 (VInt z) = Ret (le_bytes 6 (Z.to_N z)) /\ pc C6 (le_bytes 6 (Z.to_N z) ++ rest) = Ret (VInt z, rest).
Proof. exact (named rt_6). Qed.
(* '#' : 32-byte hash, '@' : 16-byte address — the length hypothesis is what the proof forces ... *)
Theorem C16_codec_roundtrip_hash : forall (b : bytes) rest, length b = 32%nat ->
  sc CHash (VBytes b) = Ret b /\ pc CHash (b ++ rest) = Ret (VBytes b, rest).
Proof. exact (named rt_hash). Qed.
Theorem C16_codec_roundtrip_at : forall (b : bytes) rest, length b = 16%nat ->
  sc CAt (VBytes b) = Ret b /\ pc CAt (b ++ rest) = Ret (VBytes b, rest).
Proof. exact (named rt_at). Qed.
(* ... and it is necessary: the code writes v[:n] and reads n bytes unchecked, so any other length does not come
   back (a longer value is truncated, a shorter one swallows what follows) unless it is short and last *)
Theorem C16_fixed_length_is_necessary : forall k n (b : bytes) rest,
  (k = CHash /\ n = 32%nat) \/ (k = CAt /\ n = 16%nat) ->
  sc k (VBytes b) = Ret (firstn n b) /\
  (pc k (firstn n b ++ rest) = Ret (VBytes b, rest) -> length b = n \/ (rest = [] /\ (length b < n)%nat)).
Proof. exact (named fixed_length_necessary). Qed.
Theorem C16_codec_roundtrip_b : forall (b : bool) rest,
  sc Cb (VBool b) = Ret [bool_byte b] /\ pc Cb (bool_byte b :: rest) = Ret (VBool b, rest).
Proof. exact (named rt_b). Qed.
(* PeerAddress: services u64 little-endian, 16 address bytes, port u16 in network order *)
Theorem C16_codec_roundtrip_A : forall (s : Z) (ip : bytes) (p : Z) rest,
  (0 <= s < 2 ^ 64)%Z -> length ip = 16%nat -> (0 <= p < 2 ^ 16)%Z ->
  sc CA (VAddr s ip p) = Ret (le_bytes 8 (Z.to_N s) ++ ip ++ be_bytes 2 (Z.to_N p)) /\
  pc CA ((le_bytes 8 (Z.to_N s) ++ ip ++ be_bytes 2 (Z.to_N p)) ++ rest) = Ret (VAddr s ip p, rest).
Proof. exact (named rt_A). Qed.
(* InvItem: type u32 little-endian, 32-byte hash *)
Theorem C16_codec_roundtrip_v : forall (t : Z) (d : bytes) rest, (0 <= t < 2 ^ 32)%Z -> length d = 32%nat ->
  sc Cv (VInv t d) = Ret (le_bytes 4 (Z.to_N t) ++ d) /\
  pc Cv ((le_bytes 4 (Z.to_N t) ++ d) ++ rest) = Ret (VInv t d, rest).
Proof. exact (named rt_v). Qed.
Theorem C16_codec_roundtrip_T : forall (t : TxV) rest,
  sc CT (VTx t) = Ret (stream_T t) /\ pc CT (stream_T t ++ rest) = Ret (VTx t, rest).
Proof. exact (named rt_T). Qed.
Theorem C16_codec_roundtrip_B : forall (b : BlockV) rest,
  sc CB (VBlock b) = Ret (stream_B b) /\ pc CB (stream_B b ++ rest) = Ret (VBlock b, rest).
Proof. exact (named rt_B). Qed.
Theorem C16_codec_roundtrip_z : forall (h : HdrV) rest,
  sc Cz (VHdr h) = Ret (stream_z h) /\ pc Cz (stream_z h ++ rest) = Ret (VHdr h, rest).
Proof. exact (named rt_z). Qed.
(* optional boolean: present = one byte; absent = no byte, which can only be read back at the end of the stream *)
Theorem C16_codec_roundtrip_O_present : forall (b : bool) rest,
  sc CO (VBool b) = Ret [bool_byte b] /\ pc CO (bool_byte b :: rest) = Ret (VBool b, rest).
Proof. exact (named rt_O_present). Qed.
Theorem C16_codec_roundtrip_O_absent : sc CO VNone = Ret [] /\ pc CO [] = Ret (VNone, []).
Proof. exact (rt_O_absent TxV BlockV HdrV parse_T stream_T parse_B stream_B parse_z stream_z header_of ip4 ict). Qed.
Theorem C16_O_absent_only_at_end : forall s r, pc CO s = Ret (VNone, r) -> s = [].
Proof. exact (O_absent_only_at_end TxV BlockV HdrV parse_T parse_B parse_z ip4 ict). Qed.
(* outside the declared type: the 6-byte codec takes any u64 and silently keeps the low 48 bits *)
Theorem C16_six_byte_codec_truncates : forall (z : Z) rest, (0 <= z < 2 ^ 64)%Z ->
  sc C6 (VInt z) = Ret (le_bytes 6 (Z.to_N z)) /\
  pc C6 (le_bytes 6 (Z.to_N z) ++ rest) = Ret (VInt (z mod 2 ^ 48), rest).
Proof. exact (named six_truncates). Qed.

(* ---- struct round trip, by induction on the format ------------------------------------------------------------- *)
Theorem C16_struct_roundtrip : forall ks (vs : list pyv),
  Forall2 wt ks vs -> existsb (codec_eqb CO) ks = false ->
  ss (map char_of ks) vs = Ret (wire_tuple_ ks vs) /\
  forall rest n, (length ks <= n)%nat -> ps n (map char_of ks) (wire_tuple_ ks vs ++ rest) = Ret (vs, rest).
Proof. exact (named tuple_frame). Qed.

(* fuel = length of the format text always suffices, for every input (the data never consumes fuel) *)
Theorem C16_parse_fuel_sufficient : forall layout data,
  (forall s, parse_T s <> OutOfFuel) -> (forall s, parse_B s <> OutOfFuel) -> (forall s, parse_z s <> OutOfFuel) ->
  parse_message parse_T parse_B parse_z ip4 ict layout data <> OutOfFuel.
Proof. exact (parse_message_no_oof TxV BlockV HdrV parse_T parse_B parse_z ip4 ict). Qed.

(* ---- every message of ANY table that passes table_ok ------------------------------------------------------------ *)
Theorem C16_all_messages_generic : forall msgs, table_ok msgs = true ->
  forall name layout, In (name, layout) msgs ->
  exists fts, layout_ftypes layout = Some fts /\
  forall (vals : list pyv) kwargs, Forall2 wt_field fts vals ->
    (forall nm v, In (nm, v) (combine (map fst layout) vals) -> str_lookup kwargs nm = Some v) ->
    pack_from_data stream_T stream_B stream_z header_of msgs name kwargs = Ret (wire_message_ fts vals) /\
    parse_message parse_T parse_B parse_z ip4 ict layout (wire_message_ fts vals)
      = Ret (combine (map fst layout) vals, []) /\
    forall al post, name <> str "alert" -> name <> str "merkleblock" ->
      parse_from_data parse_T parse_B parse_z ip4 ict msgs al post name (wire_message_ fts vals)
        = Ret (combine (map fst layout) vals).
Proof. exact (named all_messages_generic). Qed.
(* ---- keyword arguments are matched by NAME (seeded change C16-e1 packed them in the caller's order) ------------- *)
(* pack(name, **kwargs): any reordering of the keyword arguments (a dict has distinct keys) gives the same bytes or the
   same exception; more generally the result depends on kwargs only through the lookups of the layout's field names *)
Theorem C16_pack_keyword_order_independent : forall msgs name (k1 k2 : list (bytes * pyv)),
  Permutation k1 k2 -> NoDup (map fst k1) ->
  pack_from_data stream_T stream_B stream_z header_of msgs name k1
  = pack_from_data stream_T stream_B stream_z header_of msgs name k2.
Proof. exact (pack_kwargs_order_independent TxV BlockV HdrV stream_T stream_B stream_z header_of). Qed.

Theorem C16_pack_depends_on_lookups_only : forall msgs name (k1 k2 : list (bytes * pyv)),
  (forall nm, str_lookup k1 nm = str_lookup k2 nm) ->
  pack_from_data stream_T stream_B stream_z header_of msgs name k1
  = pack_from_data stream_T stream_B stream_z header_of msgs name k2.
Proof. exact (pack_lookup_ext TxV BlockV HdrV stream_T stream_B stream_z header_of). Qed.
End C16.

Section C16_std.
Variables TxV BlockV HdrV : Type.
Variable parse_T : parser TxV.
Variable stream_T : TxV -> bytes.
Variable parse_B : parser BlockV.
Variable stream_B : BlockV -> bytes.
Variable parse_z : parser HdrV.
Variable stream_z : HdrV -> bytes.
Variable header_of : BlockV -> HdrV.
Hypothesis frame_T : forall v rest, parse_T (stream_T v ++ rest) = Ret (v, rest).
Hypothesis frame_B : forall v rest, parse_B (stream_B v ++ rest) = Ret (v, rest).
Hypothesis frame_z : forall v rest, parse_z (stream_z v ++ rest) = Ret (v, rest).
Variable post_merkleblock : list (bytes * pyval TxV BlockV HdrV) -> outcome (list (bytes * pyval TxV BlockV HdrV)).
Notation pyv := (pyval TxV BlockV HdrV).
(* network.message.pack / parse of the model, with the REGENERATED tables *)
Notation std_pack := (pack_from_data stream_T stream_B stream_z header_of std_messages).
Notation std_parse_message := (parse_message parse_T parse_B parse_z ip4_header inv_checked_types).
Notation std_parse := (parse_from_data parse_T parse_B parse_z ip4_header inv_checked_types std_messages alert_layout post_merkleblock).
Notation wire_message_ := (wire_message stream_T stream_B stream_z).

(* C16, field level, all messages of the generated table, no exclusion:
   for every (name, layout) of STANDARD_P2P_MESSAGES, every list of field values of the declared types
   (`wt_field`: integer ranges, 32/16-byte strings, arrays below 2^64 elements of well-typed tuples ...) and any
   keyword arguments that supply them (any order, extra keywords allowed):
     pack = the wire encoding of the fields;
     reading it back gives exactly those values under their field names, with NO byte left;
     network.message.parse returns the same dict for every message without post-processing. *)
Theorem C16_all_messages : forall name layout, In (name, layout) std_messages ->
  exists fts, layout_ftypes layout = Some fts /\
  forall (vals : list pyv) kwargs, Forall2 wt_field fts vals ->
    (forall nm v, In (nm, v) (combine (map fst layout) vals) -> str_lookup kwargs nm = Some v) ->
    std_pack name kwargs = Ret (wire_message_ fts vals) /\
    std_parse_message layout (wire_message_ fts vals) = Ret (combine (map fst layout) vals, []) /\
    (name <> str "alert" -> name <> str "merkleblock" ->
      std_parse name (wire_message_ fts vals) = Ret (combine (map fst layout) vals)).
Proof.
  exact (std_all_messages TxV BlockV HdrV parse_T stream_T parse_B stream_B parse_z stream_z header_of
           frame_T frame_B frame_z post_merkleblock).
Qed.

(* network.message.parse including the post-processing: alert for EVERY payload and signature (alert_info is
   appended: the parsed sub-message or None), merkleblock for values on which post_unpack_merkleblock succeeds
   and only appends keys (honest proofs, C14), every other message with nothing appended *)
Theorem C16_parse_with_post_processing : forall name layout fts (vals : list pyv),
  In (name, layout) std_messages -> layout_ftypes layout = Some fts -> Forall2 wt_field fts vals ->
  (name = str "merkleblock" -> exists extra,
      post_merkleblock (combine (map fst layout) vals) = Ret (combine (map fst layout) vals ++ extra)) ->
  exists extra, std_parse name (wire_message_ fts vals) = Ret (combine (map fst layout) vals ++ extra).
Proof.
  exact (std_parse_from_data TxV BlockV HdrV parse_T stream_T parse_B stream_B parse_z stream_z header_of
           frame_T frame_B frame_z post_merkleblock).
Qed.
End C16_std.

(* ---- presentations, constructor forms, other networks, histories -------------------------------------------------
   Histories: pack_from_data / parse_from_data of the model are FUNCTIONS of (table, name, arguments) — there is no
   state to carry from one call to the next, so every theorem above is history-independent by construction; that the
   implementation has no such state either (scratch buffers, memoised objects) is tied by the correspondence run and
   the `history` / `mutation` direct checks.  Networks: T, B, z are arbitrary codecs with the frame property — nothing
   assumes an 80-byte header (C16_variable_length_codec_frames shows a variable-length instance); the harness runs
   every pycoin.symbols network with its own Tx / Block classes.  bytes / bytearray / memoryview are one value
   (VBytes) in the model; int subclasses are ints. *)
Section C16_presentations.
Variables TxV BlockV HdrV : Type.
Variable parse_T : parser TxV.
Variable stream_T : TxV -> bytes.
Variable parse_B : parser BlockV.
Variable stream_B : BlockV -> bytes.
Variable parse_z : parser HdrV.
Variable stream_z : HdrV -> bytes.
Variable header_of : BlockV -> HdrV.
Hypothesis frame_T : forall v rest, parse_T (stream_T v ++ rest) = Ret (v, rest).
Hypothesis frame_B : forall v rest, parse_B (stream_B v ++ rest) = Ret (v, rest).
Hypothesis frame_z : forall v rest, parse_z (stream_z v ++ rest) = Ret (v, rest).
Notation pyv := (pyval TxV BlockV HdrV).
Notation sc := (stream_codec stream_T stream_B stream_z header_of).
Notation pc := (parse_codec parse_T parse_B parse_z ip4_header inv_checked_types).

(* presentation independence of pack: bool for int, int for bool, bytes for an integer array, 1-tuples for elements *)
Theorem C16_presentation_bool_as_int : forall k (b : bool), int_codec k ->
  sc k (VBool b) = sc k (VInt (if b then 1 else 0)%Z).
Proof. exact (bool_as_int TxV BlockV HdrV stream_T stream_B stream_z header_of). Qed.
Theorem C16_presentation_int_as_bool : forall b : bool,
  sc Cb (VInt (if b then 1 else 0)%Z) = sc Cb (VBool b) /\ sc CO (VInt (if b then 1 else 0)%Z) = sc CO (VBool b).
Proof. exact (int_as_bool TxV BlockV HdrV stream_T stream_B stream_z header_of). Qed.
Theorem C16_presentation_bytes_as_array : forall rest (b : bytes),
  pack_field stream_T stream_B stream_z header_of (lbracket :: rest) (VBytes b) =
  pack_field stream_T stream_B stream_z header_of (lbracket :: rest) (VTuple (map (fun x => VInt (b2z x)) b)).
Proof. exact (bytes_as_array TxV BlockV HdrV stream_T stream_B stream_z header_of). Qed.
Theorem C16_presentation_one_tuple_as_bare : forall sub (e : pyv) r, match e with VTuple _ => False | _ => True end ->
  pack_elems stream_T stream_B stream_z header_of sub (VTuple [e] :: r) =
  pack_elems stream_T stream_B stream_z header_of sub (e :: r).
Proof. exact (one_tuple_as_bare TxV BlockV HdrV stream_T stream_B stream_z header_of). Qed.

(* every accepted constructor form packs and parses back to an EQUAL object (same constructor result) *)
Theorem C16_peer_address_constructed_roundtrip : forall (s : Z) (ip : bytes) (p : Z) rest,
  (0 <= s < 2 ^ 64)%Z -> (0 <= p < 2 ^ 16)%Z -> length ip = 4%nat \/ length ip = 16%nat ->
  exists a bs, mk_addr ip4_header s ip p = Ret a /\ sc CA a = Ret bs /\ pc CA (bs ++ rest) = Ret (a, rest).
Proof.
  exact (peer_address_constructed_roundtrip TxV BlockV HdrV parse_T stream_T parse_B stream_B parse_z stream_z header_of
           frame_T frame_B frame_z).
Qed.
Theorem C16_inv_item_constructed_roundtrip : forall (t : Z) (d : bytes) (dc : bool) (a : pyv) rest,
  (0 <= t < 2 ^ 32)%Z -> mk_inv inv_checked_types t d dc = Ret a ->
  exists bs, sc Cv a = Ret bs /\ pc Cv (bs ++ rest) = Ret (a, rest).
Proof.
  exact (inv_item_constructed_roundtrip TxV BlockV HdrV parse_T stream_T parse_B stream_B parse_z stream_z header_of
           frame_T frame_B frame_z).
Qed.
End C16_presentations.

(* PeerAddress(s, a.b.c.d as 4 bytes, p) IS PeerAddress(s, ::ffff:a.b.c.d, p) *)
Theorem C16_peer_address_ipv4_twin : forall (TxV BlockV HdrV : Type) (s : Z) (ip : bytes) (p : Z), length ip = 4%nat ->
  @mk_addr TxV BlockV HdrV ip4_header s ip p = @mk_addr TxV BlockV HdrV ip4_header s (ip4_header ++ ip) p.
Proof. exact (@peer_address_ipv4_twin). Qed.

(* a variable-length codec meets the frame hypothesis used for T / B / z *)
Theorem C16_variable_length_codec_frames : forall n rest, unary_parse (unary_stream n ++ rest) = Ret (n, rest).
Proof. exact unary_frame. Qed.

Print Assumptions C16_table_well_formed.
Print Assumptions C16_layouts_are_the_protocol_layouts.
Print Assumptions C16_registered_characters.
Print Assumptions C16_post_unpack_names.
Print Assumptions C16_peer_address_forms.
Print Assumptions C16_inv_item_forms.
Print Assumptions C16_codec_roundtrip_all.
Print Assumptions C16_codec_roundtrip_I.
Print Assumptions C16_codec_roundtrip_S.
Print Assumptions C16_codec_roundtrip_h.
Print Assumptions C16_codec_roundtrip_L.
Print Assumptions C16_codec_roundtrip_Q.
Print Assumptions C16_codec_roundtrip_1.
Print Assumptions C16_codec_roundtrip_6.
Print Assumptions C16_codec_roundtrip_hash.
Print Assumptions C16_codec_roundtrip_at.
Print Assumptions C16_fixed_length_is_necessary.
Print Assumptions C16_codec_roundtrip_b.
Print Assumptions C16_codec_roundtrip_A.
Print Assumptions C16_codec_roundtrip_v.
Print Assumptions C16_codec_roundtrip_T.
Print Assumptions C16_codec_roundtrip_B.
Print Assumptions C16_codec_roundtrip_z.
Print Assumptions C16_codec_roundtrip_O_present.
Print Assumptions C16_codec_roundtrip_O_absent.
Print Assumptions C16_O_absent_only_at_end.
Print Assumptions C16_six_byte_codec_truncates.
Print Assumptions C16_struct_roundtrip.
Print Assumptions C16_parse_fuel_sufficient.
Print Assumptions C16_all_messages_generic.
Print Assumptions C16_pack_keyword_order_independent.
Print Assumptions C16_pack_depends_on_lookups_only.
Print Assumptions C16_all_messages.
Print Assumptions C16_parse_with_post_processing.
Print Assumptions C16_presentation_bool_as_int.
Print Assumptions C16_presentation_int_as_bool.
Print Assumptions C16_presentation_bytes_as_array.
Print Assumptions C16_presentation_one_tuple_as_bare.
Print Assumptions C16_peer_address_constructed_roundtrip.
Print Assumptions C16_inv_item_constructed_roundtrip.
Print Assumptions C16_peer_address_ipv4_twin.
Print Assumptions C16_variable_length_codec_frames.

(* ---- non-vacuity ------------------------------------------------------------------------------------------------ *)
(* the frame hypotheses are satisfiable (a one-byte codec) ... *)
Example C16_frame_hypothesis_satisfiable :
  exists (parse_X : parser bool) (stream_X : bool -> bytes),
    forall v rest, parse_X (stream_X v ++ rest) = Ret (v, rest).
Proof.
  exists (fun s => match s with [] => Raise E_STRUCT | b :: r => Ret (negb (b2n b =? 0), r) end), (fun b => [bool_byte b]).
  intros [] rest; reflexivity.
Qed.

(* ... and so are the value hypotheses: a version message with an IPv4 and an IPv6 peer, relay absent *)
Definition ex_noparse : parser Empty_set := fun _ => Raise E_OTHER.
Definition ex_nostream : Empty_set -> bytes := fun v => match v with end.
Definition ex_version : list (pyval Empty_set Empty_set Empty_set) :=
  [VInt 70015; VInt 1; VInt 1700000000; VAddr 1 (ip4_header ++ [x01; x02; x03; x04]) 8333;
   VAddr 0 (repeatb xfe 16) 65535; VInt 18446744073709551615; VBytes (str "/pycoin/"); VInt 800000; VNone].
Example C16_version_values_well_typed :
  Forall2 wt_field [FOne CL; FOne CQ; FOne CQ; FOne CA; FOne CA; FOne CQ; FOne CS; FOne CL; FOne CO] ex_version.
Proof. repeat constructor; cbn; unfold zrange; cbn; lia. Qed.
Example C16_version_roundtrip_computed :
  let names := map fst [(str "version", 0); (str "services", 0); (str "timestamp", 0); (str "remote_address", 0);
                        (str "local_address", 0); (str "nonce", 0); (str "subversion", 0); (str "last_block_index", 0);
                        (str "relay", 0)] in
  exists bs,
    pack_from_data ex_nostream ex_nostream ex_nostream (fun b => b) std_messages (str "version") (combine names ex_version) = Ret bs /\
    length bs = 93%nat /\
    parse_from_data ex_noparse ex_noparse ex_noparse ip4_header inv_checked_types std_messages alert_layout
      (fun d => Ret d) (str "version") bs = Ret (combine names ex_version).
Proof. vm_compute. eexists. split; [reflexivity|split; reflexivity]. Qed.
