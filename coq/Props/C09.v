(* Props/C09.v — property C09: hierarchical key derivation follows BIP32 and commutes with going public; extended keys
   round-trip through their text form; the sub-key cache is transparent; path spellings and ranges; Electrum wallets.
   Only statements; every proof is `exact <lemma of Proofs/Bip32P.v>`.

   Everything is stated over the model Model/Bip32.v, for EVERY group / encoding / hash satisfying the hypotheses that
   appear in the statement (Section variables: after `End` each theorem is quantified over them and over exactly the
   hypotheses it uses; `Print Assumptions` at the end of the file).  Auxiliary definitions used in the statements live
   in Proofs/Bip32P.v:
     wf_node        what BIP32Node.__init__ guarantees (chain code 32 bytes, fingerprint 4 bytes, point not at infinity,
                    1 <= k < n and point = k*G for a private node)
     neuter_node    the same node without the secret (what public_copy returns)
     child_number i h = i + 2^31 if h else i;   first_I64 / first_IL: the HMAC-SHA512 of the first attempt and its left half
     xkey_of        a node as the BIP's extended key with its serialization bookkeeping
     derive_raw, op_raw, subkey_for_path_raw, subkeys_raw: the uncached reference semantics of call histories
     row_net, net_ok, codec_mismatch, shown, ser_ok: table rows as model records, what a round trip needs of a row
     ritem, render_range, expand_component, item_ok: structured path ranges and their rendering as text *)
From Coq Require Import List ZArith NArith Bool String.
From Coq Require Import Strings.Byte.
From PV Require Import Base.Bytes Base.Outcome Gen.GenBip32Prefixes Model.Bip32 Spec.Bip32Spec Proofs.Bip32P.
Import ListNotations.
Local Open Scope Z_scope.

Section C09.
Variable pt : Type.
Variable padd : pt -> pt -> pt.
Variable pO : pt.
Variable smul : Z -> pt -> pt.
Variable pG : pt.
Variable order : Z.
Variable pt_eqb : pt -> pt -> bool.
Variable sec : pt -> bytes.
Variable xy : pt -> bytes.
Variable unsec : bytes -> outcome pt.
Variable hmac512 : bytes -> bytes -> bytes.
Variable hash160 : bytes -> bytes.
Variable dsha256 : bytes -> bytes.
Variable b58enc : N -> bytes -> bytes.
Variable b58dec : N -> bytes -> option bytes.
Variable loop_fuel : nat.

Hypothesis order_range : 1 < order <= 2 ^ 256.
Hypothesis smul_add : forall a b, smul (a + b) pG = padd (smul a pG) (smul b pG).
Hypothesis smul_mod : forall a, smul (a mod order) pG = smul a pG.
Hypothesis smul_zero : forall a, smul a pG = pO <-> a mod order = 0.
Hypothesis pt_eqb_spec : forall P Q, pt_eqb P Q = true <-> P = Q.
Hypothesis hmac_len : forall k m, length (hmac512 k m) = 64%nat.
Hypothesis hash160_len : forall b, length (hash160 b) = 20%nat.
Hypothesis sec_len : forall P, P <> pO -> length (sec P) = 33%nat.
Hypothesis sec_head : forall P, P <> pO -> exists b r, sec P = b :: r /\ b <> x00.
Hypothesis unsec_sec : forall P, P <> pO -> unsec (sec P) = Ret P.
Hypothesis fuel_pos : (0 < loop_fuel)%nat.                         (* the retry loop may run at least once *)
Hypothesis b58_roundtrip : forall c b, b58dec c (b58enc c b) = Some b.   (* C11's theorem, per checksum codec *)

Notation node := (node pt).
Notation wf := (wf_node pt pO smul pG order).
Notation neuter := (neuter_node pt).
Notation m_subkey_raw := (subkey_raw pt padd pO smul pG order pt_eqb sec hmac512 hash160 loop_fuel).
Notation m_public_copy := (public_copy pt pO smul pG order pt_eqb).
Notation m_master := (from_master_secret pt pO smul pG order pt_eqb hmac512).
Notation IL := (first_IL pt sec hmac512).
Notation I64 := (first_I64 pt sec hmac512).
Notation s_child := (Bip32Spec.child pt padd pO smul pG order pt_eqb sec hmac512 hash160).
Notation s_master := (Bip32Spec.master pt order hmac512).
Notation s_derive := (Bip32Spec.derive pt padd pO smul pG order pt_eqb sec hmac512 hash160).
Notation xk := (xkey_of pt).

(* ---- C09_ckd_is_bip32: the model computes what the BIP defines, whenever the BIP defines a key ---- *)
Theorem C09_master_is_bip32 : forall seed,
  match s_master seed with
  | Some x => exists nd, m_master seed = Ret nd /\ xk nd = x /\ wf nd
  | None => m_master seed = Raise E_SECRET
  end.
Proof. exact (master_is_bip32 pt padd pO smul pG order pt_eqb sec hmac512 hash160 loop_fuel order_range smul_zero pt_eqb_spec hmac_len fuel_pos). Qed.

(* one step: private parent (hardened or not) and public parent (not hardened); the child's depth, parent fingerprint,
   child number, chain code and key are the BIP's (all inside xkey_of) *)
Theorem C09_ckd_is_bip32 : forall (nd : node) (i : Z) (h : bool) (y : xkey pt),
  wf nd -> 0 <= i < 2 ^ 31 ->
  s_child (xk nd) (child_number i h) = Some y ->
  exists c, m_subkey_raw nd i h (is_some (nd_secret pt nd)) = Ret c /\ xk c = y /\ wf c /\
            is_some (nd_secret pt c) = is_some (nd_secret pt nd).
Proof. exact (child_is_bip32 pt padd pO smul pG order pt_eqb sec hmac512 hash160 loop_fuel order_range smul_zero pt_eqb_spec hmac_len hash160_len fuel_pos). Qed.

(* whole paths of any depth *)
Theorem C09_path_is_bip32 : forall (path : list (Z * bool)) (root : node) (y : xkey pt),
  wf root -> Forall (fun ih => 0 <= fst ih < 2 ^ 31) path ->
  s_derive (xk root) (map (fun ih => child_number (fst ih) (snd ih)) path) = Some y ->
  exists c, derive_raw pt padd pO smul pG order pt_eqb sec hmac512 hash160 loop_fuel root
              (map (fun ih => (fst ih, snd ih, is_some (nd_secret pt root))) path) = Ret c /\
            xk c = y /\ wf c.
Proof. exact (path_is_bip32 pt padd pO smul pG order pt_eqb sec hmac512 hash160 loop_fuel order_range smul_zero pt_eqb_spec hmac_len hash160_len fuel_pos). Qed.

(* the 78 bytes under the base58 text are the BIP's serialization format *)
Theorem C09_serialization_is_bip32 : forall (net : bipnet) (nd : node) (ap : bool) (prefix : bytes),
  wf nd -> ser_ok pt nd -> (ap = true -> nd_secret pt nd <> None) ->
  (if ap then bn_print_prv net else bn_print_pub net) = Some prefix ->
  hwif_data pt sec net nd ap =
  Ret (Bip32Spec.serialize_x pt sec prefix (if ap then xk nd else Bip32Spec.neuter pt smul pG (xk nd))).
Proof. exact (hwif_is_bip32 pt padd pO smul pG order pt_eqb sec hmac512 hash160 loop_fuel order_range fuel_pos). Qed.

(* ---- C09_pub_priv_commute: under exactly I_L < n and child <> 0 ---- *)
Theorem C09_pub_priv_commute : forall (nd : node) (k i : Z) (ap : bool),
  wf nd -> nd_secret pt nd = Some k -> 0 <= i < 2 ^ 31 ->
  IL nd i false < order -> (IL nd i false + k) mod order <> 0 ->
  exists child,
    m_subkey_raw nd i false true = Ret child /\                       (* private child *)
    m_subkey_raw nd i false false = Ret (neuter child) /\             (* as_private=False on the private parent *)
    m_subkey_raw (neuter nd) i false ap = Ret (neuter child).         (* the public parent derives the same node *)
Proof. exact (pub_priv_commute pt padd pO smul pG order pt_eqb sec hmac512 hash160 loop_fuel order_range smul_add smul_mod smul_zero pt_eqb_spec hmac_len hash160_len fuel_pos). Qed.

(* ... and along whole paths of non-hardened indices (hypothesis at every step, on the node reached there) *)
Theorem C09_pub_priv_commute_path : forall (path : list Z) (nd : node) (ap : bool),
  wf nd -> commute_path_ok pt padd pO smul pG order pt_eqb sec hmac512 hash160 loop_fuel nd path ->
  exists c, derive_raw pt padd pO smul pG order pt_eqb sec hmac512 hash160 loop_fuel nd (map (fun i => (i, false, true)) path) = Ret c /\
            derive_raw pt padd pO smul pG order pt_eqb sec hmac512 hash160 loop_fuel (neuter nd) (map (fun i => (i, false, ap)) path)
              = Ret (neuter c).
Proof. exact (pub_priv_commute_path pt padd pO smul pG order pt_eqb sec hmac512 hash160 loop_fuel order_range smul_add smul_mod smul_zero pt_eqb_spec hmac_len hash160_len fuel_pos). Qed.

(* outside that hypothesis: the BIP has no key on either side; the private side hashes again with 01 || I_R || index,
   the public side continues with I_L mod n and raises only for the point at infinity.  (Documented, not a finding: for
   HMAC-SHA512 and secp256k1 the event has probability about 2^-127 per derivation.) *)
Theorem C09_divergence_when_IL_ge_n : forall (nd : node) (k i : Z) (ap : bool),
  wf nd -> nd_secret pt nd = Some k -> 0 <= i < 2 ^ 31 ->
  order <= IL nd i false \/ (IL nd i false + k) mod order = 0 ->
  s_child (xk nd) i = None /\
  s_child (xk (neuter nd)) i = None /\
  subkey_secret_exponent_chain_code_pair pt smul pG order sec hmac512 loop_fuel k (nd_chain pt nd) i false (Some (nd_point pt nd)) =
    ckd_priv_loop order hmac512 (pred loop_fuel) k (nd_chain pt nd)
      (x01 :: skipn 32 (I64 nd i false) ++ be_encode 4 (Z.to_N i)) (be_encode 4 (Z.to_N i)) /\
  let Q := padd (smul (IL nd i false mod order) pG) (nd_point pt nd) in
  (Q <> pO -> m_subkey_raw (neuter nd) i false ap =
              Ret (mkNode pt (skipn 32 (I64 nd i false)) (nd_depth pt nd + 1) (fingerprint pt sec hash160 nd) i None Q)) /\
  (Q = pO -> m_subkey_raw (neuter nd) i false ap = Raise E_VALUE).
Proof. exact (divergence pt padd pO smul pG order pt_eqb sec hmac512 hash160 loop_fuel order_range smul_add smul_zero pt_eqb_spec hmac_len hash160_len fuel_pos). Qed.

(* ---- C09_hardened_refused_on_public (E_OTHER stands for PublicPrivateMismatchError) ---- *)
Theorem C09_hardened_refused_on_public : forall (nd : node) (i : Z) (ap : bool),
  nd_secret pt nd = None -> 0 <= i < 2 ^ 31 -> m_subkey_raw nd i true ap = Raise E_OTHER.
Proof. exact (subkey_raw_pub_hardened pt padd pO smul pG order pt_eqb sec hmac512 hash160 loop_fuel). Qed.

(* ---- C09_metadata: every successful _subkey, whatever the HMAC values (retries included) ---- *)
Theorem C09_metadata : forall (nd : node) (i : Z) (h ap : bool) (c : node),
  wf nd -> m_subkey_raw nd i h ap = Ret c ->
  0 <= i < 2 ^ 31 /\
  nd_depth pt c = nd_depth pt nd + 1 /\
  nd_fpr pt c = firstn 4 (hash160 (sec (nd_point pt nd))) /\
  nd_index pt c = child_number i h /\
  (exists pre, nd_chain pt c =
     skipn 32 (hmac512 (nd_chain pt nd) (pre ++ be_encode 4 (Z.to_N (child_number i h))))) /\   (* 4-byte BIG-endian index *)
  wf c.
Proof. exact (subkey_raw_metadata pt padd pO smul pG order pt_eqb sec hmac512 hash160 loop_fuel pt_eqb_spec fuel_pos). Qed.

(* ---- C09_serialize_roundtrip: every row of the regenerated table (all networks x bip32/49/84) ---- *)
Theorem C09_table_rows_ok : forall r, In r bip_prefix_table -> net_ok (row_net r) = true.
Proof. exact table_nets_ok. Qed.

Theorem C09_serialize_roundtrip : forall r (nd : node) (ap : bool),
  In r bip_prefix_table -> wf nd -> ser_ok pt nd -> (ap = true -> nd_secret pt nd <> None) ->
  exists data, hwif_data pt sec (row_net r) nd ap = Ret data /\ length data = 78%nat /\
    hparse_data pt pO smul pG order pt_eqb unsec (row_net r) ap (Some data) = Ret (Some (shown pt nd ap)) /\
    hparse_data pt pO smul pG order pt_eqb unsec (row_net r) (negb ap) (Some data) = Ret None /\
    parse_hd_data pt pO smul pG order pt_eqb unsec (row_net r) (Some data) = Ret (Some (shown pt nd ap)).
Proof.
  exact (fun r nd ap Hr => hwif_roundtrip_data pt padd pO smul pG order pt_eqb sec unsec hmac512 hash160 loop_fuel
           order_range smul_zero pt_eqb_spec sec_len sec_head unsec_sec fuel_pos (row_net r) nd ap (table_nets_ok r Hr)).
Qed.

(* no silent wrapping: serialize (hence hwif / the text form) succeeds only when the depth fits one byte and the child number
   four bytes -- exactly the nodes the round trip above covers -- and refuses a depth outside 0..255 *)
Theorem C09_serialize_only_in_range : forall (nd : node) (ap : option bool) (b : bytes),
  serialize pt sec nd ap = Ret b -> ser_ok pt nd.
Proof. exact (serialize_ret_inv pt sec). Qed.
Theorem C09_serialize_refuses_deep : forall (nd : node) (ap : option bool), ~ (0 <= nd_depth pt nd < 256) ->
  serialize pt sec nd ap = Raise E_VALUE \/ serialize pt sec nd ap = Raise E_OTHER.
Proof. exact (serialize_refuses_depth pt sec). Qed.

(* text level, every row: printer and parser of every network use the same checksum function (table fact) *)
Theorem C09_text_roundtrip : forall r (nd : node) (ap : bool),
  In r bip_prefix_table -> wf nd -> ser_ok pt nd -> (ap = true -> nd_secret pt nd <> None) ->
  exists text, hwif pt sec b58enc (row_net r) nd ap = Ret text /\
    hparse pt pO smul pG order pt_eqb unsec b58dec (row_net r) ap text = Ret (Some (shown pt nd ap)) /\
    hparse pt pO smul pG order pt_eqb unsec b58dec (row_net r) (negb ap) text = Ret None /\
    parse_hd pt pO smul pG order pt_eqb unsec b58dec (row_net r) text = Ret (Some (shown pt nd ap)).
Proof.
  exact (fun r nd ap Hr => hwif_roundtrip_text pt padd pO smul pG order pt_eqb sec unsec hmac512 hash160 b58enc b58dec loop_fuel
           order_range smul_zero pt_eqb_spec sec_len sec_head unsec_sec fuel_pos b58_roundtrip (row_net r) nd ap
           (table_nets_ok r Hr) (proj1 (N.eqb_eq _ _) (proj1 (negb_false_iff _) (table_codecs_match r Hr)))).
Qed.

(* ---- C09_cache_transparent: every call of every history returns what the uncached code returns ---- *)
Theorem C09_cache_transparent : forall (limit : Z) (root : node) (ops : list hdop),
  Forall2 (fun r o => r = RSkip pt \/ r = op_raw pt padd pO smul pG order pt_eqb sec hmac512 hash160 loop_fuel limit root o)
          (run_ops pt padd pO smul pG order pt_eqb sec hmac512 hash160 loop_fuel limit root [] ops) ops.
Proof.
  exact (fun limit root ops => run_ops_ok pt padd pO smul pG order pt_eqb sec hmac512 hash160 loop_fuel limit root ops []
           (cache_ok_nil pt padd pO smul pG order pt_eqb sec hmac512 hash160 loop_fuel root)).
Qed.
(* (RSkip only marks a call addressed to an object that no earlier call created; calls on the root are never skipped) *)
Theorem C09_root_calls_not_skipped : forall limit (root : node) c o,
  match o with
  | OpSubkey [] _ _ _ | OpPath [] _ | OpSubkeys [] _ =>
    fst (run_op pt padd pO smul pG order pt_eqb sec hmac512 hash160 loop_fuel limit root c o) <> RSkip pt
  | _ => True
  end.
Proof. exact (run_op_root_not_skipped pt padd pO smul pG order pt_eqb sec hmac512 hash160 loop_fuel). Qed.

(* ... and over a FAMILY of related objects: the initial node, every public_copy() twin and every re-deserialised copy made
   during the history (each a new object with its own empty cache, as BIP32Node.public_copy / deserialize build them), and
   the objects cached below any of them.  Every answer of every history is the cache-free answer for the object it is asked
   of (fop_raw: computed from the root node of that object by uncached derivation); in particular what one twin cached
   never shows up in an answer of the other. *)
Theorem C09_family_cache_transparent : forall (limit : Z) (root : node) (ops : list fop),
  Forall2 (fun a o => snd a = FSkip pt \/
                      snd a = fop_raw pt padd pO smul pG order pt_eqb sec unsec hmac512 hash160 loop_fuel limit (fst a) o)
          (run_fops pt padd pO smul pG order pt_eqb sec unsec hmac512 hash160 loop_fuel limit [(root, [])] ops) ops.
Proof.
  exact (fun limit root ops => run_fops_ok pt padd pO smul pG order pt_eqb sec unsec hmac512 hash160 loop_fuel limit ops [(root, [])]
           (fam_ok_single pt padd pO smul pG order pt_eqb sec hmac512 hash160 loop_fuel root)).
Qed.
(* the cache-free answers of a public-only node: hardened refused (C09_hardened_refused_on_public above) and never a node
   with a secret, whatever flags are passed *)
Theorem C09_public_never_yields_private : forall (nd : node) (i : Z) (h ap : bool) (c : node),
  nd_secret pt nd = None -> m_subkey_raw nd i h ap = Ret c -> nd_secret pt c = None.
Proof. exact (public_never_private pt padd pO smul pG order pt_eqb sec hmac512 hash160 loop_fuel). Qed.

(* ---- C09_path_spellings ---- *)
(* H, p and ' are interchangeable in every element of a path: same result, same cache afterwards *)
Theorem C09_path_spellings : forall c p (nd : node) path path' fp ts ts',
  path_tokens path = (fp, ts) -> path_tokens path' = (fp, ts') -> Forall2 same_token ts ts' ->
  subkey_for_path pt padd pO smul pG order pt_eqb sec hmac512 hash160 loop_fuel c p nd path =
  subkey_for_path pt padd pO smul pG order pt_eqb sec hmac512 hash160 loop_fuel c p nd path'.
Proof. exact (subkey_for_path_respell pt padd pO smul pG order pt_eqb sec hmac512 hash160 loop_fuel). Qed.

(* ---- C09_electrum_commute ---- *)
Theorem C09_electrum_commute : forall (w : ewallet pt) (k : Z) (path : bytes),
  wf_ew pt pO smul pG order w -> ew_secret pt w = Some k ->
  (exists c, electrum_subkey pt padd pO smul pG order pt_eqb xy dsha256 w path = Ret c /\
             wf_ew pt pO smul pG order c /\ ew_secret pt c <> None /\
             electrum_subkey pt padd pO smul pG order pt_eqb xy dsha256 (neuter_ew pt w) path = Ret (neuter_ew pt c) /\
             electrum_public_copy pt pO smul pG order pt_eqb c = Ret (neuter_ew pt c)) \/
  (exists e e', electrum_subkey pt padd pO smul pG order pt_eqb xy dsha256 w path = Raise e /\
                electrum_subkey pt padd pO smul pG order pt_eqb xy dsha256 (neuter_ew pt w) path = Raise e').
Proof. exact (electrum_commute pt padd pO smul pG order pt_eqb xy dsha256 order_range smul_add smul_mod smul_zero pt_eqb_spec). Qed.

End C09.

(* ---- group-independent parts of C09_path_spellings ---- *)
(* a path string assembled from elements splits back into them *)
Theorem C09_path_render : forall fp ts,
  Forall (fun t => contains ch_slash t = false) ts -> join ch_slash ts <> [] ->
  (fp = false -> skipn (length (join ch_slash ts) - 4) (join ch_slash ts) <> str_pub) ->
  path_tokens (render_path fp ts) = (fp, ts).
Proof. exact path_tokens_render. Qed.

(* canonical decimal elements, plain or with any of the three hardening characters, parse to (index, hardened) *)
Theorem C09_path_element : forall t c, 0 <= t -> is_hardening_char c = true ->
  path_token (py_dec t) = Ret (t, false) /\ path_token (py_dec t ++ [c]) = Ret (t, true).
Proof. exact (fun t c Ht Hc => conj (path_token_plain t Ht) (path_token_hardened t c Ht Hc)). Qed.

(* range expansion enumerates exactly the product of the components' expansions, in order *)
Theorem C09_range_expansion : forall limit comps,
  comps <> [] -> Forall (fun comp => comp <> [] /\ Forall (item_ok limit) comp) comps -> render_range comps <> [] ->
  subpaths_for_path_range limit (render_range comps) =
  Ret (map (join ch_slash) (product (map expand_component comps))).
Proof. exact subpaths_product. Qed.
Theorem C09_product_is_all_choices : forall (ls : list (list bytes)) (t : list bytes),
  (In t (product ls) <-> Forall2 (fun x l => In x l) t ls) /\
  length (product ls) = fold_right (fun l n => (length l * n)%nat) 1%nat ls.
Proof. exact (fun ls t => conj (in_product ls t) (product_length ls)). Qed.
Theorem C09_range_members : forall lo hi t, In t (zrange_list lo hi) <-> lo <= t <= hi.
Proof. exact zrange_list_spec. Qed.

(* no row of the table has a printer and a parser with different checksum functions *)
Theorem C09_no_mismatching_rows : mismatch_rows = [].
Proof. exact mismatch_rows_none. Qed.

(* ---- the commutation statement WITHOUT the hypothesis on I_L is false (abstract HMAC) ---- *)
Definition C09_commute_unconditional : Prop :=
  forall (pt : Type) (padd : pt -> pt -> pt) (pO : pt) (smul : Z -> pt -> pt) (pG : pt) (order : Z) (pt_eqb : pt -> pt -> bool)
         (sec : pt -> bytes) (hmac512 : bytes -> bytes -> bytes) (hash160 : bytes -> bytes) (loop_fuel : nat),
  1 < order <= 2 ^ 256 -> (forall a b, smul (a + b) pG = padd (smul a pG) (smul b pG)) ->
  (forall a, smul (a mod order) pG = smul a pG) -> (forall a, smul a pG = pO <-> a mod order = 0) ->
  (forall P Q, pt_eqb P Q = true <-> P = Q) -> (forall k m, length (hmac512 k m) = 64%nat) ->
  (forall b, length (hash160 b) = 20%nat) -> (1 < loop_fuel)%nat ->
  forall (nd : node pt) (k i : Z), wf_node pt pO smul pG order nd -> nd_secret pt nd = Some k -> 0 <= i < 2 ^ 31 ->
  exists child,
    subkey_raw pt padd pO smul pG order pt_eqb sec hmac512 hash160 loop_fuel nd i false true = Ret child /\
    subkey_raw pt padd pO smul pG order pt_eqb sec hmac512 hash160 loop_fuel (neuter_node pt nd) i false false =
      Ret (neuter_node pt child).
Theorem C09_commute_needs_IL_lt_n : ~ C09_commute_unconditional.
Proof.
  exact (fun H =>
    match H bool xorb false Toy.smul true 2 Bool.eqb Toy.sec Toy.hmac_retry Toy.hash160 8%nat
            Toy.order_range Toy.smul_add Toy.smul_mod Toy.smul_zero Toy.pt_eqb_spec Toy.hmac_retry_len Toy.hash160_len
            ltac:(repeat constructor) Toy.root 1 0 Toy.root_wf eq_refl ltac:(split; [reflexivity|reflexivity])
    with ex_intro _ child (conj H1 H2) =>
      match toy_commute_fails with ex_intro _ c1 (ex_intro _ c2 (conj T1 (conj T2 T3))) =>
        ltac:(cbn zeta in T1, T2; rewrite T1 in H1; injection H1 as <-; rewrite T2 in H2; injection H2 as E; exact (T3 E))
      end
    end).
Qed.

(* non-vacuity: the hypotheses of the Section are satisfiable together (group Z/2 on bool), and the commutation theorem
   applies there *)
Example C09_hypotheses_satisfiable :
  exists child,
    subkey_raw bool xorb false Toy.smul true 2 Bool.eqb Toy.sec Toy.hmac_good Toy.hash160 1 Toy.root 5 false true = Ret child /\
    subkey_raw bool xorb false Toy.smul true 2 Bool.eqb Toy.sec Toy.hmac_good Toy.hash160 1 (neuter_node bool Toy.root) 5 false false
      = Ret (neuter_node bool child).
Proof.
  exact (match C09_pub_priv_commute bool xorb false Toy.smul true 2 Bool.eqb Toy.sec Toy.hmac_good Toy.hash160 1%nat
                 Toy.order_range Toy.smul_add Toy.smul_mod Toy.smul_zero Toy.pt_eqb_spec Toy.hmac_good_len Toy.hash160_len
                 (le_n 1) Toy.root 1 5 false Toy.root_wf eq_refl ltac:(split; [discriminate|reflexivity])
                 ltac:(reflexivity) ltac:(discriminate)
         with ex_intro _ child (conj A (conj B C)) => ex_intro _ child (conj A C) end).
Qed.

Print Assumptions C09_master_is_bip32.
Print Assumptions C09_ckd_is_bip32.
Print Assumptions C09_path_is_bip32.
Print Assumptions C09_serialization_is_bip32.
Print Assumptions C09_pub_priv_commute.
Print Assumptions C09_pub_priv_commute_path.
Print Assumptions C09_divergence_when_IL_ge_n.
Print Assumptions C09_hardened_refused_on_public.
Print Assumptions C09_metadata.
Print Assumptions C09_table_rows_ok.
Print Assumptions C09_serialize_roundtrip.
Print Assumptions C09_serialize_only_in_range.
Print Assumptions C09_serialize_refuses_deep.
Print Assumptions C09_text_roundtrip.
Print Assumptions C09_cache_transparent.
Print Assumptions C09_root_calls_not_skipped.
Print Assumptions C09_family_cache_transparent.
Print Assumptions C09_public_never_yields_private.
Print Assumptions C09_path_spellings.
Print Assumptions C09_electrum_commute.
Print Assumptions C09_path_render.
Print Assumptions C09_path_element.
Print Assumptions C09_range_expansion.
Print Assumptions C09_product_is_all_choices.
Print Assumptions C09_range_members.
Print Assumptions C09_no_mismatching_rows.
Print Assumptions C09_commute_needs_IL_lt_n.
Print Assumptions C09_hypotheses_satisfiable.
