(* Props/C09ec.v — C09 composed with C02 (curve arithmetic), C10 (SEC point encoding) and C11 (Base58Check): the theorems of
   Props/C09.v with the ABSTRACT GROUP GONE.  Only statements; every proof is `exact <lemma>`.

   Props/C09.v quantifies over a group (pt, padd, pO, smul, pG, order, pt_eqb), a point encoding (sec, xy, unsec) and two
   base58check codecs, under the hypotheses order_range, smul_add, smul_mod, smul_zero, pt_eqb_spec, sec_len, sec_head,
   unsec_sec, b58_roundtrip.  Here they are INSTANTIATED for secp256k1 (Proofs/ComposeEcC09.v, Proofs/ComposeEcInst.v,
   Proofs/ComposeCodecC09.v):

     pt      ept c   = { P : Curve.pt | on the curve, coordinates in [0,p), n*P = O }    c = secp256k1 (Gen/GenCurves.v)
     padd    eadd c  = Curve.add, run          pO = infinity         smul  esmul c e P = Curve.multiply c P e, run
     pG      the generator's point (any blinding factor `blind` of the Generator object)      order = n
     pt_eqb  equality of coordinate pairs
     sec P   C10's public_pair_to_sec((x, y), compressed=True);   xy P = to_bytes_32(x) + to_bytes_32(y)
     unsec b C10's Key.from_sec (sec_to_public_pair with the generator + the tests of Key.__init__), re-packed
     b58enc / b58dec   C11's b2a_hashed_base58 / parse_b58_hashed over an arbitrary 32-byte checksum hash per codec id

   and every one of those hypotheses is PROVED (C09ec_hypotheses_discharged) — none was false for the real instance, none
   needed a side condition beyond those Props/C09.v already states.  No mathematical premise is left either: p and n prime
   (Pocklington certificates), associativity of the addition (Proofs/EcAssoc.v), n*G = O (order certificate) are theorems.
   What remains quantified in the statements below: the hash functions hmac512, hash160, dsha256, chk_hash with their
   LENGTH laws only (64, 20, -, 32 bytes), the retry bound loop_fuel > 0, and the blinding factor.

   C09ec_ops_are_C02 / C09ec_sec_is_C10 / C09ec_unsec_is_C10 say that the instance computes with exactly the functions C02
   and C10 model.  The one difference from Python: unsec refuses (InvalidPublicPairError) a decoded on-curve point that n
   does not kill.  No such point exists on a curve whose group has order n (cofactor 1, true of secp256k1 but not proved
   here): under that premise unsec IS Key.from_sec (C09ec_unsec_cofactor1).  No other theorem of this file uses it. *)
From Coq Require Import List ZArith NArith Bool String.
From Coq Require Import Strings.Byte.
From PV Require Import Base.Bytes Base.Outcome Gen.GenCurves Gen.GenCurveC10 Gen.GenBip32Prefixes
  Model.Curve Model.Sec Model.Bip32 Spec.Weierstrass Spec.Bip32Spec
  Proofs.CurveP Proofs.Bip32P Proofs.ComposeCodecB58 Proofs.ComposeCodecC09
  Proofs.ComposeEcInst Proofs.ComposeEcC01 Proofs.ComposeEcC09.
Import ListNotations.
Local Open Scope Z_scope.

Section C09ec.
Variable blind : Z.                                (* blinding factor of the Generator object: any *)
Variable hmac512 : bytes -> bytes -> bytes.
Variable hash160 : bytes -> bytes.
Variable dsha256 : bytes -> bytes.
Variable chk_hash : N -> bytes -> bytes.           (* checksum hash per codec id (0 double-SHA256, 1 groestl) *)
Variable loop_fuel : nat.

Hypothesis hmac_len : forall k m, length (hmac512 k m) = 64%nat.
Hypothesis hash160_len : forall b, length (hash160 b) = 20%nat.
Hypothesis chk_hash_len : forall c x, length (chk_hash c x) = 32%nat.
Hypothesis fuel_pos : (0 < loop_fuel)%nat.

Local Notation c := secp256k1_curve.
Local Notation g := (secp256k1_gen blind).
Local Notation pt := (ept c).
Local Notation padd := (eadd c).
Local Notation pO := (eO c).
Local Notation smul := (esmul c).
Local Notation pG := (eG g).
Local Notation order := (cn c).                    (* = secp256k1_n *)
Local Notation pt_eqb := (@ept_eqb c).
Local Notation sec := (@esec c).
Local Notation xy := (@exy c).
Local Notation unsec := (eunsec c).
Local Notation b58enc := (c09_b58enc chk_hash).
Local Notation b58dec := (c09_b58dec chk_hash).

(* the hypotheses of Props/C09.v, as theorems *)
Local Notation order_range := (k1_c09_order_range blind).
Local Notation smul_add := (k1_c09_smul_add blind).
Local Notation smul_mod := (k1_c09_smul_mod blind).
Local Notation smul_zero := (k1_c09_smul_zero blind).
Local Notation pt_eqb_spec := k1_c09_eqb_spec.
Local Notation sec_len := (k1_c09_sec_len blind).
Local Notation sec_head := (k1_c09_sec_head blind).
Local Notation unsec_sec := (k1_c09_unsec_sec blind).
Local Notation b58_roundtrip := (c09_b58_roundtrip chk_hash chk_hash_len).

Local Notation node := (node pt).
Local Notation wf := (wf_node pt pO smul pG order).
Local Notation neuter := (neuter_node pt).
Local Notation m_subkey_raw := (subkey_raw pt padd pO smul pG order pt_eqb sec hmac512 hash160 loop_fuel).
Local Notation m_public_copy := (public_copy pt pO smul pG order pt_eqb).
Local Notation m_master := (from_master_secret pt pO smul pG order pt_eqb hmac512).
Local Notation IL := (first_IL pt sec hmac512).
Local Notation I64 := (first_I64 pt sec hmac512).
Local Notation s_child := (Bip32Spec.child pt padd pO smul pG order pt_eqb sec hmac512 hash160).
Local Notation s_master := (Bip32Spec.master pt order hmac512).
Local Notation s_derive := (Bip32Spec.derive pt padd pO smul pG order pt_eqb sec hmac512 hash160).
Local Notation xk := (xkey_of pt).

(* ---- the instance satisfies every group / encoding / codec hypothesis of Props/C09.v ---- *)
Theorem C09ec_hypotheses_discharged :
  order = secp256k1_n /\
  1 < order <= 2 ^ 256 /\
  (forall a b, smul (a + b) pG = padd (smul a pG) (smul b pG)) /\
  (forall a, smul (a mod order) pG = smul a pG) /\
  (forall a, smul a pG = pO <-> a mod order = 0) /\
  (forall P Q : pt, pt_eqb P Q = true <-> P = Q) /\
  (forall P : pt, P <> pO -> length (sec P) = 33%nat) /\
  (forall P : pt, P <> pO -> exists b r, sec P = b :: r /\ b <> x00) /\
  (forall P : pt, P <> pO -> unsec (sec P) = Ret P) /\
  (forall cid b, b58dec cid (b58enc cid b) = Some b).
Proof.
  exact (conj eq_refl (conj order_range (conj smul_add (conj smul_mod (conj smul_zero (conj pt_eqb_spec
          (conj sec_len (conj sec_head (conj unsec_sec b58_roundtrip))))))))).
Qed.

(* ---- the instance IS C02's arithmetic and C10's encoder / decoder ---- *)
Theorem C09ec_ops_are_C02 :
  (forall P Q : pt, Curve.add c (eval P) (eval Q) = Ret (eval (padd P Q))) /\
  (forall (e : Z) (P : pt), Curve.multiply c (eval P) e = Ret (eval (smul e P))) /\
  (forall e : Z, gmul g e = Ret (eval (smul e pG)) /\ raw_mul g e = Ret (eval (smul e pG))) /\
  eval pG = secp256k1_G /\ eval pO = None.
Proof. exact (k1_c09_ops_run blind). Qed.

Theorem C09ec_sec_is_C10 : forall P : pt, P <> pO ->
  exists x y, eval P = Some (x, y) /\
    Sec.public_pair_to_sec (x, y) true = Ret (sec P) /\
    Sec.public_pair_to_sec (x, y) false = Ret (x04 :: xy P) /\
    xy P = be_encode 32 (Z.to_N x) ++ be_encode 32 (Z.to_N y).
Proof. exact (k1_c09_sec_run blind). Qed.

Theorem C09ec_unsec_is_C10 : forall b,
  (forall P : pt, unsec b = Ret P ->
     exists x y, Sec.key_from_sec k1_p k1_a k1_b b = Ret ((x, y), Sec.is_sec_compressed b) /\ eval P = Some (x, y)) /\
  (forall e, Sec.key_from_sec k1_p k1_a k1_b b = Raise e -> unsec b = Raise e).
Proof. exact (k1_c09_unsec_run blind). Qed.

Theorem C09ec_unsec_cofactor1 : (forall P, valid c P -> order_kills c P) -> forall b,
  match Sec.key_from_sec k1_p k1_a k1_b b with
  | Ret ((x, y), _) => exists P, unsec b = Ret P /\ eval P = Some (x, y)
  | Raise e => unsec b = Raise e
  | OutOfFuel => unsec b = OutOfFuel
  end.
Proof. exact (k1_c09_unsec_cofactor1 blind). Qed.

(* C10's table and C02's table hold the same secp256k1 constants *)
Theorem C09ec_consts_are_C10 :
  (cp c, ca c, cb c, cn c) = (k1_p, k1_a, k1_b, k1_n) /\ secp256k1_G = Some (k1_gx, k1_gy).
Proof. exact secp256k1_consts_are_C10. Qed.

(* ---- C09_ckd_is_bip32 ---- *)
Theorem C09ec_master_is_bip32 : forall seed,
  match s_master seed with
  | Some x => exists nd, m_master seed = Ret nd /\ xk nd = x /\ wf nd
  | None => m_master seed = Raise E_SECRET
  end.
Proof. exact (master_is_bip32 pt padd pO smul pG order pt_eqb sec hmac512 hash160 loop_fuel order_range smul_zero pt_eqb_spec hmac_len fuel_pos). Qed.

Theorem C09ec_ckd_is_bip32 : forall (nd : node) (i : Z) (h : bool) (y : xkey pt),
  wf nd -> 0 <= i < 2 ^ 31 ->
  s_child (xk nd) (child_number i h) = Some y ->
  exists ch, m_subkey_raw nd i h (is_some (nd_secret pt nd)) = Ret ch /\ xk ch = y /\ wf ch /\
             is_some (nd_secret pt ch) = is_some (nd_secret pt nd).
Proof. exact (child_is_bip32 pt padd pO smul pG order pt_eqb sec hmac512 hash160 loop_fuel order_range smul_zero pt_eqb_spec hmac_len hash160_len fuel_pos). Qed.

Theorem C09ec_path_is_bip32 : forall (path : list (Z * bool)) (root : node) (y : xkey pt),
  wf root -> Forall (fun ih => 0 <= fst ih < 2 ^ 31) path ->
  s_derive (xk root) (map (fun ih => child_number (fst ih) (snd ih)) path) = Some y ->
  exists ch, derive_raw pt padd pO smul pG order pt_eqb sec hmac512 hash160 loop_fuel root
               (map (fun ih => (fst ih, snd ih, is_some (nd_secret pt root))) path) = Ret ch /\
             xk ch = y /\ wf ch.
Proof. exact (path_is_bip32 pt padd pO smul pG order pt_eqb sec hmac512 hash160 loop_fuel order_range smul_zero pt_eqb_spec hmac_len hash160_len fuel_pos). Qed.

Theorem C09ec_serialization_is_bip32 : forall (net : bipnet) (nd : node) (ap : bool) (prefix : bytes),
  wf nd -> ser_ok pt nd -> (ap = true -> nd_secret pt nd <> None) ->
  (if ap then bn_print_prv net else bn_print_pub net) = Some prefix ->
  hwif_data pt sec net nd ap =
  Ret (Bip32Spec.serialize_x pt sec prefix (if ap then xk nd else Bip32Spec.neuter pt smul pG (xk nd))).
Proof. exact (hwif_is_bip32 pt padd pO smul pG order pt_eqb sec hmac512 hash160 loop_fuel order_range fuel_pos). Qed.

(* ---- C09_pub_priv_commute: under exactly I_L < n and child <> 0 ---- *)
Theorem C09ec_pub_priv_commute : forall (nd : node) (k i : Z) (ap : bool),
  wf nd -> nd_secret pt nd = Some k -> 0 <= i < 2 ^ 31 ->
  IL nd i false < order -> (IL nd i false + k) mod order <> 0 ->
  exists child,
    m_subkey_raw nd i false true = Ret child /\
    m_subkey_raw nd i false false = Ret (neuter child) /\
    m_subkey_raw (neuter nd) i false ap = Ret (neuter child).
Proof. exact (pub_priv_commute pt padd pO smul pG order pt_eqb sec hmac512 hash160 loop_fuel order_range smul_add smul_mod smul_zero pt_eqb_spec hmac_len hash160_len fuel_pos). Qed.

Theorem C09ec_pub_priv_commute_path : forall (path : list Z) (nd : node) (ap : bool),
  wf nd -> commute_path_ok pt padd pO smul pG order pt_eqb sec hmac512 hash160 loop_fuel nd path ->
  exists ch, derive_raw pt padd pO smul pG order pt_eqb sec hmac512 hash160 loop_fuel nd (map (fun i => (i, false, true)) path) = Ret ch /\
             derive_raw pt padd pO smul pG order pt_eqb sec hmac512 hash160 loop_fuel (neuter nd) (map (fun i => (i, false, ap)) path)
               = Ret (neuter ch).
Proof. exact (pub_priv_commute_path pt padd pO smul pG order pt_eqb sec hmac512 hash160 loop_fuel order_range smul_add smul_mod smul_zero pt_eqb_spec hmac_len hash160_len fuel_pos). Qed.

Theorem C09ec_divergence_when_IL_ge_n : forall (nd : node) (k i : Z) (ap : bool),
  wf nd -> nd_secret pt nd = Some k -> 0 <= i < 2 ^ 31 ->
  order <= IL nd i false \/ (IL nd i false + k) mod order = 0 ->
  s_child (xk nd) i = None /\
  s_child (xk (neuter nd)) i = None /\
  subkey_secret_exponent_chain_code_pair pt smul pG order sec hmac512 loop_fuel k (nd_chain pt nd) i false (Some (nd_point pt nd)) =
    ckd_priv_loop order hmac512 (pred loop_fuel) k (nd_chain pt nd)
      (x01 :: skipn 32 (I64 nd i false) ++ be_encode 4 (Z.to_N i)) (be_encode 4 (Z.to_N i)) /\
  let Q := padd (smul (IL nd i false mod order) pG) (nd_point pt nd) in
  (Q <> pO -> m_subkey_raw (neuter nd) i false ap =
              Ret (mkNode pt (skipn 32 (I64 nd i false)) (nd_depth pt nd + 1) (fingerprint pt sec hash160 nd) i None Q)) /\
  (Q = pO -> m_subkey_raw (neuter nd) i false ap = Raise E_VALUE).
Proof. exact (divergence pt padd pO smul pG order pt_eqb sec hmac512 hash160 loop_fuel order_range smul_add smul_zero pt_eqb_spec hmac_len hash160_len fuel_pos). Qed.

(* ---- C09_hardened_refused_on_public ---- *)
Theorem C09ec_hardened_refused_on_public : forall (nd : node) (i : Z) (ap : bool),
  nd_secret pt nd = None -> 0 <= i < 2 ^ 31 -> m_subkey_raw nd i true ap = Raise E_OTHER.
Proof. exact (subkey_raw_pub_hardened pt padd pO smul pG order pt_eqb sec hmac512 hash160 loop_fuel). Qed.

(* ---- C09_metadata ---- *)
Theorem C09ec_metadata : forall (nd : node) (i : Z) (h ap : bool) (ch : node),
  wf nd -> m_subkey_raw nd i h ap = Ret ch ->
  0 <= i < 2 ^ 31 /\
  nd_depth pt ch = nd_depth pt nd + 1 /\
  nd_fpr pt ch = firstn 4 (hash160 (sec (nd_point pt nd))) /\
  nd_index pt ch = child_number i h /\
  (exists pre, nd_chain pt ch =
     skipn 32 (hmac512 (nd_chain pt nd) (pre ++ be_encode 4 (Z.to_N (child_number i h))))) /\
  wf ch.
Proof. exact (subkey_raw_metadata pt padd pO smul pG order pt_eqb sec hmac512 hash160 loop_fuel pt_eqb_spec fuel_pos). Qed.

(* ---- C09_serialize_roundtrip: every row of the regenerated table ---- *)
Theorem C09ec_serialize_roundtrip : forall r (nd : node) (ap : bool),
  In r bip_prefix_table -> wf nd -> ser_ok pt nd -> (ap = true -> nd_secret pt nd <> None) ->
  exists data, hwif_data pt sec (row_net r) nd ap = Ret data /\ length data = 78%nat /\
    hparse_data pt pO smul pG order pt_eqb unsec (row_net r) ap (Some data) = Ret (Some (shown pt nd ap)) /\
    hparse_data pt pO smul pG order pt_eqb unsec (row_net r) (negb ap) (Some data) = Ret None /\
    parse_hd_data pt pO smul pG order pt_eqb unsec (row_net r) (Some data) = Ret (Some (shown pt nd ap)).
Proof.
  exact (fun r nd ap Hr => hwif_roundtrip_data pt padd pO smul pG order pt_eqb sec unsec hmac512 hash160 loop_fuel
           order_range smul_zero pt_eqb_spec sec_len sec_head unsec_sec fuel_pos (row_net r) nd ap (table_nets_ok r Hr)).
Qed.

(* text level, C11's Base58Check plugged in *)
Theorem C09ec_text_roundtrip : forall r (nd : node) (ap : bool),
  In r bip_prefix_table -> wf nd -> ser_ok pt nd -> (ap = true -> nd_secret pt nd <> None) ->
  exists text, hwif pt sec b58enc (row_net r) nd ap = Ret text /\
    hparse pt pO smul pG order pt_eqb unsec b58dec (row_net r) ap text = Ret (Some (shown pt nd ap)) /\
    hparse pt pO smul pG order pt_eqb unsec b58dec (row_net r) (negb ap) text = Ret None /\
    parse_hd pt pO smul pG order pt_eqb unsec b58dec (row_net r) text = Ret (Some (shown pt nd ap)).
Proof.
  exact (fun r nd ap Hr => hwif_roundtrip_text pt padd pO smul pG order pt_eqb sec unsec hmac512 hash160 b58enc b58dec loop_fuel
           order_range smul_zero pt_eqb_spec sec_len sec_head unsec_sec fuel_pos b58_roundtrip (row_net r) nd ap
           (table_nets_ok r Hr) (proj1 (N.eqb_eq _ _) (proj1 (negb_false_iff _) (table_codecs_match r Hr)))).
Qed.

(* ---- C09_cache_transparent ---- *)
Theorem C09ec_cache_transparent : forall (limit : Z) (root : node) (ops : list hdop),
  Forall2 (fun r o => r = RSkip pt \/ r = op_raw pt padd pO smul pG order pt_eqb sec hmac512 hash160 loop_fuel limit root o)
          (run_ops pt padd pO smul pG order pt_eqb sec hmac512 hash160 loop_fuel limit root [] ops) ops.
Proof.
  exact (fun limit root ops => run_ops_ok pt padd pO smul pG order pt_eqb sec hmac512 hash160 loop_fuel limit root ops []
           (cache_ok_nil pt padd pO smul pG order pt_eqb sec hmac512 hash160 loop_fuel root)).
Qed.

Theorem C09ec_root_calls_not_skipped : forall limit (root : node) ca o,
  match o with
  | OpSubkey [] _ _ _ | OpPath [] _ | OpSubkeys [] _ =>
    fst (run_op pt padd pO smul pG order pt_eqb sec hmac512 hash160 loop_fuel limit root ca o) <> RSkip pt
  | _ => True
  end.
Proof. exact (run_op_root_not_skipped pt padd pO smul pG order pt_eqb sec hmac512 hash160 loop_fuel). Qed.

Theorem C09ec_family_cache_transparent : forall (limit : Z) (root : node) (ops : list fop),
  Forall2 (fun a o => snd a = FSkip pt \/
                      snd a = fop_raw pt padd pO smul pG order pt_eqb sec unsec hmac512 hash160 loop_fuel limit (fst a) o)
          (run_fops pt padd pO smul pG order pt_eqb sec unsec hmac512 hash160 loop_fuel limit [(root, [])] ops) ops.
Proof.
  exact (fun limit root ops => run_fops_ok pt padd pO smul pG order pt_eqb sec unsec hmac512 hash160 loop_fuel limit ops [(root, [])]
           (fam_ok_single pt padd pO smul pG order pt_eqb sec hmac512 hash160 loop_fuel root)).
Qed.

Theorem C09ec_public_never_yields_private : forall (nd : node) (i : Z) (h ap : bool) (ch : node),
  nd_secret pt nd = None -> m_subkey_raw nd i h ap = Ret ch -> nd_secret pt ch = None.
Proof. exact (public_never_private pt padd pO smul pG order pt_eqb sec hmac512 hash160 loop_fuel). Qed.

(* ---- C09_path_spellings ---- *)
Theorem C09ec_path_spellings : forall ca p (nd : node) path path' fp ts ts',
  path_tokens path = (fp, ts) -> path_tokens path' = (fp, ts') -> Forall2 same_token ts ts' ->
  subkey_for_path pt padd pO smul pG order pt_eqb sec hmac512 hash160 loop_fuel ca p nd path =
  subkey_for_path pt padd pO smul pG order pt_eqb sec hmac512 hash160 loop_fuel ca p nd path'.
Proof. exact (subkey_for_path_respell pt padd pO smul pG order pt_eqb sec hmac512 hash160 loop_fuel). Qed.

(* ---- C09_electrum_commute ---- *)
Theorem C09ec_electrum_commute : forall (w : ewallet pt) (k : Z) (path : bytes),
  wf_ew pt pO smul pG order w -> ew_secret pt w = Some k ->
  (exists w', electrum_subkey pt padd pO smul pG order pt_eqb xy dsha256 w path = Ret w' /\
              wf_ew pt pO smul pG order w' /\ ew_secret pt w' <> None /\
              electrum_subkey pt padd pO smul pG order pt_eqb xy dsha256 (neuter_ew pt w) path = Ret (neuter_ew pt w') /\
              electrum_public_copy pt pO smul pG order pt_eqb w' = Ret (neuter_ew pt w')) \/
  (exists e e', electrum_subkey pt padd pO smul pG order pt_eqb xy dsha256 w path = Raise e /\
                electrum_subkey pt padd pO smul pG order pt_eqb xy dsha256 (neuter_ew pt w) path = Raise e').
Proof. exact (electrum_commute pt padd pO smul pG order pt_eqb xy dsha256 order_range smul_add smul_mod smul_zero pt_eqb_spec). Qed.

End C09ec.

(* ---- non-vacuity: a well-formed private node of the secp256k1 instance (secret exponent 1, point 1*G), serializable; and
        with an HMAC whose left half is 0 the hypothesis of the commutation theorem holds at it, so the theorem applies ---- *)
Example C09ec_wf_node_exists : forall blind : Z,
  wf_node (ept secp256k1_curve) (eO secp256k1_curve) (esmul secp256k1_curve) (eG (secp256k1_gen blind)) (cn secp256k1_curve)
          (k1_root blind) /\
  ser_ok (ept secp256k1_curve) (k1_root blind) /\ nd_secret (ept secp256k1_curve) (k1_root blind) = Some 1.
Proof. exact (fun blind => conj (k1_root_wf blind) (conj (k1_root_ser_ok blind) eq_refl)). Qed.

Example C09ec_commute_applies : forall (blind : Z) (i : Z), 0 <= i < 2 ^ 31 ->
  exists child,
    subkey_raw (ept secp256k1_curve) (eadd secp256k1_curve) (eO secp256k1_curve) (esmul secp256k1_curve)
      (eG (secp256k1_gen blind)) (cn secp256k1_curve) ept_eqb esec Toy.hmac_good Toy.hash160 1 (k1_root blind) i false true
      = Ret child /\
    subkey_raw (ept secp256k1_curve) (eadd secp256k1_curve) (eO secp256k1_curve) (esmul secp256k1_curve)
      (eG (secp256k1_gen blind)) (cn secp256k1_curve) ept_eqb esec Toy.hmac_good Toy.hash160 1
      (neuter_node (ept secp256k1_curve) (k1_root blind)) i false false
      = Ret (neuter_node (ept secp256k1_curve) child).
Proof. exact k1_root_commutes. Qed.

Print Assumptions C09ec_hypotheses_discharged.
Print Assumptions C09ec_ops_are_C02.
Print Assumptions C09ec_sec_is_C10.
Print Assumptions C09ec_unsec_is_C10.
Print Assumptions C09ec_unsec_cofactor1.
Print Assumptions C09ec_consts_are_C10.
Print Assumptions C09ec_master_is_bip32.
Print Assumptions C09ec_ckd_is_bip32.
Print Assumptions C09ec_path_is_bip32.
Print Assumptions C09ec_serialization_is_bip32.
Print Assumptions C09ec_pub_priv_commute.
Print Assumptions C09ec_pub_priv_commute_path.
Print Assumptions C09ec_divergence_when_IL_ge_n.
Print Assumptions C09ec_hardened_refused_on_public.
Print Assumptions C09ec_metadata.
Print Assumptions C09ec_serialize_roundtrip.
Print Assumptions C09ec_text_roundtrip.
Print Assumptions C09ec_cache_transparent.
Print Assumptions C09ec_root_calls_not_skipped.
Print Assumptions C09ec_family_cache_transparent.
Print Assumptions C09ec_public_never_yields_private.
Print Assumptions C09ec_path_spellings.
Print Assumptions C09ec_electrum_commute.
Print Assumptions C09ec_wf_node_exists.
Print Assumptions C09ec_commute_applies.
