(* Props/C19.v — property C19: hash primitives give standard digests in every configuration.
   Only statements; every proof is `exact <lemma>`.

   Model  = coq/Model/Ripemd.v, Model/Murmur.v : transcription of pycoin/contrib/ripemd160.py, the selection logic of
            pycoin/encoding/hash.py and pycoin/bloomfilter.py over UNBOUNDED integers (Python ints), with the tables
            and named constants regenerated from /repo into Gen/GenRipemd.v on every run.
   Spec   = coq/Spec/RipemdSpec.v (RIPEMD-160 paper, 32-bit words), Spec/MurmurSpec.v (MurmurHash3_x86_32 reference,
            BIP37), both validated there on published test vectors by evaluation.
   W = 2^32.  SHA-256 and the native/PyCrypto RIPEMD-160 are parameters (oracles), not modelled. *)
From PV Require Import Base.Bytes Base.Outcome Gen.GenRipemd Spec.RipemdSpec Spec.MurmurSpec Model.Ripemd Model.Murmur
  Proofs.WordsC19 Proofs.RipemdP Proofs.MurmurP Proofs.BloomHistC19.
Local Open Scope Z_scope.

(* ---- RIPEMD-160 --------------------------------------------------------------------------------------------- *)

(* the tables ML MR RL RR KL KR, the initial state and the padding constants found in /repo are the standard's
   r, r', s, s', K, K', IV (typed in from the paper in Spec/RipemdSpec.v), and the generator's live-vs-source
   cross-checks all passed *)
Theorem C19_ripemd_tables_are_standard :
  gen_ML = map Z.of_nat RipemdSpec.r /\ gen_MR = map Z.of_nat RipemdSpec.r' /\
  gen_RL = RipemdSpec.s /\ gen_RR = RipemdSpec.s' /\
  gen_KL = map RipemdSpec.K [0; 16; 32; 48; 64]%nat /\ gen_KR = map RipemdSpec.K' [0; 16; 32; 48; 64]%nat /\
  gen_init = RipemdSpec.IV /\ gen_pad_a = 119 /\ gen_pad_mask = 63 /\ gen_tail_mask = 63 /\
  gen_c19_shape_ok = true.
Proof. exact tables_standard_conj. Qed.
Print Assumptions C19_ripemd_tables_are_standard.

(* every integer literal of fi, rol, compress, ripemd160 (source order) is the one the model was transcribed with *)
Theorem C19_ripemd_literals_as_modelled : literals_stmt.
Proof. exact literals_as_modelled. Qed.
Print Assumptions C19_ripemd_literals_as_modelled.

(* the 6 x 80 list look-ups of the round loop (ML[j], KL[j>>4], RL[j], MR[j], KR[j>>4], RR[j], with f-index j>>4 and
   4-(j>>4)) all succeed and give the standard's parameters of step j *)
Theorem C19_ripemd_round_lookups_are_standard :
  map model_params (range 80) = map (fun j => Ret (spec_params j)) (seq 0 80).
Proof. exact rounds_are_standard. Qed.
Print Assumptions C19_ripemd_round_lookups_are_standard.

(* compress: for ALL integer states (not only 32-bit ones: the code never masks its sums, `~x` is negative) and
   all 64-byte blocks, the result is, word by word modulo 2^32, the standard's compression function applied to the
   reduced state *)
Theorem C19_ripemd_compress_eq : forall (h0 h1 h2 h3 h4 : Z) (block : bytes), length block = 64%nat ->
  exists h0' h1' h2' h3' h4',
    Ripemd.compress (h0, h1, h2, h3, h4) block = Ret (h0', h1', h2', h3', h4') /\
    (h0' mod W, h1' mod W, h2' mod W, h3' mod W, h4' mod W)
    = RipemdSpec.compress (h0 mod W, h1 mod W, h2 mod W, h3 mod W, h4 mod W) (RipemdSpec.words block).
Proof. exact compress_eq. Qed.
Print Assumptions C19_ripemd_compress_eq.

(* the specification's padding is the MD-strengthening of the standard for every length: 0x80, the least number
   (< 64) of zero bytes, the bit length as 64-bit little-endian, total a whole number of 64-byte blocks *)
Theorem C19_ripemd_padding_wellformed : forall msg : bytes,
  (length (RipemdSpec.pad msg) mod 64 = 0)%nat /\ (RipemdSpec.zero_pad (length msg) < 64)%nat /\
  RipemdSpec.pad msg = msg ++ [x80] ++ repeat x00 (RipemdSpec.zero_pad (length msg))
                           ++ le_encode 8 ((8 * N.of_nat (length msg)) mod 2 ^ 64)%N.
Proof. exact pad_wellformed. Qed.
Print Assumptions C19_ripemd_padding_wellformed.

(* THE RIPEMD-160 theorem: for every message (every length: the two block loops, `(119 - len) & 63`, `len & ~63`
   and the final masking included) the bundled pure-Python implementation returns the standard digest.
   2^61 bytes is where 8*len no longer fits struct.pack("<Q") — the code raises struct.error there
   (RipemdP.ripemd160_too_long); not reachable. *)
Theorem C19_ripemd_is_standard : forall data : bytes, Z.of_nat (length data) < 2 ^ 61 ->
  Ripemd.ripemd160 data = Ret (RipemdSpec.ripemd160 data).
Proof. exact ripemd160_is_standard. Qed.
Print Assumptions C19_ripemd_is_standard.

(* ---- hash.py: every configuration ---------------------------------------------------------------------------- *)

(* ripemd160(data).digest() and hash160(data) in every one of the 16 configurations get_best_ripemd160 can meet
   (algorithm advertised or not, PYCOIN_USE_PYTHON_RIPEMD160 truthy or not, native call working or not, PyCrypto
   importable or not): the standard digest (of sha256(data) for hash160), PROVIDED the external library that got
   selected is itself standard — for the bundled implementation nothing is assumed.  Partial in this sense:
   SHA-256 and OpenSSL's/PyCrypto's RIPEMD-160 are parameters. *)
Theorem C19_ripemd160_standard_in_every_configuration :
  forall (native pycrypto : bytes -> bytes) (in_avail env_truthy native_works has_pycrypto : bool) (data : bytes),
  let c := get_best_ripemd160 in_avail env_truthy native_works has_pycrypto in
  (c = Native -> forall m, native m = RipemdSpec.ripemd160 m) ->
  (c = PyCrypto -> forall m, pycrypto m = RipemdSpec.ripemd160 m) ->
  Z.of_nat (length data) < 2 ^ 61 ->
  hash_ripemd160 native pycrypto c data = Ret (RipemdSpec.ripemd160 data).
Proof. exact hash_ripemd160_standard. Qed.
Print Assumptions C19_ripemd160_standard_in_every_configuration.

Theorem C19_hash160_standard_in_every_configuration :
  forall (sha256 native pycrypto : bytes -> bytes) (in_avail env_truthy native_works has_pycrypto : bool) (data : bytes),
  let c := get_best_ripemd160 in_avail env_truthy native_works has_pycrypto in
  (c = Native -> forall m, native m = RipemdSpec.ripemd160 m) ->
  (c = PyCrypto -> forall m, pycrypto m = RipemdSpec.ripemd160 m) ->
  Z.of_nat (length (sha256 data)) < 2 ^ 61 ->
  hash160 sha256 native pycrypto c data = Ret (RipemdSpec.ripemd160 (sha256 data)).
Proof. exact hash160_standard. Qed.
Print Assumptions C19_hash160_standard_in_every_configuration.

(* which configurations run the bundled code (no PyCrypto): the variable set, or hashlib without a working ripemd160 *)
Theorem C19_selection : forall in_avail env_truthy native_works : bool,
  get_best_ripemd160 in_avail true native_works false = PurePython /\
  get_best_ripemd160 false env_truthy native_works false = PurePython /\
  get_best_ripemd160 in_avail env_truthy false false = PurePython /\
  get_best_ripemd160 true false true false = Native.
Proof. exact selection_cases. Qed.
Print Assumptions C19_selection.

(* ---- murmur3 ---------------------------------------------------------------------------------------------------- *)

(* the constants c1 c2 n fmix1 fmix2, 0xFBA4C795, 36000, MASK_ARRAY and every literal of murmur3() found in /repo
   are the reference's / the ones transcribed *)
Theorem C19_murmur_constants : murmur_constants_stmt.
Proof. exact murmur_constants. Qed.
Print Assumptions C19_murmur_constants.

(* murmur3(data, seed) = MurmurHash3_x86_32(data, seed mod 2^32) for every byte string below 2^32 bytes and EVERY
   integer seed — negative and >= 2^32 included: the code never masks the seed, h1 and k1 grow without bound inside
   the loop, and still every use is congruent mod 2^32 *)
Theorem C19_murmur3_is_reference : forall (data : bytes) (seed : Z), Z.of_nat (length data) < 2 ^ 32 ->
  Murmur.murmur3 data seed = Ret (MurmurSpec.murmur3_32 data (seed mod W)).
Proof. exact murmur3_is_reference. Qed.
Print Assumptions C19_murmur3_is_reference.

(* ---- Bloom filter -------------------------------------------------------------------------------------------------- *)

(* the full statement — every size 0..36000 (the empty filter included: add_item returns at once, as Bitcoin
   Core's insert does), every hash count (k <= 0: nothing set), every tweak: the constructor succeeds, add_item
   succeeds and leaves exactly BIP37's insert of the element *)
Theorem C19_bloom_statement : forall (size k tweak : Z) (item : bytes),
  0 <= size <= 36000 -> Z.of_nat (length item) < 2 ^ 32 ->
  exists st st', bloom_init size k tweak = Ret st /\ Murmur.add_item st item = Ret st' /\
                 bf_bytes st' = MurmurSpec.insert (repeat x00 (Z.to_nat size)) k tweak item.
Proof. exact bloom_statement_holds. Qed.
Print Assumptions C19_bloom_statement.

(* add_item on ANY non-empty filter state (whatever is already in it) = BIP37 insert; size, k, tweak unchanged *)
Theorem C19_bloom_add_item_is_bip37_insert : forall (st : bloom) (item : bytes),
  bloom_wf st -> Z.of_nat (length item) < 2 ^ 32 ->
  Murmur.add_item st item =
  Ret (mkBloom (MurmurSpec.insert (bf_bytes st) (bf_k st) (bf_tweak st) item) (bf_bit_count st) (bf_k st) (bf_tweak st)).
Proof. exact add_item_is_bip37_insert. Qed.
Print Assumptions C19_bloom_add_item_is_bip37_insert.

(* exactly the prescribed bits: after insert, bit n (LSB-first in byte n/8) is set iff it was set before or
   n = murmur3_32(item, (i*0xFBA4C795 + tweak) mod 2^32) mod (8*size) for some i < k; the size does not change *)
Theorem C19_bloom_bits : forall (v : bytes) (k tweak : Z) (item : bytes) (n : Z),
  (0 < length v)%nat -> 0 <= n < 8 * Z.of_nat (length v) ->
  length (MurmurSpec.insert v k tweak item) = length v /\
  bit_is_set (MurmurSpec.insert v k tweak item) n =
  bit_is_set v n || existsb (fun i => n =? bloom_index (length v) tweak item i) (hash_nums k).
Proof. exact insert_sets_exactly. Qed.
Print Assumptions C19_bloom_bits.

(* "... and is therefore always matched by a peer": the element just added passes BIP37's contains test on the
   resulting filter, and on the filter after any further additions *)
Theorem C19_bloom_added_item_stays_matched : forall (more : list bytes) (st : bloom) (item : bytes),
  bloom_wf st -> Z.of_nat (length item) < 2 ^ 32 -> Forall (fun it => Z.of_nat (length it) < 2 ^ 32) more ->
  exists st' st'', Murmur.add_item st item = Ret st' /\ add_items st' more = Ret st'' /\
    contains (bf_bytes st') (bf_k st) (bf_tweak st) item = true /\
    contains (bf_bytes st'') (bf_k st) (bf_tweak st) item = true.
Proof. exact added_item_stays_matched. Qed.
Print Assumptions C19_bloom_added_item_stays_matched.

(* ---- histories of one BloomFilter object ------------------------------------------------------------------------- *)
(* spec_step / spec_run (Proofs/BloomHistC19.v) is the memory-less BIP37 reading of a history on the triple
   (vData, nHashFuncs, nTweak): add* = insert, set_bit, the direct assignments, and the observers check_bit and
   filter_load_params which return a function of the CURRENT triple.  The object follows it for every history:
   any interleaving of add_item / add_hash160 / add_spendable / set_bit / tweak= / hash_function_count= /
   filter_bytes[i]= / filter_bytes= with check_bit and filter_load_params, on any non-empty filter state
   (op_ok: items below 2^32 bytes, outpoint index a uint32, pokes in range, replacement of the same length) *)
Theorem C19_bloom_history_is_memoryless : forall (ops : list bloom_op) (st : bloom),
  bloom_wf st -> Forall (op_ok (length (bf_bytes st))) ops ->
  exists st', run_ops st ops = Ret (st', snd (spec_run (fields st) ops)) /\
              fields st' = fst (spec_run (fields st) ops) /\ bloom_wf st'.
Proof. exact run_ops_spec. Qed.
Print Assumptions C19_bloom_history_is_memoryless.

(* history independence: deleting every check_bit / filter_load_params call from a history does not change the
   resulting filter *)
Theorem C19_bloom_observers_do_not_change_state : forall (ops : list bloom_op) (s : sstate),
  fst (spec_run s ops) = fst (spec_run s (filter (fun op => negb (is_observer op)) ops)).
Proof. exact observers_do_not_change_state. Qed.
Print Assumptions C19_bloom_observers_do_not_change_state.

(* ... and a filter_load_params() anywhere in a history returns exactly what the mutators before it built, however
   many loads came earlier *)
Theorem C19_bloom_filterload_sees_current_state : forall (pre post : list bloom_op) (s : sstate),
  nth_error (snd (spec_run s (pre ++ OpLoad :: post))) (length pre)
  = Some (let '(v, k, t) := fst (spec_run s pre) in ObsLoad v k t).
Proof. exact load_sees_current_state. Qed.
Print Assumptions C19_bloom_filterload_sees_current_state.

(* every filterload handed out during a history of additions (and set_bit / check_bit / earlier filterloads) passes
   BIP37's contains test for EVERY element added before it (loads_match states this at each OpLoad) *)
Theorem C19_bloom_every_filterload_matches_all_added : forall (ops : list bloom_op) (added : list bytes) (v : bytes) (k t : Z),
  (0 < length v)%nat -> Forall monotone_op ops -> all_contained (v, k, t) added ->
  loads_match added (v, k, t) ops.
Proof. exact every_load_matches_all_added. Qed.
Print Assumptions C19_bloom_every_filterload_matches_all_added.

(* ---- non-vacuity / sanity ---------------------------------------------------------------------------------------- *)
(* a compress call on a state with huge and negative words meets the hypotheses and is congruent, not equal *)
Example C19_compress_unbounded_state :
  match Ripemd.compress (2 ^ 70 + 5, -3, 0, 2 ^ 32, 7) (repeat x61 64) with
  | Ret (a, _, _, _, _) => (a <? 0) || (W <=? a)
  | _ => false
  end = true.
Proof. vm_compute. reflexivity. Qed.
(* the 55/56/63/64/119/120-byte boundaries, model = spec by evaluation *)
Example C19_padding_boundaries :
  forallb (fun n => match Ripemd.ripemd160 (repeat x61 n) with
                    | Ret d => bytes_eqb d (RipemdSpec.ripemd160 (repeat x61 n)) | _ => false end)
          [0; 1; 55; 56; 57; 63; 64; 65; 119; 120; 121; 127; 128]%nat = true.
Proof. vm_compute. reflexivity. Qed.
(* seeds >= 2^32 and negative *)
Example C19_murmur_wide_seeds :
  (Murmur.murmur3 [x61; x62; x63; x64; x65] (2 ^ 40 + 5), Murmur.murmur3 [x61] (-1))
  = (Ret (MurmurSpec.murmur3_32 [x61; x62; x63; x64; x65] 5), Ret (MurmurSpec.murmur3_32 [x61] 0xFFFFFFFF)).
Proof. vm_compute. reflexivity. Qed.
(* a well-formed filter exists; the Core vector through the MODEL *)
Example C19_bloom_core_vector :
  bloom_session 3 5 0 [MurmurSpec.item1; MurmurSpec.item2; MurmurSpec.item3] = Ret (hx [0x61; 0x4e; 0x9b]).
Proof. vm_compute. reflexivity. Qed.
(* add, filterload, add again, filterload again (a node re-sending filterload): the second load carries both *)
Example C19_bloom_reload_history :
  match bloom_history 8 5 7 [OpAdd MurmurSpec.item1; OpLoad; OpAdd MurmurSpec.item2; OpLoad] with
  | Ret (fb, [ObsNone; ObsLoad v1 _ _; ObsNone; ObsLoad v2 k t]) =>
      bytes_eqb fb v2 && negb (bytes_eqb v1 v2) && contains v2 k t MurmurSpec.item1 && contains v2 k t MurmurSpec.item2
  | _ => false
  end = true.
Proof. vm_compute. reflexivity. Qed.
