(* Props/C14compose.v — C14 composed with C07: the block theorems of Props/C14.v with the transaction codec
   INSTANTIATED by C07's model of pycoin's Tx (Model/TxWire.v) and every codec hypothesis discharged from C07's
   theorems.  Only statements; every proof is `exact <lemma>` (lemmas in Proofs/ComposeBlockTx.v).

     parse_tx  := c07_parse  = TxWire.parse_tx true        (Tx.parse)
     stream_tx := c07_stream = what TxWire.stream_tx false true writes      (Tx.stream; [] if it raises)
     tx_hash   := c07_txhash Htx = what TxWire.tx_hash Htx t None returns   (Tx.hash();  [] if it raises)
   Htx (hash of the Tx class) and dsha256 (Block's double_sha256) are ANY functions bytes -> bytes.
   The only hypothesis about transactions that is left is C07's well-formedness predicate
     tx_ok t = tx_wf t /\ tx_ins t <> []
   (tx_wf: version / lock_time / index / sequence in u32, amounts in u64, 32-byte outpoint hashes, scripts and
   witness items shorter than 2^63 bytes, list lengths below 2^64; at least one input because the zero-input legacy
   form is read as the segwit marker).  On tx_wf transactions c07_stream / c07_txhash ARE the results of the
   outcome-valued model functions (C14c_wrappers_exact), and Tx.parse returns tx_wf transactions only
   (C14c_parsed_tx_wf), so the `[] if it raises` case is never reached in any statement below.

   What turned out FALSE: C14's hypothesis tx_parser_exact does not hold for the real transaction codec
   (C14c_tx_parser_not_exact: Tx.parse accepts a non-minimally encoded count, Tx.stream writes the minimal one), so
   C14_block_parse_roundtrip cannot be instantiated as it stands.  It is restated for CANONICAL bytes — those on which
   C07's independent strict decoder (Spec/TxWireSpec.v decode_strict, iterated by d_vec) succeeds after the header —
   and canonicity is shown to be met by every streamed block (C14c_streamed_block_is_canonical). *)
From PV Require Import Base.Bytes Base.Outcome Base.Varint Model.TxWire Spec.TxWireSpec Proofs.TxWireP
  Model.Merkle Spec.MerkleSpec Model.Block Proofs.BlockP Proofs.ComposeBlockTx.

(* ---- the three codec hypotheses of C14 for the real codec ------------------------------------------------------- *)
Theorem C14c_tx_frame : forall t : tx, tx_ok t -> tx_frame tx c07_parse c07_stream t.
Proof. exact c07_frame. Qed.
Print Assumptions C14c_tx_frame.

Theorem C14c_tx_parser_consumes : tx_parser_consumes tx c07_parse.
Proof. exact c07_consumes. Qed.
Print Assumptions C14c_tx_parser_consumes.

Theorem C14c_tx_parser_not_exact : ~ tx_parser_exact tx c07_parse c07_stream.
Proof. exact c07_not_exact. Qed.
Print Assumptions C14c_tx_parser_not_exact.

(* the witness: 01000000 fd0100 <one input> 00 00000000 parses to a well-formed one-input transaction, consumes
   everything, is not what that transaction serialises to, and is refused by the strict decoder *)
Theorem C14c_nonminimal_witness :
  exists t, c07_parse nonminimal_tx_bytes = Ret (t, []) /\ tx_ok t /\ nonminimal_tx_bytes <> c07_stream t ++ [] /\
            decode_strict nonminimal_tx_bytes = None.
Proof. exact nonminimal_parses. Qed.
Print Assumptions C14c_nonminimal_witness.

(* the total wrappers are exact on well-formed transactions ... *)
Theorem C14c_wrappers_exact : forall (H : bytes -> bytes) (t : tx), tx_wf t ->
  stream_tx false true t = Ret (c07_stream t) /\ wire_format t (c07_stream t) /\
  tx_hash H t None = Ret (c07_txhash H t) /\ c07_txhash H t = H (ser_legacy t).
Proof.
  intros H t W. destruct (c07_stream_ok t W) as [A B]. destruct (c07_txhash_ok H t W) as [C D].
  exact (conj A (conj B (conj C D))).
Qed.
Print Assumptions C14c_wrappers_exact.

(* ... and Tx.parse returns well-formed transactions only (for every input and both settings of allow_segwit) *)
Theorem C14c_parsed_tx_wf : forall (a : bool) (s : bytes) (t : tx) (r : bytes), parse_tx a s = Ret (t, r) -> tx_wf t.
Proof. exact parse_tx_wf. Qed.
Print Assumptions C14c_parsed_tx_wf.

(* ---- composed block theorems: no codec hypothesis left ----------------------------------------------------------- *)
(* block -> bytes -> the same block, anything following left unread *)
Theorem C14c_block_roundtrip : forall (Htx dsha256 : bytes -> bytes) (h : header) (ts : list tx),
  wf_header h -> ts <> [] -> (N.of_nat (length ts) < 2 ^ 64)%N -> Forall tx_ok ts ->
  h_merkle_root h = merkle_root dsha256 (map (c07_txhash Htx) ts) ->
  exists s, block_stream tx c07_stream (mkBlock tx h ts) = Ret s /\
    forall rest, block_parse tx c07_parse (c07_txhash Htx) dsha256 true true (s ++ rest) = Ret (mkBlock tx h ts, rest).
Proof. exact c_block_roundtrip. Qed.
Print Assumptions C14c_block_roundtrip.

(* the exact verdict for both settings of check_merkle_hash *)
Theorem C14c_block_parse_of_stream : forall (Htx dsha256 : bytes -> bytes) (h : header) (ts : list tx) (check : bool),
  wf_header h -> ts <> [] -> (N.of_nat (length ts) < 2 ^ 64)%N -> Forall tx_ok ts ->
  exists s, block_stream tx c07_stream (mkBlock tx h ts) = Ret s /\ forall rest,
    block_parse tx c07_parse (c07_txhash Htx) dsha256 true check (s ++ rest) =
      if negb check || bytes_eqb (merkle_root dsha256 (map (c07_txhash Htx) ts)) (h_merkle_root h)
      then Ret (mkBlock tx h ts, rest) else Raise E_BADMERKLE.
Proof. exact c_block_parse_of_stream. Qed.
Print Assumptions C14c_block_parse_of_stream.

(* what is streamed and what is hashed, in terms of C07's wire-format specification: the 80 header bytes, the
   minimal count, each transaction in BIP144/legacy wire format; the leaves of the merkle tree are the hashes of the
   witness-stripped serialisations *)
Theorem C14c_block_bytes : forall (Htx : bytes -> bytes) (h : header) (ts : list tx),
  wf_header h -> ts <> [] -> (N.of_nat (length ts) < 2 ^ 64)%N -> Forall tx_wf ts ->
  block_stream tx c07_stream (mkBlock tx h ts) = Ret (header_bytes h ++ compact_size (zlen ts) ++ concat (map c07_stream ts)) /\
  Forall (fun t => wire_format t (c07_stream t)) ts /\
  map (c07_txhash Htx) ts = map (fun t => Htx (ser_legacy t)) ts.
Proof. exact c_block_stream_bytes. Qed.
Print Assumptions C14c_block_bytes.

(* a serialised block whose header root is not the root of its transactions is rejected with BadMerkleRootError *)
Theorem C14c_bad_root_rejected : forall (Htx dsha256 : bytes -> bytes) (h : header) (ts : list tx),
  wf_header h -> ts <> [] -> (N.of_nat (length ts) < 2 ^ 64)%N -> Forall tx_ok ts ->
  h_merkle_root h <> merkle_root dsha256 (map (c07_txhash Htx) ts) ->
  exists s, block_stream tx c07_stream (mkBlock tx h ts) = Ret s /\
    forall rest, block_parse tx c07_parse (c07_txhash Htx) dsha256 true true (s ++ rest) = Raise E_BADMERKLE.
Proof. exact c_block_bad_root_rejected. Qed.
Print Assumptions C14c_bad_root_rejected.

(* whatever the bytes: a block accepted with at least one transaction consists of well-formed transactions and carries
   the merkle root of their ids, the ids being Htx of the witness-stripped serialisations (and computing them with the
   outcome-valued Tx.hash never raises) *)
Theorem C14c_accepted_block_has_root : forall (Htx dsha256 : bytes -> bytes) (s : bytes) (b : block tx) (rest : bytes),
  block_parse tx c07_parse (c07_txhash Htx) dsha256 true true s = Ret (b, rest) -> b_txs tx b <> [] ->
  Forall tx_wf (b_txs tx b) /\
  h_merkle_root (b_header tx b) = merkle_root dsha256 (map (fun t => Htx (ser_legacy t)) (b_txs tx b)) /\
  mapM (fun t => tx_hash Htx t None) (b_txs tx b) = Ret (map (fun t => Htx (ser_legacy t)) (b_txs tx b)).
Proof. exact c_block_accepted_root. Qed.
Print Assumptions C14c_accepted_block_has_root.

(* Block.parse is total: neither the transaction loop of the block nor the count loops inside Tx.parse run out of fuel *)
Theorem C14c_block_parse_total : forall (Htx dsha256 : bytes -> bytes) (inc check : bool) (s : bytes),
  block_parse tx c07_parse (c07_txhash Htx) dsha256 inc check s <> OutOfFuel.
Proof. exact c_block_parse_total. Qed.
Print Assumptions C14c_block_parse_total.

(* ---- bytes -> block -> bytes, for canonical bytes ------------------------------------------------------------------ *)
(* canonical = after the 80 header bytes the strict decoder reads a minimal count and that many canonical
   transactions (minimal compact sizes, all declared bytes present, marker 00 only with flag 01 and a non-empty
   witness).  Then Block.parse is fully determined (same transactions; verdict by the merkle comparison) and
   re-serialising returns the bytes it consumed. *)
Theorem C14c_block_parse_canonical : forall (Htx dsha256 : bytes -> bytes) (s : bytes) (ts : list tx) (rest : bytes),
  80 <= length s -> d_vec decode_strict (skipn 80 s) = Some (ts, rest) -> ts <> [] ->
  exists h, wf_header h /\ stream_header h = Ret (firstn 80 s) /\ Forall tx_ok ts /\
    (forall check, block_parse tx c07_parse (c07_txhash Htx) dsha256 true check s =
       if negb check || bytes_eqb (merkle_root dsha256 (map (c07_txhash Htx) ts)) (h_merkle_root h)
       then Ret (mkBlock tx h ts, rest) else Raise E_BADMERKLE) /\
    exists p, block_stream tx c07_stream (mkBlock tx h ts) = Ret p /\ s = p ++ rest.
Proof. exact c_block_parse_canonical. Qed.
Print Assumptions C14c_block_parse_canonical.

(* C14_block_parse_roundtrip with `tx_parser_exact` (false) and `varint_canonical` replaced by canonicity of the bytes *)
Theorem C14c_block_parse_roundtrip : forall (Htx dsha256 : bytes -> bytes) (check : bool) (s : bytes) (b : block tx) (rest : bytes),
  block_parse tx c07_parse (c07_txhash Htx) dsha256 true check s = Ret (b, rest) -> b_txs tx b <> [] ->
  (exists ts r, d_vec decode_strict (skipn 80 s) = Some (ts, r)) ->
  exists p, block_stream tx c07_stream b = Ret p /\ s = p ++ rest.
Proof. exact c_block_stream_of_parse. Qed.
Print Assumptions C14c_block_parse_roundtrip.

(* canonicity is not too narrow: whatever Block.stream writes for well-formed transactions is canonical *)
Theorem C14c_streamed_block_is_canonical : forall (h : header) (ts : list tx) (s rest : bytes),
  wf_header h -> ts <> [] -> (N.of_nat (length ts) < 2 ^ 64)%N -> Forall tx_ok ts ->
  block_stream tx c07_stream (mkBlock tx h ts) = Ret s ->
  80 <= length (s ++ rest) /\ d_vec decode_strict (skipn 80 (s ++ rest)) = Some (ts, rest).
Proof. exact block_stream_is_canonical. Qed.
Print Assumptions C14c_streamed_block_is_canonical.

(* ---- non-vacuity --------------------------------------------------------------------------------------------------- *)
Definition cx_H (x : bytes) : bytes := firstn 32 (rev x ++ repeatb x00 32).
(* a legacy one-input transaction and a two-input segwit transaction (C07's example) *)
Definition cx_tx1 : tx :=
  mk_tx 1 [mk_txin (repeatb x33 32) 1 [x51] 4294967295 []] [mk_txout 5000000000 [x51; x52]] 0.
Definition cx_tx2 : tx :=
  mk_tx 2 [mk_txin (repeatb x11 32) 0 (repeatb x61 253) 4294967295 [];
           mk_txin (repeatb x22 32) 4294967295 [] 0 [[]; repeatb x77 3]]
          [mk_txout 9223372036854775808 [x51]; mk_txout 18446744073709551615 []] 4294967295.
Definition cx_txs : list tx := [cx_tx1; cx_tx2].
Definition cx_header : header :=
  mkHeader 1 (repeatb x11 32) (merkle_root cx_H (map (c07_txhash cx_H) cx_txs)) 5 6 7.

Example C14c_ex_hypotheses : wf_header cx_header /\ cx_txs <> [] /\ Forall tx_ok cx_txs.
Proof.
  split; [repeat split; vm_compute; reflexivity|]. split; [discriminate|].
  unfold cx_txs, tx_ok, tx_wf, txin_wf, txout_wf, u32, u64, len64, len63, zlen. cbn.
  repeat (split || constructor || discriminate || lia).
Qed.

(* the block streams to 80 + 1 + 63 + 375 bytes, parses back with the merkle check on, is canonical, and is
   rejected when one byte of the root is changed *)
Example C14c_ex_block :
  match block_stream tx c07_stream (mkBlock tx cx_header cx_txs) with
  | Ret s => length s = 519 /\
             block_parse tx c07_parse (c07_txhash cx_H) cx_H true true (s ++ [xff]) = Ret (mkBlock tx cx_header cx_txs, [xff]) /\
             d_vec decode_strict (skipn 80 (s ++ [xff])) = Some (cx_txs, [xff]) /\
             block_parse tx c07_parse (c07_txhash cx_H) cx_H true true (firstn 36 s ++ [x00] ++ skipn 37 s) = Raise E_BADMERKLE
  | _ => False
  end.
Proof. vm_compute. repeat split. Qed.
