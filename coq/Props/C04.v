(* Props/C04.v — property C04: signature hashes equal the consensus definition for every hash type.
   Only statements; every proof is `exact <lemma>` (lemmas in Proofs/SighashP.v).
     Model  (Model/Sighash.v)     : pycoin's _signature_hash / _signature_for_hash_type_segwit / delete_subscript ...
     Spec   (Spec/SighashCore.v)  : Core's GetScriptOp, FindAndDelete, CTransactionSignatureSerializer, BIP143, fork ids
   sha256 / dsha256 are arbitrary functions (Section variables of the model): every theorem holds for all of them.
   tx_wf: fields in their wire ranges (32-byte outpoint hashes, 32-bit index/sequence/version/lock time, 64-bit amounts).

   One family of inputs is excluded by a NAMED predicate and refuted without the exclusion (known finding):
     * script codes with an undecodable instruction (`core_decodable script = false`): pycoin's walk goes on behind the
       bad instruction; exact condition for FindAndDelete: `rewalk_excluded` (C04_find_and_delete_exact).
       No successful script evaluation can contain such a script, in Core or in pycoin.  The refuting witness
       (ac 05 00 ab: pycoin strips the trailing ab, Core does not look behind the truncated push) does not depend on
       how Core's serializer treats the bytes of the bad instruction itself.
   (The second family of the first version of this file — one-byte signature blobs, whose MINIMAL push pycoin removed —
   is gone: since /repo commit 2ba5b6d _delete_signature removes the plain push, which is Core's CScript() << sig.)
   "Computing a hash never modifies the transaction" is not a theorem (a pure model cannot alias): direct check only. *)
From PV Require Import Base.Bytes Base.Outcome Base.Varint Gen.GenOpcodes Gen.GenSighashC04
  Model.Push Model.Sighash Spec.SighashCore Model.SighashBridge Proofs.PushP Proofs.SighashP.
Local Open Scope N_scope.

(* ---- the script walk terminates: len(script) iterations always suffice ------------------------------ *)
Theorem C04_delete_subscript_total : forall script sub : bytes,
  exists r, delete_subscript script sub = Ret r.
Proof. exact delete_subscript_total. Qed.
Print Assumptions C04_delete_subscript_total.

(* ---- FindAndDelete ------------------------------------------------------------------------------------ *)
(* full statement: for every script and every pattern that is one complete instruction *)
Definition C04_find_and_delete_statement : Prop := find_and_delete_statement.
Theorem C04_find_and_delete_refuted_rewalk : ~ C04_find_and_delete_statement.
Proof. exact find_and_delete_refuted. Qed.
Print Assumptions C04_find_and_delete_refuted_rewalk.

(* exact: pycoin = Core iff pycoin's continued walk removes nothing behind the first undecodable instruction *)
Theorem C04_find_and_delete_exact : forall pat script : bytes, complete_instruction pat ->
  (delete_subscript script pat = Ret (core_find_and_delete pat script) <-> rewalk_excluded pat script = false).
Proof. exact find_and_delete_iff. Qed.
Print Assumptions C04_find_and_delete_exact.

(* ... and what both produce in general: a common part G, then Core copies the tail, pycoin walks on *)
Theorem C04_find_and_delete_general : forall pat script : bytes, complete_instruction pat ->
  exists G w, core_find_and_delete pat script = G ++ undecodable_tail script
           /\ delete_subscript (undecodable_tail script) pat = Ret w
           /\ delete_subscript script pat = Ret (G ++ w).
Proof. exact find_and_delete_general. Qed.
Print Assumptions C04_find_and_delete_general.

Theorem C04_find_and_delete_eq_partial : forall pat script : bytes,
  complete_instruction pat -> core_decodable script = true ->
  delete_subscript script pat = Ret (core_find_and_delete pat script).
Proof. exact find_and_delete_decodable. Qed.
Print Assumptions C04_find_and_delete_eq_partial.

(* the signature being checked: the pattern pycoin removes IS Core's CScript() << sig (every blob below 2^32 bytes) *)
Theorem C04_signature_pattern_is_core_push : forall sig : bytes, N.of_nat (length sig) < 2 ^ 32 ->
  plain_push sig = Ret (core_push sig) /\ complete_instruction (core_push sig).
Proof. exact signature_pattern_q. Qed.
Print Assumptions C04_signature_pattern_is_core_push.

(* full statement over all scripts: still refuted by the walk behind an undecodable instruction *)
Definition C04_delete_signature_statement : Prop := delete_signature_statement.
Theorem C04_delete_signature_refuted_rewalk : ~ C04_delete_signature_statement.
Proof. exact delete_signature_refuted. Qed.
Print Assumptions C04_delete_signature_refuted_rewalk.

(* C04_find_and_delete_eq for the signature pattern: every blob (no exclusion on the blob), every decodable script *)
Theorem C04_delete_signature_eq_partial : forall script sig : bytes,
  N.of_nat (length sig) < 2 ^ 32 -> core_decodable script = true ->
  delete_signature script sig = Ret (core_find_and_delete (core_push sig) script).
Proof. exact delete_signature_decodable. Qed.
Print Assumptions C04_delete_signature_eq_partial.

Theorem C04_delete_signature_exact : forall script sig : bytes,
  N.of_nat (length sig) < 2 ^ 32 ->
  (delete_signature script sig = Ret (core_find_and_delete (core_push sig) script)
   <-> rewalk_excluded (core_push sig) script = false).
Proof. exact delete_signature_iff. Qed.
Print Assumptions C04_delete_signature_exact.

(* CHECKMULTISIG: every signature removed in turn (sig_for_hash_type_f) = Core's script code *)
Theorem C04_multisig_script_code_partial : forall (sigs : list bytes) (script : bytes),
  Forall (fun sg => N.of_nat (length sg) < 2 ^ 32) sigs ->
  core_decodable script = true ->
  delete_signatures script sigs = Ret (core_script_code_base script sigs).
Proof. exact delete_signatures_decodable. Qed.
Print Assumptions C04_multisig_script_code_partial.

(* ---- legacy SignatureHash ------------------------------------------------------------------------------ *)
Definition C04_legacy_statement : Prop := legacy_statement.
Theorem C04_legacy_refuted_undecodable_script : ~ C04_legacy_statement.
Proof. exact legacy_refuted. Qed.
Print Assumptions C04_legacy_refuted_undecodable_script.

(* the bytes pycoin hashes = the bytes Core's streaming serializer writes (all hash types: ht < 2^32) *)
Theorem C04_legacy_preimage_eq_partial : forall (t : tx) (script : bytes) (idx : nat) (ht : N),
  tx_wf t -> (idx < length (tx_ins t))%nat -> ht < 2 ^ 32 -> N.of_nat (length script) < 2 ^ 64 ->
  core_decodable script = true ->
  legacy_presig t script idx ht
  = Ret (match core_signature_hash_legacy script (to_core t) idx ht with
         | CoreOne => PConst (2 ^ 248)
         | CorePreimage p => PPreimage p
         end).
Proof. exact legacy_presig_eq. Qed.
Print Assumptions C04_legacy_preimage_eq_partial.

(* the integer _signature_hash returns = Core's digest bytes read big-endian, Bitcoin and Litecoin classes *)
Theorem C04_legacy_digest_btc_ltc_partial :
  forall (sha256 dsha256 : bytes -> bytes) (t : tx) (script : bytes) (idx : nat) (ht : N) (c : coin),
  tx_wf t -> (idx < length (tx_ins t))%nat -> ht < 2 ^ 32 -> N.of_nat (length script) < 2 ^ 64 ->
  c = BTC \/ c = LTC -> core_decodable script = true ->
  signature_hash sha256 dsha256 c t script idx ht
  = Ret (be_decode (core_digest dsha256 (core_signature_hash_legacy script (to_core t) idx ht))).
Proof. exact legacy_digest_btc_ltc. Qed.
Print Assumptions C04_legacy_digest_btc_ltc_partial.

(* the SIGHASH_SINGLE bug value: no hypothesis on the transaction, the script or the rest of the hash type *)
Theorem C04_single_bug_value : forall (t : tx) (script : bytes) (idx : nat) (ht : N),
  N.land ht 31 = SIGHASH_SINGLE -> (length (tx_outs t) <= idx)%nat ->
  legacy_presig t script idx ht = Ret (PConst (2 ^ 248)).
Proof. exact single_bug_presig. Qed.
Print Assumptions C04_single_bug_value.

Theorem C04_single_bug_value_is_uint256_one :
  be_decode uint256_one = 2 ^ 248 /\ be_encode 32 (2 ^ 248) = uint256_one.
Proof. exact one_is_2_248. Qed.
Print Assumptions C04_single_bug_value_is_uint256_one.

(* ---- BIP143 ----------------------------------------------------------------------------------------------- *)
Theorem C04_bip143_preimage_eq :
  forall (sha256 dsha256 : bytes -> bytes) (t : tx) (script : bytes) (idx : nat) (ht : N) (u : txout),
  tx_wf t -> (idx < length (tx_ins t))%nat -> N.of_nat (length script) < 2 ^ 64 ->
  nth_error (tx_unspents t) idx = Some (Some u) -> to_value u < 2 ^ 64 -> ht < 2 ^ 32 ->
  btc_segwit_preimage dsha256 t script idx ht
  = Ret (bip143_preimage dsha256 script (to_core t) idx (to_value u) ht).
Proof. exact bip143_preimage_btc. Qed.
Print Assumptions C04_bip143_preimage_eq.

Theorem C04_bip143_digest_btc_ltc_bch :
  forall (sha256 dsha256 : bytes -> bytes) (t : tx) (script : bytes) (idx : nat) (ht : N) (u : txout) (c : coin),
  tx_wf t -> (idx < length (tx_ins t))%nat -> ht < 2 ^ 32 -> N.of_nat (length script) < 2 ^ 64 ->
  nth_error (tx_unspents t) idx = Some (Some u) -> to_value u < 2 ^ 64 ->
  c = BTC \/ c = LTC \/ c = BCH ->
  signature_for_hash_type_segwit sha256 dsha256 c t script idx ht
  = Ret (be_decode (dsha256 (bip143_preimage dsha256 script (to_core t) idx (to_value u) ht))).
Proof. exact bip143_digest_btc_ltc_bch. Qed.
Print Assumptions C04_bip143_digest_btc_ltc_bch.

(* ---- fork ids: refused without SIGHASH_FORKID, otherwise BIP143 with hash_type | forkid << 8 -------------- *)
Theorem C04_forkid_bch :
  forall (sha256 dsha256 : bytes -> bytes) (t : tx) (script : bytes) (idx : nat) (ht : N) (u : txout),
  tx_wf t -> (idx < length (tx_ins t))%nat -> ht < 2 ^ 32 -> N.of_nat (length script) < 2 ^ 64 ->
  nth_error (tx_unspents t) idx = Some (Some u) -> to_value u < 2 ^ 64 ->
  signature_hash sha256 dsha256 BCH t script idx ht
  = match forkid_preimage dsha256 FORKID_BCH script (to_core t) idx (to_value u) ht with
    | None => Raise E_SCRIPT
    | Some p => Ret (be_decode (dsha256 p))
    end.
Proof. exact forkid_bch_q. Qed.
Print Assumptions C04_forkid_bch.

Theorem C04_forkid_btg :
  forall (sha256 dsha256 : bytes -> bytes) (t : tx) (script : bytes) (idx : nat) (ht : N) (u : txout),
  tx_wf t -> (idx < length (tx_ins t))%nat -> ht < 2 ^ 32 -> N.of_nat (length script) < 2 ^ 64 ->
  nth_error (tx_unspents t) idx = Some (Some u) -> to_value u < 2 ^ 64 ->
  let spec := match forkid_preimage dsha256 FORKID_BTG script (to_core t) idx (to_value u) ht with
              | None => Raise E_SCRIPT
              | Some p => Ret (be_decode (dsha256 p))
              end in
  signature_hash sha256 dsha256 BTG t script idx ht = spec
  /\ signature_for_hash_type_segwit sha256 dsha256 BTG t script idx ht = spec.
Proof. exact forkid_btg_both. Qed.
Print Assumptions C04_forkid_btg.

(* the refusals hold for EVERY transaction, script, index (no well-formedness needed) *)
Theorem C04_forkid_refusal :
  forall (sha256 dsha256 : bytes -> bytes) (t : tx) (script : bytes) (idx : nat) (ht : N),
  N.land ht SIGHASH_FORKID = 0 ->
  signature_hash sha256 dsha256 BCH t script idx ht = Raise E_SCRIPT
  /\ signature_hash sha256 dsha256 BTG t script idx ht = Raise E_SCRIPT
  /\ signature_for_hash_type_segwit sha256 dsha256 BTG t script idx ht = Raise E_SCRIPT.
Proof. exact forkid_refusals. Qed.
Print Assumptions C04_forkid_refusal.

(* ---- Groestlcoin: the same preimages, single SHA-256 everywhere (dsha256 does not occur on the right) ----- *)
Theorem C04_grs_single_sha :
  forall (sha256 dsha256 : bytes -> bytes) (t : tx) (script : bytes) (idx : nat) (ht : N) (u : txout),
  tx_wf t -> (idx < length (tx_ins t))%nat -> ht < 2 ^ 32 -> N.of_nat (length script) < 2 ^ 64 ->
  nth_error (tx_unspents t) idx = Some (Some u) -> to_value u < 2 ^ 64 ->
  (core_decodable script = true ->
   signature_hash sha256 dsha256 GRS t script idx ht
   = Ret (be_decode (core_digest sha256 (core_signature_hash_legacy script (to_core t) idx ht))))
  /\ signature_for_hash_type_segwit sha256 dsha256 GRS t script idx ht
     = Ret (be_decode (sha256 (bip143_preimage sha256 script (to_core t) idx (to_value u) ht))).
Proof. exact grs_single_sha. Qed.
Print Assumptions C04_grs_single_sha.

(* ---- the hypotheses are satisfiable --------------------------------------------------------------------- *)
Example C04_hypotheses_satisfiable :
  tx_wf witness_tx /\ core_decodable example_script = true
  /\ complete_instruction [n2b OP_CODESEPARATOR] /\ plain_push [x30; x01] = Ret [x02; x30; x01]
  /\ legacy_presig witness_tx example_script 0 1
     = Ret (PPreimage ([x01; x00; x00; x00; x01] ++ repeatb x11 32 ++ [x00; x00; x00; x00]
                       ++ [x05; x02; x30; x01; xac; x51] ++ [xff; xff; xff; xff]
                       ++ [x01; x01; x00; x00; x00; x00; x00; x00; x00; x01; x51]
                       ++ [x00; x00; x00; x00] ++ [x01; x00; x00; x00])).
Proof.
  split; [exact witness_tx_wf|]. split; [exact example_decodable|]. split; [exact codesep_complete|].
  split; vm_compute; reflexivity.
Qed.
