(* Props/C04.v — property C04: signature hashes equal the consensus definition for every hash type.
   Only statements; every proof is `exact <lemma>` (lemmas in Proofs/SighashP.v).
     Model  (Model/Sighash.v)     : pycoin's _signature_hash / _signature_for_hash_type_segwit / delete_subscript ...
     Spec   (Spec/SighashCore.v)  : Core's GetScriptOp, FindAndDelete, CTransactionSignatureSerializer, BIP143, fork ids
   sha256 / dsha256 are arbitrary functions (Section variables of the model): every theorem holds for all of them.
   tx_wf: fields in their wire ranges (32-byte outpoint hashes, 32-bit index/sequence/version/lock time, 64-bit amounts).

   History.  The first version of this file excluded two input families by named predicates (one-byte signature
   blobs; script codes with an undecodable instruction) and refuted the unrestricted statements.  Both deviations
   were repaired in /repo (commits 2ba5b6d, 50939fb): _delete_signature removes the plain push = CScript() << sig,
   and delete_subscript stops at the first undecodable instruction and keeps the rest, as Core's FindAndDelete.
   The model follows the repaired code; every theorem below quantifies over ALL scripts, no exclusion is left.

   Legacy digest and undecodable scripts.  Core has had two formulations of how the script code enters the legacy
   preimage: the original one (FindAndDelete of OP_CODESEPARATOR, then the script serialized as a whole;
   SignatureHashOld in Core's sighash_tests.cpp) and today's streaming SerializeScriptCode.  They agree on every
   decodable script (C04_core_formulations_agree) and differ from EACH OTHER on scripts with an undecodable
   instruction (C04_core_formulations_differ_on_undecodable), which no successful evaluation can contain.
   pycoin equals the original formulation on all scripts (C04_legacy_preimage_eq) and hence the streaming one on all
   decodable scripts (C04_legacy_preimage_eq_streaming).
   "Computing a hash never modifies the transaction" is not a theorem (a pure model cannot alias): direct check only. *)
From PV Require Import Base.Bytes Base.Outcome Base.Varint Gen.GenOpcodes Gen.GenSighashC04
  Model.Push Model.Sighash Spec.SighashCore Model.SighashBridge Model.SighashHistory Proofs.PushP Proofs.SighashP
  Proofs.SighashHistoryP.
Local Open Scope N_scope.

(* ---- the script walk terminates: len(script) iterations always suffice ------------------------------ *)
Theorem C04_delete_subscript_total : forall script sub : bytes,
  exists r, delete_subscript script sub = Ret r.
Proof. exact delete_subscript_total. Qed.
Print Assumptions C04_delete_subscript_total.

(* ---- FindAndDelete: every script (decodable or not), every pattern that is one complete instruction ---- *)
Theorem C04_find_and_delete_eq : forall pat script : bytes, complete_instruction pat ->
  delete_subscript script pat = Ret (core_find_and_delete pat script).
Proof. exact find_and_delete_q. Qed.
Print Assumptions C04_find_and_delete_eq.

(* the signature being checked: the pattern pycoin removes IS Core's CScript() << sig (every blob below 2^32 bytes) *)
Theorem C04_signature_pattern_is_core_push : forall sig : bytes, N.of_nat (length sig) < 2 ^ 32 ->
  plain_push sig = Ret (core_push sig) /\ complete_instruction (core_push sig).
Proof. exact signature_pattern_q. Qed.
Print Assumptions C04_signature_pattern_is_core_push.

Theorem C04_delete_signature_eq : forall script sig : bytes, N.of_nat (length sig) < 2 ^ 32 ->
  delete_signature script sig = Ret (core_find_and_delete (core_push sig) script).
Proof. exact delete_signature_eq. Qed.
Print Assumptions C04_delete_signature_eq.

(* a blob of 2^32 bytes or more cannot be length-prefixed: OverflowError *)
Theorem C04_delete_signature_overflow : forall script sig : bytes, 2 ^ 32 <= N.of_nat (length sig) ->
  delete_signature script sig = Raise E_OVERFLOW.
Proof. exact delete_signature_overflow. Qed.
Print Assumptions C04_delete_signature_overflow.

(* CHECKMULTISIG: every signature removed in turn (sig_for_hash_type_f) = Core's script code *)
Theorem C04_multisig_script_code : forall (sigs : list bytes) (script : bytes),
  Forall (fun sg => N.of_nat (length sg) < 2 ^ 32) sigs ->
  delete_signatures script sigs = Ret (core_script_code_base script sigs).
Proof. exact delete_signatures_eq. Qed.
Print Assumptions C04_multisig_script_code.

(* ---- legacy SignatureHash ------------------------------------------------------------------------------ *)
(* the bytes pycoin hashes = the bytes Core's serializer writes: all transactions, ALL scripts, all hash types *)
Theorem C04_legacy_preimage_eq : forall (t : tx) (script : bytes) (idx : nat) (ht : N),
  tx_wf t -> (idx < length (tx_ins t))%nat -> ht < 2 ^ 32 -> N.of_nat (length script) < 2 ^ 64 ->
  legacy_presig t script idx ht
  = Ret (match core_signature_hash_old script (to_core t) idx ht with
         | CoreOne => PConst (2 ^ 248)
         | CorePreimage p => PPreimage p
         end).
Proof. exact legacy_presig_eq. Qed.
Print Assumptions C04_legacy_preimage_eq.

Theorem C04_core_formulations_agree : forall (script : bytes) (tx : CTransaction) (nIn : nat) (ht : N),
  core_decodable script = true ->
  core_signature_hash_legacy script tx nIn ht = core_signature_hash_old script tx nIn ht.
Proof. exact core_formulations_agree. Qed.
Print Assumptions C04_core_formulations_agree.

Theorem C04_core_formulations_differ_on_undecodable :
  core_decodable witness_script = false
  /\ core_signature_hash_legacy witness_script (to_core witness_tx) 0 1
     <> core_signature_hash_old witness_script (to_core witness_tx) 0 1.
Proof. exact core_formulations_differ_on_undecodable. Qed.
Print Assumptions C04_core_formulations_differ_on_undecodable.

Theorem C04_legacy_preimage_eq_streaming : forall (t : tx) (script : bytes) (idx : nat) (ht : N),
  tx_wf t -> (idx < length (tx_ins t))%nat -> ht < 2 ^ 32 -> N.of_nat (length script) < 2 ^ 64 ->
  core_decodable script = true ->
  legacy_presig t script idx ht
  = Ret (match core_signature_hash_legacy script (to_core t) idx ht with
         | CoreOne => PConst (2 ^ 248)
         | CorePreimage p => PPreimage p
         end).
Proof. exact legacy_streaming_q. Qed.
Print Assumptions C04_legacy_preimage_eq_streaming.

(* the integer _signature_hash returns = Core's digest bytes read big-endian, Bitcoin and Litecoin classes *)
Theorem C04_legacy_digest_btc_ltc :
  forall (sha256 dsha256 : bytes -> bytes) (t : tx) (script : bytes) (idx : nat) (ht : N) (c : coin),
  tx_wf t -> (idx < length (tx_ins t))%nat -> ht < 2 ^ 32 -> N.of_nat (length script) < 2 ^ 64 ->
  c = BTC \/ c = LTC ->
  signature_hash sha256 dsha256 c t script idx ht
  = Ret (be_decode (core_digest dsha256 (core_signature_hash_old script (to_core t) idx ht))).
Proof. exact legacy_digest_btc_ltc. Qed.
Print Assumptions C04_legacy_digest_btc_ltc.

(* the SIGHASH_SINGLE bug value: no hypothesis on the transaction, the script or the rest of the hash type *)
Theorem C04_single_bug_value : forall (t : tx) (script : bytes) (idx : nat) (ht : N),
  N.land ht 31 = SIGHASH_SINGLE -> (length (tx_outs t) <= idx)%nat ->
  legacy_presig t script idx ht = Ret (PConst (2 ^ 248)).
Proof. exact single_bug_presig. Qed.
Print Assumptions C04_single_bug_value.

Theorem C04_single_bug_value_is_uint256_one :
  be_decode uint256_one = 2 ^ 248 /\ be_encode 32 (2 ^ 248) = uint256_one.
Proof. exact one_is_2_248. Qed.
Print Assumptions C04_single_bug_value_is_uint256_one.

(* ---- BIP143 ----------------------------------------------------------------------------------------------- *)
Theorem C04_bip143_preimage_eq :
  forall (sha256 dsha256 : bytes -> bytes) (t : tx) (script : bytes) (idx : nat) (ht : N) (u : txout),
  tx_wf t -> (idx < length (tx_ins t))%nat -> N.of_nat (length script) < 2 ^ 64 ->
  nth_error (tx_unspents t) idx = Some (Some u) -> to_value u < 2 ^ 64 -> ht < 2 ^ 32 ->
  btc_segwit_preimage dsha256 t script idx ht
  = Ret (bip143_preimage dsha256 script (to_core t) idx (to_value u) ht).
Proof. exact bip143_preimage_btc. Qed.
Print Assumptions C04_bip143_preimage_eq.

Theorem C04_bip143_digest_btc_ltc_bch :
  forall (sha256 dsha256 : bytes -> bytes) (t : tx) (script : bytes) (idx : nat) (ht : N) (u : txout) (c : coin),
  tx_wf t -> (idx < length (tx_ins t))%nat -> ht < 2 ^ 32 -> N.of_nat (length script) < 2 ^ 64 ->
  nth_error (tx_unspents t) idx = Some (Some u) -> to_value u < 2 ^ 64 ->
  c = BTC \/ c = LTC \/ c = BCH ->
  signature_for_hash_type_segwit sha256 dsha256 c t script idx ht
  = Ret (be_decode (dsha256 (bip143_preimage dsha256 script (to_core t) idx (to_value u) ht))).
Proof. exact bip143_digest_btc_ltc_bch. Qed.
Print Assumptions C04_bip143_digest_btc_ltc_bch.

(* ---- fork ids: refused without SIGHASH_FORKID, otherwise BIP143 with hash_type | forkid << 8 -------------- *)
Theorem C04_forkid_bch :
  forall (sha256 dsha256 : bytes -> bytes) (t : tx) (script : bytes) (idx : nat) (ht : N) (u : txout),
  tx_wf t -> (idx < length (tx_ins t))%nat -> ht < 2 ^ 32 -> N.of_nat (length script) < 2 ^ 64 ->
  nth_error (tx_unspents t) idx = Some (Some u) -> to_value u < 2 ^ 64 ->
  signature_hash sha256 dsha256 BCH t script idx ht
  = match forkid_preimage dsha256 FORKID_BCH script (to_core t) idx (to_value u) ht with
    | None => Raise E_SCRIPT
    | Some p => Ret (be_decode (dsha256 p))
    end.
Proof. exact forkid_bch_q. Qed.
Print Assumptions C04_forkid_bch.

Theorem C04_forkid_btg :
  forall (sha256 dsha256 : bytes -> bytes) (t : tx) (script : bytes) (idx : nat) (ht : N) (u : txout),
  tx_wf t -> (idx < length (tx_ins t))%nat -> ht < 2 ^ 32 -> N.of_nat (length script) < 2 ^ 64 ->
  nth_error (tx_unspents t) idx = Some (Some u) -> to_value u < 2 ^ 64 ->
  let spec := match forkid_preimage dsha256 FORKID_BTG script (to_core t) idx (to_value u) ht with
              | None => Raise E_SCRIPT
              | Some p => Ret (be_decode (dsha256 p))
              end in
  signature_hash sha256 dsha256 BTG t script idx ht = spec
  /\ signature_for_hash_type_segwit sha256 dsha256 BTG t script idx ht = spec.
Proof. exact forkid_btg_both. Qed.
Print Assumptions C04_forkid_btg.

(* the refusals hold for EVERY transaction, script, index (no well-formedness needed) *)
Theorem C04_forkid_refusal :
  forall (sha256 dsha256 : bytes -> bytes) (t : tx) (script : bytes) (idx : nat) (ht : N),
  N.land ht SIGHASH_FORKID = 0 ->
  signature_hash sha256 dsha256 BCH t script idx ht = Raise E_SCRIPT
  /\ signature_hash sha256 dsha256 BTG t script idx ht = Raise E_SCRIPT
  /\ signature_for_hash_type_segwit sha256 dsha256 BTG t script idx ht = Raise E_SCRIPT.
Proof. exact forkid_refusals. Qed.
Print Assumptions C04_forkid_refusal.

(* ---- Groestlcoin: the same preimages, single SHA-256 everywhere (dsha256 does not occur on the right) ----- *)
Theorem C04_grs_single_sha :
  forall (sha256 dsha256 : bytes -> bytes) (t : tx) (script : bytes) (idx : nat) (ht : N) (u : txout),
  tx_wf t -> (idx < length (tx_ins t))%nat -> ht < 2 ^ 32 -> N.of_nat (length script) < 2 ^ 64 ->
  nth_error (tx_unspents t) idx = Some (Some u) -> to_value u < 2 ^ 64 ->
  signature_hash sha256 dsha256 GRS t script idx ht
  = Ret (be_decode (core_digest sha256 (core_signature_hash_old script (to_core t) idx ht)))
  /\ signature_for_hash_type_segwit sha256 dsha256 GRS t script idx ht
     = Ret (be_decode (sha256 (bip143_preimage sha256 script (to_core t) idx (to_value u) ht))).
Proof. exact grs_single_sha. Qed.
Print Assumptions C04_grs_single_sha.

(* ---- histories on ONE transaction object and ONE checker object (Model/SighashHistory.v) -----------------------
   ops: observers (_signature_hash, _signature_for_hash_type_segwit, _segwit_signature_preimage, the three BIP143
   midstates, tx.hash, tx.blanked_hash) and mutators (attribute assignment, append / pop / clear / del, list rebinding,
   set_unspents) in ANY order.  state_after t ops = the fields the transaction holds after the mutators of ops. *)

(* every observation = what a fresh checker computes from the CURRENT fields: independent of every earlier
   observation (input index, hash type, script code, amount) and of the fields the transaction had before *)
Theorem C04_history_independence :
  forall (sha256 dsha256 : bytes -> bytes) (c : coin) (ops : list op) (t : tx) (k : nat) (o : observer),
  nth_error ops k = Some (Observe o) ->
  nth_error (run sha256 dsha256 c t ops) k = Some (observe sha256 dsha256 c (state_after t (firstn k ops)) o).
Proof. exact history_observation. Qed.
Print Assumptions C04_history_independence.

(* an observer never changes the transaction (the model-level part of "computing a hash never modifies it") *)
Theorem C04_observer_keeps_state :
  forall (sha256 dsha256 : bytes -> bytes) (c : coin) (t : tx) (o : observer),
  fst (step sha256 dsha256 c t (Observe o)) = t.
Proof. exact observer_keeps_state. Qed.
Print Assumptions C04_observer_keeps_state.

(* the same observations in another order give the same results, re-ordered *)
Theorem C04_observation_order_irrelevant :
  forall (sha256 dsha256 : bytes -> bytes) (c : coin) (t : tx) (l l' : list observer),
  Permutation.Permutation l l' ->
  Permutation.Permutation (run sha256 dsha256 c t (map Observe l)) (run sha256 dsha256 c t (map Observe l')).
Proof. exact observations_permute. Qed.
Print Assumptions C04_observation_order_irrelevant.

(* the BIP143 digest asked at ANY point of ANY history = BIP143 on the fields of that moment (BTC, LTC, BCH classes) *)
Theorem C04_history_bip143 :
  forall (sha256 dsha256 : bytes -> bytes) (c : coin) (ops : list op) (t : tx) (k : nat)
         (script : bytes) (idx : nat) (ht : N) (u : txout),
  nth_error ops k = Some (Observe (ObsSegwit script idx ht)) ->
  let t' := state_after t (firstn k ops) in
  tx_wf t' -> (idx < length (tx_ins t'))%nat -> ht < 2 ^ 32 -> N.of_nat (length script) < 2 ^ 64 ->
  nth_error (tx_unspents t') idx = Some (Some u) -> to_value u < 2 ^ 64 ->
  c = BTC \/ c = LTC \/ c = BCH ->
  nth_error (run sha256 dsha256 c t ops) k
  = Some (Ret (HInt (be_decode (dsha256 (bip143_preimage dsha256 script (to_core t') idx (to_value u) ht))))).
Proof. exact history_segwit_spec. Qed.
Print Assumptions C04_history_bip143.

Theorem C04_history_forkid_btg :
  forall (sha256 dsha256 : bytes -> bytes) (ops : list op) (t : tx) (k : nat)
         (script : bytes) (idx : nat) (ht : N) (u : txout),
  nth_error ops k = Some (Observe (ObsSegwit script idx ht)) ->
  let t' := state_after t (firstn k ops) in
  tx_wf t' -> (idx < length (tx_ins t'))%nat -> ht < 2 ^ 32 -> N.of_nat (length script) < 2 ^ 64 ->
  nth_error (tx_unspents t') idx = Some (Some u) -> to_value u < 2 ^ 64 ->
  nth_error (run sha256 dsha256 BTG t ops) k
  = Some (match forkid_preimage dsha256 FORKID_BTG script (to_core t') idx (to_value u) ht with
          | None => Raise E_SCRIPT
          | Some p => Ret (HInt (be_decode (dsha256 p)))
          end).
Proof. exact history_forkid_spec. Qed.
Print Assumptions C04_history_forkid_btg.

Theorem C04_history_grs :
  forall (sha256 dsha256 : bytes -> bytes) (ops : list op) (t : tx) (k : nat)
         (script : bytes) (idx : nat) (ht : N) (u : txout),
  nth_error ops k = Some (Observe (ObsSegwit script idx ht)) ->
  let t' := state_after t (firstn k ops) in
  tx_wf t' -> (idx < length (tx_ins t'))%nat -> ht < 2 ^ 32 -> N.of_nat (length script) < 2 ^ 64 ->
  nth_error (tx_unspents t') idx = Some (Some u) -> to_value u < 2 ^ 64 ->
  nth_error (run sha256 dsha256 GRS t ops) k
  = Some (Ret (HInt (be_decode (sha256 (bip143_preimage sha256 script (to_core t') idx (to_value u) ht))))).
Proof. exact history_grs_spec. Qed.
Print Assumptions C04_history_grs.

Theorem C04_history_legacy :
  forall (sha256 dsha256 : bytes -> bytes) (c : coin) (ops : list op) (t : tx) (k : nat)
         (script : bytes) (idx : nat) (ht : N),
  nth_error ops k = Some (Observe (ObsLegacy script idx ht)) ->
  let t' := state_after t (firstn k ops) in
  tx_wf t' -> (idx < length (tx_ins t'))%nat -> ht < 2 ^ 32 -> N.of_nat (length script) < 2 ^ 64 ->
  c = BTC \/ c = LTC ->
  nth_error (run sha256 dsha256 c t ops) k
  = Some (Ret (HInt (be_decode (core_digest dsha256 (core_signature_hash_old script (to_core t') idx ht))))).
Proof. exact history_legacy_spec. Qed.
Print Assumptions C04_history_legacy.

(* the seeded pattern is inside the theorem's domain: SINGLE for input 0, then SINGLE for input 1, one checker *)
Example C04_history_example :
  exists r0 r1,
  run (fun b => b) (fun b => b) BTC witness_tx2
      [Observe (ObsHashOutputs 3 0); Observe (ObsHashOutputs 3 1); Mutate PopOut; Observe (ObsHashOutputs 3 1)]
  = [Ret (HBytes r0); Ret (HBytes r1); Ret HDone; Ret (HBytes zero32)] /\ r0 <> r1.
Proof. eexists _, _. split; [vm_compute; reflexivity | vm_compute; discriminate]. Qed.

(* ---- the hypotheses are satisfiable --------------------------------------------------------------------- *)
Example C04_hypotheses_satisfiable :
  tx_wf witness_tx /\ core_decodable example_script = true
  /\ complete_instruction [n2b OP_CODESEPARATOR] /\ plain_push [x30; x01] = Ret [x02; x30; x01]
  /\ legacy_presig witness_tx example_script 0 1
     = Ret (PPreimage ([x01; x00; x00; x00; x01] ++ repeatb x11 32 ++ [x00; x00; x00; x00]
                       ++ [x05; x02; x30; x01; xac; x51] ++ [xff; xff; xff; xff]
                       ++ [x01; x01; x00; x00; x00; x00; x00; x00; x00; x01; x51]
                       ++ [x00; x00; x00; x00] ++ [x01; x00; x00; x00]))
  /\ delete_subscript witness_script [xab] = Ret witness_script.
Proof.
  split; [exact witness_tx_wf|]. split; [exact example_decodable|]. split; [exact codesep_complete|].
  repeat split; vm_compute; reflexivity.
Qed.
