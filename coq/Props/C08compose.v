(* Props/C08compose.v — C08 composed with C11: the address theorems of Props/C08.v with the Base58Check and segwit-address
   codec PARAMETERS instantiated by C11's finished models, and the premises `codec_laws` / `codec_text_laws` discharged
   from C11's theorems.  Only statements; every proof is `exact <lemma of Proofs/ComposeCodec*.v>`.

   Reading guide.
   * C08 holds a Python `str` as the bytes of its UTF-8 text, C11 as the list of its code points.  The composed codecs are
       cc_b58check_encode H d     = b2a_hashed_base58(d) (C11's btc_b2a_hashed_base58 H), as bytes
       cc_b58check_decode H s     = parseable_str.parse_b58_double_sha256 (C11's btc_parse_b58_double_sha256 H) of the text s
       cc_segwit_encode hrp v p   = bech32m.encode(hrp, v, p) (C11's Model/Bech32.encode)
       cc_segwit_parse s          = parseable_str.parse_bech32(s) (C11's parse_bech32)
     going through `str_of` (bytes -> code points, one per byte) and `bytes_of` (code points -> bytes).  Theorems
     C08c_*_faithful say this is the right reading: the decoders applied to the UTF-8 bytes of ANY str return what C11's
     models return on that str (non-ASCII text is rejected on both sides), and every encoder output is the UTF-8
     encoding of C11's output.
   * H = `dsha256` is an arbitrary function; the ONLY fact used is that it returns 32 bytes (four would do: the checksum
     bytes must exist).  No injectivity / collision-freeness of any hash is needed: the checksum is appended, the payload
     is read back from the string.  `hash160` is arbitrary.  C08c_accept_reencode_text and C08c_parse_history_independent
     use nothing at all.
   * `lower` of C08_accept_reencode_text is the model's own `ascii_lower`; S3 holds in full for C11's model, upper-case
     input included (C11_bech32_decode_encode). *)
From PV Require Import Base.Bytes Base.Outcome Gen.GenNetworks Model.Address Spec.AddressSpec.
From PV Require Import Proofs.ComposeCodecB58 Proofs.ComposeCodecSegwit Proofs.ComposeCodecC08.
From PV Require Model.Base58 Model.Bech32.
Local Open Scope N_scope.

(* ================================ the premises of C08, discharged ============================================ *)
(* B1, B3, S1, S2, S4 *)
Theorem C08c_codec_laws : forall (dsha256 : bytes -> bytes), (forall x, (4 <= length (dsha256 x))%nat) ->
  codec_laws (cc_b58check_encode dsha256) (cc_b58check_decode dsha256) cc_segwit_encode cc_segwit_parse.
Proof. exact c11_codec_laws. Qed.
Print Assumptions C08c_codec_laws.

(* B2, S3: for every function dsha256 *)
Theorem C08c_codec_text_laws : forall (dsha256 : bytes -> bytes),
  codec_text_laws (cc_b58check_encode dsha256) (cc_b58check_decode dsha256) cc_segwit_encode cc_segwit_parse ascii_lower.
Proof. exact c11_codec_text_laws. Qed.
Print Assumptions C08c_codec_text_laws.

(* the representation of str: decoders *)
Theorem C08c_b58check_decode_faithful : forall (H : bytes -> bytes) (t : Base58.pystr) (s : bytes),
  Base58.utf8_encode t = Ret s -> cc_b58check_decode H s = Base58.btc_parse_b58_double_sha256 H t.
Proof. exact cc_b58check_decode_faithful. Qed.
Print Assumptions C08c_b58check_decode_faithful.

Theorem C08c_segwit_parse_faithful : forall (t : Base58.pystr) (s : bytes), Base58.utf8_encode t = Ret s ->
  cc_segwit_parse s = match Bech32.parse_bech32 t with
                      | Some (h, v, d, spec) => Some (bytes_of h, Z.to_N v, d, Z.to_N spec)
                      | None => None
                      end.
Proof. exact cc_segwit_parse_faithful. Qed.
Print Assumptions C08c_segwit_parse_faithful.

(* the representation of str: encoders (the Base58Check encoder never raises) *)
Theorem C08c_b58check_encode_faithful : forall (H : bytes -> bytes) (d : bytes),
  exists t, Base58.btc_b2a_hashed_base58 H d = Ret t /\ Base58.utf8_encode t = Ret (cc_b58check_encode H d).
Proof. exact cc_b58check_encode_faithful. Qed.
Print Assumptions C08c_b58check_encode_faithful.

Theorem C08c_segwit_encode_faithful : forall (hrp : bytes) (v : N) (prog s : bytes),
  cc_segwit_encode hrp v prog = Some s ->
  exists t, Bech32.encode (Base58P.str_of hrp) (Z.of_N v) (map b2z prog) = Ret (Some t) /\ Base58.utf8_encode t = Ret s.
Proof. exact cc_segwit_encode_faithful. Qed.
Print Assumptions C08c_segwit_encode_faithful.

(* ================================ the C08 theorems, no codec hypothesis ======================================= *)
(* 1. script -> address -> script *)
Theorem C08c_script_address_script :
  forall (dsha256 hash160 : bytes -> bytes), (forall x, length (dsha256 x) = 32%nat) ->
  forall (net : netrow) (k : N) (payload : bytes),
  In net networks -> nr_std net = true -> In k (nr_kinds net) -> length payload = kind_len k ->
  for_info (kind_info k payload) = Ret (std_script k payload) /\
  exists s, address_for_script (cc_b58check_encode dsha256) cc_segwit_encode hash160 net (std_script k payload) = Ret (Some s) /\
            parse_address (cc_b58check_decode dsha256) cc_segwit_parse net s = Ret (Some (kind_info k payload)) /\
            contract_for_address (cc_b58check_decode dsha256) cc_segwit_parse net s = Ret (Some (std_script k payload)).
Proof. exact compose_script_address_script. Qed.
Print Assumptions C08c_script_address_script.

(* 2. whatever a network accepts is one of its kinds, and the script's address is accepted as the same Contract *)
Theorem C08c_accept_implies_reencode :
  forall (dsha256 hash160 : bytes -> bytes), (forall x, length (dsha256 x) = 32%nat) ->
  forall (net : netrow) (s : bytes) (i : info),
  In net networks -> nr_std net = true ->
  parse_address (cc_b58check_decode dsha256) cc_segwit_parse net s = Ret (Some i) ->
  exists k payload s', In k (nr_kinds net) /\ length payload = kind_len k /\ i = kind_info k payload /\
    for_info i = Ret (std_script k payload) /\
    address_for_script (cc_b58check_encode dsha256) cc_segwit_encode hash160 net (std_script k payload) = Ret (Some s') /\
    parse_address (cc_b58check_decode dsha256) cc_segwit_parse net s' = Ret (Some i).
Proof. exact compose_accept_reencode. Qed.
Print Assumptions C08c_accept_implies_reencode.

(* 2'. the re-encoding is the accepted text itself (Base58 kinds) / its lower-case form (Bech32 kinds): for EVERY dsha256 *)
Theorem C08c_accept_reencode_text :
  forall (dsha256 hash160 : bytes -> bytes) (net : netrow) (s : bytes) (i : info),
  In net networks -> nr_std net = true ->
  parse_address (cc_b58check_decode dsha256) cc_segwit_parse net s = Ret (Some i) ->
  exists k payload, i = kind_info k payload /\ k <= 4 /\ length payload = kind_len k /\
    address_for_script (cc_b58check_encode dsha256) cc_segwit_encode hash160 net (std_script k payload)
      = Ret (Some (if k <=? 1 then s else ascii_lower s)).
Proof. exact compose_accept_reencode_text. Qed.
Print Assumptions C08c_accept_reencode_text.

(* 3. every ordered pair of table networks *)
Theorem C08c_cross_network :
  forall (dsha256 hash160 : bytes -> bytes), (forall x, length (dsha256 x) = 32%nat) ->
  forall (A B : netrow) (kA : N) (payload s : bytes) (i : info),
  In A networks -> In B networks -> nr_std A = true -> nr_std B = true ->
  In kA (nr_kinds A) -> length payload = kind_len kA ->
  address_for_script (cc_b58check_encode dsha256) cc_segwit_encode hash160 A (std_script kA payload) = Ret (Some s) ->
  parse_address (cc_b58check_decode dsha256) cc_segwit_parse B s = Ret (Some i) ->
  exists kB, In kB (nr_kinds B) /\ kind_len kB = kind_len kA /\ i = kind_info kB payload /\
    address_for_script (cc_b58check_encode dsha256) cc_segwit_encode hash160 B (std_script kB payload) = Ret (Some s) /\
    (2 <= kA -> kB = kA) /\ (cross_kind_ok A B = true -> kB = kA).
Proof. exact compose_cross_network. Qed.
Print Assumptions C08c_cross_network.

(* 4. one-to-one: no collision disjunct — two standard scripts with the same address are the same script *)
Theorem C08c_address_injective :
  forall (dsha256 hash160 : bytes -> bytes), (forall x, length (dsha256 x) = 32%nat) ->
  forall (net : netrow) (k1 : N) (p1 : bytes) (k2 : N) (p2 s : bytes),
  In net networks -> nr_std net = true -> In k1 (nr_kinds net) -> In k2 (nr_kinds net) ->
  length p1 = kind_len k1 -> length p2 = kind_len k2 ->
  address_for_script (cc_b58check_encode dsha256) cc_segwit_encode hash160 net (std_script k1 p1) = Ret (Some s) ->
  address_for_script (cc_b58check_encode dsha256) cc_segwit_encode hash160 net (std_script k2 p2) = Ret (Some s) ->
  k1 = k2 /\ p1 = p2.
Proof. exact compose_address_injective. Qed.
Print Assumptions C08c_address_injective.

(* 6''. history independence of the parseable_str cache, with C11's decoders *)
Theorem C08c_parse_history_independent :
  forall (dsha256 : bytes -> bytes) (s : bytes) (nets : list netrow),
  parse_address_seq (cc_b58check_decode dsha256) cc_segwit_parse nets s pcache_empty
  = map (fun net => parse_address (cc_b58check_decode dsha256) cc_segwit_parse net s) nets.
Proof. exact compose_parse_history_independent. Qed.
Print Assumptions C08c_parse_history_independent.

(* ================================ non-vacuity ================================================================= *)
(* the hypothesis on dsha256 is satisfiable *)
Example C08c_hash_hypothesis_satisfiable : exists dsha256 : bytes -> bytes, forall x, length (dsha256 x) = 32%nat.
Proof. exists (fun _ => repeatb x00 32). intros x. reflexivity. Qed.

(* BIP173's test vector through the composed encoder and parser: hrp "bc", version 0,
   program 751e76e8199196d454941c45d1b3a323f1433bd6 <-> bc1qw508d6qejxtdg4y5r3zarvary0c5xw7kv8f3t4 *)
Example C08c_bip173_vector :
  let prog := [x75; x1e; x76; xe8; x19; x91; x96; xd4; x54; x94; x1c; x45; xd1; xb3; xa3; x23; xf1; x43; x3b; xd6] in
  let addr := [x62; x63; x31; x71; x77; x35; x30; x38; x64; x36; x71; x65; x6a; x78; x74; x64; x67; x34; x79; x35; x72;
               x33; x7a; x61; x72; x76; x61; x72; x79; x30; x63; x35; x78; x77; x37; x6b; x76; x38; x66; x33; x74; x34] in
  cc_segwit_encode [x62; x63] 0 prog = Some addr /\ cc_segwit_parse addr = Some ([x62; x63], 0, prog, 1).
Proof. vm_compute. split; reflexivity. Qed.

(* a Base58Check string under a toy hash: encode, decode *)
Example C08c_b58check_example :
  let H := fun _ : bytes => repeatb x00 32 in
  cc_b58check_decode H (cc_b58check_encode H (x00 :: repeatb x11 20)) = Some (x00 :: repeatb x11 20)
  /\ length (cc_b58check_encode H (x00 :: repeatb x11 20)) = 34%nat.
Proof. vm_compute. split; reflexivity. Qed.
