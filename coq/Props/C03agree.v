(* Props/C03agree.v — property C03, the agreement theorem between the pycoin VM model (Model/VMpy.v) and the
   Bitcoin Core spec (Spec/VMcore.v) for single-script evaluation.  Proofs: Proofs/Agree*.v. *)
From PV Require Import Base.Bytes Base.Outcome Gen.GenFlags Spec.VMTypes Model.VMpy Spec.VMcore Proofs.AgreeEval.

(* PARTIAL (H3): covered = every script in which no instruction (as decoded by GetOp, executed or not) is one of
   OP_CHECKSIG, OP_CHECKSIGVERIFY, OP_CHECKMULTISIG, OP_CHECKMULTISIGVERIFY.  Families covered: (1) pushes incl.
   truncated pushes, minimal-push rule, push-size limit, OP_1NEGATE/OP_1..16; (2) flow control incl. MINIMALIF,
   VERIF/VERNOTIF, VERIFY, RETURN; (3) stack ops; (4) SIZE/EQUAL/EQUALVERIFY and the disabled opcodes; (5) numeric
   opcodes; (6) hashes and CODESEPARATOR; (7) NOPs, CLTV, CSV; (8) reserved/invalid opcodes in and out of
   unexecuted branches, op-count, stack-size and script-size limits.
   (H1) when sv = SV_BASE the MINIMALIF flag is clear (pycoin's VM obeys the flag bit alone; check_solution strips it). *)
Theorem C03_eval_agrees_partial : forall (o : oracles) (flags : N) (sv : sigversion) (ctx : txctx) (script : bytes) (st : stack),
  (sv = SV_BASE -> flag_set flags VERIFY_MINIMALIF = false) ->
  no_sig_ops script = true ->
  res_agree stack_eqb (VMpy.eval_script o flags sv ctx script st) (VMcore.EvalScript o flags sv ctx script st) = true.
Proof. exact eval_agree_no_sig. Qed.
Print Assumptions C03_eval_agrees_partial.

(* the hypotheses are satisfiable and the covered set is not trivial: OP_1 OP_IF OP_2 OP_ELSE OP_3 OP_ENDIF OP_ADD .. *)
Example C03_partial_covered_example : no_sig_ops [x51; x63; x52; x67; x53; x68; x76; x93; x87; xa8] = true.
Proof. vm_compute. reflexivity. Qed.
