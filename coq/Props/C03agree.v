(* Props/C03agree.v — property C03, the agreement theorem between the pycoin VM model (Model/VMpy.v) and the
   Bitcoin Core spec (Spec/VMcore.v) for single-script evaluation:
       res_agree stack_eqb (VMpy.eval_script ...) (VMcore.EvalScript ...) = true
   i.e. both succeed with the same final stack or both fail cleanly; a crash of pycoin agrees with nothing.
   Proofs: Proofs/AgreeBase.v (codec bridges, decoder agreement, simulation relation), AgreePush.v (1), AgreeFlow.v (2),
   AgreeStack.v (3,4), AgreeNum.v (5), AgreeMisc.v (6,7), AgreeEval.v (8, dispatcher, loops), AgreeSigEnc.v / AgreeSig.v
   (9,10), AgreeInv.v (size invariant), AgreeFad.v (script-code equality), AgreeTop.v (assembly). *)
From PV Require Import Base.Bytes Base.Outcome Gen.GenFlags Spec.VMTypes Model.VMpy Spec.VMcore.
From PV Require Import Proofs.AgreeEval Proofs.AgreeSigEnc Proofs.AgreeSig Proofs.AgreeInv Proofs.AgreeFad Proofs.AgreeTop.

(* ALL TEN FAMILIES: (1) pushes incl. truncated pushes, minimal-push rule, push-size limit, OP_1NEGATE/OP_1..16;
   (2) IF/NOTIF/ELSE/ENDIF/VERIF/VERNOTIF/VERIFY/RETURN incl. MINIMALIF; (3) stack ops; (4) SIZE/EQUAL/EQUALVERIFY and
   the disabled opcodes; (5) numeric opcodes incl. 4-byte and minimal rules; (6) hashes, CODESEPARATOR; (7) NOPs, CLTV,
   CSV; (8) reserved/invalid opcodes in and out of unexecuted branches, op-count (pycoin's delayed test), stack-size and
   script-size limits; (9) CHECKSIG(VERIFY); (10) CHECKMULTISIG(VERIFY).
   Hypotheses (AgreeTop.c03_hyps), each forced by the proof:
   (H1)  sv = SV_BASE -> VERIFY_MINIMALIF and VERIFY_WITNESS_PUBKEYTYPE clear (pycoin's VM obeys the flag bits alone;
         check_solution strips them for the non-witness runs);
   (H2)  strict flags = true (one of DERSIG / LOW_S / STRICTENC set: pycoin's lax DER reader is never consulted) OR
         lax_contract: o_checksig answers false for every blob pycoin's lax DER reader rejects (outside the strict
         region Core asks the oracle about every non-empty blob, pycoin only about those it can parse);
   and only when sv = SV_BASE (signature blobs are deleted from the script code):
   (size) hash oracles return strings shorter than 2^32 bytes, the initial stack has fewer than 2^32 items each
         shorter than 2^32 bytes: a longer blob among CHECKMULTISIG's signatures makes _delete_signature raise
         OverflowError (a crash) where Core goes on.
   There is NO FindAndDelete hypothesis and NO decodability hypothesis: pycoin's _delete_signature (plain push,
   bottom-first, walk stopping at the first undecodable instruction: /repo 2ba5b6d, 50939fb) and Core's FindAndDelete
   (top-first) are PROVED equal on every script code (AgreeFad.fad_ok_all). *)
Theorem C03_eval_agrees : forall (o : oracles) (flags : N) (sv : sigversion) (ctx : txctx) (script : bytes) (st : stack),
  c03_hyps o flags sv script st ->
  res_agree stack_eqb (VMpy.eval_script o flags sv ctx script st) (VMcore.EvalScript o flags sv ctx script st) = true.
Proof. exact eval_agree_all. Qed.
Print Assumptions C03_eval_agrees.

(* witness v0 scripts: only (H2) is left *)
Theorem C03_eval_agrees_witness_v0 : forall (o : oracles) (flags : N) (ctx : txctx) (script : bytes) (st : stack),
  strict flags = true \/ lax_contract o SV_WITNESS_V0 ->
  res_agree stack_eqb (VMpy.eval_script o flags SV_WITNESS_V0 ctx script st)
                      (VMcore.EvalScript o flags SV_WITNESS_V0 ctx script st) = true.
Proof. exact eval_agree_witness_v0. Qed.
Print Assumptions C03_eval_agrees_witness_v0.

(* scripts without a signature opcode (no instruction, executed or not, is OP_CHECKSIG, OP_CHECKSIGVERIFY,
   OP_CHECKMULTISIG or OP_CHECKMULTISIGVERIFY): families (1)..(8), only the MINIMALIF half of (H1) is needed —
   any stack, any oracle, undecodable scripts included *)
Theorem C03_eval_agrees_partial : forall (o : oracles) (flags : N) (sv : sigversion) (ctx : txctx) (script : bytes) (st : stack),
  (sv = SV_BASE -> flag_set flags VERIFY_MINIMALIF = false) ->
  no_sig_ops script = true ->
  res_agree stack_eqb (VMpy.eval_script o flags sv ctx script st) (VMcore.EvalScript o flags sv ctx script st) = true.
Proof. exact eval_agree_no_sig. Qed.
Print Assumptions C03_eval_agrees_partial.

(* the script-code equality that replaced the FindAndDelete hypothesis: every script code, blobs < 2^32 bytes *)
Theorem C03_script_code_agrees : forall (tail : bytes) (sigs : list bytes),
  Forall item_ok sigs ->
  delete_signatures tail (rev sigs) = Ret (fold_left (fun c sg => find_and_delete (push_encode sg) c) sigs tail).
Proof. exact script_code_agrees. Qed.
Print Assumptions C03_script_code_agrees.

(* the hypotheses are satisfiable: DERSIG, SV_BASE, DUP HASH160 <1 byte> EQUALVERIFY CHECKSIG on a two-item stack *)
Example C03_hyps_satisfiable :
  c03_hyps ex_oracles VERIFY_DERSIG SV_BASE [x76; xa9; x01; x00; x88; xac] [[x01]; [x02]].
Proof. exact hyps_satisfiable. Qed.
Example C03_partial_covered_example : no_sig_ops [x51; x63; x52; x67; x53; x68; x76; x93; x87; xa8] = true.
Proof. exact partial_covered_example. Qed.

(* ---- remaining hypotheses of C03_eval_agrees (record AgreeTop.c03_hyps), each with the reason it is forced ----------
   h_minimalif  sv = SV_BASE -> VERIFY_MINIMALIF clear.        pycoin's VM applies MINIMALIF whenever the bit is set; Core
                only under SigVersion WITNESS_V0.  Example: flags = MINIMALIF, SV_BASE, stack [02], script 63 68
                (IF ENDIF): pycoin VFail, Core VOk [].  check_solution strips the bit for the BASE runs.
   h_wpubkey    sv = SV_BASE -> VERIFY_WITNESS_PUBKEYTYPE clear.  Same reason for the compressed-key rule of CHECKSIG /
                CHECKMULTISIG: flags = WITNESS_PUBKEYTYPE, SV_BASE, a 65-byte key: pycoin VFail, Core goes on.
   h_strict     strict flags = true  \/  lax_contract o sv.     With none of DERSIG/LOW_S/STRICTENC set pycoin asks the
                oracle only about blobs its own lax DER reader parses, Core about every non-empty blob; they agree iff
                the oracle says false on what pycoin's reader rejects (known finding lax-der-parser: Core's lax parser
                accepts e.g. a wrong sequence length byte, pycoin's does not).
   h_hash       sv = SV_BASE -> every hash oracle output is shorter than 2^32 bytes   (true of the real hashes: 20/32)
   h_stack      sv = SV_BASE -> the initial stack has < 2^32 items, each < 2^32 bytes (check_solution: <= 520 bytes)
                Both keep every blob that can reach _delete_signature below 2^32 bytes; at 2^32 its
                size.to_bytes(4, "little") raises OverflowError (VCrash) while Core's FindAndDelete goes on, e.g. a
                2-of-2 CHECKMULTISIG whose top signature is well formed and whose other signature blob has 2^32 bytes.
   Nothing else: no restriction on the script (any bytes, decodable or not, any length), flags, context or stack depth
   beyond the above; for sv = SV_WITNESS_V0 only h_strict is left (C03_eval_agrees_witness_v0). *)
