(* Props/C18.v — property C18: text parsing is total, faithful and keeps kinds apart.
   Only statements; every proof is `exact <lemma>`.  Model: Model/ParseText.v (ParseAPI.py, every entry point).

   The parsers are functions of the DECODED input.  Every theorem quantifies over ALL values of
     b58 (Base58Check decoder of the network), bech32 (Bech32/Bech32m decoder), int10/int16 (Python int(s), int(s,16)),
     compile (script compiler), hmac512, stretch (electrum key stretching), mulG (k*G), modsqrt (Generator.modular_sqrt)
   so nothing about those functions is assumed unless a hypothesis says so.
   `returns r` = r is `Ret v` (a value: Some object or None), i.e. the call does not raise.
   Where the current code violates the property the full statement is kept as a Definition, refuted by a concrete
   witness (the same input is replayed on the implementation by harness/c18.py), and the part that holds is proved
   as `..._partial` with a named exclusion predicate. *)
From Coq Require Import List NArith ZArith String Bool.
From Coq Require Import Strings.Byte.
From PV Require Import Base.Bytes Base.Outcome Gen.GenParsePrefixes Model.ParseText Proofs.ParseTextP.
Import ListNotations.
Local Open Scope Z_scope.

(* ============================================================================================== *)
(* 1. totality, entry point by entry point                                                       *)
(* ============================================================================================== *)
Theorem C18_total_p2pkh : forall b58 net s, returns (p2pkh b58 net s).
Proof. exact p2pkh_total. Qed.
Print Assumptions C18_total_p2pkh.

Theorem C18_total_p2sh : forall b58 net s, returns (p2sh b58 net s).
Proof. exact p2sh_total. Qed.
Print Assumptions C18_total_p2sh.

Theorem C18_total_p2pkh_segwit : forall bech32 net s, returns (p2pkh_segwit bech32 net s).
Proof. exact p2pkh_segwit_total. Qed.
Print Assumptions C18_total_p2pkh_segwit.

Theorem C18_total_p2sh_segwit : forall bech32 net s, returns (p2sh_segwit bech32 net s).
Proof. exact p2sh_segwit_total. Qed.
Print Assumptions C18_total_p2sh_segwit.

Theorem C18_total_p2tr : forall bech32 net s, returns (p2tr bech32 net s).
Proof. exact p2tr_total. Qed.
Print Assumptions C18_total_p2tr.

Theorem C18_total_address : forall b58 bech32 net s, returns (address b58 bech32 net s).
Proof. exact address_total. Qed.
Print Assumptions C18_total_address.

Theorem C18_total_script : forall compile net s, returns (script compile net s).
Proof. exact script_total. Qed.
Print Assumptions C18_total_script.

Theorem C18_total_payable : forall b58 bech32 compile net s, returns (payable b58 bech32 compile net s).
Proof. exact payable_total. Qed.
Print Assumptions C18_total_payable.

Theorem C18_total_wif : forall b58 mulG net s, returns (wif b58 mulG net s).
Proof. exact wif_total. Qed.
Print Assumptions C18_total_wif.

Theorem C18_total_secret_exponent : forall int10 int16 mulG net s, returns (secret_exponent int10 int16 mulG net s).
Proof. exact secret_exponent_total. Qed.
Print Assumptions C18_total_secret_exponent.

Theorem C18_total_private_key : forall b58 int10 int16 mulG net s, returns (private_key b58 int10 int16 mulG net s).
Proof. exact private_key_total. Qed.
Print Assumptions C18_total_private_key.

Theorem C18_total_sec : forall modsqrt net s, returns (sec modsqrt net s).
Proof. exact sec_total. Qed.
Print Assumptions C18_total_sec.

(* public_pair builds Key(1) first to reach the generator: the generator must be a curve point *)
Theorem C18_total_public_pair : forall int10 int16 mulG modsqrt net s,
  on_curve (mulG 1) = true -> returns (public_pair int10 int16 mulG modsqrt net s).
Proof. exact public_pair_total. Qed.
Print Assumptions C18_total_public_pair.

Theorem C18_total_public_key : forall int10 int16 mulG modsqrt net s,
  on_curve (mulG 1) = true -> returns (public_key int10 int16 mulG modsqrt net s).
Proof. exact public_key_total. Qed.
Print Assumptions C18_total_public_key.

Example C18_generator_on_curve : on_curve (curve_gx, curve_gy) = true.
Proof. vm_compute. reflexivity. Qed.

(* bip32_prv / bip49_prv / bip84_prv, ..._pub, and bip32 / bip49 / bip84 (kind ranges over the three) *)
Theorem C18_total_hd_prv : forall b58 mulG modsqrt net kind s, returns (hd_prv b58 mulG modsqrt net kind s).
Proof. exact hd_prv_total. Qed.
Print Assumptions C18_total_hd_prv.

Theorem C18_total_hd_pub : forall b58 mulG modsqrt net kind s, returns (hd_pub b58 mulG modsqrt net kind s).
Proof. exact hd_pub_total. Qed.
Print Assumptions C18_total_hd_pub.

Theorem C18_total_hd_any : forall b58 mulG modsqrt net kind s, returns (hd_any b58 mulG modsqrt net kind s).
Proof. exact hd_any_total. Qed.
Print Assumptions C18_total_hd_any.

Theorem C18_total_electrum_prv : forall mulG net s, returns (electrum_prv mulG net s).
Proof. exact electrum_prv_total. Qed.
Print Assumptions C18_total_electrum_prv.

Theorem C18_total_electrum_pub : forall net s, returns (electrum_pub net s).
Proof. exact electrum_pub_total. Qed.
Print Assumptions C18_total_electrum_pub.

(* input / tx / spendable / script_preimage *)
Theorem C18_total_unsupported : forall net s, returns (unsupported net s).
Proof. exact unsupported_total. Qed.
Print Assumptions C18_total_unsupported.

(* ---- the seed parsers and the catch-all parsers that contain them: NOT total today ---- *)
Definition C18_total_hd_seed_statement : Prop := forall net s, returns (hd_seed net s).
(* finding hd-seed-missing-api: "H:00" reaches self._network.keys.hd_seed, which does not exist (AttributeError) *)
Theorem C18_refuted_hd_seed : ~ C18_total_hd_seed_statement.
Proof. exact hd_seed_not_total. Qed.
Print Assumptions C18_refuted_hd_seed.

Theorem C18_total_hd_seed_partial : forall net s,
  seed_surrogate s = false -> seed_well_formed s = false -> returns (hd_seed net s).
Proof. exact hd_seed_partial. Qed.
Print Assumptions C18_total_hd_seed_partial.

Definition C18_total_bip32_seed_statement : Prop := forall hmac512 mulG net s, returns (bip32_seed hmac512 mulG net s).
(* finding seed-passphrase-surrogate: "P:\ud800" -> str.encode("utf8") raises UnicodeEncodeError outside any try *)
Theorem C18_refuted_bip32_seed : ~ C18_total_bip32_seed_statement.
Proof. exact bip32_seed_not_total. Qed.
Print Assumptions C18_refuted_bip32_seed.

(* total outside: a lone surrogate in a P: passphrase (finding above), and an HMAC whose left half is not a valid
   exponent (probability 2^-127, no input known: documented, not a finding).  Hypotheses on the oracles: HMAC-SHA512
   yields 64 bytes; k*G is a curve point for valid k. *)
Theorem C18_total_bip32_seed_partial : forall hmac512 mulG,
  (forall m, length (hmac512 m) = 64%nat) -> (forall k, valid_exponent k = true -> on_curve (mulG k) = true) ->
  forall net s, seed_surrogate s = false -> seed_exponent_bad hmac512 s = false ->
  returns (bip32_seed hmac512 mulG net s).
Proof. exact bip32_seed_partial. Qed.
Print Assumptions C18_total_bip32_seed_partial.

Theorem C18_total_electrum_seed_partial : forall stretch mulG,
  (forall k, valid_exponent k = true -> on_curve (mulG k) = true) ->
  forall net s, electrum_seed_bad stretch s = false -> returns (electrum_seed stretch mulG net s).
Proof. exact electrum_seed_partial. Qed.
Print Assumptions C18_total_electrum_seed_partial.

Theorem C18_total_hierarchical_key_partial : forall b58 hmac512 stretch mulG modsqrt,
  (forall m, length (hmac512 m) = 64%nat) -> (forall k, valid_exponent k = true -> on_curve (mulG k) = true) ->
  forall net s, seed_surrogate s = false -> seed_exponent_bad hmac512 s = false -> electrum_seed_bad stretch s = false ->
  returns (hierarchical_key b58 hmac512 stretch mulG modsqrt net s).
Proof. exact hierarchical_key_partial. Qed.
Print Assumptions C18_total_hierarchical_key_partial.

Theorem C18_total_secret_partial : forall b58 int10 int16 hmac512 stretch mulG modsqrt,
  (forall m, length (hmac512 m) = 64%nat) -> (forall k, valid_exponent k = true -> on_curve (mulG k) = true) ->
  forall net s, seed_surrogate s = false -> seed_exponent_bad hmac512 s = false -> electrum_seed_bad stretch s = false ->
  returns (secret b58 int10 int16 hmac512 stretch mulG modsqrt net s).
Proof. exact secret_partial. Qed.
Print Assumptions C18_total_secret_partial.

Definition C18_total_parse_statement : Prop :=
  forall b58 bech32 int10 int16 compile hmac512 stretch mulG modsqrt net s,
  returns (parse_any b58 bech32 int10 int16 compile hmac512 stretch mulG modsqrt net s).
(* network.parse("P:\ud800") inherits the UnicodeEncodeError *)
Theorem C18_refuted_parse : ~ C18_total_parse_statement.
Proof. exact parse_any_not_total. Qed.
Print Assumptions C18_refuted_parse.

(* network.parse(s) = ParseAPI.__call__ *)
Theorem C18_total_parse_partial : forall b58 bech32 int10 int16 compile hmac512 stretch mulG modsqrt,
  (forall m, length (hmac512 m) = 64%nat) -> (forall k, valid_exponent k = true -> on_curve (mulG k) = true) ->
  forall net s, seed_surrogate s = false -> seed_exponent_bad hmac512 s = false -> electrum_seed_bad stretch s = false ->
  returns (parse_any b58 bech32 int10 int16 compile hmac512 stretch mulG modsqrt net s).
Proof. exact parse_any_partial. Qed.
Print Assumptions C18_total_parse_partial.

(* non-vacuity of the hypotheses on the oracles: a constant generator point and a 64-byte constant satisfy them *)
Example C18_oracle_hypotheses_satisfiable :
  (forall k, valid_exponent k = true -> on_curve ((fun _ : Z => (curve_gx, curve_gy)) k) = true) /\
  (forall m : bytes, length ((fun _ : bytes => repeatb x00 64) m) = 64%nat).
Proof. split; intros; vm_compute; reflexivity. Qed.

(* non-vacuity of the exclusions: ordinary texts satisfy them *)
Example C18_exclusions_satisfiable :
  seed_surrogate (text_of_string "P:correct horse") = false /\ seed_well_formed (text_of_string "1abc") = false /\
  electrum_seed_bad (fun _ => 5) (text_of_string "E:00112233445566778899aabbccddeeff") = false.
Proof. vm_compute. auto. Qed.

(* ============================================================================================== *)
(* 2. a checksummed payload of the wrong length or with out-of-range contents is refused          *)
(* ============================================================================================== *)
Theorem C18_wrong_length_refused_address : forall net pre d,
  (n_address net = Some pre -> length d <> (length pre + 20)%nat -> p2pkh_of_payload net d = Ret None) /\
  (n_p2sh net = Some pre -> length d <> (length pre + 20)%nat -> p2sh_of_payload net d = Ret None).
Proof. exact address_wrong_length. Qed.
Print Assumptions C18_wrong_length_refused_address.

Theorem C18_wrong_length_refused_wif : forall mulG net pre d, n_wif net = Some pre ->
  (length d <> (length pre + 32)%nat -> length d <> (length pre + 33)%nat -> wif_of_payload mulG net d = Ret None) /\
  (length d = (length pre + 33)%nat -> skipn (length pre + 32) d <> [x01] -> wif_of_payload mulG net d = Ret None).
Proof. exact wif_wrong_length_both. Qed.
Print Assumptions C18_wrong_length_refused_wif.

(* exponent 0 or >= n *)
Theorem C18_out_of_range_wif_refused : forall mulG net pre body, n_wif net = Some pre ->
  valid_exponent (from_bytes (firstn 32 body)) = false -> wif_of_payload mulG net (pre ++ body) = Ret None.
Proof. exact wif_bad_exponent'. Qed.
Print Assumptions C18_out_of_range_wif_refused.

Theorem C18_wrong_length_refused_hd : forall mulG modsqrt pre kind d,
  length d <> 78%nat -> hd_of_payload mulG modsqrt pre kind d = Ret None.
Proof. exact hd_wrong_length. Qed.
Print Assumptions C18_wrong_length_refused_hd.

(* private key number 0 or >= n; public x coordinate >= p *)
Theorem C18_out_of_range_hd_refused : forall mulG modsqrt pre kind d, length d = 78%nat ->
  (slice 45 46 d = [x00] -> valid_exponent (from_bytes (skipn 46 d)) = false -> hd_of_payload mulG modsqrt pre kind d = Ret None) /\
  (slice 45 46 d <> [x00] -> curve_p <= from_bytes (skipn 46 d) -> hd_of_payload mulG modsqrt pre kind d = Ret None).
Proof. exact hd_out_of_range. Qed.
Print Assumptions C18_out_of_range_hd_refused.

(* a SEC text (hex of b) whose x coordinate is >= p is refused *)
Theorem C18_out_of_range_sec_refused : forall modsqrt net s b,
  h2b s = Some b -> curve_p <= from_bytes (slice 1 33 b) -> sec modsqrt net s = Ret None.
Proof. exact sec_bad_x. Qed.
Print Assumptions C18_out_of_range_sec_refused.

Theorem C18_wrong_length_refused_segwit : forall net ver len mk hrp version data is_m,
  length data <> len -> segwit_of_decoded net ver len mk (hrp, version, data, is_m) = Ret None.
Proof. exact segwit_wrong_length. Qed.
Print Assumptions C18_wrong_length_refused_segwit.

(* ============================================================================================== *)
(* 3. what a parser returns re-serialises to a payload/text that parses to the same object        *)
(* ============================================================================================== *)
(* payload level: the serialiser gives back exactly the payload that was parsed (so it re-parses, trivially) *)
Theorem C18_reserialize_address_payload : forall net d o,
  (p2pkh_of_payload net d = Ret (Some o) -> p2pkh_payload net o = Some d) /\
  (p2sh_of_payload net d = Ret (Some o) -> p2sh_payload net o = Some d).
Proof. exact address_reserialize. Qed.
Print Assumptions C18_reserialize_address_payload.

Theorem C18_reserialize_wif_payload : forall mulG net d o,
  wif_of_payload mulG net d = Ret (Some o) -> wif_payload net o = Some d.
Proof. exact wif_reserialize'. Qed.
Print Assumptions C18_reserialize_wif_payload.

(* extended keys: the serialiser keeps bytes 4..77 and puts the prefix that matches the node's privacy *)
Theorem C18_reserialize_hd_payload : forall mulG modsqrt net pre kind d o pre',
  hd_of_payload mulG modsqrt (Some pre) kind d = Ret (Some o) ->
  length pre' = 4%nat ->
  (if obj_is_private o then n_hd_prv net kind else n_hd_pub net kind) = Some pre' ->
  hd_payload net o = Some (pre' ++ skipn 4 d) /\
  hd_of_payload mulG modsqrt (Some pre') kind (pre' ++ skipn 4 d) = Ret (Some o).
Proof. exact hd_reserialize. Qed.
Print Assumptions C18_reserialize_hd_payload.

(* text level, for every decoder/encoder pair with decode (encode d) = Some d *)
Theorem C18_reserialize_text : forall b58 b58enc, (forall d, b58 (b58enc d) = Some d) ->
  forall mulG modsqrt net s o,
  (p2pkh b58 net s = Ret (Some o) -> exists d, p2pkh_payload net o = Some d /\ p2pkh b58 net (b58enc d) = Ret (Some o)) /\
  (p2sh b58 net s = Ret (Some o) -> exists d, p2sh_payload net o = Some d /\ p2sh b58 net (b58enc d) = Ret (Some o)) /\
  (wif b58 mulG net s = Ret (Some o) -> exists d, wif_payload net o = Some d /\ wif b58 mulG net (b58enc d) = Ret (Some o)) /\
  (forall kind, hd_prefixes_ok net kind -> hd_any b58 mulG modsqrt net kind s = Ret (Some o) ->
     exists d, hd_payload net o = Some d /\ hd_any b58 mulG modsqrt net kind (b58enc d) = Ret (Some o)).
Proof. exact text_reserialize. Qed.
Print Assumptions C18_reserialize_text.

(* the codec hypothesis is satisfiable (bytes <-> code points) *)
Example C18_codec_hypothesis_satisfiable :
  forall d : bytes, (fun t : text => Some (map n2b t)) ((fun d : bytes => map b2n d) d) = Some d.
Proof. intros d. cbv beta. f_equal. rewrite map_map. rewrite <- (map_id d) at 2. apply map_ext. intros b. apply n2b_b2n. Qed.

(* the hypothesis hd_prefixes_ok holds for every extended-key kind a table network defines *)
Theorem C18_table_hd_prefixes : forall net kind p, In net table_cfgs -> n_hd_prv net kind = Some p -> hd_prefixes_ok net kind.
Proof. exact table_hd_prefixes_ok. Qed.
Print Assumptions C18_table_hd_prefixes.

(* segwit: the decoded tuple is determined by the returned object (hrp, version, program, checksum variant) *)
Theorem C18_reserialize_segwit : forall net ver len mk v o,
  segwit_of_decoded net ver len mk v = Ret (Some o) ->
  exists hrp data, n_hrp net = Some hrp /\ text_eqb (fst (fst (fst v))) hrp = true /\
    v = (fst (fst (fst v)), ver, data, negb (ver =? 0)) /\ length data = len /\ o = OContract (mk data).
Proof. exact segwit_canonical. Qed.
Print Assumptions C18_reserialize_segwit.

(* ---- public keys: Key.as_text() is `sec_prefix + hex`, and no parser strips the prefix ---- *)
Definition C18_reserialize_public_key_statement : Prop :=
  forall int10 int16 mulG modsqrt net s o t,
  public_key int10 int16 mulG modsqrt net s = Ret (Some o) -> public_key_text net o = Ret t ->
  public_key int10 int16 mulG modsqrt net t = Ret (Some o).
(* finding sec-text-prefix-not-parsed: BTC.parse.public_key("02" + 31*"00" + "01").as_text() = "BTCSEC:02..01" -> None
   (ParseAPI.sec compares the colon prefix with the WIF prefix, a bytes object, instead of the SEC prefix) *)
Theorem C18_refuted_reserialize_public_key : ~ C18_reserialize_public_key_statement.
Proof. exact public_key_text_not_reparsed. Qed.
Print Assumptions C18_refuted_reserialize_public_key.

(* what holds: the text minus the prefix parses back to the same key (keys returned by sec()) *)
Theorem C18_reserialize_sec_partial : forall modsqrt net s o,
  sec modsqrt net s = Ret (Some o) ->
  exists t, public_key_text net o = Ret (n_sec_prefix net ++ t) /\ sec modsqrt net t = Ret (Some o).
Proof. exact sec_reserialize_without_prefix. Qed.
Print Assumptions C18_reserialize_sec_partial.

(* ---- public_pair / electrum_pub: coordinates outside [0, p) are accepted (Key.__init__ tests the curve
        equation modulo p only) ---- *)
Definition C18_public_pair_in_range_statement : Prop :=
  forall int10 int16 mulG modsqrt net s pt c,
  public_pair int10 int16 mulG modsqrt net s = Ret (Some (OKey (Pub pt) c)) ->
  0 <= fst pt < curve_p /\ 0 <= snd pt < curve_p.
(* finding public-pair-unreduced: BTC.parse.public_pair("<p+1>/even") returns a key with x = p+1 *)
Theorem C18_refuted_public_pair_in_range : ~ C18_public_pair_in_range_statement.
Proof. exact public_pair_not_in_range. Qed.
Print Assumptions C18_refuted_public_pair_in_range.

(* what holds: keys returned by sec() DO have coordinates in [0, p) (pow(a, e, p) returns residues) *)
Theorem C18_sec_in_range_partial : forall modsqrt net s pt c,
  (forall a, 0 <= modsqrt a < curve_p) ->
  sec modsqrt net s = Ret (Some (OKey (Pub pt) c)) -> 0 <= fst pt < curve_p /\ 0 <= snd pt < curve_p.
Proof. exact sec_in_range. Qed.
Print Assumptions C18_sec_in_range_partial.

(* ... for x >= 2^256 the returned key's as_text() raises OverflowError; electrum_pub accepts x = p+1 as well *)
Theorem C18_unreduced_witnesses :
  (public_pair dec10 no_int mulG_w modsqrt_real btc_cfg w_pair_text2 = Ret (Some w_pair_key2) /\
   public_key_text btc_cfg w_pair_key2 = Raise E_OVERFLOW) /\
  electrum_pub btc_cfg w_electrum_text = Ret (Some (OElectrum None (Pub (curve_p + 1, y_for_x1)))).
Proof. exact unreduced_witnesses. Qed.
Print Assumptions C18_unreduced_witnesses.

(* ============================================================================================== *)
(* 4. kinds are kept apart                                                                        *)
(* ============================================================================================== *)
(* `kinds_separated net` (Model/ParseText.v) is the decidable condition: for every two distinct checksummed kinds
   (p2pkh, p2sh, wif, bip32/49/84 prv/pub) that the network defines, the prefixes are incomparable (neither is a
   prefix of the other) or no total payload length fits both (prefix+20 | prefix+32, prefix+33 | 78). *)
Theorem C18_kinds_disjoint : forall mulG modsqrt net, kinds_separated net = true ->
  forall d k1 k2, k1 <> k2 ->
  accepted (parse_kind mulG modsqrt net k1 d) -> accepted (parse_kind mulG modsqrt net k2 d) -> False.
Proof. exact kinds_disjoint. Qed.
Print Assumptions C18_kinds_disjoint.

(* every network of the generated table (all registered symbols, POLIS with p2sh = wif = 3c included) is separated *)
Theorem C18_kinds_disjoint_table : forall mulG modsqrt net, In net table_cfgs ->
  forall d k1 k2, k1 <> k2 ->
  accepted (parse_kind mulG modsqrt net k1 d) -> accepted (parse_kind mulG modsqrt net k2 d) -> False.
Proof. exact kinds_disjoint_table. Qed.
Print Assumptions C18_kinds_disjoint_table.

Example C18_table_nonempty : (length table_cfgs >= 40)%nat /\ n_p2sh (nth 29 table_cfgs btc_cfg) = n_wif (nth 29 table_cfgs btc_cfg).
Proof. vm_compute. split; [repeat constructor | reflexivity]. Qed.

Theorem C18_segwit_kinds_disjoint : forall net v,
  (accepted (segwit_of_decoded net 0 20 script_wit0 v) -> accepted (segwit_of_decoded net 0 32 script_wit0 v) -> False) /\
  (accepted (segwit_of_decoded net 0 20 script_wit0 v) -> accepted (segwit_of_decoded net 1 32 script_p2tr v) -> False) /\
  (accepted (segwit_of_decoded net 0 32 script_wit0 v) -> accepted (segwit_of_decoded net 1 32 script_p2tr v) -> False).
Proof. exact segwit_kinds_disjoint. Qed.
Print Assumptions C18_segwit_kinds_disjoint.

(* ---- private and public extended keys are told apart by the marker byte, not by the prefix ---- *)
Definition C18_hd_pub_is_public_statement : Prop :=
  forall b58 mulG modsqrt net kind s o, hd_pub b58 mulG modsqrt net kind s = Ret (Some o) -> obj_is_private o = false.
(* finding hd-pub-prefix-private-payload: b58check(0488b21e || 00*41 || 00 || 00*31 01) (an "xpub...") comes back from
   bip32_pub as a private node with secret exponent 1 *)
Theorem C18_refuted_hd_pub_is_public : ~ C18_hd_pub_is_public_statement.
Proof. exact hd_pub_not_public. Qed.
Print Assumptions C18_refuted_hd_pub_is_public.

Theorem C18_hd_privacy_is_marker : forall mulG modsqrt pre kind d o,
  hd_of_payload mulG modsqrt pre kind d = Ret (Some o) -> obj_is_private o = bytes_eqb (slice 45 46 d) [x00].
Proof. exact hd_privacy_is_marker. Qed.
Print Assumptions C18_hd_privacy_is_marker.

(* ---- bip32_seed: `pair[0] in "HP"` is a substring test: ":" and "HP:abc" are taken as passphrase seeds ---- *)
Theorem C18_seed_prefix_substring :
  seed_secret [58%N] = Ret (Some []) /\ seed_secret (text_of_string "HP:abc") = Ret (Some [x61; x62; x63]).
Proof. exact w_seed_empty_prefix. Qed.
Print Assumptions C18_seed_prefix_substring.
