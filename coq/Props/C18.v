(* Props/C18.v — property C18: text parsing is total, faithful and keeps kinds apart.
   Only statements; every proof is `exact <lemma>`.  Model: Model/ParseText.v (ParseAPI.py, every entry point).

   The parsers are functions of the DECODED input.  Every theorem quantifies over ALL values of
     b58 (uncached Base58Check decoder of the network), bech32 (uncached Bech32/Bech32m decoder) — both of type
     text -> outcome (option _): they may return a value, None, or RAISE ANY exception class; they reach the parsers
     only through parseable_str.cache (ps_cache), which swallows every exception — int10/int16 (Python int(s), int(s,16)),
     compile (script compiler), hmac512, stretch (electrum key stretching), mulG (k*G), modsqrt (Generator.modular_sqrt)
   so nothing about those functions is assumed unless a hypothesis says so.
   `returns r` = r is `Ret v` (a value: Some object or None), i.e. the call does not raise.
   Where the current code violates the property the full statement is kept as a Definition, refuted by a concrete
   witness (the same input is replayed on the implementation by harness/c18.py), and the part that holds is proved
   as `..._partial` with a named exclusion predicate.  Open today: bip32_pub returns private nodes for
   xpub-prefixed private blobs (and script contracts with unknown opcodes have no parseable text, implementation level). *)
From Coq Require Import List NArith ZArith String Bool.
From Coq Require Import Strings.Byte.
From PV Require Import Base.Bytes Base.Outcome Gen.GenParsePrefixes Model.ParseText Proofs.ParseTextP Proofs.ParseTextK1.
From PV Require Import Model.ParseTextHist Proofs.ParseTextHistP.
Import ListNotations.
Local Open Scope Z_scope.

(* ============================================================================================== *)
(* 1. totality, entry point by entry point                                                       *)
(* ============================================================================================== *)
Theorem C18_total_p2pkh : forall b58 net s, returns (p2pkh b58 net s).
Proof. exact p2pkh_total. Qed.
Print Assumptions C18_total_p2pkh.

Theorem C18_total_p2sh : forall b58 net s, returns (p2sh b58 net s).
Proof. exact p2sh_total. Qed.
Print Assumptions C18_total_p2sh.

Theorem C18_total_p2pkh_segwit : forall bech32 net s, returns (p2pkh_segwit bech32 net s).
Proof. exact p2pkh_segwit_total. Qed.
Print Assumptions C18_total_p2pkh_segwit.

Theorem C18_total_p2sh_segwit : forall bech32 net s, returns (p2sh_segwit bech32 net s).
Proof. exact p2sh_segwit_total. Qed.
Print Assumptions C18_total_p2sh_segwit.

Theorem C18_total_p2tr : forall bech32 net s, returns (p2tr bech32 net s).
Proof. exact p2tr_total. Qed.
Print Assumptions C18_total_p2tr.

Theorem C18_total_address : forall b58 bech32 net s, returns (address b58 bech32 net s).
Proof. exact address_total. Qed.
Print Assumptions C18_total_address.

Theorem C18_total_script : forall compile net s, returns (script compile net s).
Proof. exact script_total. Qed.
Print Assumptions C18_total_script.

Theorem C18_total_payable : forall b58 bech32 compile net s, returns (payable b58 bech32 compile net s).
Proof. exact payable_total. Qed.
Print Assumptions C18_total_payable.

Theorem C18_total_wif : forall b58 mulG net s, returns (wif b58 mulG net s).
Proof. exact wif_total. Qed.
Print Assumptions C18_total_wif.

Theorem C18_total_secret_exponent : forall int10 int16 mulG net s, returns (secret_exponent int10 int16 mulG net s).
Proof. exact secret_exponent_total. Qed.
Print Assumptions C18_total_secret_exponent.

Theorem C18_total_private_key : forall b58 int10 int16 mulG net s, returns (private_key b58 int10 int16 mulG net s).
Proof. exact private_key_total. Qed.
Print Assumptions C18_total_private_key.

Theorem C18_total_sec : forall modsqrt net s, returns (sec modsqrt net s).
Proof. exact sec_total. Qed.
Print Assumptions C18_total_sec.

(* public_pair builds Key(1) first to reach the generator: the generator must be a curve point in range *)
Theorem C18_total_public_pair : forall int10 int16 mulG modsqrt net s,
  on_curve (mulG 1) = true -> in_range (mulG 1) = true ->
  returns (public_pair int10 int16 mulG modsqrt net s).
Proof. exact public_pair_total. Qed.
Print Assumptions C18_total_public_pair.

Theorem C18_total_public_key : forall int10 int16 mulG modsqrt net s,
  on_curve (mulG 1) = true -> in_range (mulG 1) = true ->
  returns (public_key int10 int16 mulG modsqrt net s).
Proof. exact public_key_total. Qed.
Print Assumptions C18_total_public_key.

(* the text that used to be accepted, then to raise: x = p + 1 is refused with None *)
Theorem C18_public_pair_unreduced_refused :
  public_pair dec10 no_int mulG_w modsqrt_real btc_cfg w_pair_text = Ret None /\
  public_key dec10 no_int mulG_w modsqrt_real btc_cfg w_pair_text = Ret None.
Proof. exact w_pair_refused. Qed.
Print Assumptions C18_public_pair_unreduced_refused.

Example C18_generator_on_curve :
  on_curve (curve_gx, curve_gy) = true /\ in_range (curve_gx, curve_gy) = true.
Proof. vm_compute. auto. Qed.

(* bip32_prv / bip49_prv / bip84_prv, ..._pub, and bip32 / bip49 / bip84 (kind ranges over the three) *)
Theorem C18_total_hd_prv : forall b58 mulG modsqrt net kind s, returns (hd_prv b58 mulG modsqrt net kind s).
Proof. exact hd_prv_total. Qed.
Print Assumptions C18_total_hd_prv.

Theorem C18_total_hd_pub : forall b58 mulG modsqrt net kind s, returns (hd_pub b58 mulG modsqrt net kind s).
Proof. exact hd_pub_total. Qed.
Print Assumptions C18_total_hd_pub.

Theorem C18_total_hd_any : forall b58 mulG modsqrt net kind s, returns (hd_any b58 mulG modsqrt net kind s).
Proof. exact hd_any_total. Qed.
Print Assumptions C18_total_hd_any.

Theorem C18_total_electrum_prv : forall mulG net s, returns (electrum_prv mulG net s).
Proof. exact electrum_prv_total. Qed.
Print Assumptions C18_total_electrum_prv.

Theorem C18_total_electrum_pub : forall net s, returns (electrum_pub net s).
Proof. exact electrum_pub_total. Qed.
Print Assumptions C18_total_electrum_pub.

(* input / tx / spendable / script_preimage *)
Theorem C18_total_unsupported : forall net s, returns (unsupported net s).
Proof. exact unsupported_total. Qed.
Print Assumptions C18_total_unsupported.

(* ---- parseable_str.cache: a decoder that raises (whatever the exception class) is the same as a decoder that
        returns None.  The totality theorems above already quantify over raising decoders; this states the mechanism:
        e.g. parse_bech32_or_32m raises IndexError on a checksummed string with an empty data part ("bc1gmk9yu"),
        b58_groestl raises ImportError without the Groestl package. ---- *)
Theorem C18_decoder_exceptions_swallowed : forall b58 bech32 net s e e',
  b58 s = Raise e -> bech32 s = Raise e' ->
  address b58 bech32 net s = Ret None /\ p2pkh b58 net s = Ret None /\ p2sh b58 net s = Ret None /\
  p2pkh_segwit bech32 net s = Ret None /\ p2sh_segwit bech32 net s = Ret None /\ p2tr bech32 net s = Ret None.
Proof. exact decoder_raises_gives_none. Qed.
Print Assumptions C18_decoder_exceptions_swallowed.

(* ---- the seed parsers and the catch-all parsers that contain them ----
   Total for every text.  The only exclusion left is the case in which the DERIVED key number (left half of the
   HMAC, or the stretched electrum key) is 0 or >= n: Key.__init__ then raises InvalidSecretExponentError outside any
   try.  Its probability is 2^-127 per text and no input is known; it is stated as a hypothesis on (oracle, text)
   (seed_exponent_bad / electrum_seed_bad), documented, not a listed finding.  Hypotheses on the oracles: HMAC-SHA512
   yields 64 bytes; k*G is a curve point with coordinates in [0, p) for valid k. *)
Theorem C18_total_bip32_seed : forall hmac512 mulG,
  (forall m, length (hmac512 m) = 64%nat) ->
  (forall k, valid_exponent k = true -> on_curve (mulG k) = true /\ in_range (mulG k) = true) ->
  forall net s, seed_exponent_bad hmac512 s = false -> returns (bip32_seed hmac512 mulG net s).
Proof. exact bip32_seed_total. Qed.
Print Assumptions C18_total_bip32_seed.

Theorem C18_total_hd_seed : forall hmac512 mulG,
  (forall m, length (hmac512 m) = 64%nat) ->
  (forall k, valid_exponent k = true -> on_curve (mulG k) = true /\ in_range (mulG k) = true) ->
  forall net s, seed_exponent_bad hmac512 s = false -> returns (hd_seed hmac512 mulG net s).
Proof. exact hd_seed_total. Qed.
Print Assumptions C18_total_hd_seed.

Theorem C18_total_electrum_seed : forall stretch mulG,
  (forall k, valid_exponent k = true -> on_curve (mulG k) = true /\ in_range (mulG k) = true) ->
  forall net s, electrum_seed_bad stretch s = false -> returns (electrum_seed stretch mulG net s).
Proof. exact electrum_seed_total. Qed.
Print Assumptions C18_total_electrum_seed.

Theorem C18_total_hierarchical_key : forall b58 hmac512 stretch mulG modsqrt,
  (forall m, length (hmac512 m) = 64%nat) ->
  (forall k, valid_exponent k = true -> on_curve (mulG k) = true /\ in_range (mulG k) = true) ->
  forall net s, seed_exponent_bad hmac512 s = false -> electrum_seed_bad stretch s = false ->
  returns (hierarchical_key b58 hmac512 stretch mulG modsqrt net s).
Proof. exact hierarchical_key_total. Qed.
Print Assumptions C18_total_hierarchical_key.

Theorem C18_total_secret : forall b58 int10 int16 hmac512 stretch mulG modsqrt,
  (forall m, length (hmac512 m) = 64%nat) ->
  (forall k, valid_exponent k = true -> on_curve (mulG k) = true /\ in_range (mulG k) = true) ->
  forall net s, seed_exponent_bad hmac512 s = false -> electrum_seed_bad stretch s = false ->
  returns (secret b58 int10 int16 hmac512 stretch mulG modsqrt net s).
Proof. exact secret_total. Qed.
Print Assumptions C18_total_secret.

(* network.parse(s) = ParseAPI.__call__ *)
Theorem C18_total_parse : forall b58 bech32 int10 int16 compile hmac512 stretch mulG modsqrt,
  (forall m, length (hmac512 m) = 64%nat) ->
  (forall k, valid_exponent k = true -> on_curve (mulG k) = true /\ in_range (mulG k) = true) ->
  forall net s, seed_exponent_bad hmac512 s = false -> electrum_seed_bad stretch s = false ->
  returns (parse_any b58 bech32 int10 int16 compile hmac512 stretch mulG modsqrt net s).
Proof. exact parse_any_total. Qed.
Print Assumptions C18_total_parse.

(* texts that used to raise or to be taken for seeds are refused: ":", "HP:abc", "P:\ud800" *)
Theorem C18_seed_regressions_refused :
  seed_secret [58%N] = Ret None /\ seed_secret (text_of_string "HP:abc") = Ret None /\ seed_secret [80; 58; 55296]%N = Ret None.
Proof. exact w_seed_prefix_refused. Qed.
Print Assumptions C18_seed_regressions_refused.

(* a seed text starts with exactly "H:" or "P:" *)
Theorem C18_seed_prefix_exact : forall s m, seed_secret s = Ret (Some m) ->
  exists rest, s = tH ++ 58%N :: rest \/ s = tP ++ 58%N :: rest.
Proof. exact seed_prefix_exact. Qed.
Print Assumptions C18_seed_prefix_exact.

(* non-vacuity of the hypotheses on the oracles: a constant generator point and a 64-byte constant satisfy them *)
Example C18_oracle_hypotheses_satisfiable :
  (forall k, valid_exponent k = true ->
     on_curve ((fun _ : Z => (curve_gx, curve_gy)) k) = true /\ in_range ((fun _ : Z => (curve_gx, curve_gy)) k) = true) /\
  (forall m : bytes, length ((fun _ : bytes => repeatb x00 64) m) = 64%nat).
Proof. split; intros; vm_compute; auto. Qed.

(* non-vacuity of the exclusions: ordinary texts satisfy them *)
Example C18_exclusions_satisfiable :
  seed_exponent_bad (fun _ => repeatb x01 64) (text_of_string "P:correct horse") = false /\
  electrum_seed_bad (fun _ => 5) (text_of_string "E:00112233445566778899aabbccddeeff") = false.
Proof. vm_compute. auto. Qed.

(* ============================================================================================== *)
(* 2. a checksummed payload of the wrong length or with out-of-range contents is refused          *)
(* ============================================================================================== *)
Theorem C18_wrong_length_refused_address : forall net pre d,
  (n_address net = Some pre -> length d <> (length pre + 20)%nat -> p2pkh_of_payload net d = Ret None) /\
  (n_p2sh net = Some pre -> length d <> (length pre + 20)%nat -> p2sh_of_payload net d = Ret None).
Proof. exact address_wrong_length. Qed.
Print Assumptions C18_wrong_length_refused_address.

Theorem C18_wrong_length_refused_wif : forall mulG net pre d, n_wif net = Some pre ->
  (length d <> (length pre + 32)%nat -> length d <> (length pre + 33)%nat -> wif_of_payload mulG net d = Ret None) /\
  (length d = (length pre + 33)%nat -> skipn (length pre + 32) d <> [x01] -> wif_of_payload mulG net d = Ret None).
Proof. exact wif_wrong_length_both. Qed.
Print Assumptions C18_wrong_length_refused_wif.

(* exponent 0 or >= n *)
Theorem C18_out_of_range_wif_refused : forall mulG net pre body, n_wif net = Some pre ->
  valid_exponent (from_bytes (firstn 32 body)) = false -> wif_of_payload mulG net (pre ++ body) = Ret None.
Proof. exact wif_bad_exponent'. Qed.
Print Assumptions C18_out_of_range_wif_refused.

Theorem C18_wrong_length_refused_hd : forall mulG modsqrt pre kind d,
  length d <> 78%nat -> hd_of_payload mulG modsqrt pre kind d = Ret None.
Proof. exact hd_wrong_length. Qed.
Print Assumptions C18_wrong_length_refused_hd.

(* private key number 0 or >= n; public x coordinate >= p *)
Theorem C18_out_of_range_hd_refused : forall mulG modsqrt pre kind d, length d = 78%nat ->
  (slice 45 46 d = [x00] -> valid_exponent (from_bytes (skipn 46 d)) = false -> hd_of_payload mulG modsqrt pre kind d = Ret None) /\
  (slice 45 46 d <> [x00] -> curve_p <= from_bytes (skipn 46 d) -> hd_of_payload mulG modsqrt pre kind d = Ret None).
Proof. exact hd_out_of_range. Qed.
Print Assumptions C18_out_of_range_hd_refused.

(* a SEC text (hex of b) whose x coordinate is >= p is refused *)
Theorem C18_out_of_range_sec_refused : forall modsqrt net s b,
  h2b (strip_sec_prefix net s) = Some b -> curve_p <= from_bytes (slice 1 33 b) -> sec modsqrt net s = Ret None.
Proof. exact sec_bad_x. Qed.
Print Assumptions C18_out_of_range_sec_refused.

Theorem C18_wrong_length_refused_segwit : forall net ver len mk hrp version data is_m,
  length data <> len -> segwit_of_decoded net ver len mk (hrp, version, data, is_m) = Ret None.
Proof. exact segwit_wrong_length. Qed.
Print Assumptions C18_wrong_length_refused_segwit.

(* ============================================================================================== *)
(* 3. what a parser returns re-serialises to a payload/text that parses to the same object        *)
(* ============================================================================================== *)
(* payload level: the serialiser gives back exactly the payload that was parsed (so it re-parses, trivially) *)
Theorem C18_reserialize_address_payload : forall net d o,
  (p2pkh_of_payload net d = Ret (Some o) -> p2pkh_payload net o = Some d) /\
  (p2sh_of_payload net d = Ret (Some o) -> p2sh_payload net o = Some d).
Proof. exact address_reserialize. Qed.
Print Assumptions C18_reserialize_address_payload.

Theorem C18_reserialize_wif_payload : forall mulG net d o,
  wif_of_payload mulG net d = Ret (Some o) -> wif_payload net o = Some d.
Proof. exact wif_reserialize'. Qed.
Print Assumptions C18_reserialize_wif_payload.

(* extended keys: the serialiser keeps bytes 4..77 and puts the prefix that matches the node's privacy *)
Theorem C18_reserialize_hd_payload : forall mulG modsqrt net pre kind d o pre',
  hd_of_payload mulG modsqrt (Some pre) kind d = Ret (Some o) ->
  length pre' = 4%nat ->
  (if obj_is_private o then n_hd_prv net kind else n_hd_pub net kind) = Some pre' ->
  hd_payload net o = Some (pre' ++ skipn 4 d) /\
  hd_of_payload mulG modsqrt (Some pre') kind (pre' ++ skipn 4 d) = Ret (Some o).
Proof. exact hd_reserialize. Qed.
Print Assumptions C18_reserialize_hd_payload.

(* text level, for every decoder/encoder pair with decode (encode d) = Some d *)
Theorem C18_reserialize_text : forall b58 b58enc, (forall d, b58c b58 (b58enc d) = Some d) ->
  forall mulG modsqrt net s o,
  (p2pkh b58 net s = Ret (Some o) -> exists d, p2pkh_payload net o = Some d /\ p2pkh b58 net (b58enc d) = Ret (Some o)) /\
  (p2sh b58 net s = Ret (Some o) -> exists d, p2sh_payload net o = Some d /\ p2sh b58 net (b58enc d) = Ret (Some o)) /\
  (wif b58 mulG net s = Ret (Some o) -> exists d, wif_payload net o = Some d /\ wif b58 mulG net (b58enc d) = Ret (Some o)) /\
  (forall kind, hd_prefixes_ok net kind -> hd_any b58 mulG modsqrt net kind s = Ret (Some o) ->
     exists d, hd_payload net o = Some d /\ hd_any b58 mulG modsqrt net kind (b58enc d) = Ret (Some o)).
Proof. exact text_reserialize. Qed.
Print Assumptions C18_reserialize_text.

(* the codec hypothesis is satisfiable (bytes <-> code points) *)
Example C18_codec_hypothesis_satisfiable :
  forall d : bytes, b58c (fun t : text => Ret (Some (map n2b t))) ((fun d : bytes => map b2n d) d) = Some d.
Proof. intros d. unfold b58c, ps_cache. cbv beta. f_equal. rewrite map_map. rewrite <- (map_id d) at 2. apply map_ext. intros b. apply n2b_b2n. Qed.

(* the hypothesis hd_prefixes_ok holds for every extended-key kind a table network defines *)
Theorem C18_table_hd_prefixes : forall net kind p, In net table_cfgs -> n_hd_prv net kind = Some p -> hd_prefixes_ok net kind.
Proof. exact table_hd_prefixes_ok. Qed.
Print Assumptions C18_table_hd_prefixes.

(* segwit: the decoded tuple is determined by the returned object (hrp, version, program, checksum variant) *)
Theorem C18_reserialize_segwit : forall net ver len mk v o,
  segwit_of_decoded net ver len mk v = Ret (Some o) ->
  exists hrp data, n_hrp net = Some hrp /\ text_eqb (fst (fst (fst v))) hrp = true /\
    v = (fst (fst (fst v)), ver, data, negb (ver =? 0)) /\ length data = len /\ o = OContract (mk data).
Proof. exact segwit_canonical. Qed.
Print Assumptions C18_reserialize_segwit.

(* ---- public keys: Key.as_text() = sec_prefix + hex(sec) parses back ---- *)
Theorem C18_reserialize_sec : forall modsqrt net s o,
  sec modsqrt net s = Ret (Some o) ->
  exists t, public_key_text net o = Ret t /\ sec modsqrt net t = Ret (Some o).
Proof. exact sec_reserialize. Qed.
Print Assumptions C18_reserialize_sec.

Example C18_reserialize_sec_instance :
  public_key dec10 no_int mulG_w modsqrt_real btc_cfg w_sec_hex = Ret (Some w_sec_key) /\
  public_key_text btc_cfg w_sec_key = Ret w_sec_text /\
  public_key dec10 no_int mulG_w modsqrt_real btc_cfg w_sec_text = Ret (Some w_sec_key).
Proof. exact (conj w_sec_parses (conj w_sec_as_text w_sec_reparsed)). Qed.

(* whatever public_pair returns lies on the curve with coordinates in [0, p) *)
Theorem C18_public_pair_in_range : forall int10 int16 mulG modsqrt net s o,
  public_pair int10 int16 mulG modsqrt net s = Ret (Some o) ->
  exists pt, o = OKey (Pub pt) true /\ on_curve pt = true /\ in_range pt = true.
Proof. exact public_pair_in_range. Qed.
Print Assumptions C18_public_pair_in_range.

Theorem C18_sec_in_range : forall modsqrt net s pt c,
  (forall a, 0 <= modsqrt a < curve_p) ->
  sec modsqrt net s = Ret (Some (OKey (Pub pt) c)) -> 0 <= fst pt < curve_p /\ 0 <= snd pt < curve_p.
Proof. exact sec_in_range. Qed.
Print Assumptions C18_sec_in_range.

(* keys returned by public_pair re-serialise to a SEC text that sec() parses to the same key, for EVERY square-root
   oracle that is exact (sqrt_exact: for a curve point (x, y) in range it returns y or p - y, never 0).  The generic
   statement is kept; the premise is discharged below for the square root pycoin computes. *)
Theorem C18_reserialize_public_pair : forall modsqrt, sqrt_exact modsqrt ->
  forall int10 int16 mulG net s o,
  public_pair int10 int16 mulG modsqrt net s = Ret (Some o) ->
  exists t, public_key_text net o = Ret t /\ sec modsqrt net t = Ret (Some o).
Proof. exact public_pair_reserialize. Qed.
Print Assumptions C18_reserialize_public_pair.

(* the same with modsqrt := pow(a, (p+1)//4, p) on the curve prime of the model (= secp256k1's field prime, by
   reflexivity against Gen/GenCurveC10.v) and NO premise: sqrt_exact is proved from the primality of p (Pocklington
   certificate, Proofs/CurvePrimesC10.v), Fermat's little theorem (Proofs/FermatC10.v), p = 3 mod 4
   ((a^((p+1)/4))^2 = a * a^((p-1)/2) = a for a residue a) and "no point of secp256k1 has y = 0" (C10) *)
Theorem C18_sqrt_exact_secp256k1 : sqrt_exact modsqrt_real.
Proof. exact sqrt_exact_secp256k1. Qed.
Print Assumptions C18_sqrt_exact_secp256k1.

Theorem C18_reserialize_public_pair_secp256k1 : forall int10 int16 mulG net s o,
  public_pair int10 int16 mulG modsqrt_real net s = Ret (Some o) ->
  exists t, public_key_text net o = Ret t /\ sec modsqrt_real net t = Ret (Some o).
Proof. exact public_pair_reserialize_secp256k1. Qed.
Print Assumptions C18_reserialize_public_pair_secp256k1.

(* modsqrt_real is the modular exponentiation, and the model's prime is C10's k1_p *)
Example C18_modsqrt_real_is_pow : (forall a, modsqrt_real a = (a ^ ((curve_p + 1) / 4)) mod curve_p) /\
  curve_p = GenCurveC10.k1_p /\ curve_a = GenCurveC10.k1_a /\ curve_b = GenCurveC10.k1_b.
Proof. split. exact modsqrt_real_spec. exact curve_is_k1. Qed.

(* ---- electrum wallets: as_text() = "E:" + hex parses back through the entry point that produced the wallet ---- *)
Theorem C18_reserialize_electrum : forall stretch mulG net s o,
  (electrum_seed stretch mulG net s = Ret (Some o) ->
     exists t, electrum_text o = Ret t /\ electrum_seed stretch mulG net t = Ret (Some o)) /\
  (electrum_prv mulG net s = Ret (Some o) ->
     exists t, electrum_text o = Ret t /\ electrum_prv mulG net t = Ret (Some o)) /\
  (electrum_pub net s = Ret (Some o) ->
     exists t, electrum_text o = Ret t /\ electrum_pub net t = Ret (Some o)).
Proof. exact electrum_reserialize. Qed.
Print Assumptions C18_reserialize_electrum.

(* electrum_pub refuses the x = p + 1 alias it used to accept *)
Example C18_electrum_unreduced_refused : electrum_pub btc_cfg w_electrum_text = Ret None.
Proof. exact w_electrum_refused. Qed.

(* ============================================================================================== *)
(* 4. kinds are kept apart                                                                        *)
(* ============================================================================================== *)
(* `kinds_separated net` (Model/ParseText.v) is the decidable condition: for every two distinct checksummed kinds
   (p2pkh, p2sh, wif, bip32/49/84 prv/pub) that the network defines, the prefixes are incomparable (neither is a
   prefix of the other) or no total payload length fits both (prefix+20 | prefix+32, prefix+33 | 78). *)
Theorem C18_kinds_disjoint : forall mulG modsqrt net, kinds_separated net = true ->
  forall d k1 k2, k1 <> k2 ->
  accepted (parse_kind mulG modsqrt net k1 d) -> accepted (parse_kind mulG modsqrt net k2 d) -> False.
Proof. exact kinds_disjoint. Qed.
Print Assumptions C18_kinds_disjoint.

(* every network of the generated table (all registered symbols, POLIS with p2sh = wif = 3c included) is separated *)
Theorem C18_kinds_disjoint_table : forall mulG modsqrt net, In net table_cfgs ->
  forall d k1 k2, k1 <> k2 ->
  accepted (parse_kind mulG modsqrt net k1 d) -> accepted (parse_kind mulG modsqrt net k2 d) -> False.
Proof. exact kinds_disjoint_table. Qed.
Print Assumptions C18_kinds_disjoint_table.

Example C18_table_nonempty : (length table_cfgs >= 40)%nat /\ n_p2sh (nth 29 table_cfgs btc_cfg) = n_wif (nth 29 table_cfgs btc_cfg).
Proof. vm_compute. split; [repeat constructor | reflexivity]. Qed.

Theorem C18_segwit_kinds_disjoint : forall net v,
  (accepted (segwit_of_decoded net 0 20 script_wit0 v) -> accepted (segwit_of_decoded net 0 32 script_wit0 v) -> False) /\
  (accepted (segwit_of_decoded net 0 20 script_wit0 v) -> accepted (segwit_of_decoded net 1 32 script_p2tr v) -> False) /\
  (accepted (segwit_of_decoded net 0 32 script_wit0 v) -> accepted (segwit_of_decoded net 1 32 script_p2tr v) -> False).
Proof. exact segwit_kinds_disjoint. Qed.
Print Assumptions C18_segwit_kinds_disjoint.

(* ---- private and public extended keys are told apart by the marker byte, not by the prefix ---- *)
Definition C18_hd_pub_is_public_statement : Prop :=
  forall b58 mulG modsqrt net kind s o, hd_pub b58 mulG modsqrt net kind s = Ret (Some o) -> obj_is_private o = false.
(* finding hd-pub-prefix-private-payload: b58check(0488b21e || 00*41 || 00 || 00*31 01) (an "xpub...") comes back from
   bip32_pub as a private node with secret exponent 1 *)
Theorem C18_refuted_hd_pub_is_public : ~ C18_hd_pub_is_public_statement.
Proof. exact hd_pub_not_public. Qed.
Print Assumptions C18_refuted_hd_pub_is_public.

Theorem C18_hd_privacy_is_marker : forall mulG modsqrt pre kind d o,
  hd_of_payload mulG modsqrt pre kind d = Ret (Some o) -> obj_is_private o = bytes_eqb (slice 45 46 d) [x00].
Proof. exact hd_privacy_is_marker. Qed.
Print Assumptions C18_hd_privacy_is_marker.

(* ============================================================================================== *)
(* 5. histories: ONE parseable_str object offered to many networks and entry points               *)
(* ============================================================================================== *)
(* Model/ParseTextHist.v: the object's decode cache holds one optional slot per DECODER (keyed by the decoding function:
   "b58_double_sha256", "b58_groestl", "bech32"), whose value depends on the text only; nothing that depends on the
   network is stored.  `run` is one call with explicit decoders (every entry point, `entry`); `history` threads the
   store through a list of (entry point, network) calls on the shared object; `fresh` makes each call on a new str. *)

(* an entry point sees a decoder only through its exception-swallowed value at the text itself *)
Theorem C18_decoder_locality : forall int10 int16 compile hmac512 stretch mulG modsqrt b1 b1' b2 b2' e net s,
  ps_cache b1 s = ps_cache b1' s -> ps_cache b2 s = ps_cache b2' s ->
  run int10 int16 compile hmac512 stretch mulG modsqrt b1 b2 e net s =
  run int10 int16 compile hmac512 stretch mulG modsqrt b1' b2' e net s.
Proof. exact run_local. Qed.
Print Assumptions C18_decoder_locality.

(* history independence: whatever was parsed before with the same object (any networks, any entry points, any order),
   every answer equals the answer for a fresh plain str on that network *)
Theorem C18_history_independent : forall int10 int16 compile hmac512 stretch mulG modsqrt dec key_of bech32 calls st s,
  consistent dec bech32 st s ->
  history int10 int16 compile hmac512 stretch mulG modsqrt dec key_of bech32 st calls s =
  fresh int10 int16 compile hmac512 stretch mulG modsqrt dec key_of bech32 calls s.
Proof. exact history_independent. Qed.
Print Assumptions C18_history_independent.

Theorem C18_history_from_new_object : forall int10 int16 compile hmac512 stretch mulG modsqrt dec key_of bech32 calls s,
  history int10 int16 compile hmac512 stretch mulG modsqrt dec key_of bech32 empty_store calls s =
  fresh int10 int16 compile hmac512 stretch mulG modsqrt dec key_of bech32 calls s.
Proof. exact history_from_new_object. Qed.
Print Assumptions C18_history_from_new_object.

(* the cache stays consistent under every call, and a new object's cache is consistent *)
Theorem C18_cache_consistency : forall dec bech32 st k s,
  consistent dec bech32 empty_store s /\
  (consistent dec bech32 st s -> consistent dec bech32 (fill dec bech32 st k s) s).
Proof. intros. split. apply empty_consistent. apply fill_consistent. Qed.
Print Assumptions C18_cache_consistency.
