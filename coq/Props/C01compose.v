(* Props/C01compose.v — composition of C01 (ECDSA over an abstract group) with C02 (pycoin's curve arithmetic is the
   group law).  Only statements; every proof is `exact <lemma>`.

   C01's theorems assume the records `group_laws` / `lift_laws` (Spec/EcdsaSpec.v) of an abstract group and discharge
   them on C01's own toy instance only.  Here the abstract group is INSTANTIATED with C02's model of pycoin's arithmetic
   (Proofs/ComposeEcInst.v):
     carrier  ept c = { P : Curve.pt | on the curve, coordinates in [0,p), n*P = O }     (the subgroup E[n]; on a
              curve whose group has order n — cofactor 1 — that is every reduced on-curve point: C01c_cofactor1)
     coords = the pair itself (None = infinity),  add = Curve.add,  neg = Curve.neg,  smul e P = Curve.multiply c P e,
     G = the generator's point,  lift_x = Generator.points_for_x,
   and the two records are PROVED from C02's theorems.  What is left as hypothesis is mathematics about the curve:
     M1 c   p is prime            M4 c   chord-and-tangent addition is associative on reduced on-curve points
     n*G = O  (order_kills)       prime n  (M2)
   plus ONE decidable side condition `ec_sideb g = true` (G on the curve, reduced, finite; p = 3 mod 4; n odd;
   n <= 2^bit_count), which is discharged by vm_compute for secp256k1 on the table regenerated from /repo
   (Gen/GenCurves.v) and for the toy generator.  M3 (Fermat) is no longer a premise: it is derived from M1.
   ALL FOUR are now theorems for the SHIPPED secp256k1 and secp256r1 generators (C01c_secp256k1_premises_proved,
   C01c_secp256r1_premises_proved):
     M1, M2     kernel-checked Pocklington certificates (Proofs/Pocklington.v, CurvePrimes.v, CurvePrimesEc.v)
     M4         associativity is PROVED for every non-singular curve over F_p, p an odd prime (Proofs/EcAssoc*.v)
     n*G = O    a double-and-add of n*G with the model's Curve.add formulas, its ~430 modular inverses supplied as hints and
                each re-checked (Proofs/OrderCert.v, CurveOrderK1.v, CurveOrderR1.v, ShippedOrder.v)
   so the theorems `C01c_secp256k1_*_unconditional` / `C01c_secp256r1_*_unconditional` have NO hypothesis at all (their
   quantified gen_k / hmac / hlen are arbitrary functions, not assumptions).  For an arbitrary generator the hypothesis M4 of the
   general section follows from M1, the side condition and the decidable `nonsingularb` (C01c_M4_from_nonsingular); M1, M2 and
   n*G = O remain hypotheses there (all three decidable; n*G = O checkable by certificate, Props/C02.v
   C02_order_certificate_sound).  The general sections (premises as hypotheses) are kept.
   C01c_ops_are_C02 states that the abstract operations ARE C02's functions (each returns `Ret` of the operation's pair;
   `smul e G` is also what the blinded fixed-base Generator.__mul__ returns), C01c_ops_are_group_law that they are the
   textbook operations.

   NOT implied by those premises (see C01c_cofactor1, C01c_cofactor_needed): that EVERY on-curve point, in particular the
   two points returned by points_for_x and an arbitrary on-curve public key, lies in the carrier.  This is "the curve
   group has order n" (cofactor 1): true of secp256k1/secp256r1, a theorem about the curve (point count) that none of
   M1..M4, n*G = O, prime n implies, and FALSE for the shipped bls12_381_g1 generator (cofactor 0x396c8c00...aaab).
   It is not needed for any theorem below: elift returns None when points_for_x returns a point outside E[n], and on a
   curve of cofactor 1 elift IS points_for_x (second half of C01c_cofactor1). *)
From Coq Require Import ZArith List Znumtheory.
From PV Require Import Base.Bytes Base.Outcome Gen.GenCurves Gen.GenCurvesC01 Model.Curve Model.Ecdsa Model.Rfc6979
  Spec.Weierstrass Spec.EcdsaSpec Spec.Rfc6979Spec Proofs.CurveAddP Proofs.CurveP
  Proofs.ComposeEcInst Proofs.ComposeEcC01 Proofs.ComposeEcWitness Proofs.ComposeEcInv Proofs.ShippedUncond Proofs.ComposeEcShipped Props.C01.
Import ListNotations.
Local Open Scope Z_scope.

(* C01's and C02's transcriptions of Curve.inverse_mod are the same function for every modulus > 1 (value and
   AssertionError alike): the `inverse` used by sign / verify / recover below is C02's inverse_mod(., n) *)
Theorem C01c_inverse_mod_is_C02 : forall a m : Z, 1 < m -> Ecdsa.inverse_mod a m = Curve.inverse_mod a m.
Proof. exact inverse_mod_agree. Qed.
Print Assumptions C01c_inverse_mod_is_C02.

Section C01compose.
  Variable g : gen.                      (* a Generator object: curve (p, a, b, n), point G, table width, blinding factor *)
  Local Notation c := (gc g).
  Local Notation n := (cn (gc g)).
  Local Notation p := (cp (gc g)).
  Variable gen_k : Z -> Z -> Z -> outcome Z.
  Variable hmac : bytes -> bytes -> bytes.
  Variable hlen : nat.

  Hypothesis HM1 : M1 c.
  Hypothesis HM4 : M4 c.
  Hypothesis HnG : order_kills c (gG g).
  Hypothesis HM2 : prime n.
  Hypothesis Hside : ec_sideb g = true.  (* decidable *)

  Local Notation G := (eG g).
  Local Notation verify := (Ecdsa.verify (ept c) (eadd c) (esmul c) G n ecoords).
  Local Notation sign_with_recid := (Ecdsa.sign_with_recid (ept c) (esmul c) G n ecoords).
  Local Notation recover := (Ecdsa.recover (ept c) (eadd c) (esmul c) G n p (elift g)).

  (* (A) the two records of C01, from C02 *)
  Theorem C01c_group_laws : group_laws (ept c) (eadd c) (eneg c) (eO c) (esmul c) n ecoords.
  Proof. exact (c_group_laws g HM1 HM4 HM2 Hside). Qed.

  Theorem C01c_lift_laws : lift_laws (ept c) ecoords (elift g) (fun x => 0 <= x < p).
  Proof. exact (c_lift_laws g HM1 HM4 Hside). Qed.

  Theorem C01c_G_nonzero : G <> eO c.
  Proof. exact (c_G_nonzero g HM1 HnG Hside). Qed.

  (* the instance computes with exactly C02's model functions ... *)
  Theorem C01c_ops_are_C02 :
    (forall P Q : ept c, Curve.add c (eval P) (eval Q) = Ret (eval (eadd c P Q))) /\
    (forall P : ept c, Curve.neg c (eval P) = Ret (eval (eneg c P))) /\
    (forall (e : Z) (P : ept c), multiply c (eval P) e = Ret (eval (esmul c e P))) /\
    (forall e : Z, gmul g e = Ret (eval (esmul c e G)) /\ raw_mul g e = Ret (eval (esmul c e G))) /\
    eval G = gG g /\ eval (eO c) = None.
  Proof. exact (c_ops_run g HM1 HM4 HnG HM2 Hside). Qed.

  (* ... which are the textbook group operations (Spec/Weierstrass.v: gadd = chord-and-tangent, kP = repeated addition) *)
  Theorem C01c_ops_are_group_law :
    (forall P Q : ept c, eval (eadd c P Q) = gadd c (eval P) (eval Q)) /\
    (forall P : ept c, eval (eneg c P) = gneg c (eval P)) /\
    (forall (e : Z) (P : ept c), eval (esmul c e P) = kP c e (eval P)).
  Proof. exact (c_ops_spec g HM1 HM4 HM2 Hside). Qed.

  (* the carrier: a raw pair belongs to it iff it is a reduced on-curve point (or infinity) killed by n *)
  Theorem C01c_carrier : forall P : Curve.pt, (exists Q : ept c, eval Q = P) <-> valid c P /\ order_kills c P.
  Proof. exact (c_carrier g HM1 Hside). Qed.

  (* with the extra premise "cofactor 1" the carrier is the whole curve group and elift is points_for_x *)
  Theorem C01c_cofactor1 : (forall P, valid c P -> order_kills c P) ->
    (forall P, valid c P -> exists Q : ept c, eval Q = P) /\
    (forall x, 0 <= x < p ->
       match points_for_x g x with
       | Ret (P0, P1) => exists Q0 Q1, elift g x = Some (Q0, Q1) /\ eval Q0 = P0 /\ eval Q1 = P1
       | _ => elift g x = None
       end).
  Proof. exact (c_cofactor1 g HM1 Hside). Qed.

  (* Each main theorem also states `eval G = gG g`: the G of the statement is the generator's own point (this is where
     n*G = O enters: without it G would not belong to the carrier).
     1. sign => verify *)
  Theorem C01c_sign_verifies : eval G = gG g /\ forall (fuel : nat) (d z r s recid : Z),
    sign_with_recid gen_k fuel d z = Ret (r, s, recid) ->
    1 <= r < n /\ 1 <= s < n /\ 0 <= recid < 4 /\ verify (Some (esmul c d G)) z r s = Ret true.
  Proof. exact (conj (c_G_val g HM1 HnG Hside) (C01_sign_verifies (ept c) (eadd c) (eneg c) (eO c) (esmul c) G n ecoords gen_k
                  C01c_group_laws HM2)). Qed.

  (* 2. verify iff the textbook equation, for every public key of the carrier *)
  Theorem C01c_verify_iff : eval G = gG g /\ forall (Q : ept c) (z r s : Z),
    verify (Some Q) z r s = Ret true <-> z <> 0 /\ ecdsa_valid (ept c) (eadd c) (esmul c) G n ecoords Q z r s.
  Proof. exact (conj (c_G_val g HM1 HnG Hside) (C01_verify_iff (ept c) (eadd c) (eneg c) (eO c) (esmul c) G n ecoords C01c_group_laws HM2)). Qed.

  (* 3. recovery *)
  Theorem C01c_recover_sound : eval G = gG g /\ forall (z r s : Z) (y_parity : option Z) (l : list (ept c)) (Q : ept c),
    z <> 0 -> recover z r s y_parity = Ret l -> In Q l -> verify (Some Q) z r s = Ret true.
  Proof. exact (conj (c_G_val g HM1 HnG Hside) (C01_recover_sound (ept c) (eadd c) (eneg c) (eO c) (esmul c) G n ecoords p (elift g)
                  C01c_group_laws HM2 C01c_lift_laws)). Qed.

  Theorem C01c_recover_complete : eval G = gG g /\ forall (Q : ept c) (z r s w y : Z),
    z <> 0 -> 1 <= r < n -> 1 <= s < n -> (s * w) mod n = 1 ->
    ecoords (eadd c (esmul c (z * w) G) (esmul c (r * w) Q)) = Some (r, y) ->
    (exists l, recover z r s None = Ret l /\ In Q l) /\
    (forall yp, Z.odd yp = Z.odd y -> recover z r s (Some yp) = Ret [Q]).
  Proof. exact (conj (c_G_val g HM1 HnG Hside) (C01_recover_complete (ept c) (eadd c) (eneg c) (eO c) (esmul c) G n ecoords p (elift g)
                  C01c_group_laws HM2 C01c_lift_laws)). Qed.

  Theorem C01c_recover_signer : eval G = gG g /\ forall (fuel : nat) (d z r s recid : Z),
    sign_with_recid gen_k fuel d z = Ret (r, s, recid) -> recid < 2 ->
    recover z r s (Some recid) = Ret [esmul c d G] /\
    exists l, recover z r s None = Ret l /\ In (esmul c d G) l.
  Proof. exact (conj (c_G_val g HM1 HnG Hside) (C01_recover_signer (ept c) (eadd c) (eneg c) (eO c) (esmul c) G n ecoords p (elift g) gen_k
                  C01c_group_laws HM2 C01c_lift_laws)). Qed.

  (* 4. RFC 6979 *)
  Theorem C01c_sign_is_rfc6979 : eval G = gG g /\ forall (kfuel : nat) (d z k x y : Z),
    0 <= d < n -> 0 < z < 256 ^ Z.of_nat hlen ->
    rfc6979_k hmac n kfuel d (int_to_octets hlen z) = Some k ->
    ecoords (esmul c k G) = Some (x, y) -> x mod n <> 0 -> (z + (x mod n) * d) mod n <> 0 ->
    forall fuel, exists s recid,
      sign_with_recid (deterministic_generate_k hmac hlen kfuel) (S fuel) d z = Ret (x mod n, s, recid) /\
      1 <= s < n /\ (s * k) mod n = (z + (x mod n) * d) mod n.
  Proof. exact (conj (c_G_val g HM1 HnG Hside) (C01_sign_is_rfc6979 (ept c) (eadd c) (eneg c) (eO c) (esmul c) G n ecoords hmac hlen
                  C01c_group_laws HM2)). Qed.

  (* 5. totality of signing with the default nonce (uses G <> O, decided above) *)
  Theorem C01c_sign_never_raises : forall (kfuel fuel : nat) (d z : Z) (e : pyexn),
    0 <= d < n -> 0 < z < 256 ^ Z.of_nat hlen ->
    sign_with_recid (deterministic_generate_k hmac hlen kfuel) fuel d z <> Raise e.
  Proof. exact (C01_sign_never_raises (ept c) (eadd c) (eneg c) (eO c) (esmul c) G n ecoords hmac hlen
                  C01c_group_laws HM2 C01c_G_nonzero). Qed.
End C01compose.

Print Assumptions C01c_group_laws.
Print Assumptions C01c_lift_laws.
Print Assumptions C01c_G_nonzero.
Print Assumptions C01c_ops_are_C02.
Print Assumptions C01c_ops_are_group_law.
Print Assumptions C01c_carrier.
Print Assumptions C01c_cofactor1.
Print Assumptions C01c_sign_verifies.
Print Assumptions C01c_verify_iff.
Print Assumptions C01c_recover_sound.
Print Assumptions C01c_recover_complete.
Print Assumptions C01c_recover_signer.
Print Assumptions C01c_sign_is_rfc6979.
Print Assumptions C01c_sign_never_raises.

(* the hypothesis M4 of the section above is implied by M1, the side condition (p = 3 mod 4, so p <> 2) and the decidable
   non-singularity 4a^3 + 27b^2 <> 0 (mod p): associativity is a theorem (Proofs/EcAssoc.v) *)
Theorem C01c_M4_from_nonsingular : forall g : gen,
  M1 (gc g) -> ec_sideb g = true -> nonsingularb (gc g) = true -> M4 (gc g).
Proof. exact ec_M4. Qed.
Print Assumptions C01c_M4_from_nonsingular.

(* ---- secp256k1 as shipped (Gen/GenCurves.v, regenerated from /repo), any blinding factor: the side condition is
        decided by computation; the hypotheses of THIS section are exactly M1, M4, n*G = O, M2 (general form, kept);
        the section Secp256k1_proved below proves all four: nothing is assumed there ----------------------------- *)
Theorem C01c_secp256k1_side_conditions : forall blind : Z,
  ec_sideb (secp256k1_gen blind) = true /\
  secp256k1_gen blind = shipped_gen (secp256k1_params, secp256k1_bits) blind /\      (* the generator of Props/C02.v *)
  (secp256k1_p, secp256k1_a, secp256k1_b, secp256k1_Gx, secp256k1_Gy, secp256k1_n) =  (* and the constants of Props/C01.v *)
  (gen_secp256k1_p, gen_secp256k1_a, gen_secp256k1_b, gen_secp256k1_Gx, gen_secp256k1_Gy, gen_secp256k1_n).
Proof. exact (fun blind => conj (secp256k1_side blind) (conj (secp256k1_gen_is_shipped blind) eq_refl)). Qed.
Print Assumptions C01c_secp256k1_side_conditions.

Section Secp256k1.
  Variable blind : Z.
  Variable gen_k : Z -> Z -> Z -> outcome Z.
  Variable hmac : bytes -> bytes -> bytes.
  Variable hlen : nat.
  Local Notation g := (secp256k1_gen blind).
  Local Notation c := secp256k1_curve.
  Local Notation n := secp256k1_n.
  Local Notation p := secp256k1_p.
  Local Notation G := (eG g).
  Local Notation verify := (Ecdsa.verify (ept c) (eadd c) (esmul c) G n ecoords).
  Local Notation sign_with_recid := (Ecdsa.sign_with_recid (ept c) (esmul c) G n ecoords).
  Local Notation recover := (Ecdsa.recover (ept c) (eadd c) (esmul c) G n p (elift g)).

  Hypothesis HM1 : prime secp256k1_p.                                    (* M1 *)
  Hypothesis HM4 : M4 secp256k1_curve.                                   (* M4 *)
  Hypothesis HnG : kP secp256k1_curve secp256k1_n secp256k1_G = None.    (* n*G = O *)
  Hypothesis HM2 : prime secp256k1_n.                                    (* M2 *)

  Theorem C01c_secp256k1_sign_verifies : eval G = secp256k1_G /\ forall (fuel : nat) (d z r s recid : Z),
    sign_with_recid gen_k fuel d z = Ret (r, s, recid) ->
    1 <= r < n /\ 1 <= s < n /\ 0 <= recid < 4 /\ verify (Some (esmul c d G)) z r s = Ret true.
  Proof. exact (C01c_sign_verifies g gen_k HM1 HM4 HnG HM2 (secp256k1_side blind)). Qed.

  Theorem C01c_secp256k1_verify_iff : eval G = secp256k1_G /\ forall (Q : ept c) (z r s : Z),
    verify (Some Q) z r s = Ret true <-> z <> 0 /\ ecdsa_valid (ept c) (eadd c) (esmul c) G n ecoords Q z r s.
  Proof. exact (C01c_verify_iff g HM1 HM4 HnG HM2 (secp256k1_side blind)). Qed.

  Theorem C01c_secp256k1_recover_sound : eval G = secp256k1_G /\ forall (z r s : Z) (y_parity : option Z) (l : list (ept c)) (Q : ept c),
    z <> 0 -> recover z r s y_parity = Ret l -> In Q l -> verify (Some Q) z r s = Ret true.
  Proof. exact (C01c_recover_sound g HM1 HM4 HnG HM2 (secp256k1_side blind)). Qed.

  Theorem C01c_secp256k1_recover_complete : eval G = secp256k1_G /\ forall (Q : ept c) (z r s w y : Z),
    z <> 0 -> 1 <= r < n -> 1 <= s < n -> (s * w) mod n = 1 ->
    ecoords (eadd c (esmul c (z * w) G) (esmul c (r * w) Q)) = Some (r, y) ->
    (exists l, recover z r s None = Ret l /\ In Q l) /\
    (forall yp, Z.odd yp = Z.odd y -> recover z r s (Some yp) = Ret [Q]).
  Proof. exact (C01c_recover_complete g HM1 HM4 HnG HM2 (secp256k1_side blind)). Qed.

  Theorem C01c_secp256k1_sign_is_rfc6979 : eval G = secp256k1_G /\ forall (kfuel : nat) (d z k x y : Z),
    0 <= d < n -> 0 < z < 256 ^ Z.of_nat hlen ->
    rfc6979_k hmac n kfuel d (int_to_octets hlen z) = Some k ->
    ecoords (esmul c k G) = Some (x, y) -> x mod n <> 0 -> (z + (x mod n) * d) mod n <> 0 ->
    forall fuel, exists s recid,
      sign_with_recid (deterministic_generate_k hmac hlen kfuel) (S fuel) d z = Ret (x mod n, s, recid) /\
      1 <= s < n /\ (s * k) mod n = (z + (x mod n) * d) mod n.
  Proof. exact (C01c_sign_is_rfc6979 g hmac hlen HM1 HM4 HnG HM2 (secp256k1_side blind)). Qed.

  (* the operations of these statements are pycoin's functions on secp256k1 *)
  Theorem C01c_secp256k1_ops_are_C02 :
    (forall P Q : ept c, Curve.add c (eval P) (eval Q) = Ret (eval (eadd c P Q))) /\
    (forall P : ept c, Curve.neg c (eval P) = Ret (eval (eneg c P))) /\
    (forall (e : Z) (P : ept c), multiply c (eval P) e = Ret (eval (esmul c e P))) /\
    (forall e : Z, gmul g e = Ret (eval (esmul c e G)) /\ raw_mul g e = Ret (eval (esmul c e G))) /\
    eval G = secp256k1_G /\ eval (eO c) = None.
  Proof. exact (C01c_ops_are_C02 g HM1 HM4 HnG HM2 (secp256k1_side blind)). Qed.
End Secp256k1.
Print Assumptions C01c_secp256k1_sign_verifies.
Print Assumptions C01c_secp256k1_verify_iff.
Print Assumptions C01c_secp256k1_recover_sound.
Print Assumptions C01c_secp256k1_recover_complete.
Print Assumptions C01c_secp256k1_sign_is_rfc6979.
Print Assumptions C01c_secp256k1_ops_are_C02.

(* ---- secp256k1 as shipped, any blinding factor, with M1, M2, M4 and n*G = O PROVED (kernel-checked Pocklington certificates for
        p and n; M4 by Proofs/EcAssoc.v; n*G = O through a checked double-and-add certificate): NO hypothesis is left ---------- *)
Theorem C01c_secp256k1_premises_proved :
  prime secp256k1_p /\ prime secp256k1_n /\ M4 secp256k1_curve /\ kP secp256k1_curve secp256k1_n secp256k1_G = None /\
  forall blind : Z, ec_sideb (secp256k1_gen blind) = true /\ secp256k1_gen blind = shipped_gen (secp256k1_params, secp256k1_bits) blind.
Proof. exact (conj secp256k1_M1 (conj secp256k1_M2 (conj secp256k1_M4 (conj secp256k1_nG_proved (fun blind => conj (secp256k1_side blind) (secp256k1_gen_is_shipped blind)))))). Qed.
Print Assumptions C01c_secp256k1_premises_proved.

Section Secp256k1_proved.
  Variable blind : Z.
  Variable gen_k : Z -> Z -> Z -> outcome Z.
  Variable hmac : bytes -> bytes -> bytes.
  Variable hlen : nat.
  Local Notation g := (secp256k1_gen blind).
  Local Notation c := secp256k1_curve.
  Local Notation n := secp256k1_n.
  Local Notation p := secp256k1_p.
  Local Notation G := (eG g).
  Local Notation verify := (Ecdsa.verify (ept c) (eadd c) (esmul c) G n ecoords).
  Local Notation sign_with_recid := (Ecdsa.sign_with_recid (ept c) (esmul c) G n ecoords).
  Local Notation recover := (Ecdsa.recover (ept c) (eadd c) (esmul c) G n p (elift g)).

  Theorem C01c_secp256k1_group_laws_unconditional : group_laws (ept c) (eadd c) (eneg c) (eO c) (esmul c) n ecoords.
  Proof. exact (C01c_group_laws g secp256k1_M1 secp256k1_M4 secp256k1_M2 (secp256k1_side blind)). Qed.

  Theorem C01c_secp256k1_lift_laws_unconditional : lift_laws (ept c) ecoords (elift g) (fun x => 0 <= x < p).
  Proof. exact (C01c_lift_laws g secp256k1_M1 secp256k1_M4 (secp256k1_side blind)). Qed.

  Theorem C01c_secp256k1_sign_verifies_unconditional : eval G = secp256k1_G /\ forall (fuel : nat) (d z r s recid : Z),
    sign_with_recid gen_k fuel d z = Ret (r, s, recid) ->
    1 <= r < n /\ 1 <= s < n /\ 0 <= recid < 4 /\ verify (Some (esmul c d G)) z r s = Ret true.
  Proof. exact (C01c_sign_verifies g gen_k secp256k1_M1 secp256k1_M4 secp256k1_nG_proved secp256k1_M2 (secp256k1_side blind)). Qed.

  Theorem C01c_secp256k1_verify_iff_unconditional : eval G = secp256k1_G /\ forall (Q : ept c) (z r s : Z),
    verify (Some Q) z r s = Ret true <-> z <> 0 /\ ecdsa_valid (ept c) (eadd c) (esmul c) G n ecoords Q z r s.
  Proof. exact (C01c_verify_iff g secp256k1_M1 secp256k1_M4 secp256k1_nG_proved secp256k1_M2 (secp256k1_side blind)). Qed.

  Theorem C01c_secp256k1_recover_sound_unconditional : eval G = secp256k1_G /\ forall (z r s : Z) (y_parity : option Z) (l : list (ept c)) (Q : ept c),
    z <> 0 -> recover z r s y_parity = Ret l -> In Q l -> verify (Some Q) z r s = Ret true.
  Proof. exact (C01c_recover_sound g secp256k1_M1 secp256k1_M4 secp256k1_nG_proved secp256k1_M2 (secp256k1_side blind)). Qed.

  Theorem C01c_secp256k1_recover_complete_unconditional : eval G = secp256k1_G /\ forall (Q : ept c) (z r s w y : Z),
    z <> 0 -> 1 <= r < n -> 1 <= s < n -> (s * w) mod n = 1 ->
    ecoords (eadd c (esmul c (z * w) G) (esmul c (r * w) Q)) = Some (r, y) ->
    (exists l, recover z r s None = Ret l /\ In Q l) /\
    (forall yp, Z.odd yp = Z.odd y -> recover z r s (Some yp) = Ret [Q]).
  Proof. exact (C01c_recover_complete g secp256k1_M1 secp256k1_M4 secp256k1_nG_proved secp256k1_M2 (secp256k1_side blind)). Qed.

  Theorem C01c_secp256k1_recover_signer_unconditional : eval G = secp256k1_G /\ forall (fuel : nat) (d z r s recid : Z),
    sign_with_recid gen_k fuel d z = Ret (r, s, recid) -> recid < 2 ->
    recover z r s (Some recid) = Ret [esmul c d G] /\
    exists l, recover z r s None = Ret l /\ In (esmul c d G) l.
  Proof. exact (C01c_recover_signer g gen_k secp256k1_M1 secp256k1_M4 secp256k1_nG_proved secp256k1_M2 (secp256k1_side blind)). Qed.

  Theorem C01c_secp256k1_sign_is_rfc6979_unconditional : eval G = secp256k1_G /\ forall (kfuel : nat) (d z k x y : Z),
    0 <= d < n -> 0 < z < 256 ^ Z.of_nat hlen ->
    rfc6979_k hmac n kfuel d (int_to_octets hlen z) = Some k ->
    ecoords (esmul c k G) = Some (x, y) -> x mod n <> 0 -> (z + (x mod n) * d) mod n <> 0 ->
    forall fuel, exists s recid,
      sign_with_recid (deterministic_generate_k hmac hlen kfuel) (S fuel) d z = Ret (x mod n, s, recid) /\
      1 <= s < n /\ (s * k) mod n = (z + (x mod n) * d) mod n.
  Proof. exact (C01c_sign_is_rfc6979 g hmac hlen secp256k1_M1 secp256k1_M4 secp256k1_nG_proved secp256k1_M2 (secp256k1_side blind)). Qed.

  Theorem C01c_secp256k1_sign_never_raises_unconditional : forall (kfuel fuel : nat) (d z : Z) (e : pyexn),
    0 <= d < n -> 0 < z < 256 ^ Z.of_nat hlen ->
    sign_with_recid (deterministic_generate_k hmac hlen kfuel) fuel d z <> Raise e.
  Proof. exact (C01c_sign_never_raises g hmac hlen secp256k1_M1 secp256k1_M4 secp256k1_nG_proved secp256k1_M2 (secp256k1_side blind)). Qed.

  (* the operations of these statements are pycoin's functions on secp256k1, and the textbook group operations *)
  Theorem C01c_secp256k1_ops_are_C02_unconditional :
    (forall P Q : ept c, Curve.add c (eval P) (eval Q) = Ret (eval (eadd c P Q))) /\
    (forall P : ept c, Curve.neg c (eval P) = Ret (eval (eneg c P))) /\
    (forall (e : Z) (P : ept c), multiply c (eval P) e = Ret (eval (esmul c e P))) /\
    (forall e : Z, gmul g e = Ret (eval (esmul c e G)) /\ raw_mul g e = Ret (eval (esmul c e G))) /\
    eval G = secp256k1_G /\ eval (eO c) = None.
  Proof. exact (C01c_ops_are_C02 g secp256k1_M1 secp256k1_M4 secp256k1_nG_proved secp256k1_M2 (secp256k1_side blind)). Qed.

  Theorem C01c_secp256k1_ops_are_group_law_unconditional :
    (forall P Q : ept c, eval (eadd c P Q) = gadd c (eval P) (eval Q)) /\
    (forall P : ept c, eval (eneg c P) = gneg c (eval P)) /\
    (forall (e : Z) (P : ept c), eval (esmul c e P) = kP c e (eval P)).
  Proof. exact (C01c_ops_are_group_law g secp256k1_M1 secp256k1_M4 secp256k1_M2 (secp256k1_side blind)). Qed.
End Secp256k1_proved.
Print Assumptions C01c_secp256k1_group_laws_unconditional.
Print Assumptions C01c_secp256k1_lift_laws_unconditional.
Print Assumptions C01c_secp256k1_sign_verifies_unconditional.
Print Assumptions C01c_secp256k1_verify_iff_unconditional.
Print Assumptions C01c_secp256k1_recover_sound_unconditional.
Print Assumptions C01c_secp256k1_recover_complete_unconditional.
Print Assumptions C01c_secp256k1_recover_signer_unconditional.
Print Assumptions C01c_secp256k1_sign_is_rfc6979_unconditional.
Print Assumptions C01c_secp256k1_sign_never_raises_unconditional.
Print Assumptions C01c_secp256k1_ops_are_C02_unconditional.
Print Assumptions C01c_secp256k1_ops_are_group_law_unconditional.

(* ---- secp256r1 as shipped, any blinding factor, with M1, M2, M4 and n*G = O PROVED (kernel-checked Pocklington certificates for
        p and n; M4 by Proofs/EcAssoc.v; n*G = O through a checked double-and-add certificate): NO hypothesis is left ---------- *)
Theorem C01c_secp256r1_premises_proved :
  prime secp256r1_p /\ prime secp256r1_n /\ M4 secp256r1_curve /\ kP secp256r1_curve secp256r1_n secp256r1_G = None /\
  forall blind : Z, ec_sideb (secp256r1_gen blind) = true /\ secp256r1_gen blind = shipped_gen (secp256r1_params, secp256r1_bits) blind.
Proof. exact (conj secp256r1_M1 (conj secp256r1_M2 (conj secp256r1_M4 (conj secp256r1_nG_proved (fun blind => conj (secp256r1_side blind) (secp256r1_gen_is_shipped blind)))))). Qed.
Print Assumptions C01c_secp256r1_premises_proved.

Section Secp256r1_proved.
  Variable blind : Z.
  Variable gen_k : Z -> Z -> Z -> outcome Z.
  Variable hmac : bytes -> bytes -> bytes.
  Variable hlen : nat.
  Local Notation g := (secp256r1_gen blind).
  Local Notation c := secp256r1_curve.
  Local Notation n := secp256r1_n.
  Local Notation p := secp256r1_p.
  Local Notation G := (eG g).
  Local Notation verify := (Ecdsa.verify (ept c) (eadd c) (esmul c) G n ecoords).
  Local Notation sign_with_recid := (Ecdsa.sign_with_recid (ept c) (esmul c) G n ecoords).
  Local Notation recover := (Ecdsa.recover (ept c) (eadd c) (esmul c) G n p (elift g)).

  Theorem C01c_secp256r1_group_laws_unconditional : group_laws (ept c) (eadd c) (eneg c) (eO c) (esmul c) n ecoords.
  Proof. exact (C01c_group_laws g secp256r1_M1 secp256r1_M4 secp256r1_M2 (secp256r1_side blind)). Qed.

  Theorem C01c_secp256r1_lift_laws_unconditional : lift_laws (ept c) ecoords (elift g) (fun x => 0 <= x < p).
  Proof. exact (C01c_lift_laws g secp256r1_M1 secp256r1_M4 (secp256r1_side blind)). Qed.

  Theorem C01c_secp256r1_sign_verifies_unconditional : eval G = secp256r1_G /\ forall (fuel : nat) (d z r s recid : Z),
    sign_with_recid gen_k fuel d z = Ret (r, s, recid) ->
    1 <= r < n /\ 1 <= s < n /\ 0 <= recid < 4 /\ verify (Some (esmul c d G)) z r s = Ret true.
  Proof. exact (C01c_sign_verifies g gen_k secp256r1_M1 secp256r1_M4 secp256r1_nG_proved secp256r1_M2 (secp256r1_side blind)). Qed.

  Theorem C01c_secp256r1_verify_iff_unconditional : eval G = secp256r1_G /\ forall (Q : ept c) (z r s : Z),
    verify (Some Q) z r s = Ret true <-> z <> 0 /\ ecdsa_valid (ept c) (eadd c) (esmul c) G n ecoords Q z r s.
  Proof. exact (C01c_verify_iff g secp256r1_M1 secp256r1_M4 secp256r1_nG_proved secp256r1_M2 (secp256r1_side blind)). Qed.

  Theorem C01c_secp256r1_recover_sound_unconditional : eval G = secp256r1_G /\ forall (z r s : Z) (y_parity : option Z) (l : list (ept c)) (Q : ept c),
    z <> 0 -> recover z r s y_parity = Ret l -> In Q l -> verify (Some Q) z r s = Ret true.
  Proof. exact (C01c_recover_sound g secp256r1_M1 secp256r1_M4 secp256r1_nG_proved secp256r1_M2 (secp256r1_side blind)). Qed.

  Theorem C01c_secp256r1_recover_complete_unconditional : eval G = secp256r1_G /\ forall (Q : ept c) (z r s w y : Z),
    z <> 0 -> 1 <= r < n -> 1 <= s < n -> (s * w) mod n = 1 ->
    ecoords (eadd c (esmul c (z * w) G) (esmul c (r * w) Q)) = Some (r, y) ->
    (exists l, recover z r s None = Ret l /\ In Q l) /\
    (forall yp, Z.odd yp = Z.odd y -> recover z r s (Some yp) = Ret [Q]).
  Proof. exact (C01c_recover_complete g secp256r1_M1 secp256r1_M4 secp256r1_nG_proved secp256r1_M2 (secp256r1_side blind)). Qed.

  Theorem C01c_secp256r1_recover_signer_unconditional : eval G = secp256r1_G /\ forall (fuel : nat) (d z r s recid : Z),
    sign_with_recid gen_k fuel d z = Ret (r, s, recid) -> recid < 2 ->
    recover z r s (Some recid) = Ret [esmul c d G] /\
    exists l, recover z r s None = Ret l /\ In (esmul c d G) l.
  Proof. exact (C01c_recover_signer g gen_k secp256r1_M1 secp256r1_M4 secp256r1_nG_proved secp256r1_M2 (secp256r1_side blind)). Qed.

  Theorem C01c_secp256r1_sign_is_rfc6979_unconditional : eval G = secp256r1_G /\ forall (kfuel : nat) (d z k x y : Z),
    0 <= d < n -> 0 < z < 256 ^ Z.of_nat hlen ->
    rfc6979_k hmac n kfuel d (int_to_octets hlen z) = Some k ->
    ecoords (esmul c k G) = Some (x, y) -> x mod n <> 0 -> (z + (x mod n) * d) mod n <> 0 ->
    forall fuel, exists s recid,
      sign_with_recid (deterministic_generate_k hmac hlen kfuel) (S fuel) d z = Ret (x mod n, s, recid) /\
      1 <= s < n /\ (s * k) mod n = (z + (x mod n) * d) mod n.
  Proof. exact (C01c_sign_is_rfc6979 g hmac hlen secp256r1_M1 secp256r1_M4 secp256r1_nG_proved secp256r1_M2 (secp256r1_side blind)). Qed.

  Theorem C01c_secp256r1_sign_never_raises_unconditional : forall (kfuel fuel : nat) (d z : Z) (e : pyexn),
    0 <= d < n -> 0 < z < 256 ^ Z.of_nat hlen ->
    sign_with_recid (deterministic_generate_k hmac hlen kfuel) fuel d z <> Raise e.
  Proof. exact (C01c_sign_never_raises g hmac hlen secp256r1_M1 secp256r1_M4 secp256r1_nG_proved secp256r1_M2 (secp256r1_side blind)). Qed.

  (* the operations of these statements are pycoin's functions on secp256r1, and the textbook group operations *)
  Theorem C01c_secp256r1_ops_are_C02_unconditional :
    (forall P Q : ept c, Curve.add c (eval P) (eval Q) = Ret (eval (eadd c P Q))) /\
    (forall P : ept c, Curve.neg c (eval P) = Ret (eval (eneg c P))) /\
    (forall (e : Z) (P : ept c), multiply c (eval P) e = Ret (eval (esmul c e P))) /\
    (forall e : Z, gmul g e = Ret (eval (esmul c e G)) /\ raw_mul g e = Ret (eval (esmul c e G))) /\
    eval G = secp256r1_G /\ eval (eO c) = None.
  Proof. exact (C01c_ops_are_C02 g secp256r1_M1 secp256r1_M4 secp256r1_nG_proved secp256r1_M2 (secp256r1_side blind)). Qed.

  Theorem C01c_secp256r1_ops_are_group_law_unconditional :
    (forall P Q : ept c, eval (eadd c P Q) = gadd c (eval P) (eval Q)) /\
    (forall P : ept c, eval (eneg c P) = gneg c (eval P)) /\
    (forall (e : Z) (P : ept c), eval (esmul c e P) = kP c e (eval P)).
  Proof. exact (C01c_ops_are_group_law g secp256r1_M1 secp256r1_M4 secp256r1_M2 (secp256r1_side blind)). Qed.
End Secp256r1_proved.
Print Assumptions C01c_secp256r1_group_laws_unconditional.
Print Assumptions C01c_secp256r1_lift_laws_unconditional.
Print Assumptions C01c_secp256r1_sign_verifies_unconditional.
Print Assumptions C01c_secp256r1_verify_iff_unconditional.
Print Assumptions C01c_secp256r1_recover_sound_unconditional.
Print Assumptions C01c_secp256r1_recover_complete_unconditional.
Print Assumptions C01c_secp256r1_recover_signer_unconditional.
Print Assumptions C01c_secp256r1_sign_is_rfc6979_unconditional.
Print Assumptions C01c_secp256r1_sign_never_raises_unconditional.
Print Assumptions C01c_secp256r1_ops_are_C02_unconditional.
Print Assumptions C01c_secp256r1_ops_are_group_law_unconditional.

(* ---- non-vacuity: y^2 = x^3 + 7 over F_43, G = (2, 12), n = 31, any blinding factor.  M1, M4, n*G = O, M2 and the
        side condition are all decided by vm_compute: NO hypothesis is left ------------------------------------------ *)
Theorem C01c_toy43_premises : forall blind : Z,
  M1 toy43 /\ M4 toy43 /\ order_kills toy43 (gG (toy43_gen blind)) /\ prime (cn toy43) /\
  ec_sideb (toy43_gen blind) = true /\ (forall P, valid toy43 P -> order_kills toy43 P).
Proof. exact (fun blind => conj toy43_M1 (conj toy43_M4 (conj (toy43_nG blind) (conj toy43_n_prime
                (conj (toy43_side blind) toy43_cofactor1))))). Qed.
Print Assumptions C01c_toy43_premises.

Section Toy43.
  Variable blind : Z.
  Variable gen_k : Z -> Z -> Z -> outcome Z.
  Variable hmac : bytes -> bytes -> bytes.
  Variable hlen : nat.
  Local Notation g := (toy43_gen blind).
  Local Notation c := toy43.
  Local Notation G := (eG g).
  Local Notation verify := (Ecdsa.verify (ept c) (eadd c) (esmul c) G 31 ecoords).
  Local Notation sign_with_recid := (Ecdsa.sign_with_recid (ept c) (esmul c) G 31 ecoords).
  Local Notation recover := (Ecdsa.recover (ept c) (eadd c) (esmul c) G 31 43 (elift g)).

  Theorem C01c_toy43_sign_verifies : eval G = Some (2, 12) /\ forall (fuel : nat) (d z r s recid : Z),
    sign_with_recid gen_k fuel d z = Ret (r, s, recid) ->
    1 <= r < 31 /\ 1 <= s < 31 /\ 0 <= recid < 4 /\ verify (Some (esmul c d G)) z r s = Ret true.
  Proof. exact (C01c_sign_verifies g gen_k toy43_M1 toy43_M4 (toy43_nG blind) toy43_n_prime (toy43_side blind)). Qed.

  Theorem C01c_toy43_verify_iff : eval G = Some (2, 12) /\ forall (Q : ept c) (z r s : Z),
    verify (Some Q) z r s = Ret true <-> z <> 0 /\ ecdsa_valid (ept c) (eadd c) (esmul c) G 31 ecoords Q z r s.
  Proof. exact (C01c_verify_iff g toy43_M1 toy43_M4 (toy43_nG blind) toy43_n_prime (toy43_side blind)). Qed.

  Theorem C01c_toy43_recover_sound : eval G = Some (2, 12) /\ forall (z r s : Z) (y_parity : option Z) (l : list (ept c)) (Q : ept c),
    z <> 0 -> recover z r s y_parity = Ret l -> In Q l -> verify (Some Q) z r s = Ret true.
  Proof. exact (C01c_recover_sound g toy43_M1 toy43_M4 (toy43_nG blind) toy43_n_prime (toy43_side blind)). Qed.

  Theorem C01c_toy43_recover_complete : eval G = Some (2, 12) /\ forall (Q : ept c) (z r s w y : Z),
    z <> 0 -> 1 <= r < 31 -> 1 <= s < 31 -> (s * w) mod 31 = 1 ->
    ecoords (eadd c (esmul c (z * w) G) (esmul c (r * w) Q)) = Some (r, y) ->
    (exists l, recover z r s None = Ret l /\ In Q l) /\
    (forall yp, Z.odd yp = Z.odd y -> recover z r s (Some yp) = Ret [Q]).
  Proof. exact (C01c_recover_complete g toy43_M1 toy43_M4 (toy43_nG blind) toy43_n_prime (toy43_side blind)). Qed.

  Theorem C01c_toy43_sign_is_rfc6979 : eval G = Some (2, 12) /\ forall (kfuel : nat) (d z k x y : Z),
    0 <= d < 31 -> 0 < z < 256 ^ Z.of_nat hlen ->
    rfc6979_k hmac 31 kfuel d (int_to_octets hlen z) = Some k ->
    ecoords (esmul c k G) = Some (x, y) -> x mod 31 <> 0 -> (z + (x mod 31) * d) mod 31 <> 0 ->
    forall fuel, exists s recid,
      sign_with_recid (deterministic_generate_k hmac hlen kfuel) (S fuel) d z = Ret (x mod 31, s, recid) /\
      1 <= s < 31 /\ (s * k) mod 31 = (z + (x mod 31) * d) mod 31.
  Proof. exact (C01c_sign_is_rfc6979 g hmac hlen toy43_M1 toy43_M4 (toy43_nG blind) toy43_n_prime (toy43_side blind)). Qed.
End Toy43.
Print Assumptions C01c_toy43_sign_verifies.
Print Assumptions C01c_toy43_verify_iff.
Print Assumptions C01c_toy43_recover_sound.
Print Assumptions C01c_toy43_recover_complete.
Print Assumptions C01c_toy43_sign_is_rfc6979.

(* the composed instance RUNS (kernel computation through Curve.add / Curve.multiply / points_for_x and the carrier check):
   key d = 5, hash z = 77, nonce 8: the signature, its verification, a wrong key, and recovery of the signer's pair *)
Example C01c_toy43_run : toy43_run_example.
Proof. exact toy43_run_ok. Qed.

(* ---- the cofactor premise is independent of M1, M4, n*G = O, prime n, p = 3 mod 4 and cannot be dropped from the
        link "elift = points_for_x": a curve with all of them and a point returned by points_for_x outside E[n] ------ *)
Example C01c_cofactor_needed : cofactor_witness_statement.
Proof. exact cofactor_witness. Qed.
Print Assumptions C01c_cofactor_needed.
