(* Props/C02.v — placeholder while the proofs are being built. *)
From Coq Require Import ZArith.
From PV Require Import Base.Outcome Model.Curve.
Theorem C02_placeholder : inverse_mod 3 7 = Ret 5%Z.
Proof. vm_compute. reflexivity. Qed.
Print Assumptions C02_placeholder.
