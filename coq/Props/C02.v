(* Props/C02.v — property C02: elliptic-curve arithmetic is the group law on every curve and backend.
   Only statements; every proof is `exact <lemma>`.

   Model: Model/Curve.v (Curve.py, Point.py, Generator.py, encrypt.py).  Spec: Spec/Weierstrass.v.
   Vocabulary (Proofs/CurveP.v, Proofs/CurveAddP.v):
     on_curve c P    y^2 = x^3 + a x + b (mod p), coordinates NOT required to be reduced (as Python accepts them)
     red c P         the element denoted by P: coordinates mod p;   valid c P = on_curve /\ coordinates in [0, p)
     gadd c P Q      = match add c P Q with Ret R => red c R | _ => None end       (gadd_unfold)
     gneg c P        = (x mod p, (p - y) mod p)                                    (gneg_unfold)
     kP c k P        P added to itself |k| times with gadd, negated with gneg for k < 0  (Spec.smul: repeated addition)
   Mathematical premises, always explicit hypotheses, never axioms (DESIGN.md section 3):
     M1 c  p is prime        M3 c  t^(p-1) = 1 (mod p) for t <> 0        M4 c  gadd is associative on valid points
     order_kills c P         n * P = O
   They are DISCHARGED by kernel computation on the toy curves of CurveP.toy_curves (C02_toy_...: no premise left).
   M4 is now a THEOREM for every non-singular curve over a prime field with p <> 2 (Proofs/EcAssoc*.v), so:
   * generic statements: `M4 c` can be replaced by the computable condition `nonsingular c` ((4a^3 + 27b^2) mod p <> 0) and M3 by
     nothing (it follows from M1): C02_M4_of_nonsingular, C02_*_nonsingular; "n * G = O" can be PROVED by a checked certificate
     instead of assumed (C02_order_certificate_sound).  `prime p` (M1) stays the hypothesis of the generic statements.
   * the three shipped generators secp256k1, secp256r1, bls12_381_g1 (table regenerated from /repo, Gen/GenCurves.v): NO
     mathematical premise is left (C02_shipped_all_premises, C02_shipped_*_unconditional):
       M1 (and M2: n prime)   Pocklington certificates re-checked by the kernel, Proofs/Pocklington.v + CurvePrimes.v + CurvePrimesEc.v
       M3                     from M1 (Proofs/FermatC10.v)
       M4                     Proofs/EcAssoc.v (non-singularity decided by computation)
       n * G = O              hinted double-and-add certificates, Proofs/OrderCert.v + CurveOrderK1/R1/Bls.v + ShippedOrder.v
     every other side condition is decided by computation on the table (C02_shipped_side_conditions).  The general
     C02_shipped_fixed_base / C02_shipped_multiply (premises as hypotheses) are kept.
   NOT proved: "every on-curve point is killed by n" (cofactor 1, a point count; false for bls12_381_g1) — statements about an
   arbitrary point P keep `order_kills c P` as a hypothesis on that point (C02_shipped_multiply_killed_point), and
   C02_points_for_x_odd_order_nonsingular keeps it as a hypothesis on the curve. *)
From Coq Require Import ZArith Znumtheory List.
From PV Require Import Base.Outcome Model.Curve Spec.Weierstrass Gen.GenCurves
  Proofs.CurveInvP Proofs.CurveAddP Proofs.CurveMulP Proofs.CurveSqrtP Proofs.CurveToy Proofs.CurveP Proofs.OrderCert Proofs.ShippedOrder Proofs.ShippedUncond.
Local Open Scope Z_scope.

(* ---- inverse_mod: total on coprime inputs (the fuel derived from log2 m always suffices), correct, in range ---- *)
Theorem C02_inverse_mod_correct : forall a m : Z, 1 < m -> Z.gcd a m = 1 ->
  exists i, inverse_mod a m = Ret i /\ 0 < i < m /\ (a * i) mod m = 1.
Proof. exact inverse_mod_correct. Qed.
Print Assumptions C02_inverse_mod_correct.

Theorem C02_inverse_mod_rejects : forall a m : Z, 1 < m -> Z.gcd a m <> 1 -> inverse_mod a m = Raise E_ASSERT.
Proof. exact inverse_mod_not_coprime. Qed.
Print Assumptions C02_inverse_mod_rejects.

(* ---- add = chord-and-tangent on possibly unreduced on-curve operands; closure; result reduced ---- *)
Theorem C02_add_is_spec : forall c : curve, M1 c -> cp c <> 2 ->
  forall P Q : pt, on_curve c P -> on_curve c Q ->
  exists R, add c P Q = Ret R /\ on_curve c R /\ (P <> None -> Q <> None -> reduced c R) /\
            spec_add c (red c P) (red c Q) (red c R).
Proof. exact add_is_spec_c. Qed.
Print Assumptions C02_add_is_spec.

Theorem C02_add_commutative : forall c : curve, M1 c -> cp c <> 2 ->
  forall P Q : pt, on_curve c P -> on_curve c Q -> same_element c (add c P Q) (add c Q P).
Proof. exact add_comm_model. Qed.
Print Assumptions C02_add_commutative.

Theorem C02_add_identity : forall (c : curve) (P : pt), add c None P = Ret P /\ add c P None = Ret P.
Proof. exact add_identity_model. Qed.
Print Assumptions C02_add_identity.

Theorem C02_neg_is_inverse : forall c : curve, M1 c -> cp c <> 2 -> forall P : pt, on_curve c P ->
  exists N, neg c P = Ret N /\ on_curve c N /\ red c N = spec_neg c (red c P) /\
            same_element c (add c P N) (Ret None).
Proof. exact add_inverse_model. Qed.
Print Assumptions C02_neg_is_inverse.

(* associativity of the model's add IS premise M4 (restated on arbitrary on-curve operands) *)
Theorem C02_add_associative_from_M4 : forall c : curve, M1 c -> cp c <> 2 -> M4 c ->
  forall P Q R : pt, on_curve c P -> on_curve c Q -> on_curve c R ->
  same_element c (bind (add c P Q) (fun S => add c S R)) (bind (add c Q R) (fun S => add c P S)).
Proof. exact add_assoc_model. Qed.
Print Assumptions C02_add_associative_from_M4.

(* ---- multiply: the (e, 3e) ladder computes e * P for EVERY integer e (zero, negative, >= n) ---- *)
Theorem C02_multiply_correct : forall c : curve, M1 c -> cp c <> 2 -> M4 c ->
  forall (P : pt) (e : Z), on_curve c P -> 0 < cn c -> order_kills c (red c P) ->
  exists R, multiply c P e = Ret R /\ on_curve c R /\ red c R = kP c e (red c P).
Proof. exact multiply_correct. Qed.
Print Assumptions C02_multiply_correct.

(* odd order (every shipped curve): the returned pair is the reduced representative itself *)
Theorem C02_multiply_exact : forall c : curve, M1 c -> cp c <> 2 -> M4 c ->
  forall (P : pt) (e : Z), on_curve c P -> 0 < cn c -> Z.odd (cn c) = true -> order_kills c (red c P) ->
  multiply c P e = Ret (kP c e (red c P)).
Proof. exact multiply_exact. Qed.
Print Assumptions C02_multiply_exact.

(* Curve(p, a, b) without order: the scalar is used as given; negative scalars raise AssertionError *)
Theorem C02_multiply_without_order : forall c : curve, M1 c -> cp c <> 2 -> M4 c ->
  forall (P : pt) (e : Z), on_curve c P -> cn c = 0 -> 0 <= e ->
  exists R, multiply c P e = Ret R /\ on_curve c R /\ red c R = kP c e (red c P).
Proof. exact multiply_no_order. Qed.
Print Assumptions C02_multiply_without_order.

Theorem C02_multiply_without_order_negative : forall c : curve, M1 c -> cp c <> 2 ->
  forall x y e : Z, on_curve c (Some (x, y)) -> cn c = 0 -> e < 0 -> multiply c (Some (x, y)) e = Raise E_ASSERT.
Proof. exact multiply_no_order_negative. Qed.
Print Assumptions C02_multiply_without_order_negative.

(* ---- Generator: fixed-base table multiplication and blinding ----
   the proof forces 0 < n <= 2^bit_count (the loop reads bit_count bits of e mod n); blinding is transparent:
   the result does not depend on g_blind *)
Theorem C02_raw_mul_and_blinded_mul_correct : forall c : curve, M1 c -> cp c <> 2 -> M4 c ->
  forall g : gen, gc g = c -> valid c (gG g) -> 0 < cn c <= 2 ^ Z.of_nat (g_bits g) -> order_kills c (gG g) ->
  forall e : Z, gmul g e = Ret (kP c e (gG g)) /\ raw_mul g e = Ret (kP c e (gG g)).
Proof. exact fixed_base_exact. Qed.
Print Assumptions C02_raw_mul_and_blinded_mul_correct.

Theorem C02_fixed_base_unreduced_generator : forall c : curve, M1 c -> cp c <> 2 -> M4 c ->
  forall g : gen, gc g = c -> on_curve c (gG g) -> 0 < cn c <= 2 ^ Z.of_nat (g_bits g) ->
  order_kills c (red c (gG g)) ->
  forall e : Z, (exists R, gmul g e = Ret R /\ on_curve c R /\ red c R = kP c e (red c (gG g))) /\
                (exists R, raw_mul g e = Ret R /\ on_curve c R /\ red c R = kP c e (red c (gG g))).
Proof. exact fixed_base_correct. Qed.
Print Assumptions C02_fixed_base_unreduced_generator.

(* the public constructor establishes that hypothesis (bit_count = max(256, order.bit_length())) *)
Theorem C02_constructor_table_width : forall (p a b Gx Gy n ent : Z) (g : gen),
  mk_gen p a b Gx Gy n ent = Ret g -> 0 < n ->
  gc g = {| cp := p; ca := a; cb := b; cn := n |} /\ gG g = Some (Gx, Gy) /\
  contains_point (gc g) (gG g) = true /\ p mod 4 = 3 /\ n <= 2 ^ Z.of_nat (g_bits g) /\ g_blind g = ent mod n.
Proof. exact mk_gen_facts. Qed.
Print Assumptions C02_constructor_table_width.

(* ... and it cannot be dropped *)
Example C02_raw_mul_needs_table_width :
  let c := {| cp := 43; ca := 0; cb := 7; cn := 31 |} in
  let g := {| gc := c; gG := Some (2, 12); g_bits := 3%nat; g_blind := 0 |} in
  raw_mul g 9 = Ret (Some (2, 12)) /\ multiply c (Some (2, 12)) 9 = Ret (Some (20, 40)).
Proof. exact raw_mul_needs_table_width. Qed.

(* ---- points_for_x: exactly the two points with that abscissa, even y first, or an exception iff there is none ---- *)
Theorem C02_points_for_x : forall p : Z, prime p -> p mod 4 = 3 ->
  (forall t, t mod p <> 0 -> (t ^ (p - 1)) mod p = 1) ->
  forall (a b n : Z) (g : gen), gc g = {| cp := p; ca := a; cb := b; cn := n |} ->
  forall x : Z, ~ on_curve {| cp := p; ca := a; cb := b; cn := n |} (Some (x, 0)) ->
  match points_for_x g x with
  | Ret (P0, P1) =>
      exists y0 y1, P0 = Some (x, y0) /\ P1 = Some (x, y1) /\ Z.even y0 = true /\ Z.odd y1 = true /\
        0 < y0 < p /\ 0 < y1 < p /\ y0 + y1 = p /\
        forall y, 0 <= y < p ->
          (on_curve {| cp := p; ca := a; cb := b; cn := n |} (Some (x, y)) <-> y = y0 \/ y = y1)
  | Raise _ => forall y, ~ on_curve {| cp := p; ca := a; cb := b; cn := n |} (Some (x, y))
  | OutOfFuel => False
  end.
Proof. exact points_for_x_spec. Qed.
Print Assumptions C02_points_for_x.

(* on a curve of odd order no point has y = 0: unconditional in x *)
Theorem C02_points_for_x_odd_order : forall c : curve, M1 c -> cp c mod 4 = 3 -> M3 c -> M4 c ->
  Z.odd (cn c) = true -> (forall P, valid c P -> order_kills c P) ->
  forall (g : gen) (x : Z), gc g = c ->
  match points_for_x g x with
  | Ret (P0, P1) =>
      exists y0 y1, P0 = Some (x, y0) /\ P1 = Some (x, y1) /\ Z.even y0 = true /\ Z.odd y1 = true /\
        0 < y0 < cp c /\ 0 < y1 < cp c /\ y0 + y1 = cp c /\
        forall y, 0 <= y < cp c -> (on_curve c (Some (x, y)) <-> y = y0 \/ y = y1)
  | Raise _ => forall y, ~ on_curve c (Some (x, y))
  | OutOfFuel => False
  end.
Proof. exact points_for_x_odd_order. Qed.
Print Assumptions C02_points_for_x_odd_order.

(* ---- toy curves: M1, M3, M4, the order, odd order are decided by vm_compute (toy_ok); nothing is assumed ---- *)
Theorem C02_toy_premises_hold : forall c : curve, toy_ok c = true -> toy_facts c.
Proof. exact toy_ok_sound. Qed.
Print Assumptions C02_toy_premises_hold.

Theorem C02_toy_curves_checked : forallb toy_ok toy_curves = true.
Proof. exact toy_curves_ok. Qed.
Print Assumptions C02_toy_curves_checked.

Theorem C02_toy_associative : forall c : curve, toy_ok c = true ->
  forall P Q R : pt, valid c P -> valid c Q -> valid c R -> gadd c (gadd c P Q) R = gadd c P (gadd c Q R).
Proof. exact toy_assoc. Qed.
Print Assumptions C02_toy_associative.

Theorem C02_toy_multiply : forall c : curve, toy_ok c = true ->
  forall (P : pt) (e : Z), on_curve c P -> multiply c P e = Ret (kP c e (red c P)).
Proof. exact toy_multiply. Qed.
Print Assumptions C02_toy_multiply.

Theorem C02_toy_fixed_base : forall c : curve, toy_ok c = true ->
  forall (g : gen) (e : Z), gc g = c -> valid c (gG g) -> cn c <= 2 ^ Z.of_nat (g_bits g) ->
  gmul g e = Ret (kP c e (gG g)) /\ raw_mul g e = Ret (kP c e (gG g)).
Proof. exact toy_gmul. Qed.
Print Assumptions C02_toy_fixed_base.

Theorem C02_toy_points_for_x : forall c : curve, toy_ok c = true -> forall (g : gen) (x : Z), gc g = c ->
  match points_for_x g x with
  | Ret (P0, P1) =>
      exists y0 y1, P0 = Some (x, y0) /\ P1 = Some (x, y1) /\ Z.even y0 = true /\ Z.odd y1 = true /\
        0 < y0 < cp c /\ 0 < y1 < cp c /\ y0 + y1 = cp c /\
        forall y, 0 <= y < cp c -> (on_curve c (Some (x, y)) <-> y = y0 \/ y = y1)
  | Raise _ => forall y, ~ on_curve c (Some (x, y))
  | OutOfFuel => False
  end.
Proof. exact toy_points_for_x. Qed.
Print Assumptions C02_toy_points_for_x.

(* ---- the shipped generators (table regenerated from /repo): G on the curve and reduced, p = 3 mod 4, n odd,
        n <= 2^bit_count, bit_count = max(256, bit_length n) are decided by computation; in the next three statements
        M1, M4, n*G = O are hypotheses (general form); at the end of the file the versions with every premise proved ---- *)
Theorem C02_shipped_side_conditions : forallb shipped_checkb shipped_curves = true.
Proof. exact shipped_ok. Qed.
Print Assumptions C02_shipped_side_conditions.

Theorem C02_shipped_fixed_base : forall t, In t shipped_curves ->
  let c := shipped_curve t in
  M1 c -> M4 c -> order_kills c (shipped_G t) ->
  forall blind e : Z, gmul (shipped_gen t blind) e = Ret (kP c e (shipped_G t)) /\
                      raw_mul (shipped_gen t blind) e = Ret (kP c e (shipped_G t)).
Proof. exact shipped_fixed_base. Qed.
Print Assumptions C02_shipped_fixed_base.

Theorem C02_shipped_multiply : forall t, In t shipped_curves ->
  let c := shipped_curve t in
  M1 c -> M4 c -> forall P : pt, on_curve c P -> order_kills c (red c P) ->
  forall e : Z, multiply c P e = Ret (kP c e (red c P)).
Proof. exact shipped_multiply. Qed.
Print Assumptions C02_shipped_multiply.

(* ---- M4 is a theorem: associativity of chord-and-tangent addition on every non-singular curve over F_p, p an odd prime
        (Proofs/EcAssocAlg.v, EcAssocGrp.v, EcAssocFp.v, EcAssoc.v).  The generic statements above with `M4 c` replaced by the
        computable `nonsingular c`, and M3 dropped ---- *)
Theorem C02_M4_of_nonsingular : forall c : curve, M1 c -> cp c <> 2 -> nonsingular c -> M4 c.
Proof. exact M4_of_nonsingular. Qed.
Print Assumptions C02_M4_of_nonsingular.

Theorem C02_add_associative_nonsingular : forall c : curve, M1 c -> cp c <> 2 -> nonsingular c ->
  forall P Q R : pt, on_curve c P -> on_curve c Q -> on_curve c R ->
  same_element c (bind (add c P Q) (fun S => add c S R)) (bind (add c Q R) (fun S => add c P S)).
Proof. exact add_assoc_nonsingular. Qed.
Print Assumptions C02_add_associative_nonsingular.

Theorem C02_multiply_correct_nonsingular : forall c : curve, M1 c -> cp c <> 2 -> nonsingular c ->
  forall (P : pt) (e : Z), on_curve c P -> 0 < cn c -> order_kills c (red c P) ->
  exists R, multiply c P e = Ret R /\ on_curve c R /\ red c R = kP c e (red c P).
Proof. exact multiply_correct_nonsingular. Qed.
Print Assumptions C02_multiply_correct_nonsingular.

Theorem C02_multiply_exact_nonsingular : forall c : curve, M1 c -> cp c <> 2 -> nonsingular c ->
  forall (P : pt) (e : Z), on_curve c P -> 0 < cn c -> Z.odd (cn c) = true -> order_kills c (red c P) ->
  multiply c P e = Ret (kP c e (red c P)).
Proof. exact multiply_exact_nonsingular. Qed.
Print Assumptions C02_multiply_exact_nonsingular.

Theorem C02_multiply_without_order_nonsingular : forall c : curve, M1 c -> cp c <> 2 -> nonsingular c ->
  forall (P : pt) (e : Z), on_curve c P -> cn c = 0 -> 0 <= e ->
  exists R, multiply c P e = Ret R /\ on_curve c R /\ red c R = kP c e (red c P).
Proof. exact multiply_no_order_nonsingular. Qed.
Print Assumptions C02_multiply_without_order_nonsingular.

Theorem C02_raw_mul_and_blinded_mul_correct_nonsingular : forall c : curve, M1 c -> cp c <> 2 -> nonsingular c ->
  forall g : gen, gc g = c -> valid c (gG g) -> 0 < cn c <= 2 ^ Z.of_nat (g_bits g) -> order_kills c (gG g) ->
  forall e : Z, gmul g e = Ret (kP c e (gG g)) /\ raw_mul g e = Ret (kP c e (gG g)).
Proof. exact fixed_base_exact_nonsingular. Qed.
Print Assumptions C02_raw_mul_and_blinded_mul_correct_nonsingular.

Theorem C02_points_for_x_odd_order_nonsingular : forall c : curve, M1 c -> cp c mod 4 = 3 -> nonsingular c ->
  Z.odd (cn c) = true -> (forall P, valid c P -> order_kills c P) ->
  forall (g : gen) (x : Z), gc g = c ->
  match points_for_x g x with
  | Ret (P0, P1) =>
      exists y0 y1, P0 = Some (x, y0) /\ P1 = Some (x, y1) /\ Z.even y0 = true /\ Z.odd y1 = true /\
        0 < y0 < cp c /\ 0 < y1 < cp c /\ y0 + y1 = cp c /\
        forall y, 0 <= y < cp c -> (on_curve c (Some (x, y)) <-> y = y0 \/ y = y1)
  | Raise _ => forall y, ~ on_curve c (Some (x, y))
  | OutOfFuel => False
  end.
Proof. exact points_for_x_odd_order_nonsingular. Qed.
Print Assumptions C02_points_for_x_odd_order_nonsingular.

(* "n * G = O" need not be assumed either: it is implied by a certificate the kernel can check — `order_certb c G n hints`
   re-runs a left-to-right double-and-add of n * G with the model's own addition formulas, the modular inverses being supplied
   as hints and each checked ((d * i) mod p = 1, which pins down the result of the model's inverse_mod) *)
Theorem C02_order_certificate_sound : forall c : curve, M1 c -> cp c <> 2 -> nonsingular c ->
  forall (G : pt) (hints : list Z), validb c G = true -> order_certb c G (cn c) hints = true -> order_kills c G.
Proof. exact order_cert_kills. Qed.
Print Assumptions C02_order_certificate_sound.

(* ---- the shipped generators: EVERY premise is a theorem, for every row of the table: M1, M2 (n prime) by primality
        certificates checked by the kernel, M3 from M1, M4 by Proofs/EcAssoc.v, n * G = O by the order certificate ---- *)
Theorem C02_shipped_all_premises : forall t, In t shipped_curves ->
  let c := shipped_curve t in
  M1 c /\ prime (cn c) /\ M3 c /\ M4 c /\ order_kills c (shipped_G t).
Proof. exact shipped_all_premises. Qed.
Print Assumptions C02_shipped_all_premises.

Theorem C02_secp256k1_order_unconditional :
  kP (shipped_curve secp256k1_row) secp256k1_n (shipped_G secp256k1_row) = None.
Proof. exact secp256k1_order_kills_unconditional. Qed.
Print Assumptions C02_secp256k1_order_unconditional.

Theorem C02_secp256r1_order_unconditional :
  kP (shipped_curve secp256r1_row) secp256r1_n (shipped_G secp256r1_row) = None.
Proof. exact secp256r1_order_kills_unconditional. Qed.
Print Assumptions C02_secp256r1_order_unconditional.

Theorem C02_bls12_381_g1_order_unconditional :
  kP (shipped_curve bls12_381_g1_row) bls12_381_g1_n (shipped_G bls12_381_g1_row) = None.
Proof. exact bls12_381_g1_order_kills_unconditional. Qed.
Print Assumptions C02_bls12_381_g1_order_unconditional.

(* the order statement was first obtained from M4 alone (kept: it shows what the certificate needs) *)
Theorem C02_shipped_order_from_M4 : forall t, In t shipped_curves ->
  M4 (shipped_curve t) -> order_kills (shipped_curve t) (shipped_G t).
Proof. exact shipped_order_kills. Qed.
Print Assumptions C02_shipped_order_from_M4.

(* ---- no premise: fixed-base multiplication (blinded or not, any blinding factor) is e * G ---- *)
Theorem C02_shipped_fixed_base_unconditional : forall t, In t shipped_curves ->
  let c := shipped_curve t in
  forall blind e : Z, gmul (shipped_gen t blind) e = Ret (kP c e (shipped_G t)) /\
                      raw_mul (shipped_gen t blind) e = Ret (kP c e (shipped_G t)).
Proof. exact shipped_fixed_base_unconditional. Qed.
Print Assumptions C02_shipped_fixed_base_unconditional.

(* no premise: Curve.multiply on the generator, every integer scalar *)
Theorem C02_shipped_multiply_G_unconditional : forall t, In t shipped_curves ->
  let c := shipped_curve t in
  forall e : Z, multiply c (shipped_G t) e = Ret (kP c e (shipped_G t)).
Proof. exact shipped_multiply_G_unconditional. Qed.
Print Assumptions C02_shipped_multiply_G_unconditional.

(* Curve.multiply on an arbitrary on-curve point: the only hypothesis is that n kills THAT point (see the header: cofactor) *)
Theorem C02_shipped_multiply_killed_point : forall t, In t shipped_curves ->
  let c := shipped_curve t in
  forall P : pt, on_curve c P -> order_kills c (red c P) ->
  forall e : Z, multiply c P e = Ret (kP c e (red c P)).
Proof. exact shipped_multiply_killed_point. Qed.
Print Assumptions C02_shipped_multiply_killed_point.

(* no premise: the model's add is associative on the shipped curves (arbitrary, possibly unreduced, on-curve operands) *)
Theorem C02_shipped_add_associative : forall t, In t shipped_curves ->
  let c := shipped_curve t in
  forall P Q R : pt, on_curve c P -> on_curve c Q -> on_curve c R ->
  same_element c (bind (add c P Q) (fun S => add c S R)) (bind (add c Q R) (fun S => add c P S)).
Proof. exact shipped_add_associative. Qed.
Print Assumptions C02_shipped_add_associative.

(* no premise: points_for_x on the shipped curves (never needed M4; M1, M3 proved) *)
Theorem C02_shipped_points_for_x : forall t, In t shipped_curves ->
  let c := shipped_curve t in
  forall (g : gen) (x : Z), gc g = c -> ~ on_curve c (Some (x, 0)) ->
  match points_for_x g x with
  | Ret (P0, P1) =>
      exists y0 y1, P0 = Some (x, y0) /\ P1 = Some (x, y1) /\ Z.even y0 = true /\ Z.odd y1 = true /\
        0 < y0 < cp c /\ 0 < y1 < cp c /\ y0 + y1 = cp c /\
        forall y, 0 <= y < cp c -> (on_curve c (Some (x, y)) <-> y = y0 \/ y = y1)
  | Raise _ => forall y, ~ on_curve c (Some (x, y))
  | OutOfFuel => False
  end.
Proof. exact shipped_points_for_x. Qed.
Print Assumptions C02_shipped_points_for_x.

(* ==== presentation independence (object level, Model/CurveObj.v) ====
   A Python Point object = coordinates + the Curve object it references + its identity; every Curve object owns one
   singleton infinity.  The results never depend on WHICH object presents a value: an infinity built with
   Point(None, None, curve), rebuilt from coordinates, or owned by a twin Curve/Generator object with the same
   parameters is the identity; operands built through any constructor, on any twin object, give the same coordinates.
   No premise: these are statements about control flow (Curve.add compares tuples, not identities). *)
From PV Require Import Model.CurveObj Proofs.CurveObjP.

Theorem C02_object_add_is_value_add : forall (c : cobj) (p0 p1 : pobj) (fresh : nat),
  omap po_xy (obj_curve_add c p0 p1 fresh) = add (co_curve c) (po_xy p0) (po_xy p1).
Proof. exact obj_curve_add_coords. Qed.
Print Assumptions C02_object_add_is_value_add.

Theorem C02_presentation_independent_add : forall (c c' : cobj) (p0 p1 q0 q1 : pobj) (f f' : nat),
  co_curve c = co_curve c' -> po_xy p0 = po_xy q0 -> po_xy p1 = po_xy q1 ->
  omap po_xy (obj_curve_add c p0 p1 f) = omap po_xy (obj_curve_add c' q0 q1 f').
Proof. exact presentation_independent_add. Qed.
Print Assumptions C02_presentation_independent_add.

Theorem C02_presentation_independent_sub : forall (P Q P' Q' : pobj) (f f' : nat),
  co_curve (po_owner Q) = co_curve (po_owner P) -> co_curve (po_owner Q') = co_curve (po_owner P') ->
  co_curve (po_owner P) = co_curve (po_owner P') -> po_xy P = po_xy P' -> po_xy Q = po_xy Q' ->
  omap po_xy (obj_sub P Q f) = omap po_xy (obj_sub P' Q' f').
Proof. exact presentation_independent_sub. Qed.
Print Assumptions C02_presentation_independent_sub.

Theorem C02_presentation_independent_neg : forall (P P' : pobj) (f f' : nat),
  co_curve (po_owner P) = co_curve (po_owner P') -> po_xy P = po_xy P' ->
  omap po_xy (obj_neg P f) = omap po_xy (obj_neg P' f').
Proof. exact presentation_independent_neg. Qed.
Print Assumptions C02_presentation_independent_neg.

Theorem C02_presentation_independent_multiply : forall (c c' : cobj) (P P' : pobj) (e : Z) (f f' : nat),
  co_curve c = co_curve c' -> po_xy P = po_xy P' ->
  omap po_xy (obj_curve_multiply c P e f) = omap po_xy (obj_curve_multiply c' P' e f').
Proof. exact presentation_independent_multiply. Qed.
Print Assumptions C02_presentation_independent_multiply.

(* ANY object with coordinates (None, None) is the identity: P + O and O + P return the object P itself, -O is O,
   P - O has P's coordinates, k * O is infinity *)
Theorem C02_any_infinity_object_is_identity : forall (c : cobj) (O P : pobj) (f : nat), po_xy O = None ->
  obj_curve_add c P O f = Ret (if is_inf_value P then O else P) /\ obj_curve_add c O P f = Ret P /\
  obj_neg O f = Ret O /\
  omap po_xy (obj_sub P O f) = Ret (po_xy P) /\ omap po_xy (obj_curve_multiply c O 5 f) = Ret None.
Proof. exact any_infinity_is_identity. Qed.
Print Assumptions C02_any_infinity_object_is_identity.
