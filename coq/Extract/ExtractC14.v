From Coq Require Import Extraction ExtrOcamlBasic.
From PV Require Import Base.Bytes Base.Outcome Base.DrvBase Base.Varint Model.Merkle Model.Block Model.MerkleBlock Model.BlockObj Model.BlockCall
  Spec.MerkleSpec Spec.PartialMerkle.
Extraction "../ml/c14.ml" drv_base merkle merkle_pair merkle_root parse_header stream_header block_hash block_id set_nonce obj_run spec_run block_parse_call name_include_transactions name_include_offsets name_check_merkle_hash
  block_parse block_stream level_widths post_unpack parse_merkleblock partial_merkle_tree matched trav_collision.
