From Coq Require Import Extraction ExtrOcamlBasic.
From PV Require Import Base.Bytes Base.Outcome Base.DrvBase Model.Ecdsa Model.Rfc6979 Spec.Rfc6979Spec Model.EcdsaInst.
Extraction "../ml/c01.ml" drv_base inverse_mod default_gen_k rfc6979_k
  i_verify i_sign_with_recid i_sign_with_k i_recover i_pubkey.
