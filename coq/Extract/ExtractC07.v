From Coq Require Import Extraction ExtrOcamlBasic.
From PV Require Import Base.Bytes Base.Outcome Base.Varint Base.DrvBase Gen.GenTxConsts Model.TxWire Model.TxCheck Model.TxObject.
Extraction "../ml/c07.ml" drv_base
  parse_varint stream_varint put_varint parse_varstr stream_varstr parse_satoshi_int
  parse_struct stream_struct
  parse_txin stream_txin parse_txout stream_txout txin_is_coinbase tx_is_coinbase
  stream_tx tx_as_bin parse_tx parse_tx_ltc tx_from_bin tx_as_hex tx_from_hex
  missing_unspents missing_unspent has_witness_data
  tx_hash tx_w_hash tx_blanked_hash tx_id tx_w_id
  stream_spendable parse_spendable spendable_from_bin spendable_as_dict spendable_from_dict
  spendable_as_text_fields spendable_from_text_fields b2h h2b b2h_rev h2b_rev
  run observe apply_mut state_after.
