From Coq Require Import Extraction ExtrOcamlBasic.
From PV Require Import Base.Bytes Base.Outcome Base.DrvBase Spec.VMTypes Spec.VMcore.
Extraction "../ml/c03spec.ml" drv_base EvalScriptE VerifyScriptE EvalScript VerifyScript
  find_and_delete push_encode cast_to_bool is_push_only is_witness_program is_pay_to_script_hash
  is_valid_signature_encoding check_low_s flags_permitted.
