From Coq Require Import Extraction ExtrOcamlBasic.
From PV Require Import Base.Bytes Base.Outcome Base.DrvBase Model.Base64 Model.MsgSign Model.MsgInst Model.MsgArmour Model.MsgUtf8.
Extraction "../ml/c17.ml" drv_base a2b_base64 b2a_base64 bstrip decode_signature msg_magic
  t_sign_with_recid t_signature_for_message_hash t_sign_message t_pair_for_message_hash t_verify_message
  t_hash_for_signing tsmul tG parse_signed_message parse_sections armour utf8_encode.
