From Coq Require Import Extraction ExtrOcamlBasic.
From PV Require Import Base.Bytes Base.Outcome Base.DrvBase Model.Der Model.Sec Model.Wif Model.PresentC10 Spec.DerStrictSpec.
Extraction "../ml/c10.ml" drv_base
  sigencode_der sigdecode_der encode_integer encode_length read_length remove_integer remove_sequence
  bip66_valid
  to_bytes_32 public_pair_to_sec sec_to_public_pair points_for_x key_from_sec key_public key_public_arg key_private
  wif_payload parse_wif_payload
  sec_to_public_pair_arg key_from_sec_arg is_sec_compressed_arg sigdecode_der_arg key_private_arg sigencode_der_arg
  public_pair_to_sec_arg.
