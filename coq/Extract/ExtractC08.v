From Coq Require Import Extraction ExtrOcamlBasic.
From PV Require Import Base.Bytes Base.Outcome Base.DrvBase Gen.GenNetworks Model.Push Model.Address.
Extraction "../ml/c08.ml" drv_base networks find_network match_templates
  for_info contract_for_multisig info_for_script info_from_multisig_script contract_match compile_template
  address_for_p2pkh address_for_p2sh address_for_p2pkh_wit address_for_p2sh_wit address_for_p2tr
  address_for_p2s address_for_p2s_wit address_for_script address_for_script_info
  parse_p2pkh parse_p2sh parse_p2pkh_segwit parse_p2sh_segwit parse_p2tr parse_address
  contract_for_address parse_address_seq pcache_empty key_address bip49_address bip84_address kind_info ascii_lower.
