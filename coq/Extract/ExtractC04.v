From Coq Require Import Extraction ExtrOcamlBasic.
From PV Require Import Base.Bytes Base.Outcome Base.DrvBase Model.Push Model.Sighash Spec.SighashCore Model.SighashBridge Model.SighashHistory.
Extraction "../ml/c04.ml" drv_base delete_subscript delete_signature sighash_f_script legacy_presig
  signature_hash signature_for_hash_type_segwit segwit_preimage
  core_get_op core_decodable core_find_and_delete core_push core_script_code_base ser_script_code
  core_signature_hash_legacy core_signature_hash_old bip143_preimage forkid_preimage uint256_one
  to_core plain_push run.
