From Coq Require Import Extraction ExtrOcamlBasic.
From PV Require Import Base.Bytes Base.Outcome Base.DrvBase Spec.Templates Model.Solve Model.SolveKeychain.
Extraction "../ml/c05.ml" drv_base sign_tx build_hash160_lookup eval_input script_pubkey parse_sig_ok strict_der low_s
  defined_hashtype parse_pushes LAX STD mkFlags mkPuzzle kc_run kc_fresh_get kc_empty.
