From Coq Require Import Extraction ExtrOcamlBasic.
From PV Require Import Base.Bytes Base.Outcome Base.DrvBase Model.TxBuild Model.TxBuildWire Model.DecimalConv.
Extraction "../ml/c13.ml" drv_base
  split_with_remainder recommended_fee distribute_from_split_pool create_tx
  stream_len recommended_fee_for_tx distribute_wire create_tx_wire
  total_out total_in fee tx_is_coinbase txin_is_coinbase validate_unspents
  distribute_from_split_pool_st set_unspents_st unspents_from_db_st step run
  dec_mul dec_div dec_quantize dec_to_int dec_fix ndigits
  satoshi_to_btc btc_to_satoshi satoshi_to_mbtc mbtc_to_satoshi.
