From Coq Require Import Extraction ExtrOcamlBasic.
From PV Require Import Base.Bytes Base.Outcome Base.Varint Base.DrvBase Gen.GenTxConsts Model.TxWire Model.TxCheck Model.TxObject.
Extraction "../ml/c20.ml" drv_base
  check check_coin coin_limits check_tx_inout_count check_txs_out check_txs_in check_size_limit
  tx_is_coinbase txin_is_coinbase bad_solution_count dup_by_identity stream_tx
  run observe apply_mut state_after.
