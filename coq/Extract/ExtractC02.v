From Coq Require Import Extraction ExtrOcamlBasic ZArith.
From PV Require Import Base.Bytes Base.Outcome Base.DrvBase Model.Curve Model.CurveObj.
(* uniquely named wrappers (extraction renames clashing identifiers such as add/neg) *)
Definition c02_curve (p a b n : Z) : curve := {| cp := p; ca := a; cb := b; cn := n |}.
Definition c02_gen (c : curve) (G : pt) (bits : nat) (blind : Z) : gen :=
  {| gc := c; gG := G; g_bits := bits; g_blind := blind |}.
Definition c02_inverse_mod := inverse_mod.
Definition c02_contains := contains_point.
Definition c02_mk_point := mk_point.
Definition c02_add := add.
Definition c02_neg := neg.
Definition c02_sub := sub.
Definition c02_leftmost_bit := leftmost_bit.
Definition c02_multiply := multiply.
Definition c02_raw_mul := raw_mul.
Definition c02_gmul := gmul.
Definition c02_modular_sqrt := modular_sqrt.
Definition c02_points_for_x := points_for_x.
Definition c02_mk_gen := mk_gen.
Definition c02_shared := shared_public_key.
Definition c02_g_inverse := g_inverse.
Definition c02_gen_fields (g : gen) := (cp (gc g), ca (gc g), cb (gc g), cn (gc g), gG g, g_bits g, g_blind g).
(* object level (Model/CurveObj.v): a point object = coordinates + owning curve object + identity *)
Definition c02_pobj (c : curve) (cid : nat) (xy : pt) (pid : nat) : pobj :=
  {| po_xy := xy; po_owner := {| co_curve := c; co_id := cid |}; po_id := pid |}.
Definition c02_oadd (P Q : pobj) : outcome pt := omap po_xy (obj_add P Q 100).
Definition c02_osub (P Q : pobj) : outcome pt := omap po_xy (obj_sub P Q 100).
Definition c02_oneg (P : pobj) : outcome pt := omap po_xy (obj_neg P 100).
Definition c02_omul (P : pobj) (e : Z) : outcome pt := omap po_xy (obj_mul P e 100).
Definition c02_ocadd (c : curve) (P Q : pobj) : outcome pt :=
  omap po_xy (obj_curve_add {| co_curve := c; co_id := 0 |} P Q 100).
Definition c02_ocmul (c : curve) (P : pobj) (e : Z) : outcome pt :=
  omap po_xy (obj_curve_multiply {| co_curve := c; co_id := 0 |} P e 100).
Extraction "../ml/c02.ml" drv_base c02_curve c02_gen c02_inverse_mod c02_contains c02_mk_point c02_add c02_neg c02_sub
  c02_leftmost_bit c02_multiply c02_raw_mul c02_gmul c02_modular_sqrt c02_points_for_x c02_mk_gen c02_shared
  c02_g_inverse c02_gen_fields
  c02_pobj c02_oadd c02_osub c02_oneg c02_omul c02_ocadd c02_ocmul.
