From Coq Require Import Extraction ExtrOcamlBasic.
From PV Require Import Base.Bytes Base.Outcome Base.DrvBase Model.Commit.
Extraction "../ml/c06.ml" drv_base legacy_sighash legacy_fed_of segwit_preimage segwit_sighash fed_of committed
  has_output tx_context_for_idx is_solution_ok bad_solution_count missing_unspent.
