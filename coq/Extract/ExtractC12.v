From Coq Require Import Extraction ExtrOcamlBasic.
From PV Require Import Base.Bytes Base.Outcome Base.DrvBase Model.ScriptNum Model.Push Model.ScriptText.
Extraction "../ml/c12.ml" drv_base int_to_script_bytes int_from_script_bytes btc_compile_push_data btc_get_opcode
  disassemble compile.
