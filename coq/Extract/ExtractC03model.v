(* Extract/ExtractC03model.v — extraction of the pycoin-side script VM model (Model/VMpy.v) for the
   C03 model-vs-implementation correspondence run (driver: ml_src/driver_c03model.ml). *)
From Coq Require Import Extraction ExtrOcamlBasic.
From PV Require Import Base.Bytes Base.Outcome Base.DrvBase Spec.VMTypes Model.CondStack Model.VMpy.
Extraction "../ml/c03model.ml" drv_base eval_script check_solution handler hk hk_outside step mkst.
