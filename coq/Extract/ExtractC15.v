From Coq Require Import Extraction ExtrOcamlBasic List NArith ZArith.
From PV Require Import Base.Bytes Base.Outcome Base.DrvBase Model.Chain Spec.ChainSpec.
Import ListNotations.
(* driver helpers: numeric order on hashes (for printing dicts sorted by key) *)
Definition c15_hash_leb (a b : hash) : bool := N.leb a b.
Definition c15_best_weight (D : list header) (a : hash) : Z := max_weight D (chains_from (length D) D a).
Extraction "../ml/c15.ml" drv_base run run_pre run_from step new_blockchain preload_locked_blocks
  c15_best_weight c15_hash_leb apply_ops load_nodes empty_finder find_ancestral_path all_chains_ending_at.
