From Coq Require Import Extraction ExtrOcamlBasic.
From PV Require Import Base.Bytes Base.Outcome Base.DrvBase Gen.GenCodecsC11 Model.Base58 Model.Bech32 Model.ParseableStrC11.
(* uniquely named wrappers for the driver *)
Definition c11_to_long (base : Z) (s : bytes) := to_long base byte_id s.
Definition c11_from_long (v prefix base : Z) := from_long v prefix base z_to_byte.
Extraction "../ml/c11.ml" drv_base c11_to_long c11_from_long
  btc_b2a_base58 btc_a2b_base58 btc_b2a_hashed_base58 btc_a2b_hashed_base58 btc_is_hashed_base58_valid
  btc_parse_b58 btc_parse_b58_double_sha256
  bech32_polymod bech32_hrp_expand bech32_verify_checksum bech32_create_checksum bech32_encode
  bech32_decode_max convertbits_o decode encode parse_bech32_or_32m parse_bech32 c11_history.
