(* Extract/ExtractC09.v — instantiation of Model/Bip32.v and Spec/Bip32Spec.v for the correspondence driver.

   The group is instantiated ABSTRACTLY as "points are their own discrete logarithms": pt := Z, G := 1, O := 0,
   k*P := k*P mod n, P+Q := (P+Q) mod n with n the order of secp256k1 (regenerated from /repo into
   Gen/GenBip32Prefixes.v).  This is a cyclic group of order n and satisfies every hypothesis the theorems of
   Proofs/Bip32P.v make about the group.  The encodings of points are ORACLES answered by the harness:
     osec  (32-byte scalar)  -> the 33-byte compressed SEC of scalar*G on secp256k1 (empty for scalar 0)
     oxy   (32-byte scalar)  -> the 64-byte x||y of scalar*G
     ounsec (33 bytes)       -> 32-byte scalar whose point has that SEC, or one byte 01 (EncodingError) / 02 (NoSuchPointError)
   so no 256-bit curve arithmetic happens in the extracted model (one multiplication would cost about 20 s); the run
   checks the byte-level bookkeeping around the group (HMAC inputs, index encoding, retry rule, metadata, serialization,
   cache, path parsing), and the implementation's own curve arithmetic is compared through the SEC bytes. *)
From Coq Require Import Extraction ExtrOcamlBasic List ZArith NArith.
From Coq Require Import Strings.Byte.
From PV Require Import Base.Bytes Base.Outcome Base.DrvBase Gen.GenBip32Prefixes Model.Bip32 Spec.Bip32Spec.
Import ListNotations.
Local Open Scope Z_scope.

Section Drv.
Variables osec oxy ounsec ohmac oh160 odsha : bytes -> bytes.

Definition zn : Z := bip32_curve_order.
Definition zp_add (a b : Z) : Z := (a + b) mod zn.
Definition zp_smul (k p : Z) : Z := (k * p) mod zn.
Definition zp_sec (p : Z) : bytes := osec (be_encode 32 (Z.to_N (p mod zn))).
Definition zp_xy (p : Z) : bytes := oxy (be_encode 32 (Z.to_N (p mod zn))).
Definition zp_unsec (b : bytes) : outcome Z :=
  let r := ounsec b in
  if Nat.eqb (length r) 32 then Ret (Z.of_N (be_decode r))
  else match r with
       | [x01] => Raise E_ENCODING
       | [x02] => Raise E_NOPOINT
       | _ => Raise E_VALUE
       end.
Definition zp_hmac (key msg : bytes) : bytes := ohmac (be_encode 4 (N.of_nat (length key)) ++ key ++ msg).
(* the text codecs are not exercised by the driver (data level only) *)
Definition no_enc (c : N) (b : bytes) : bytes := b.
Definition no_dec (c : N) (b : bytes) : option bytes := Some b.
Definition drv_fuel : nat := 64.
Definition drv_limit : Z := 100000.

Definition c09_node : Type := node Z.
Definition c09_master := from_master_secret Z 0 zp_smul 1 zn Z.eqb zp_hmac.
Definition c09_public_copy := public_copy Z 0 zp_smul 1 zn Z.eqb.
Definition c09_ckd_priv (k : Z) (chain : bytes) (i : Z) (h usepub : bool) :=
  subkey_secret_exponent_chain_code_pair Z zp_smul 1 zn zp_sec zp_hmac drv_fuel k chain i h
    (if usepub then Some (zp_smul k 1) else None).
Definition c09_ckd_pub := subkey_public_pair_chain_code_pair Z zp_add 0 zp_smul 1 zn Z.eqb zp_sec zp_hmac.
Definition c09_serialize := serialize Z zp_sec.
Definition c09_deserialize := deserialize Z 0 zp_smul 1 zn Z.eqb zp_unsec.
Definition c09_node_init := node_init Z 0 zp_smul 1 zn Z.eqb.
Definition c09_hwif_data := hwif_data Z zp_sec.
Definition c09_hparse_data := hparse_data Z 0 zp_smul 1 zn Z.eqb zp_unsec.
Definition c09_parse_hd_data := parse_hd_data Z 0 zp_smul 1 zn Z.eqb zp_unsec.
Definition c09_run_ops (root : c09_node) (ops : list hdop) :=
  run_ops Z zp_add 0 zp_smul 1 zn Z.eqb zp_sec zp_hmac oh160 drv_fuel drv_limit root [] ops.
Definition c09_run_fops (root : c09_node) (ops : list fop) :=
  run_fops Z zp_add 0 zp_smul 1 zn Z.eqb zp_sec zp_unsec zp_hmac oh160 drv_fuel drv_limit [(root, [])] ops.
Definition c09_sec := zp_sec.
Definition c09_xy := zp_xy.
Definition c09_electrum_init := electrum_init Z 0 zp_smul 1 zn Z.eqb.
Definition c09_electrum_public_copy := electrum_public_copy Z 0 zp_smul 1 zn Z.eqb.
Definition c09_electrum_subkey := electrum_subkey Z zp_add 0 zp_smul 1 zn Z.eqb zp_xy odsha.
Definition c09_electrum_subkeys := electrum_subkeys Z zp_add 0 zp_smul 1 zn Z.eqb zp_xy odsha drv_limit.
Definition c09_subpaths := subpaths_for_path_range drv_limit.

(* the BIP text: chain of extended keys along a list of child numbers, each serialized privately and publicly *)
Definition c09_spec_master := Bip32Spec.master Z zn zp_hmac.
Definition c09_spec_child := Bip32Spec.child Z zp_add 0 zp_smul 1 zn Z.eqb zp_sec zp_hmac oh160.
Definition c09_spec_neuter := Bip32Spec.neuter Z zp_smul 1.
Definition c09_spec_ser := Bip32Spec.serialize_x Z zp_sec.
Fixpoint c09_spec_chain (vprv vpub : bytes) (x : xkey Z) (path : list Z) : list (option (bytes * bytes)) :=
  match path with
  | [] => []
  | i :: r =>
    match c09_spec_child x i with
    | Some y => Some (match x_key Z y with
                      | Prv _ _ => c09_spec_ser vprv y
                      | Pub _ _ => []
                      end, c09_spec_ser vpub (c09_spec_neuter y)) :: c09_spec_chain vprv vpub y r
    | None => [None]
    end
  end.
Definition c09_spec_derive (vprv vpub seed : bytes) (neuter_at : nat) (path : list Z) : list (option (bytes * bytes)) :=
  match c09_spec_master seed with
  | None => [None]
  | Some m =>
    (* derive privately for the first [neuter_at] steps, then neuter and continue publicly *)
    let fix go (x : xkey Z) (k : nat) (path : list Z) : list (option (bytes * bytes)) :=
        match k, path with
        | O, _ => c09_spec_chain vprv vpub (c09_spec_neuter x) path
        | S k', [] => []
        | S k', i :: r =>
          match c09_spec_child x i with
          | Some y => Some (c09_spec_ser vprv y, c09_spec_ser vpub (c09_spec_neuter y)) :: go y k' r
          | None => [None]
          end
        end in
    Some (c09_spec_ser vprv m, c09_spec_ser vpub (c09_spec_neuter m)) :: go m neuter_at path
  end.
End Drv.

Definition c09_py_int := py_int.
Definition c09_py_dec := py_dec.
Definition c09_path_token := path_token.
Definition c09_path_tokens := path_tokens.
Definition c09_split := split.
Definition c09_mk_node := mkNode Z.
Definition c09_mk_bipnet := mkBipnet.
Definition c09_mk_ew := mkEw Z.
Definition c09_nd_fields (nd : node Z) := (nd_chain Z nd, nd_depth Z nd, nd_fpr Z nd, nd_index Z nd, nd_secret Z nd, nd_point Z nd).
Definition c09_ew_fields (w : ewallet Z) := (ew_secret Z w, ew_point Z w).

Extraction "../ml/c09.ml" drv_base
  c09_master c09_public_copy c09_ckd_priv c09_ckd_pub c09_serialize c09_deserialize c09_node_init c09_hwif_data
  c09_hparse_data c09_parse_hd_data c09_run_ops c09_run_fops c09_sec c09_xy c09_electrum_init c09_electrum_public_copy
  c09_electrum_subkey c09_electrum_subkeys c09_subpaths c09_spec_derive
  c09_py_int c09_py_dec c09_path_token c09_path_tokens c09_split c09_mk_node c09_mk_bipnet c09_mk_ew
  c09_nd_fields c09_ew_fields.
