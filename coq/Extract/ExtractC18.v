(* Extract/ExtractC18.v — driver glue + extraction for C18.  The oracles of Model/ParseText.v are answered over
   the pipe by harness/c18.py with pycoin's / CPython's own primitives; here only the wire format of the answers.
   raw id data : oracle number id (see harness/c18.py ORACLE_NAMES) applied to data. *)
From Coq Require Import List NArith ZArith String Bool Extraction ExtrOcamlBasic.
From Coq Require Import Strings.Byte.
From PV Require Import Base.Bytes Base.Outcome Base.DrvBase Gen.GenParsePrefixes Model.ParseText.
Import ListNotations.
Local Open Scope Z_scope.

(* text travels as UTF-32BE (lone surrogates pass) *)
Fixpoint text_of_utf32 (b : bytes) : text :=
  match b with
  | a :: b' :: c :: d :: r => be_decode [a; b'; c; d] :: text_of_utf32 r
  | _ => []
  end.
Definition utf32_of_text (t : text) : bytes := flat_map (be_encode 4) t.

Section Glue.
Variable raw : N -> bytes -> bytes.
Variable netidx : N.

Definition tagged (t : text) : bytes := n2b netidx :: utf32_of_text t.

(* answer: 00 = None, 01 || payload = Some payload, 02 = the function raised *)
Definition opt_bytes_answer (a : bytes) : option bytes :=
  match a with
  | x01 :: r => Some r
  | _ => None
  end.
Definition raw_bytes_answer (a : bytes) : outcome (option bytes) :=
  match a with
  | x01 :: r => Ret (Some r)
  | x02 :: _ => Raise E_OTHER
  | _ => Ret None
  end.

(* the UNCACHED decoders: the cache (exception swallowing) is in the model *)
Definition o_b58 (t : text) : outcome (option bytes) := raw_bytes_answer (raw 0 (tagged t)).
Definition o_compile (t : text) : option bytes := opt_bytes_answer (raw 3 (tagged t)).

(* answer: 00 = None, 02 = raised, 01 || hrp length (code points) || hrp utf32 || version || is_m || program *)
Definition o_bech32 (t : text) : outcome (option (text * Z * bytes * bool)) :=
  match raw 1 (tagged t) with
  | x01 :: hl :: r =>
    let n := (4 * N.to_nat (b2n hl))%nat in
    let hrp := text_of_utf32 (take n r) in
    match drop n r with
    | v :: m :: data => Ret (Some (hrp, b2z v, data, negb (byte_eqb m x00)))
    | _ => Ret None
    end
  | x02 :: _ => Raise E_OTHER
  | _ => Ret None
  end.

(* answer: 00 = None, 01 || sign (00 / 01 = negative) || magnitude big endian *)
Definition int_answer (a : bytes) : option Z :=
  match a with
  | x01 :: sg :: mag => let v := Z.of_N (be_decode mag) in Some (if byte_eqb sg x00 then v else - v)
  | _ => None
  end.
Definition o_int10 (t : text) : option Z := int_answer (raw 2 (x0a :: utf32_of_text t)).
Definition o_int16 (t : text) : option Z := int_answer (raw 2 (x10 :: utf32_of_text t)).

Definition o_hmac512 (m : bytes) : bytes := raw 4 m.
Definition o_stretch (b : bytes) : Z := Z.of_N (be_decode (raw 5 b)).
Definition o_mulG (k : Z) : Z * Z :=
  let a := raw 6 (be_encode 32 (Z.to_N k)) in
  (Z.of_N (be_decode (take 32 a)), Z.of_N (be_decode (drop 32 a))).
Definition o_modsqrt (a : Z) : Z := Z.of_N (be_decode (raw 7 (be_encode 32 (Z.to_N a)))).

Definition drv_cfg : netcfg := nth (N.to_nat netidx) table_cfgs
  {| n_disabled := false; n_address := None; n_p2sh := None; n_wif := None; n_sec_prefix := []; n_hrp := None;
     n_hd_prv := fun _ => None; n_hd_pub := fun _ => None |}.

Definition run_entry (e : N) (t : text) : result :=
  let net := drv_cfg in
  match e with
  | 0 => bip32_seed o_hmac512 o_mulG net t
  | 1 => hd_seed o_hmac512 o_mulG net t
  | 2 => hd_prv o_b58 o_mulG o_modsqrt net Bip32 t
  | 3 => hd_pub o_b58 o_mulG o_modsqrt net Bip32 t
  | 4 => hd_any o_b58 o_mulG o_modsqrt net Bip32 t
  | 5 => hd_prv o_b58 o_mulG o_modsqrt net Bip49 t
  | 6 => hd_pub o_b58 o_mulG o_modsqrt net Bip49 t
  | 7 => hd_any o_b58 o_mulG o_modsqrt net Bip49 t
  | 8 => hd_prv o_b58 o_mulG o_modsqrt net Bip84 t
  | 9 => hd_pub o_b58 o_mulG o_modsqrt net Bip84 t
  | 10 => hd_any o_b58 o_mulG o_modsqrt net Bip84 t
  | 11 => electrum_seed o_stretch o_mulG net t
  | 12 => electrum_prv o_mulG net t
  | 13 => electrum_pub net t
  | 14 => p2pkh o_b58 net t
  | 15 => p2sh o_b58 net t
  | 16 => p2pkh_segwit o_bech32 net t
  | 17 => p2sh_segwit o_bech32 net t
  | 18 => p2tr o_bech32 net t
  | 19 => script o_compile net t
  | 20 => wif o_b58 o_mulG net t
  | 21 => secret_exponent o_int10 o_int16 o_mulG net t
  | 22 => public_pair o_int10 o_int16 o_mulG o_modsqrt net t
  | 23 => sec o_modsqrt net t
  | 24 => address o_b58 o_bech32 net t
  | 25 => payable o_b58 o_bech32 o_compile net t
  | 26 => hierarchical_key o_b58 o_hmac512 o_stretch o_mulG o_modsqrt net t
  | 27 => private_key o_b58 o_int10 o_int16 o_mulG net t
  | 28 => secret o_b58 o_int10 o_int16 o_hmac512 o_stretch o_mulG o_modsqrt net t
  | 29 => public_key o_int10 o_int16 o_mulG o_modsqrt net t
  | 30 => unsupported net t
  | 31 => parse_any o_b58 o_bech32 o_int10 o_int16 o_compile o_hmac512 o_stretch o_mulG o_modsqrt net t
  | _ => Raise E_OTHER
  end%N.

(* the serialisers, for the model-side re-serialisation check: payload of the object a parser returned *)
Definition run_payload (which : N) (o : obj) : option bytes :=
  match which with
  | 0 => p2pkh_payload drv_cfg o
  | 1 => p2sh_payload drv_cfg o
  | 2 => wif_payload drv_cfg o
  | _ => hd_payload drv_cfg o
  end%N.

(* Key.as_text() of a public key / ElectrumWallet.as_text(), for the model-side text check *)
Definition run_text (o : obj) : outcome text :=
  match o with
  | OKey (Pub _) _ => public_key_text drv_cfg o
  | OElectrum _ _ => electrum_text o
  | _ => Raise E_OTHER
  end.

End Glue.

Definition drv_table_size : N := N.of_nat (length table_cfgs).
Definition drv_kinds_separated (i : N) : bool :=
  match nth_error table_cfgs (N.to_nat i) with Some c => kinds_separated c | None => false end.

Extraction "../ml/c18.ml" drv_base text_of_utf32 utf32_of_text run_entry run_payload run_text drv_table_size drv_kinds_separated.
