(* Extract/ExtractC19.v — uniquely named wrappers (models AND specifications) and their extraction for driver_c19. *)
From Coq Require Import Extraction ExtrOcamlBasic.
From PV Require Import Base.Bytes Base.Outcome Base.DrvBase Gen.GenRipemd Spec.RipemdSpec Spec.MurmurSpec Model.Ripemd Model.Murmur Proofs.BloomHistC19.
Local Open Scope Z_scope.

Definition c19_fi := Ripemd.fi.
Definition c19_rol := Ripemd.rol.
Definition c19_compress := Ripemd.compress.
Definition c19_pure_ripemd160 := Ripemd.ripemd160.
Definition c19_spec_ripemd160 := RipemdSpec.ripemd160.
Definition c19_choice (a e n p : bool) : Z :=
  match get_best_ripemd160 a e n p with Native => 0 | PyCrypto => 1 | PurePython => 2 end.
Definition c19_hash_ripemd160 (native pycrypto : bytes -> bytes) (a e n p : bool) (data : bytes) :=
  hash_ripemd160 native pycrypto (get_best_ripemd160 a e n p) data.
Definition c19_hash160 (sha256 native pycrypto : bytes -> bytes) (a e n p : bool) (data : bytes) :=
  hash160 sha256 native pycrypto (get_best_ripemd160 a e n p) data.
Definition c19_double_sha256 := double_sha256.
Definition c19_murmur3 := Murmur.murmur3.
Definition c19_spec_murmur3 (data : bytes) (seed : Z) : Z := MurmurSpec.murmur3_32 data (seed mod RipemdSpec.W).
Definition c19_bloom := bloom_session.
Definition c19_spec_bloom (size k tweak : Z) (items : list bytes) : bytes :=
  fold_left (fun v it => MurmurSpec.insert v k tweak it) items (repeat x00 (Z.to_nat size)).
Definition c19_spec_contains (v : bytes) (k tweak : Z) (item : bytes) : bool := MurmurSpec.contains v k tweak item.

(* BloomFilter(size, 0, 0); set_bit(v) for v in sets; [check_bit(c) for c in checks]; filter_bytes *)
Fixpoint c19_set_bits (st : bloom) (vs : list Z) : outcome bloom :=
  match vs with [] => Ret st | v :: r => bind (Murmur.set_bit st v) (fun st' => c19_set_bits st' r) end.
Definition c19_bloom_bits (size : Z) (sets checks : list Z) : outcome (bytes * list bool) :=
  bind (bloom_init size 0 0) (fun st =>
  bind (c19_set_bits st sets) (fun st' =>
  bind (mapM (check_bit st') checks) (fun cs => Ret (bf_bytes st', cs)))).

(* histories of one BloomFilter object: the model, and the memory-less specification *)
Definition c19_bloom_history := bloom_history.
Definition c19_spec_history (size k tweak : Z) (ops : list bloom_op) : bytes * list bloom_obs :=
  let '(s, os) := spec_run (repeat x00 (Z.to_nat size), k, tweak) ops in (fst (fst s), os).

Extraction "../ml/c19.ml" drv_base c19_fi c19_rol c19_compress c19_pure_ripemd160 c19_spec_ripemd160 c19_choice
  c19_hash_ripemd160 c19_hash160 c19_double_sha256 c19_murmur3 c19_spec_murmur3 c19_bloom c19_spec_bloom
  c19_spec_contains c19_bloom_bits c19_bloom_history c19_spec_history.
