From Coq Require Import Extraction ExtrOcamlBasic.
From PV Require Import Base.Bytes Base.Outcome Base.DrvBase Base.Varint Gen.GenMessages Model.Streamer.
Extraction "../ml/c16.ml" drv_base std_messages alert_layout ip4_header inv_checked_types registered_chars
  codec_of_char mk_addr mk_inv stream_codec parse_codec parse_struct stream_struct
  parse_message parse_from_data pack_from_data.
