(* driver_c15.ml — line protocol for the ChainFinder/BlockChain model (appended after c15.ml and drvlib.ml).
   Event tokens (hex numbers, no prefix, no spaces inside a token):
     D:<h>.<p>.<w>,<h>.<p>.<w>,...;<prio h,h,...>;<pref h,h,...>
     L:<index>;<prio>;<pref>
   Functions:
     (an optional token P:<h.p.w,...> before the events = preload_locked_blocks)
     run <anchor> <ev>...                 -> canonical trace for the given pop priorities / preferences
     member <anchor> <trace_> <ev>...     -> T iff <trace_> (spaces written as '_') is the trace of the history
                                             for SOME pop order of every batch (prio fields are ignored and
                                             every permutation is tried; pref fields are used as given)
     best_weight <anchor> <h.p.w,...>     -> maximum weight of a chain from the anchor (spec)
     load <h.p,...;prio> ...              -> finder state after loading the batches into an empty ChainFinder *)
let split c s = if s = "" then [] else String.split_on_char c s
let hx s = n_of_hex s
let parse_hdr t = match split '.' t with
  | [h; p; w] -> { hh = hx h; hp = hx p; hw = z_of_hex w }
  | _ -> failwith ("header " ^ t)
let parse_hashes s = List.map hx (split ',' s)
(* a field "*" is a wildcard (enumerated by `member`) *)
let parse_wild s = if s = "*" then None else Some (parse_hashes s)
type pev = PD of header list * hash list option * hash list option | PL of nat * hash list option * hash list option
let parse_pev t =
  let n = String.length t in
  if n < 2 || t.[1] <> ':' then failwith ("event " ^ t) else
  let body = String.sub t 2 (n - 2) in
  match t.[0], String.split_on_char ';' body with
  | 'D', [hs; prio; pref] -> PD (List.map parse_hdr (split ',' hs), parse_wild prio, parse_wild pref)
  | 'L', [i; prio; pref] -> PL (nat_of_int (int_of_string ("0x" ^ i)), parse_wild prio, parse_wild pref)
  | _ -> failwith ("event " ^ t)
let nowild = function Some l -> l | None -> failwith "wildcard not allowed here"
let parse_event t = match parse_pev t with
  | PD (hs, a, b) -> Deliver (hs, nowild a, nowild b)
  | PL (i, a, b) -> Lock (i, nowild a, nowild b)

let rec isort leb = function
  | [] -> []
  | x :: r -> let rec ins = function [] -> [x] | y :: q as l -> if leb x y then x :: l else y :: ins q in ins (isort leb r)
let show_op ((add, h), i) = "(" ^ show_bool add ^ " " ^ show_n h ^ " " ^ show_z i ^ ")"
let show_tuple ((h, p), w) = "(" ^ show_n h ^ " " ^ show_n p ^ " " ^ show_option show_z w ^ ")"
let show_snapshot s =
  "(" ^ show_option (show_list show_op) s.s_ops ^ " " ^ show_nat s.s_locked ^ " " ^ show_list show_tuple s.s_tuples ^ " "
  ^ show_list (show_pair show_n show_z) (isort (fun (a, _) (b, _) -> c15_hash_leb a b) s.s_h2i) ^ " "
  ^ show_n s.s_last ^ " " ^ show_n s.s_parent ^ ")"
let show_stop = function Done -> "ok" | OutOfRange -> "!E_INDEX" | Crash e -> "!" ^ show_exn e | Fuel -> "!OUT_OF_FUEL"
let show_trace (tr, st) = show_list show_snapshot tr ^ " " ^ show_stop st

let rec perms = function
  | [] -> [[]]
  | l -> List.concat_map (fun x -> List.map (fun p -> x :: p) (perms (List.filter (fun y -> y <> x) l))) l
let dedup l = List.sort_uniq compare l

(* canonical form of a state (dicts sorted by key, sets sorted): the order of a dict or set is not observable
   except (a) as a fallback of the preference order, which cannot make a trace equal to the implementation's, and
   (b) the order of trees_from_bottom in stale states, see [stale] *)
let nkey h = let s = show_n h in (String.length s, s)
let sort_by f l = List.sort (fun a b -> compare (f a) (f b)) l
let canon_dict d = sort_by (fun (k, _) -> nkey k) d
(* the order of trees_from_bottom is observable through lock_to_index's generator when some stored tree ends at
   a hash that has meanwhile become known (impossible under the proved invariant): such states keep their order *)
let stale cf = List.exists (fun (_, l) -> match List.rev l with t :: _ -> List.mem_assoc t cf.pl | [] -> false) cf.tfb
let canon_finder cf = { pl = canon_dict cf.pl; dbt = canon_dict (List.map (fun (k, s) -> (k, sort_by nkey s)) cf.dbt);
                        tfb = if stale cf then cf.tfb else canon_dict cf.tfb }
let canon_bc bc = { bc with bc_h2i = canon_dict bc.bc_h2i; bc_w = canon_dict bc.bc_w; bc_cf = canon_finder bc.bc_cf }

(* all traces over the wildcards: prio "*" = every pop order (every permutation of the batch's hashes; for a lock
   the rebuilt finder's nodes when there are at most 5), pref "*" = no preference or any single hash *)
(* an optional first token "P:<h.p.w,...>" = headers given to preload_locked_blocks right after construction *)
let split_pre toks = match toks with
  | t :: r when String.length t >= 2 && String.sub t 0 2 = "P:" ->
    (List.map parse_hdr (split ',' (String.sub t 2 (String.length t - 2))), r)
  | _ -> ([], toks)
let all_traces anchor pre (evs : pev list) =
  let allh = dedup (List.concat_map (function PD (hs, _, _) -> List.map (fun x -> x.hh) hs | _ -> []) evs) in
  let finals = ref [] in
  let states = ref [([], preload_locked_blocks pre (new_blockchain anchor))] in
  List.iter (fun ev ->
    let next = ref [] in
    List.iter (fun (tr, bc) ->
      let prios = match ev with
        | PD (hs, None, _) -> perms (dedup (List.map (fun x -> x.hh) hs))
        | PL (_, None, _) -> let ks = dedup (List.map fst bc.bc_cf.pl) in if List.length ks <= 5 then perms ks else [[]]
        | PD (_, Some p, _) | PL (_, Some p, _) -> [p] in
      let prefs = match ev with
        | PD (_, _, None) | PL (_, _, None) -> [] :: List.map (fun h -> [h]) allh
        | PD (_, _, Some p) | PL (_, _, Some p) -> [p] in
      List.iter (fun p -> List.iter (fun q ->
        let e = match ev with PD (hs, _, _) -> Deliver (hs, p, q) | PL (i, _, _) -> Lock (i, p, q) in
        match step e bc with
        | Inl (s, bc') -> next := (show_snapshot s :: tr, bc') :: !next
        | Inr st -> finals := ("[" ^ String.concat " " (List.rev tr) ^ "] " ^ show_stop st) :: !finals) prefs) prios) !states;
    states := dedup (List.map (fun (tr, bc) -> (tr, canon_bc bc)) !next)) evs;
  List.iter (fun (tr, _) -> finals := ("[" ^ String.concat " " (List.rev tr) ^ "] ok") :: !finals) !states;
  dedup !finals

let show_dict f d = show_list (show_pair show_n f) (isort (fun (a, _) (b, _) -> c15_hash_leb a b) d)
let show_finder cf =
  "(" ^ show_dict show_n cf.pl ^ " " ^ show_dict (fun s -> show_list show_n (isort c15_hash_leb s)) cf.dbt ^ " "
  ^ show_dict (show_list show_n) cf.tfb ^ ")"

let dispatch f args = match f, args with
  | "run", a :: toks -> let (pre, evs) = split_pre toks in show_trace (run_pre (hx a) pre (List.map parse_event evs))
  | "member", a :: t :: toks ->
    let (pre, evs) = split_pre toks in
    let all = all_traces (hx a) pre (List.map parse_pev evs) in
    let us = List.map (String.map (fun c -> if c = ' ' then '_' else c)) all in
    if List.mem t us then "T" else "F " ^ string_of_int (List.length all) ^ " " ^ String.concat " | " all
  | "count", a :: toks -> let (pre, evs) = split_pre toks in
    string_of_int (List.length (all_traces (hx a) pre (List.map parse_pev evs)))
  | "best_weight", [a; hs] -> show_z (c15_best_weight (List.map parse_hdr (split ',' hs)) (hx a))
  | "load", batches ->
    let rec go cf = function
      | [] -> show_finder cf
      | b :: r ->
        (match String.split_on_char ';' b with
         | [nodes; prio] ->
           let nodes = List.map (fun t -> match split '.' t with [h; p] -> (hx h, hx p) | _ -> failwith "node") (split ',' nodes) in
           (match load_nodes (parse_hashes prio) nodes cf with
            | Ret cf' -> go cf' r
            | Raise e -> "!" ^ show_exn e
            | OutOfFuel -> "!OUT_OF_FUEL")
         | _ -> failwith "batch") in
    go empty_finder batches
  | _ -> failwith ("unknown function " ^ f)
let () = main_loop dispatch
