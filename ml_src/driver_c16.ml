(* driver_c16.ml — line protocol for property C16 (Model/Streamer.v).
   Tx / Block / header values are opaque blobs (their canonical serialisation); the three parsers are
   oracle callbacks answered by the harness with the REAL Tx.parse / Block.parse / Block.parse_as_header:
     ?txparse[@SYM] <hex of the unread stream>   ->  00 <consumed:4 bytes BE> <canonical bytes>   |  <1+exception index>
   post_unpack_merkleblock (owned by C14) is the oracle ?mbpost <hex of the re-packed fields>
     -> 00 <tx hashes, 32 bytes each> | <1+exception index>.
   Value tokens (no spaces):  N T F i<hex> i-<hex> x<hex> (v,v,..) A(i,x,i) V(i,x) t<hex> k<hex> z<hex>
   kwargs token: name=v;name=v  or  -          format token: s<text> *)
let exn_table = [| E_SCRIPT; E_VALUE; E_ENCODING; E_STRUCT; E_INDEX; E_TYPE; E_ASSERT; E_ATTR; E_KEY; E_VALIDATION;
                   E_BADMERKLE; E_BADSPEND; E_NOPOINT; E_SECRET; E_PUBPAIR; E_DER; E_OVERFLOW; E_OTHER |]
type blob = byte list
type pv = (blob, blob, blob) pyval

let rec drop n l = if n <= 0 then l else match l with [] -> [] | _ :: r -> drop (n - 1) r
let rec take n l = if n <= 0 then [] else match l with [] -> [] | x :: r -> x :: take (n - 1) r

let oracle_parse (name : string) (s : byte list) : (blob * byte list) outcome =
  match oracle name s with
  | [] -> failwith "empty oracle answer"
  | st :: r ->
    let c = int_of_byte st in
    if c = 0 then begin
      match r with
      | a :: b :: cc :: d :: canon ->
        let n = ((int_of_byte a * 256 + int_of_byte b) * 256 + int_of_byte cc) * 256 + int_of_byte d in
        Ret (canon, drop n s)
      | _ -> failwith "short oracle answer"
    end else Raise exn_table.(c - 1)
(* the network whose Tx / Block classes answer the oracles: "" = BTC, "@BTG" = pycoin.symbols.btg, ... ; set by an
   optional first argument "@SYM" of a case line *)
let cur_net = ref ""
let parse_t s = oracle_parse ("txparse" ^ !cur_net) s
let parse_b s = oracle_parse ("blkparse" ^ !cur_net) s
let parse_z s = oracle_parse ("hdrparse" ^ !cur_net) s
let stream_blob (b : blob) : byte list = b
(* Block.stream_header of a full block: 80 bytes for Bitcoin-layout headers, asked from the network otherwise *)
let header_of (b : blob) : blob = if !cur_net = "" then take 80 b else oracle ("hdrof" ^ !cur_net) b

let str_of (s : string) : byte list = List.init (String.length s) (fun i -> byte_tab.(Char.code s.[i]))
let string_of_str (l : byte list) : string = String.concat "" (List.map (fun b -> String.make 1 (Char.chr (int_of_byte b))) l)

let m_stream_struct fmt args = stream_struct stream_blob stream_blob stream_blob header_of fmt args
let m_parse_struct fmt data = parse_struct parse_t parse_b parse_z ip4_header inv_checked_types (nat_of_int (List.length fmt)) fmt data
let m_pack name kw = pack_from_data stream_blob stream_blob stream_blob header_of std_messages name kw

let rec split_hashes l = match l with [] -> [] | _ -> VBytes (take 32 l) :: split_hashes (drop 32 l)
let post_merkleblock (d : (byte list * pv) list) : (byte list * pv) list outcome =
  match m_pack (str_of "merkleblock") d with
  | Ret bs ->
    (match oracle ("mbpost" ^ !cur_net) bs with
     | [] -> failwith "empty oracle answer"
     | st :: r ->
       let c = int_of_byte st in
       if c = 0 then Ret (d @ [ (str_of "tx_hashes", VTuple (split_hashes r)) ]) else Raise exn_table.(c - 1))
  | Raise e -> failwith "post_merkleblock: re-pack raised"
  | OutOfFuel -> failwith "post_merkleblock: re-pack out of fuel"
let m_parse name data =
  parse_from_data parse_t parse_b parse_z ip4_header inv_checked_types std_messages alert_layout post_merkleblock name data

(* ---- value tokens ------------------------------------------------------------------------------ *)
let is_hex c = (c >= '0' && c <= '9') || (c >= 'a' && c <= 'f') || (c >= 'A' && c <= 'F')
let parse_val (t : string) : pv =
  let n = String.length t in
  let pos = ref 0 in
  let peek () = if !pos < n then t.[!pos] else '\000' in
  let adv () = incr pos in
  let expect c = if peek () = c then adv () else failwith (Printf.sprintf "parse_val: expected %c at %d in %s" c !pos t) in
  let hexrun () = let st = !pos in while !pos < n && is_hex t.[!pos] do incr pos done; String.sub t st (!pos - st) in
  let get_int () = expect 'i'; let neg = (peek () = '-') in if neg then adv (); let h = hexrun () in
    z_of_hex ((if neg then "-" else "") ^ h) in
  let get_bytes () = expect 'x'; bytes_of_hex (hexrun ()) in
  let rec value () : pv =
    match peek () with
    | 'N' -> adv (); VNone
    | 'T' -> adv (); VBool true
    | 'F' -> adv (); VBool false
    | 'i' -> VInt (get_int ())
    | 'x' -> VBytes (get_bytes ())
    | 't' -> adv (); VTx (bytes_of_hex (hexrun ()))
    | 'k' -> adv (); VBlock (bytes_of_hex (hexrun ()))
    | 'z' -> adv (); VHdr (bytes_of_hex (hexrun ()))
    | '(' -> adv ();
      if peek () = ')' then (adv (); VTuple [])
      else begin
        let items = ref [value ()] in
        while peek () = ',' do adv (); items := value () :: !items done;
        expect ')'; VTuple (List.rev !items)
      end
    | 'A' -> adv (); expect '('; let s = get_int () in expect ','; let ip = get_bytes () in expect ',';
      let p = get_int () in expect ')';
      (match mk_addr ip4_header s ip p with Ret v -> v | _ -> failwith "A(..): constructor raised")
    | 'V' -> adv (); expect '('; let ty = get_int () in expect ','; let d = get_bytes () in expect ')';
      (match mk_inv inv_checked_types ty d true with Ret v -> v | _ -> failwith "V(..): constructor raised")
    | c -> failwith (Printf.sprintf "parse_val: unexpected %c at %d in %s" c !pos t)
  in
  let v = value () in
  if !pos <> n then failwith ("parse_val: trailing text in " ^ t) else v

let parse_kwargs (t : string) : (byte list * pv) list =
  if t = "-" then [] else
  List.map (fun item ->
    match String.index_opt item '=' with
    | None -> failwith ("kwargs item " ^ item)
    | Some i -> (str_of (String.sub item 0 i), parse_val (String.sub item (i + 1) (String.length item - i - 1))))
    (String.split_on_char ';' t)

let arg_fmt (t : string) : byte list =
  if String.length t = 0 || t.[0] <> 's' then failwith ("arg_fmt " ^ t) else str_of (String.sub t 1 (String.length t - 1))

(* ---- canonical output (= cv() in harness/c16.py) -------------------------------------------------- *)
let rec show_pv (v : pv) : string =
  match v with
  | VNone -> "N"
  | VInt z -> show_z z
  | VBool b -> show_bool b
  | VBytes b -> show_bytes b
  | VTuple l -> "(" ^ String.concat " " (List.map show_pv l) ^ ")"
  | VAddr (s, ip, p) -> "A(" ^ show_z s ^ " " ^ show_bytes ip ^ " " ^ show_z p ^ ")"
  | VInv (ty, d) -> "V(" ^ show_z ty ^ " " ^ show_bytes d ^ ")"
  | VTx b -> "t" ^ hex_of_bytes b
  | VBlock b -> "k" ^ hex_of_bytes b
  | VHdr b -> "k" ^ hex_of_bytes b
  | VDict d -> show_dict d
and show_dict d = "{" ^ String.concat " " (List.map (fun (k, v) -> string_of_str k ^ "=" ^ show_pv v) d) ^ "}"

let rec dispatch f args = match f, args with
  | _, a :: rest when String.length a > 0 && a.[0] = '@' ->
    cur_net := (if a = "@" || a = "@BTC" then "" else a);
    let r = (try dispatch f rest with e -> cur_net := ""; raise e) in
    cur_net := ""; r
  | "pack_struct", [fmt; vals] ->
    (match parse_val vals with
     | VTuple l -> show_outcome show_bytes (m_stream_struct (arg_fmt fmt) l)
     | _ -> failwith "pack_struct: tuple expected")
  | "unpack_struct", [fmt; data] ->
    show_outcome (fun (items, rest) -> show_pv (VTuple items) ^ " " ^ show_bytes rest) (m_parse_struct (arg_fmt fmt) (arg_bytes data))
  | "pack", [name; kw] -> show_outcome show_bytes (m_pack (arg_fmt name) (parse_kwargs kw))
  | "parse", [name; data] -> show_outcome show_dict (m_parse (arg_fmt name) (arg_bytes data))
  | "mkaddr", [s; ip; p] -> show_outcome show_pv (mk_addr ip4_header (arg_z s) (arg_bytes ip) (arg_z p))
  | "mkinv", [ty; d; dc] -> show_outcome show_pv (mk_inv inv_checked_types (arg_z ty) (arg_bytes d) (arg_bool dc))
  | _ -> failwith ("unknown function " ^ f)
let () = main_loop dispatch
