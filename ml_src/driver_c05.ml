(* driver_c05.ml — dispatch for property C05 (solver contract + template evaluator).
   Oracles: hash160, sha256 (hashlib) and c05_sighash / c05_sign / c05_verify / c05_pub answered by harness/c05.py. *)
let be_bytes (w : int) (v : int) : byte list =
  let rec go i acc = if i >= w then acc else go (i + 1) (byte_of_int ((v lsr (8 * i)) land 255) :: acc) in go 0 []
let o_hash160 = oracle "hash160"
let o_sha256 = oracle "sha256"
let o_pub (secret : byte list) (c : bool) : byte list = oracle "c05_pub" (secret @ [byte_of_int (if c then 1 else 0)])
let o_sign (secret : byte list) (dg : byte list) : byte list = oracle "c05_sign" (secret @ dg)
let o_verify (pub : byte list) (dg : byte list) (der : byte list) : bool =
  match oracle "c05_verify" (be_bytes 1 (List.length pub) @ pub @ dg @ der) with
  | [b] -> int_of_byte b = 1
  | _ -> failwith "c05_verify answer"
let o_sighash (tag : byte list) (idx : nat) (wit : bool) (ht : n) (sc : byte list) : byte list option =
  let h = int_of_n ht in
  if h > 65535 then failwith "hash type too large for the oracle encoding" else
  match oracle "c05_sighash" (tag @ be_bytes 2 (int_of_nat idx) @ [byte_of_int (if wit then 1 else 0)] @ be_bytes 2 h @ sc) with
  | [] -> None
  | d -> Some d
let kind_of_int = function
  | 0 -> K_P2PK | 1 -> K_P2PKH | 2 -> K_MS | 3 -> K_P2SH_MS | 4 -> K_P2WSH_MS | 5 -> K_P2SH_P2WSH_MS
  | 6 -> K_P2WPKH | 7 -> K_P2SH_P2WPKH | _ -> failwith "kind"
let puzzle_of k m keys h =
  { pz_kind = kind_of_int (arg_int k); pz_m = arg_nat m; pz_keys = arg_list arg_bytes keys; pz_hash = arg_bytes h }
let show_str (s : string) = "x" ^ String.concat "" (List.map (fun c -> Printf.sprintf "%02x" (Char.code c)) (List.init (String.length s) (String.get s)))
let show_sw (s, w) = "(" ^ show_bytes s ^ " " ^ show_list show_bytes w ^ ")"
let rec take_inputs n toks = if n = 0 then [] else match toks with
  | k :: m :: keys :: h :: s :: w :: r -> ((puzzle_of k m keys h, arg_bytes s), arg_list arg_bytes w) :: take_inputs (n - 1) r
  | _ -> failwith "sign_tx inputs"
(* keychain histories: kid-level oracles answered by harness/c05.py *)
let o_kfp (kid : byte list) : byte list = oracle "c05_kfp" kid
let o_derive (kid : byte list) (path : byte list) : byte list = oracle "c05_derive" (be_bytes 1 (List.length kid) @ kid @ path)
let rec take_kops n toks = if n = 0 then [] else match toks with
  | "P" :: kid :: paths :: r -> KAddPaths (arg_bytes kid, arg_list arg_bytes paths) :: take_kops (n - 1) r
  | "K" :: kids :: path :: r -> KAddKeysPath (arg_list arg_bytes kids, arg_bytes path) :: take_kops (n - 1) r
  | "S" :: kid :: r -> KAddSecret (arg_bytes kid) :: take_kops (n - 1) r
  | "2" :: s :: r -> KAddP2s (arg_bytes s) :: take_kops (n - 1) r
  | "G" :: h :: r -> KGet (arg_bytes h) :: take_kops (n - 1) r
  | "C" :: r -> KClear :: take_kops (n - 1) r
  | _ -> failwith "kc_run ops"
let show_kres = function
  | KScript s -> "(i0 " ^ show_bytes s ^ ")"
  | KEntry (se, c) -> "(i1 " ^ show_bytes se ^ " " ^ show_bool c ^ ")"
  | KNone -> "N"
let dispatch f args = match f, args with
  | "kc_run", n :: rest ->
    let ops = take_kops (arg_int n) rest in
    let (k, res) = kc_run o_hash160 o_sha256 o_pub o_kfp o_derive kc_empty ops in
    show_list show_kres res
  | "kc_run_fresh", h :: n :: rest ->
    (* the answer of a keychain rebuilt from the final contents of the history *)
    let ops = take_kops (arg_int n) rest in
    let (k, _) = kc_run o_hash160 o_sha256 o_pub o_kfp o_derive kc_empty ops in
    show_kres (kc_fresh_get o_hash160 o_sha256 o_pub o_kfp o_derive k (arg_bytes h))
  | "sign_tx", tag :: forkid :: ht :: secrets :: p2sh :: idxs :: n :: rest ->
    let tag = arg_bytes tag in
    let db = build_hash160_lookup o_hash160 o_pub (arg_list arg_bytes secrets) in
    let ht = if ht = "N" then None else Some (arg_n ht) in
    let inputs = take_inputs (arg_int n) rest in
    let (res, e) = sign_tx o_hash160 o_sha256 o_verify o_sign o_pub (o_sighash tag) db (arg_list arg_bytes p2sh)
        (arg_bool forkid) ht (arg_list arg_nat idxs) inputs in
    "(" ^ show_list show_sw res ^ " " ^ (match e with None -> "N" | Some e -> show_str (show_exn e)) ^ ")"
  | "eval", [tag; idx; std; strictenc; k; m; keys; h; s; w] ->
    let fl = { f_std = arg_bool std; f_strictenc = arg_bool strictenc } in
    show_bool (eval_input o_hash160 o_sha256 o_verify (o_sighash (arg_bytes tag) (arg_nat idx)) fl (puzzle_of k m keys h)
                 (arg_bytes s) (arg_list arg_bytes w))
  | "script_pubkey", [k; m; keys; h] -> show_bytes (script_pubkey o_hash160 o_sha256 (puzzle_of k m keys h))
  | "parse_sig_ok", [b] -> show_bool (parse_sig_ok (arg_bytes b))
  | "strict_der", [b] -> show_bool (strict_der (arg_bytes b))
  | "low_s", [b] -> show_bool (low_s (arg_bytes b))
  | "defined_hashtype", [b] -> show_bool (defined_hashtype (arg_bytes b))
  | "parse_pushes", [b] -> show_option (fun (items, mn) -> "(" ^ show_list show_bytes items ^ " " ^ show_bool mn ^ ")") (parse_pushes (arg_bytes b))
  | _ -> failwith ("unknown function " ^ f)
let () = main_loop dispatch
