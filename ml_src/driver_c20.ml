(* driver_c20.ml — dispatch table for the C20 model (Model/TxCheck.v).  Argument encodings as in driver_c07.ml:
     txin x<hash>:i<index>:x<script>:i<sequence>:<wit>   txout i<value>:x<script>   tx = i<version> [txin,..] [txout,..] i<lock_time>
     ids  [i<tag>,...]  identity tags of the txs_in objects      bits [T,F,...]  results of is_solution_ok(idx) *)
let split c s = String.split_on_char c s
let arg_wit t = if t = "N" then [] else List.map arg_bytes (split ';' t)
let arg_txin t = match split ':' t with
  | [h; i; s; q; w] -> { ti_hash = arg_bytes h; ti_index = arg_z i; ti_script = arg_bytes s; ti_sequence = arg_z q;
                         ti_witness = arg_wit w }
  | _ -> failwith ("arg_txin " ^ t)
let arg_txout t = match split ':' t with
  | [v; s] -> { to_value = arg_z v; to_script = arg_bytes s }
  | _ -> failwith ("arg_txout " ^ t)
let arg_unspent t = if t = "N" then None else Some (arg_txout t)
let arg_optz t = if t = "N" then None else Some (arg_z t)
let arg_tx v ins outs l = { tx_version = arg_z v; tx_ins = arg_list arg_txin ins; tx_outs = arg_list arg_txout outs;
                            tx_lock_time = arg_z l }
let show_unit () = "N"
let nth_bit bits n = let k = int_of_nat n in if k < List.length bits then List.nth bits k else false


(* histories (Model/TxObject.v): history <hash oracle> <tx: 4 tokens> <unspents> <op> <op> ...   op fields separated by '/' *)
let arg_flags t = (t.[0] = 'T', t.[1] = 'T', t.[2] = 'T')
let arg_op t = match split '/' t with
  | ["mw"; i; w] -> Mut (MSetWitness (arg_nat i, arg_wit w))
  | ["aw"; i; w] -> Mut (MAssignWitness (arg_nat i, arg_wit w))
  | ["iw"; i; w] -> Mut (MExtendWitness (arg_nat i, arg_wit w))
  | ["as"; i; s] -> Mut (MAssignInScript (arg_nat i, arg_bytes s))
  | ["ah"; i; s] -> Mut (MAssignInHash (arg_nat i, arg_bytes s))
  | ["ai"; i; z] -> Mut (MAssignInIndex (arg_nat i, arg_z z))
  | ["aq"; i; z] -> Mut (MAssignInSeq (arg_nat i, arg_z z))
  | ["pi"; x] -> Mut (MAppendIn (arg_txin x))
  | ["xi"] -> Mut MPopIn
  | ["ci"] -> Mut MClearIns
  | ["po"; o] -> Mut (MAppendOut (arg_txout o))
  | ["xo"] -> Mut MPopOut
  | ["co"] -> Mut MClearOuts
  | ["ov"; i; z] -> Mut (MAssignOutValue (arg_nat i, arg_z z))
  | ["os"; i; s] -> Mut (MAssignOutScript (arg_nat i, arg_bytes s))
  | ["av"; z] -> Mut (MAssignVersion (arg_z z))
  | ["al"; z] -> Mut (MAssignLockTime (arg_z z))
  | ["su"; us] -> Mut (MSetUnspents (arg_list arg_unspent us))
  | ["au"; us] -> Mut (MAssignUnspents (arg_list arg_unspent us))
  | ["ob"; fl] -> let (a, b, c) = arg_flags fl in Obs (OAsBin (a, b, c))
  | ["ox"; fl] -> let (a, b, c) = arg_flags fl in Obs (OAsHex (a, b, c))
  | ["oh"; ht] -> Obs (OHash (arg_optz ht))
  | ["ow"] -> Obs OWHash
  | ["ok"] -> Obs OBlankedHash
  | ["oi"] -> Obs OId
  | ["oj"] -> Obs OWId
  | ["on"] -> Obs OHasWitness
  | ["oc"] -> Obs OIsCoinbase
  | ["om"] -> Obs OMissingUnspents
  | ["ck"; mm; ms] -> Obs (OCheck (arg_z mm, arg_z ms))
  | _ -> failwith ("arg_op " ^ t)
let show_oval = function RBytes b -> show_bytes b | RBool b -> show_bool b | RNone -> "N"
let history h v ins outs l us ops =
  show_list (show_outcome show_oval)
    (run (oracle h) (List.map arg_op ops) { ob_tx = arg_tx v ins outs l; ob_unspents = arg_list arg_unspent us })

let dispatch f args = match f, args with
  | "history", h :: v :: ins :: outs :: l :: us :: ops -> history h v ins outs l us ops
  | "check", [coin; ids; v; ins; outs; l] ->
    show_outcome show_unit (check_coin (arg_bytes coin) (arg_list arg_n ids) (arg_tx v ins outs l))
  | "check_limits", [mm; ms; ids; v; ins; outs; l] ->
    show_outcome show_unit (check (arg_z mm) (arg_z ms) (arg_list arg_n ids) (arg_tx v ins outs l))
  | "check_tx_inout_count", [v; ins; outs; l] -> show_outcome show_unit (check_tx_inout_count (arg_tx v ins outs l))
  | "check_txs_out", [mm; v; ins; outs; l] -> show_outcome show_unit (check_txs_out (arg_z mm) (arg_tx v ins outs l))
  | "check_txs_in", [ids; v; ins; outs; l] -> show_outcome show_unit (check_txs_in (arg_list arg_n ids) (arg_tx v ins outs l))
  | "check_size_limit", [ms; v; ins; outs; l] -> show_outcome show_unit (check_size_limit (arg_z ms) (arg_tx v ins outs l))
  | "is_coinbase", [v; ins; outs; l] -> show_bool (tx_is_coinbase (arg_tx v ins outs l))
  | "txin_is_coinbase", [i] -> show_bool (txin_is_coinbase (arg_txin i))
  | "bad_solution_count", [bits; v; ins; outs; l] ->
    let bits = arg_list arg_bool bits in
    show_nat (bad_solution_count (nth_bit bits) (arg_tx v ins outs l))
  | "limits", [coin] -> show_option (show_pair show_z show_z) (coin_limits (arg_bytes coin))
  | _ -> failwith ("unknown function " ^ f)
let () = main_loop dispatch
