(* driver_c20.ml — dispatch table for the C20 model (Model/TxCheck.v).  Argument encodings as in driver_c07.ml:
     txin x<hash>:i<index>:x<script>:i<sequence>:<wit>   txout i<value>:x<script>   tx = i<version> [txin,..] [txout,..] i<lock_time>
     ids  [i<tag>,...]  identity tags of the txs_in objects      bits [T,F,...]  results of is_solution_ok(idx) *)
let split c s = String.split_on_char c s
let arg_wit t = if t = "N" then [] else List.map arg_bytes (split ';' t)
let arg_txin t = match split ':' t with
  | [h; i; s; q; w] -> { ti_hash = arg_bytes h; ti_index = arg_z i; ti_script = arg_bytes s; ti_sequence = arg_z q;
                         ti_witness = arg_wit w }
  | _ -> failwith ("arg_txin " ^ t)
let arg_txout t = match split ':' t with
  | [v; s] -> { to_value = arg_z v; to_script = arg_bytes s }
  | _ -> failwith ("arg_txout " ^ t)
let arg_tx v ins outs l = { tx_version = arg_z v; tx_ins = arg_list arg_txin ins; tx_outs = arg_list arg_txout outs;
                            tx_lock_time = arg_z l }
let show_unit () = "N"
let nth_bit bits n = let k = int_of_nat n in if k < List.length bits then List.nth bits k else false

let dispatch f args = match f, args with
  | "check", [coin; ids; v; ins; outs; l] ->
    show_outcome show_unit (check_coin (arg_bytes coin) (arg_list arg_n ids) (arg_tx v ins outs l))
  | "check_limits", [mm; ms; ids; v; ins; outs; l] ->
    show_outcome show_unit (check (arg_z mm) (arg_z ms) (arg_list arg_n ids) (arg_tx v ins outs l))
  | "check_tx_inout_count", [v; ins; outs; l] -> show_outcome show_unit (check_tx_inout_count (arg_tx v ins outs l))
  | "check_txs_out", [mm; v; ins; outs; l] -> show_outcome show_unit (check_txs_out (arg_z mm) (arg_tx v ins outs l))
  | "check_txs_in", [ids; v; ins; outs; l] -> show_outcome show_unit (check_txs_in (arg_list arg_n ids) (arg_tx v ins outs l))
  | "check_size_limit", [ms; v; ins; outs; l] -> show_outcome show_unit (check_size_limit (arg_z ms) (arg_tx v ins outs l))
  | "is_coinbase", [v; ins; outs; l] -> show_bool (tx_is_coinbase (arg_tx v ins outs l))
  | "txin_is_coinbase", [i] -> show_bool (txin_is_coinbase (arg_txin i))
  | "bad_solution_count", [bits; v; ins; outs; l] ->
    let bits = arg_list arg_bool bits in
    show_nat (bad_solution_count (nth_bit bits) (arg_tx v ins outs l))
  | "limits", [coin] -> show_option (show_pair show_z show_z) (coin_limits (arg_bytes coin))
  | _ -> failwith ("unknown function " ^ f)
let () = main_loop dispatch
