(* driver_c04.ml — dispatch for property C04 (signature hashes).
   Transaction tokens:  i<version> [<in>,...] [<out>,...] i<lock> [<unspent>,...]
     <in>      = <hash hex>:<index hex>:<script hex>:<sequence hex>
     <out>     = <value hex>:<script hex>
     <unspent> = N | <value hex>:<script hex>
   coin = BTC|LTC|BCH|BTG|GRS.  Hashes are answered by the harness (oracles sha256 / dsha256). *)
let hex_n s = if s = "" then N0 else n_of_hex s
let parse_in (t : string) : txin =
  match String.split_on_char ':' t with
  | [h; i; s; q] -> { ti_hash = bytes_of_hex h; ti_index = hex_n i; ti_script = bytes_of_hex s; ti_seq = hex_n q }
  | _ -> failwith ("parse_in " ^ t)
let parse_out (t : string) : txout =
  match String.split_on_char ':' t with
  | [v; s] -> { to_value = hex_n v; to_script = bytes_of_hex s }
  | _ -> failwith ("parse_out " ^ t)
let parse_unspent (t : string) : txout option = if t = "N" then None else Some (parse_out t)
let parse_tx v ins outs lock uns : tx =
  { tx_version = arg_n v; tx_ins = arg_list parse_in ins; tx_outs = arg_list parse_out outs;
    tx_lock = arg_n lock; tx_unspents = arg_list parse_unspent uns }
let parse_coin = function
  | "BTC" -> BTC | "LTC" -> LTC | "BCH" -> BCH | "BTG" -> BTG | "GRS" -> GRS | c -> failwith ("coin " ^ c)
(* the oracle with a small memo table: the BIP143 sub-hashes of one transaction recur for every hash type *)
let cached (name : string) : byte list -> byte list =
  let tbl : (string, byte list) Hashtbl.t = Hashtbl.create 4096 in
  fun data ->
    let k = hex_of_bytes data in
    match Hashtbl.find_opt tbl k with
    | Some r -> r
    | None ->
      let r = oracle name data in
      if Hashtbl.length tbl > 20000 then Hashtbl.reset tbl;
      Hashtbl.add tbl k r; r
let sha = cached "sha256"
let dsha = cached "dsha256"
let hash_of = function "d" -> dsha | "s" -> sha | h -> failwith ("hash " ^ h)
let show_presig = function PConst v -> "(C " ^ show_n v ^ ")" | PPreimage p -> "(P " ^ show_bytes p ^ ")"
let show_core = function CoreOne -> "(C " ^ show_bytes uint256_one ^ ")" | CorePreimage p -> "(P " ^ show_bytes p ^ ")"
let show_getop = function GOk (o, l) -> "(ok " ^ show_n o ^ " " ^ show_nat l ^ ")" | GFail a -> "(fail " ^ show_nat a ^ ")"
(* hash types: either one token i<hex> or a list [i..,i..]; a list gives a list of results *)
let over_hts (tok : string) (f : n -> string) : string =
  if String.length tok > 0 && tok.[0] = '[' then show_list f (arg_list arg_n tok) else f (arg_n tok)

(* ---- histories (Model/SighashHistory.v): ops = "op;op;...", fields separated by ':' (hex without prefix) ---- *)
let hnat s = if s = "" then O else nat_of_int (int_of_string ("0x" ^ s))
let parse_vs (t : string) : txout =          (* value-script *)
  match String.split_on_char '-' t with
  | [v; s] -> { to_value = hex_n v; to_script = bytes_of_hex s }
  | _ -> failwith ("parse_vs " ^ t)
let parse_slash f (t : string) = if t = "" then [] else List.map f (String.split_on_char '/' t)
let parse_uns t = if t = "N" then None else Some (parse_vs t)
let parse_op (t : string) : op =
  match String.split_on_char ':' t with
  | ["L"; s; i; h] -> Observe (ObsLegacy (bytes_of_hex s, hnat i, hex_n h))
  | ["S"; s; i; h] -> Observe (ObsSegwit (bytes_of_hex s, hnat i, hex_n h))
  | ["P"; s; i; h] -> Observe (ObsPreimage (bytes_of_hex s, hnat i, hex_n h))
  | ["HP"; h] -> Observe (ObsHashPrevouts (hex_n h))
  | ["HS"; h] -> Observe (ObsHashSequence (hex_n h))
  | ["HO"; h; i] -> Observe (ObsHashOutputs (hex_n h, hnat i))
  | ["TH"; h] -> Observe (ObsTxHash (if h = "" then None else Some (hex_n h)))
  | ["BH"] -> Observe ObsBlankedHash
  | ["mv"; v] -> Mutate (SetVersion (hex_n v))
  | ["ml"; v] -> Mutate (SetLockTime (hex_n v))
  | ["mh"; k; h] -> Mutate (SetInHash (hnat k, bytes_of_hex h))
  | ["mi"; k; v] -> Mutate (SetInIndex (hnat k, hex_n v))
  | ["ms"; k; s] -> Mutate (SetInScript (hnat k, bytes_of_hex s))
  | ["mq"; k; v] -> Mutate (SetInSeq (hnat k, hex_n v))
  | ["ia"; h; i; s; q] -> Mutate (AppendIn { ti_hash = bytes_of_hex h; ti_index = hex_n i; ti_script = bytes_of_hex s; ti_seq = hex_n q })
  | ["id"; k] -> Mutate (DelIn (hnat k))
  | ["ov"; k; v] -> Mutate (SetOutValue (hnat k, hex_n v))
  | ["os"; k; s] -> Mutate (SetOutScript (hnat k, bytes_of_hex s))
  | ["oa"; v; s] -> Mutate (AppendOut { to_value = hex_n v; to_script = bytes_of_hex s })
  | ["op"] -> Mutate PopOut
  | ["oc"] -> Mutate ClearOuts
  | ["or"; l] -> Mutate (ReplaceOuts (parse_slash parse_vs l))
  | ["us"; l] -> Mutate (SetUnspents (parse_slash parse_uns l))
  | ["u1"; k; u] -> Mutate (SetUnspent (hnat k, parse_uns u))
  | _ -> failwith ("parse_op " ^ t)
let show_hres = function HInt v -> show_n v | HBytes b -> show_bytes b | HDone -> "D"

let dispatch f args = match f, args with
  | "history", [c; v; ins; outs; lock; uns; ops] ->
    let t = parse_tx v ins outs lock uns in
    let ops = List.map parse_op (String.split_on_char ';' ops) in
    show_list (show_outcome show_hres) (run sha dsha (parse_coin c) t ops)
  | "delete_subscript", [s; sub] -> show_outcome show_bytes (delete_subscript (arg_bytes s) (arg_bytes sub))
  | "delete_signature", [s; sg] -> show_outcome show_bytes (delete_signature (arg_bytes s) (arg_bytes sg))
  | "sighash_f_script", [s; b; sigs] ->
    show_outcome show_bytes (sighash_f_script (arg_bytes s) (arg_nat b) (arg_list arg_bytes sigs))
  | "legacy_presig", [v; ins; outs; lock; uns; s; idx; ht] ->
    let t = parse_tx v ins outs lock uns in
    over_hts ht (fun h -> show_outcome show_presig (legacy_presig t (arg_bytes s) (arg_nat idx) h))
  | "sighash", [c; v; ins; outs; lock; uns; s; idx; ht] ->
    let t = parse_tx v ins outs lock uns in
    over_hts ht (fun h -> show_outcome show_n (signature_hash sha dsha (parse_coin c) t (arg_bytes s) (arg_nat idx) h))
  | "sighash_segwit", [c; v; ins; outs; lock; uns; s; idx; ht] ->
    let t = parse_tx v ins outs lock uns in
    over_hts ht (fun h -> show_outcome show_n (signature_for_hash_type_segwit sha dsha (parse_coin c) t (arg_bytes s) (arg_nat idx) h))
  | "segwit_preimage", [c; v; ins; outs; lock; uns; s; idx; ht] ->
    let t = parse_tx v ins outs lock uns in
    over_hts ht (fun h -> show_outcome show_bytes (segwit_preimage sha dsha (parse_coin c) t (arg_bytes s) (arg_nat idx) h))
  (* ---- the Core / BIP143 specification (Spec/SighashCore.v) ---- *)
  | "spec_get_op", [s] -> show_getop (core_get_op (arg_bytes s))
  | "spec_decodable", [s] -> show_bool (core_decodable (arg_bytes s))
  | "spec_fad", [b; s] -> show_bytes (core_find_and_delete (arg_bytes b) (arg_bytes s))
  | "spec_push", [v] -> show_bytes (core_push (arg_bytes v))
  | "spec_script_code_base", [s; sigs] -> show_bytes (core_script_code_base (arg_bytes s) (arg_list arg_bytes sigs))
  | "spec_ser_script_code", [s] -> show_bytes (ser_script_code (arg_bytes s))
  | "spec_legacy", [v; ins; outs; lock; uns; s; idx; ht] ->      (* original formulation: all scripts *)
    let t = to_core (parse_tx v ins outs lock uns) in
    over_hts ht (fun h -> show_core (core_signature_hash_old (arg_bytes s) t (arg_nat idx) h))
  | "spec_legacy_streaming", [v; ins; outs; lock; uns; s; idx; ht] ->   (* today's SerializeScriptCode *)
    let t = to_core (parse_tx v ins outs lock uns) in
    over_hts ht (fun h -> show_core (core_signature_hash_legacy (arg_bytes s) t (arg_nat idx) h))
  | "spec_bip143", [hf; v; ins; outs; lock; uns; s; idx; amount; ht] ->
    let t = to_core (parse_tx v ins outs lock uns) in
    over_hts ht (fun h -> show_bytes (bip143_preimage (hash_of hf) (arg_bytes s) t (arg_nat idx) (arg_n amount) h))
  | "spec_forkid", [hf; fk; v; ins; outs; lock; uns; s; idx; amount; ht] ->
    let t = to_core (parse_tx v ins outs lock uns) in
    over_hts ht (fun h -> show_option show_bytes (forkid_preimage (hash_of hf) (arg_n fk) (arg_bytes s) t (arg_nat idx) (arg_n amount) h))
  | "plain_push", [sg] -> show_outcome show_bytes (plain_push (arg_bytes sg))
  | _ -> failwith ("unknown function " ^ f)
let () = main_loop dispatch
