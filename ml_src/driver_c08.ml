(* driver_c08.ml — line protocol for C08 (addresses <-> scripts).  The Base58Check / segwit codecs and the
   hashes are oracle callbacks answered by the harness with pycoin's own codecs (harness/c08.py ORACLES). *)
let o_hash160 = oracle "hash160"
let o_sha256 = oracle "sha256"
let o_b58enc = oracle "b58enc"
let opt_of_reply (r : byte list) : byte list option =
  match r with [] -> None | t :: rest -> if int_of_byte t = 0 then None else Some rest
let o_b58dec (s : byte list) : byte list option = opt_of_reply (oracle "b58dec" s)
let rec take_n k l = if k = 0 then [] else (match l with [] -> [] | x :: r -> x :: take_n (k - 1) r)
let rec drop_n k l = if k = 0 then l else (match l with [] -> [] | _ :: r -> drop_n (k - 1) r)
let o_segenc (hrp : byte list) (v : n) (prog : byte list) : byte list option =
  opt_of_reply (oracle "segenc" (byte_of_int (List.length hrp) :: hrp @ (byte_of_int (int_of_n v) :: prog)))
let o_segparse (s : byte list) =
  match opt_of_reply (oracle "segparse" s) with
  | None -> None
  | Some r ->
    (match r with
     | l :: rest ->
       let l = int_of_byte l in
       let hrp = take_n l rest in
       (match drop_n l rest with
        | ver :: spec :: data -> Some (((hrp, n_of_int (int_of_byte ver)), data), n_of_int (int_of_byte spec))
        | _ -> failwith "segparse reply")
     | [] -> failwith "segparse reply")

let show_text (l : byte list) = "s" ^ hex_of_bytes l
let s_lit (s : string) = "s" ^ String.concat "" (List.map (fun c -> Printf.sprintf "%02x" (Char.code c)) (List.init (String.length s) (String.get s)))
let show_info = function
  | IP2PKH h -> "(" ^ s_lit "p2pkh" ^ " " ^ show_bytes h ^ ")"
  | IP2PKH_WIT h -> "(" ^ s_lit "p2pkh_wit" ^ " " ^ show_bytes h ^ ")"
  | IP2SH_WIT h -> "(" ^ s_lit "p2sh_wit" ^ " " ^ show_bytes h ^ ")"
  | IP2SH h -> "(" ^ s_lit "p2sh" ^ " " ^ show_bytes h ^ ")"
  | IP2PK h -> "(" ^ s_lit "p2pk" ^ " " ^ show_bytes h ^ ")"
  | IP2TR h -> "(" ^ s_lit "p2tr" ^ " " ^ show_bytes h ^ ")"
  | INulldata h -> "(" ^ s_lit "nulldata" ^ " " ^ show_bytes h ^ ")"
  | IMultisig (m, keys) -> "(" ^ s_lit "multisig" ^ " " ^ show_z m ^ " " ^ show_list show_bytes keys ^ ")"
  | IUnknown h -> "(" ^ s_lit "unknown" ^ " " ^ show_bytes h ^ ")"

let net_of (t : string) : netrow =
  match find_network networks (arg_bytes t) with Some n -> n | None -> failwith ("unknown network " ^ t)

(* captures grouped per placeholder kind (the dict of lists), plus truthiness *)
let show_caps (r : (cap * byte list option) list option) =
  match r with
  | None -> "N"
  | Some l ->
    let grp k = show_list (show_option show_bytes) (List.map snd (List.filter (fun (c, _) -> c = k) l)) in
    "(" ^ String.concat " " (List.map grp [CPubkey; CPubkeyHash; CSegwit; CData; CSynth]) ^ ")"

let arg_tmpl_item (t : string) =
  let body = "x" ^ String.sub t 1 (String.length t - 1) in
  ((t.[0] = 'q'), arg_bytes body)

(* a parsed Contract: (info, script(), address()) *)
let show_contract net (i : info) =
  "(" ^ show_info i ^ " " ^ show_outcome show_bytes (for_info i) ^ " "
  ^ show_outcome (show_option show_text) (address_for_script_info o_b58enc o_segenc o_hash160 net i) ^ ")"

let info_of_kind (k : int) (p : byte list) : info =
  if k <= 4 then kind_info (n_of_int k) p else if k = 5 then IP2PK p else INulldata p

let dispatch f args = match f, args with
  | "for_kind", [k; p] -> show_outcome show_bytes (for_info (info_of_kind (arg_int k) (arg_bytes p)))
  | "for_multisig", [m; keys] -> show_outcome show_bytes (contract_for_multisig (arg_z m) (arg_list arg_bytes keys))
  | "info_for_script", [s] -> show_outcome show_info (info_for_script (arg_bytes s))
  | "multisig_info", [s] -> show_outcome (show_option show_info) (info_from_multisig_script (arg_bytes s))
  | "match", [t; s] -> show_outcome show_caps (contract_match (arg_list arg_tmpl_item t) (arg_bytes s))
  | "match_std", [k; s] ->
    show_outcome show_caps (contract_match (List.nth match_templates (arg_int k)) (arg_bytes s))
  | "addr", [net; which; p] ->
    let net = net_of net and p = arg_bytes p in
    let so = show_outcome (show_option show_text) in
    (match which with
     | "p2pkh" -> so (Ret (address_for_p2pkh o_b58enc net p))
     | "p2sh" -> so (Ret (address_for_p2sh o_b58enc net p))
     | "p2pkh_wit" -> so (address_for_p2pkh_wit o_segenc net p)
     | "p2sh_wit" -> so (address_for_p2sh_wit o_segenc net p)
     | "p2tr" -> so (Ret (address_for_p2tr o_segenc net p))
     | "p2s" -> so (Ret (address_for_p2s o_b58enc o_hash160 net p))
     | "p2s_wit" -> so (address_for_p2s_wit o_segenc o_sha256 net p)
     | "script" -> so (address_for_script o_b58enc o_segenc o_hash160 net p)
     | _ -> failwith "addr which")
  | "parse", [net; which; s] ->
    let net = net_of net and s = arg_bytes s in
    let r = (match which with
     | "address" -> parse_address o_b58dec o_segparse net s
     | "p2pkh" -> parse_p2pkh o_b58dec net s
     | "p2sh" -> parse_p2sh o_b58dec net s
     | "p2pkh_segwit" -> parse_p2pkh_segwit o_segparse net s
     | "p2sh_segwit" -> parse_p2sh_segwit o_segparse net s
     | "p2tr" -> parse_p2tr o_segparse net s
     | _ -> failwith "parse which") in
    show_outcome (show_option (show_contract net)) r
  | "parse_seq", [nets; s] ->
    (* ONE parseable_str offered to the networks in turn: the cache travels with it *)
    let nets = List.map net_of (String.split_on_char ',' nets) and s = arg_bytes s in
    let rs = parse_address_seq o_b58dec o_segparse nets s pcache_empty in
    show_list (fun (net, r) -> show_outcome (show_option (show_contract net)) r) (List.combine nets rs)
  | "for_address", [net; s] ->
    show_outcome (show_option show_bytes) (contract_for_address o_b58dec o_segparse (net_of net) (arg_bytes s))
  | "key_address", [net; sec] -> show_option show_text (key_address o_b58enc o_hash160 (net_of net) (arg_bytes sec))
  | "bip49_address", [net; sec] ->
    show_outcome (show_option show_text) (bip49_address o_b58enc o_hash160 (net_of net) (arg_bytes sec))
  | "bip84_address", [net; sec] ->
    show_outcome (show_option show_text) (bip84_address o_segenc o_hash160 (net_of net) (arg_bytes sec))
  | _ -> failwith ("unknown function " ^ f)
let () = main_loop dispatch
