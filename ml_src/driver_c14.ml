(* driver_c14.ml — dispatch for C14.  Hash oracles: dsha256 / sha256 (answered by hashlib).
   Transactions are opaque to the model: the oracle "txparse_<coin>" is asked with the unread stream and answers
   00 | consumed (4 bytes BE) | txid (32) | as_bin   or   <exception code>   (computed by the real Tx class). *)
type dtx = { d_raw : byte list; d_txid : byte list }
let exn_of_code c = match c with
  | 1 -> E_STRUCT | 2 -> E_TYPE | 3 -> E_VALUE | 4 -> E_INDEX | 5 -> E_ASSERT | 6 -> E_ATTR | 7 -> E_KEY
  | 8 -> E_OVERFLOW | _ -> E_OTHER
let rec ltake n l = if n <= 0 then [] else (match l with [] -> [] | x :: r -> x :: ltake (n - 1) r)
let rec ldrop n l = if n <= 0 then l else (match l with [] -> [] | _ :: r -> ldrop (n - 1) r)
let parse_tx_oracle (name : string) (s : byte list) =
  let a = oracle name s in
  match a with
  | st :: c3 :: c2 :: c1 :: c0 :: rest when int_of_byte st = 0 ->
    let consumed = ((int_of_byte c3 * 256 + int_of_byte c2) * 256 + int_of_byte c1) * 256 + int_of_byte c0 in
    Ret ({ d_raw = ldrop 32 rest; d_txid = ltake 32 rest }, ldrop consumed s)
  | st :: _ -> Raise (exn_of_code (int_of_byte st))
  | [] -> Raise E_OTHER

let dsha = oracle "dsha256"
let show_header h =
  "(" ^ show_n h.h_version ^ " " ^ show_bytes h.h_prev ^ " " ^ show_bytes h.h_merkle_root ^ " " ^
  show_n h.h_timestamp ^ " " ^ show_n h.h_difficulty ^ " " ^ show_n h.h_nonce ^ ")"
let mk_header v p m t d n =
  { h_version = arg_n v; h_prev = arg_bytes p; h_merkle_root = arg_bytes m;
    h_timestamp = arg_n t; h_difficulty = arg_n d; h_nonce = arg_n n }
let show_blist = show_list show_bytes
let show_block_result stream_tx (b, rest) =
  "(" ^ show_header b.b_header ^ " " ^ show_blist (List.map (fun t -> t.d_txid) b.b_txs) ^ " " ^
  "i" ^ Printf.sprintf "%x" (List.length rest) ^ " " ^ show_outcome show_bytes (block_stream stream_tx b) ^ " " ^
  show_outcome show_bytes (block_id dsha b.b_header) ^ ")"

let arg_op (t : string) : block_op =
  let body = String.sub t 1 (String.length t - 1) in
  match t.[0] with
  | 'h' -> OpHash | 'i' -> OpId | 'S' -> OpId          (* S = str(b): shows id() *)
  | 's' -> OpStreamHeader | 'a' -> OpStreamHeader       (* a = as_bin() of a header-only object *)
  | 'n' -> OpSetNonce (n_of_hex body) | 'v' -> OpSetVersion (n_of_hex body)
  | 't' -> OpSetTimestamp (n_of_hex body) | 'd' -> OpSetDifficulty (n_of_hex body)
  | 'p' -> OpSetPrev (bytes_of_hex body) | 'r' -> OpSetRoot (bytes_of_hex body)
  | _ -> failwith ("arg_op " ^ t)
let show_obs = show_list (show_outcome show_bytes)

let arg_pyval (t : string) : pyval =
  match t with
  | "N" -> VNone | "T" -> VBool true | "F" -> VBool false
  | _ -> VInt (arg_z t)
let bytes_of_ascii (s : string) : byte list = List.init (String.length s) (fun i -> byte_tab.(Char.code s.[i]))
let arg_kw (t : string) =
  match String.index_opt t '=' with
  | Some i -> (bytes_of_ascii (String.sub t 0 i), arg_pyval (String.sub t (i + 1) (String.length t - i - 1)))
  | None -> failwith ("arg_kw " ^ t)

let dispatch f args = match f, args with
  | "block_parse_call", [coin; pos; kw; s] ->
    let coin = (match coin with "sbtc" -> "btc" | "sltc" -> "ltc" | _ -> failwith "coin") in
    show_outcome (show_block_result (fun t -> t.d_raw))
      (block_parse_call (parse_tx_oracle ("txparse_" ^ coin)) (fun t -> t.d_txid) dsha
         (arg_list arg_pyval pos) (arg_list arg_kw kw) (arg_bytes s))
  | "block_history", [v; p; m; t; d; n; ops] ->
    show_obs (obj_run dsha { o_header = mk_header v p m t d n; o_memo = None } (arg_list arg_op ops))
  | "block_history_spec", [v; p; m; t; d; n; ops] ->
    show_obs (spec_run dsha (mk_header v p m t d n) (arg_list arg_op ops))
  | "merkle", [hs] -> show_outcome show_bytes (merkle dsha (arg_list arg_bytes hs))
  | "merkle_sha", [hs] -> show_outcome show_bytes (merkle (oracle "sha256") (arg_list arg_bytes hs))
  | "merkle_pair", [hs] -> show_outcome show_blist (merkle_pair dsha (arg_list arg_bytes hs))
  | "merkle_spec", [hs] -> show_bytes (merkle_root dsha (arg_list arg_bytes hs))
  | "parse_header", [s] ->
    show_outcome (fun (h, r) -> "(" ^ show_header h ^ " " ^ show_bytes r ^ ")") (parse_header (arg_bytes s))
  | "stream_header", [v; p; m; t; d; n] -> show_outcome show_bytes (stream_header (mk_header v p m t d n))
  | "block_hash", [v; p; m; t; d; n] -> show_outcome show_bytes (block_hash dsha (mk_header v p m t d n))
  | "block_id", [v; p; m; t; d; n] -> show_outcome show_bytes (block_id dsha (mk_header v p m t d n))
  | "set_nonce_hash", [v; p; m; t; d; n; n2] ->
    show_outcome show_bytes (block_hash dsha (set_nonce (mk_header v p m t d n) (arg_n n2)))
  | "block_parse", [coin; inc; chk; s] ->
    let coin = (match coin with "sbtc" -> "btc" | "sltc" -> "ltc" | _ -> failwith "coin") in
    show_outcome (show_block_result (fun t -> t.d_raw))
      (block_parse (parse_tx_oracle ("txparse_" ^ coin)) (fun t -> t.d_txid) dsha (arg_bool inc) (arg_bool chk) (arg_bytes s))
  | "post_unpack", [total; hs; flags; root] ->
    show_outcome show_blist (post_unpack dsha (arg_n total) (arg_list arg_bytes hs) (arg_bytes flags) (arg_bytes root))
  | "parse_merkleblock", [s] -> show_outcome show_blist (parse_merkleblock dsha (arg_bytes s))
  | "build", [txids; ms] ->
    let ((total, hashes), flags) = partial_merkle_tree dsha (arg_list arg_bytes txids) (arg_list arg_bool ms) in
    "(" ^ show_n total ^ " " ^ show_blist hashes ^ " " ^ show_bytes flags ^ ")"
  | "matched", [txids; ms] -> show_blist (matched (arg_list arg_bytes txids) (arg_list arg_bool ms))
  | "level_widths", [t] -> show_outcome (show_list show_n) (level_widths (arg_n t))
  | _ -> failwith ("unknown function " ^ f)
let () = main_loop dispatch
