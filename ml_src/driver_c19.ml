(* driver_c19.ml — dispatch for property C19 (concatenated after ml/c19.ml and drvlib.ml) *)
let show_st5 ((((a, b), c), d), e) =
  "(" ^ show_z a ^ " " ^ show_z b ^ " " ^ show_z c ^ " " ^ show_z d ^ " " ^ show_z e ^ ")"
let native = oracle "ripemd160"
let sha = oracle "sha256"
(* one operation of a BloomFilter history: A:x.. H:x.. S:x..:i.. B:i.. C:i.. L T:i.. K:i.. P:i..:i.. R:x.. *)
let arg_op t =
  match String.split_on_char ':' t with
  | ["A"; d] -> OpAdd (arg_bytes d)
  | ["H"; d] -> OpAddHash160 (arg_bytes d)
  | ["S"; d; i] -> OpAddSpendable (arg_bytes d, arg_z i)
  | ["B"; v] -> OpSetBit (arg_z v)
  | ["C"; v] -> OpCheckBit (arg_z v)
  | ["L"] -> OpLoad
  | ["T"; v] -> OpSetTweak (arg_z v)
  | ["K"; v] -> OpSetK (arg_z v)
  | ["P"; i; v] -> OpPoke (arg_z i, arg_z v)
  | ["R"; d] -> OpReplace (arg_bytes d)
  | _ -> failwith ("arg_op " ^ t)
let show_obs = function
  | ObsNone -> "N"
  | ObsBool b -> show_bool b
  | ObsLoad (v, k, t) -> "(" ^ show_bytes v ^ " " ^ show_z k ^ " " ^ show_z t ^ ")"
let dispatch f args = match f, args with
  | "fi", [x; y; z; i] -> show_outcome show_z (c19_fi (arg_z x) (arg_z y) (arg_z z) (arg_z i))
  | "rol", [x; i] -> show_z (c19_rol (arg_z x) (arg_z i))
  | "compress", [h0; h1; h2; h3; h4; b] ->
    show_outcome show_st5 (c19_compress ((((arg_z h0, arg_z h1), arg_z h2), arg_z h3), arg_z h4) (arg_bytes b))
  | "pure_ripemd160", [d] -> show_outcome show_bytes (c19_pure_ripemd160 (arg_bytes d))
  | "spec_ripemd160", [d] -> show_bytes (c19_spec_ripemd160 (arg_bytes d))
  | "choice", [a; e; n; p] -> show_z (c19_choice (arg_bool a) (arg_bool e) (arg_bool n) (arg_bool p))
  | "hash_ripemd160", [a; e; n; p; d] ->
    show_outcome show_bytes (c19_hash_ripemd160 native native (arg_bool a) (arg_bool e) (arg_bool n) (arg_bool p) (arg_bytes d))
  | "hash160", [a; e; n; p; d] ->
    show_outcome show_bytes (c19_hash160 sha native native (arg_bool a) (arg_bool e) (arg_bool n) (arg_bool p) (arg_bytes d))
  | "double_sha256", [d] -> show_bytes (c19_double_sha256 sha (arg_bytes d))
  | "murmur3", [d; s] -> show_outcome show_z (c19_murmur3 (arg_bytes d) (arg_z s))
  | "spec_murmur3", [d; s] -> show_z (c19_spec_murmur3 (arg_bytes d) (arg_z s))
  | "bloom", [sz; k; t; items] ->
    show_outcome show_bytes (c19_bloom (arg_z sz) (arg_z k) (arg_z t) (arg_list arg_bytes items))
  | "spec_bloom", [sz; k; t; items] ->
    show_bytes (c19_spec_bloom (arg_z sz) (arg_z k) (arg_z t) (arg_list arg_bytes items))
  | "spec_contains", [v; k; t; item] ->
    show_bool (c19_spec_contains (arg_bytes v) (arg_z k) (arg_z t) (arg_bytes item))
  | "bloom_bits", [sz; sets; checks] ->
    show_outcome (show_pair show_bytes (show_list show_bool))
      (c19_bloom_bits (arg_z sz) (arg_list arg_z sets) (arg_list arg_z checks))
  | "bloom_history", [sz; k; t; ops] ->
    show_outcome (show_pair show_bytes (show_list show_obs))
      (c19_bloom_history (arg_z sz) (arg_z k) (arg_z t) (arg_list arg_op ops))
  | "spec_history", [sz; k; t; ops] ->
    show_pair show_bytes (show_list show_obs)
      (c19_spec_history (arg_z sz) (arg_z k) (arg_z t) (arg_list arg_op ops))
  | _ -> failwith ("unknown function " ^ f)
let () = main_loop dispatch
