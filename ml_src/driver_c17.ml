(* driver_c17.ml — dispatch for property C17 (concatenated after ml/c17.ml and drvlib.ml).
   curve = six ints (p a b gx gy n); key = "P" x y | "H" x<hash160> | "HN" | "U". *)
let fuel = nat_of_int 64
let dsha = oracle "dsha256"
let h160 = oracle "hash160"
let show_pt = function None -> "N" | Some (x, y) -> "(" ^ show_z x ^ " " ^ show_z y ^ ")"
let show_pair_c (q, c) = "(" ^ show_pt q ^ " " ^ show_bool c ^ ")"
let show_rs3 ((r, s), recid) = "(" ^ show_z r ^ " " ^ show_z s ^ " " ^ show_z recid ^ ")"
let show_dec (((c, recid), r), s) = "(" ^ show_bool c ^ " " ^ show_z recid ^ " " ^ show_z r ^ " " ^ show_z s ^ ")"
let curve_of p a b gx gy n = { cp = arg_z p; ca = arg_z a; cb = arg_z b; cgx = arg_z gx; cgy = arg_z gy; cn = arg_z n }
let opt_bytes t = if t = "N" then None else Some (arg_bytes t)
let opt_z t = if t = "N" then None else Some (arg_z t)
(* key tokens are consumed from the argument list *)
let kind_of = function "p2pkh" -> AK_p2pkh | "p2pkh_wit" -> AK_p2pkh_wit | "other" -> AK_other | k -> failwith ("kind " ^ k)
let take_key = function
  | "A" :: k :: h :: r -> (KAddr (kind_of k, Some (arg_bytes h)), r)
  | "AN" :: k :: r -> (KAddr (kind_of k, None), r)
  | "P" :: x :: y :: r -> (KPair (arg_z x, arg_z y), r)
  | "H" :: h :: r -> (KHash (Some (arg_bytes h)), r)
  | "HN" :: r -> (KHash None, r)
  | "U" :: r -> (KUnparseable, r)
  | _ -> failwith "key"
(* a str travels as the hex of its UTF-32-BE encoding: 8 hex digits per code point *)
let arg_ustr (t : string) : n list =
  if String.length t = 0 || t.[0] <> 'u' then failwith ("arg_ustr " ^ t) else
  let k = (String.length t - 1) / 8 in
  List.init k (fun i -> n_of_hex (String.sub t (1 + 8 * i) 8))
let show_ustr (l : n list) = "u" ^ String.concat "" (List.map (fun c -> Printf.sprintf "%08x" (int_of_n c)) l)
let show_msa ((m, a), s) = "(" ^ show_ustr m ^ " " ^ show_ustr a ^ " " ^ show_ustr s ^ ")"
let dispatch f args = match f, args with
  | "b64dec", [t] -> show_outcome show_bytes (a2b_base64 (arg_bytes t))
  | "b64enc", [d] -> show_bytes (bstrip (b2a_base64 (arg_bytes d)))
  | "decode", [t] -> show_outcome show_dec (decode_signature (arg_bytes t))
  | "magic", [nm] -> show_bytes (msg_magic (arg_bytes nm))
  | "hash", [nm; m] -> show_outcome show_z (t_hash_for_signing dsha (arg_bytes nm) (arg_bytes m))
  | "mul", [p; a; b; gx; gy; n; e] -> show_pt (tsmul (curve_of p a b gx gy n) (arg_z e) (tG (curve_of p a b gx gy n)))
  | "signrs", [p; a; b; gx; gy; n; k; d; z] ->
    show_outcome show_rs3 (t_sign_with_recid (curve_of p a b gx gy n) (arg_z k) fuel (arg_z d) (arg_z z))
  | "sign", [p; a; b; gx; gy; n; k; d; z; c] ->
    show_outcome show_bytes (t_signature_for_message_hash (curve_of p a b gx gy n) (arg_z k) fuel (arg_z d) (arg_z z) (arg_bool c))
  | "signmsg", [p; a; b; gx; gy; n; k; nm; d; c; m] ->
    show_outcome show_bytes (t_sign_message dsha (curve_of p a b gx gy n) (arg_z k) fuel (msg_magic (arg_bytes nm)) (arg_z d) (arg_bool c) (arg_bytes m))
  | "recover", [p; a; b; gx; gy; n; t; z] ->
    show_outcome show_pair_c (t_pair_for_message_hash (curve_of p a b gx gy n) (arg_bytes t) (arg_z z))
  | "verify", p :: a :: b :: gx :: gy :: n :: rest ->
    let (key, rest) = take_key rest in
    (match rest with
     | [t; nm; m; mh] ->
       show_outcome show_bool (t_verify_message dsha h160 (curve_of p a b gx gy n) key (arg_bytes t)
                                 (msg_magic (arg_bytes nm)) (opt_bytes m) (opt_z mh))
     | _ -> failwith "verify args")
  | "utf8", [u] -> (match utf8_encode (arg_ustr u) with Some b -> show_bytes b | None -> "!E_VALUE")   (* UnicodeEncodeError *)
  | "hashu", [nm; u] ->
    (match utf8_encode (arg_ustr nm), utf8_encode (arg_ustr u) with
     | Some a, Some b -> show_outcome show_z (t_hash_for_signing dsha a b)
     | _, _ -> "!E_VALUE")
  | "armour", [nt; m; a; s] -> show_ustr (armour (arg_ustr nt) (arg_ustr m) (arg_ustr a) (arg_ustr s))
  | "parse_signed", [t] -> show_outcome show_msa (parse_signed_message (arg_ustr t))
  | "parse_sections", [t] -> show_outcome (show_pair show_ustr show_ustr) (parse_sections (arg_ustr t))
  | _ -> failwith ("unknown function " ^ f)
let () = main_loop dispatch
