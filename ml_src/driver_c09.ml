(* driver_c09.ml — dispatch table for C09 (BIP32 / Electrum hierarchical keys).
   Points are scalars mod n inside the model (see coq/Extract/ExtractC09.v); they are SHOWN as their compressed SEC,
   obtained from the oracle "c09_sec" (the harness computes scalar*G with pycoin's generator).
   Tokens: "N" = None; bool option T/F/N; str as x<hex of Latin-1 code points>.
   A node argument is six tokens: x<chain> i<depth> x<fpr> i<index> <i<secret>|N> i<point scalar>. *)
let osec = oracle "c09_sec"
let oxy = oracle "c09_xy"
let ounsec = oracle "c09_unsec"
let ohmac = oracle "hmac_sha512"
let oh160 = oracle "hash160"
let odsha = oracle "dsha256"

let arg_opt f t = if t = "N" then None else Some (f t)
let arg_boolopt t = if t = "N" then None else Some (t = "T")
let show_node (nd : z node) =
  "(" ^ show_bytes nd.nd_chain ^ " " ^ show_z nd.nd_depth ^ " " ^ show_bytes nd.nd_fpr ^ " " ^ show_z nd.nd_index ^ " " ^
  show_option show_z nd.nd_secret ^ " " ^ show_bytes (c09_sec osec nd.nd_point) ^ ")"
let show_ew (w : z ewallet) =
  "(" ^ show_option show_z w.ew_secret ^ " " ^ show_bytes (c09_xy oxy w.ew_point) ^ ")"
let show_exnopt = function None -> "N" | Some e -> "!" ^ show_exn e
let mk_node c d f i s p : z node =
  { nd_chain = arg_bytes c; nd_depth = arg_z d; nd_fpr = arg_bytes f; nd_index = arg_z i; nd_secret = arg_opt arg_z s;
    nd_point = arg_z p }
let mk_net a b c d : bipnet =
  { bn_print_prv = arg_opt arg_bytes a; bn_print_pub = arg_opt arg_bytes b; bn_parse_prv = arg_opt arg_bytes c;
    bn_parse_pub = arg_opt arg_bytes d; bn_print_codec = N0; bn_parse_codec = N0 }

(* cache path "i5:T:F|i0:F:T" ("" = the root object) *)
let arg_ckey t = match String.split_on_char ':' t with
  | [i; h; a] -> ((arg_z i, arg_bool h), arg_bool a)
  | _ -> failwith ("arg_ckey " ^ t)
let arg_cpath t = if t = "" then [] else List.map arg_ckey (String.split_on_char '|' t)
let arg_op t = match String.split_on_char ';' t with
  | ["S"; p; i; h; a] -> OpSubkey (arg_cpath p, arg_z i, arg_bool h, arg_boolopt a)
  | ["P"; p; s] -> OpPath (arg_cpath p, arg_bytes s)
  | ["K"; p; s] -> OpSubkeys (arg_cpath p, arg_bytes s)
  | _ -> failwith ("arg_op " ^ t)
let show_opres = function
  | RNode r -> show_outcome show_node r
  (* a generator that raises before its first yield is observed as "no element, then the exception" *)
  | RList (Raise e) -> "([] !" ^ show_exn e ^ ")"
  | RList r -> show_outcome (fun (ks, e) -> "(" ^ show_list show_node ks ^ " " ^ show_exnopt e ^ ")") r
  | RSkip -> "SKIP"
(* family operation "<root number>@<operation>": operation = an hdop token, or "Y;<cpath>" (public_copy) / "R;<cpath>" (re-read) *)
let arg_fop t =
  match String.index_opt t '@' with
  | None -> failwith ("arg_fop " ^ t)
  | Some k ->
    let r = nat_of_int (int_of_string (String.sub t 0 k)) in
    let body = String.sub t (k + 1) (String.length t - k - 1) in
    (match String.split_on_char ';' body with
     | ["Y"; p] -> FPublicCopy (r, arg_cpath p)
     | ["R"; p] -> FReload (r, arg_cpath p)
     | _ -> FCall (r, arg_op body))
let show_fres (_, x) = match x with
  | FRes r -> show_opres r
  | FNew r -> show_outcome show_node r
  | FSkip -> "SKIP"
let show_pairopt = function
  | None -> "N"
  | Some (a, b) -> "(" ^ show_bytes a ^ " " ^ show_bytes b ^ ")"

let root_of seed pub =
  match c09_master ohmac (arg_bytes seed) with
  | Ret m -> if arg_bool pub then c09_public_copy m else Ret m
  | other -> other

let dispatch f args = match f, args with
  | "master", [seed] -> show_outcome show_node (c09_master ohmac (arg_bytes seed))
  | "ops", [seed; pub; ops] ->
    (match root_of seed pub with
     | Ret root -> show_list show_opres (c09_run_ops osec ohmac oh160 root (arg_list arg_op ops))
     | Raise e -> "!" ^ show_exn e
     | OutOfFuel -> "!OUT_OF_FUEL")
  | "fops", [seed; pub; ops] ->
    (match root_of seed pub with
     | Ret root -> show_list show_fres (c09_run_fops osec ounsec ohmac oh160 root (arg_list arg_fop ops))
     | Raise e -> "!" ^ show_exn e
     | OutOfFuel -> "!OUT_OF_FUEL")
  | "node_ops", [c; d; fp; i; s; p; ops] ->
    show_list show_opres (c09_run_ops osec ohmac oh160 (mk_node c d fp i s p) (arg_list arg_op ops))
  | "ckd_priv", [k; chain; i; h; usepub] ->
    show_outcome (show_pair show_z show_bytes) (c09_ckd_priv osec ohmac (arg_z k) (arg_bytes chain) (arg_z i) (arg_bool h) (arg_bool usepub))
  | "ckd_pub", [p; chain; i] ->
    show_outcome (fun (q, c) -> "(" ^ show_bytes (c09_sec osec q) ^ " " ^ show_bytes c ^ ")")
      (c09_ckd_pub osec ohmac (arg_z p) (arg_bytes chain) (arg_z i))
  | "serialize", [c; d; fp; i; s; p; ap] -> show_outcome show_bytes (c09_serialize osec (mk_node c d fp i s p) (arg_boolopt ap))
  | "node_init", [c; d; fp; i; sx; p] ->
    show_outcome show_node (c09_node_init (arg_bytes c) (arg_z d) (arg_bytes fp) (arg_z i) (arg_opt arg_z sx) (arg_opt arg_z p))
  | "deserialize", [data] -> show_outcome show_node (c09_deserialize ounsec (arg_bytes data))
  | "hwif_data", [a; b; c; d; fp; i; s; p; ap] ->
    show_outcome show_bytes (c09_hwif_data osec (mk_net a b a b) (mk_node c d fp i s p) (arg_bool ap))
  | "hparse_data", [prefix; prv; data] ->
    show_outcome (show_option show_node)
      (c09_hparse_data ounsec (mk_net "N" "N" prefix prefix) (arg_bool prv) (arg_opt arg_bytes data))
  | "parse_hd_data", [a; b; data] ->
    show_outcome (show_option show_node) (c09_parse_hd_data ounsec (mk_net "N" "N" a b) (arg_opt arg_bytes data))
  | "subpaths", [s] -> show_outcome (show_list show_bytes) (c09_subpaths (arg_bytes s))
  | "py_int", [s] -> show_outcome show_z (c09_py_int (arg_bytes s))
  | "py_dec", [v] -> show_bytes (c09_py_dec (arg_z v))
  | "path_token", [s] -> show_outcome (show_pair show_z show_bool) (c09_path_token (arg_bytes s))
  | "path_tokens", [s] -> show_pair show_bool (show_list show_bytes) (c09_path_tokens (arg_bytes s))
  | "electrum_subkey", [s; p; path] ->
    show_outcome show_ew
      (match c09_electrum_init (arg_opt arg_z s) (if s = "N" then Some (arg_z p) else None) with
       | Ret w -> c09_electrum_subkey oxy odsha w (arg_bytes path)
       | other -> other)
  | "electrum_subkeys", [s; p; path] ->
    (match c09_electrum_init (arg_opt arg_z s) (if s = "N" then Some (arg_z p) else None) with
     | Ret w -> (match c09_electrum_subkeys oxy odsha w (arg_bytes path) with
                 | Raise e -> "([] !" ^ show_exn e ^ ")"
                 | r -> show_outcome (fun (ks, e) -> "(" ^ show_list show_ew ks ^ " " ^ show_exnopt e ^ ")") r)
     | Raise e -> "!" ^ show_exn e
     | OutOfFuel -> "!OUT_OF_FUEL")
  | "electrum_init", [s; p] ->
    show_outcome show_ew (c09_electrum_init (arg_opt arg_z s) (arg_opt arg_z p))
  | "spec_derive", [vprv; vpub; seed; k; path] ->
    show_list show_pairopt
      (c09_spec_derive osec ohmac oh160 (arg_bytes vprv) (arg_bytes vpub) (arg_bytes seed) (arg_nat k) (arg_list arg_z path))
  | _ -> failwith ("unknown function " ^ f)
let () = main_loop dispatch
