(* driver_c03spec.ml — line protocol for the extracted Core interpreter (Spec/VMcore.v).
   eval   <flags> <sv> <version> <locktime> <sequence> <script> <stack-list>
   verify <flags> <version> <locktime> <sequence> <scriptSig> <scriptPubKey> <witness-list>
     flags/version/locktime/sequence: i<hex>;  sv: B | W;  scripts: x<hex>;  lists: [x..,x..] (top LAST)
   results: eval  -> "[x.. x..]" (final stack, top last)  or "!<CORE_ERROR_NAME>"
            verify -> "T" or "!<CORE_ERROR_NAME>"
   oracles: ?sha256 ?sha1 ?ripemd160 ?hash160 ?dsha256 <hex>  -> digest hex
            ?checksig <hex of: len4be‖sig ‖ len4be‖pubkey ‖ len4be‖scriptcode ‖ sv(00 base, 01 witness v0)> -> 01 | 00 *)
let be4 (n : int) : byte list =
  [byte_tab.((n lsr 24) land 255); byte_tab.((n lsr 16) land 255); byte_tab.((n lsr 8) land 255); byte_tab.(n land 255)]
let lp (l : byte list) : byte list = be4 (List.length l) @ l
let checksig_oracle (sg : byte list) (pk : byte list) (code : byte list) (sv : sigversion) : bool =
  let tag = match sv with SV_BASE -> byte_tab.(0) | SV_WITNESS_V0 -> byte_tab.(1) in
  match oracle "checksig" (lp sg @ lp pk @ lp code @ [tag]) with
  | [b] -> int_of_byte b = 1
  | _ -> false
let secp256k1_order = n_of_hex "fffffffffffffffffffffffffffffffebaaedce6af48a03bbfd25e8cd0364141"
let orc = { o_sha256 = oracle "sha256"; o_sha1 = oracle "sha1"; o_ripemd160 = oracle "ripemd160";
            o_hash160 = oracle "hash160"; o_hash256 = oracle "dsha256"; o_checksig = checksig_oracle;
            o_order = secp256k1_order }
let err_name = function
  | SE_UNKNOWN_ERROR -> "UNKNOWN_ERROR" | SE_EVAL_FALSE -> "EVAL_FALSE" | SE_OP_RETURN -> "OP_RETURN"
  | SE_SCRIPT_SIZE -> "SCRIPT_SIZE" | SE_PUSH_SIZE -> "PUSH_SIZE" | SE_OP_COUNT -> "OP_COUNT"
  | SE_STACK_SIZE -> "STACK_SIZE" | SE_SIG_COUNT -> "SIG_COUNT" | SE_PUBKEY_COUNT -> "PUBKEY_COUNT"
  | SE_VERIFY -> "VERIFY" | SE_EQUALVERIFY -> "EQUALVERIFY" | SE_CHECKMULTISIGVERIFY -> "CHECKMULTISIGVERIFY"
  | SE_CHECKSIGVERIFY -> "CHECKSIGVERIFY" | SE_NUMEQUALVERIFY -> "NUMEQUALVERIFY" | SE_BAD_OPCODE -> "BAD_OPCODE"
  | SE_DISABLED_OPCODE -> "DISABLED_OPCODE" | SE_INVALID_STACK_OPERATION -> "INVALID_STACK_OPERATION"
  | SE_INVALID_ALTSTACK_OPERATION -> "INVALID_ALTSTACK_OPERATION" | SE_UNBALANCED_CONDITIONAL -> "UNBALANCED_CONDITIONAL"
  | SE_NEGATIVE_LOCKTIME -> "NEGATIVE_LOCKTIME" | SE_UNSATISFIED_LOCKTIME -> "UNSATISFIED_LOCKTIME"
  | SE_SIG_HASHTYPE -> "SIG_HASHTYPE" | SE_SIG_DER -> "SIG_DER" | SE_MINIMALDATA -> "MINIMALDATA"
  | SE_SIG_PUSHONLY -> "SIG_PUSHONLY" | SE_SIG_HIGH_S -> "SIG_HIGH_S" | SE_SIG_NULLDUMMY -> "SIG_NULLDUMMY"
  | SE_PUBKEYTYPE -> "PUBKEYTYPE" | SE_CLEANSTACK -> "CLEANSTACK" | SE_MINIMALIF -> "MINIMALIF"
  | SE_SIG_NULLFAIL -> "NULLFAIL" | SE_DISCOURAGE_UPGRADABLE_NOPS -> "DISCOURAGE_UPGRADABLE_NOPS"
  | SE_DISCOURAGE_UPGRADABLE_WITNESS_PROGRAM -> "DISCOURAGE_UPGRADABLE_WITNESS_PROGRAM"
  | SE_WITNESS_PROGRAM_WRONG_LENGTH -> "WITNESS_PROGRAM_WRONG_LENGTH"
  | SE_WITNESS_PROGRAM_WITNESS_EMPTY -> "WITNESS_PROGRAM_WITNESS_EMPTY"
  | SE_WITNESS_PROGRAM_MISMATCH -> "WITNESS_PROGRAM_MISMATCH" | SE_WITNESS_MALLEATED -> "WITNESS_MALLEATED"
  | SE_WITNESS_MALLEATED_P2SH -> "WITNESS_MALLEATED_P2SH" | SE_WITNESS_UNEXPECTED -> "WITNESS_UNEXPECTED"
  | SE_WITNESS_PUBKEYTYPE -> "WITNESS_PUBKEYTYPE"
let show_cres f = function COk a -> f a | CErr e -> "!" ^ err_name e | CFuel -> "!OUT_OF_FUEL"
let arg_sv = function "B" -> SV_BASE | "W" -> SV_WITNESS_V0 | t -> failwith ("arg_sv " ^ t)
let dispatch f args = match f, args with
  | "eval", [fl; sv; ver; lt; sq; script; st] ->
    let ctx = { tc_version = arg_n ver; tc_lock_time = arg_n lt; tc_sequence = arg_n sq } in
    show_cres (show_list show_bytes) (evalScriptE orc (arg_n fl) (arg_sv sv) ctx (arg_bytes script) (arg_list arg_bytes st))
  | "verify", [fl; ver; lt; sq; ssig; spk; wit] ->
    let ctx = { tc_version = arg_n ver; tc_lock_time = arg_n lt; tc_sequence = arg_n sq } in
    let sp = { sp_script_sig = arg_bytes ssig; sp_script_pubkey = arg_bytes spk; sp_witness = arg_list arg_bytes wit;
               sp_flags = arg_n fl; sp_ctx = ctx } in
    show_cres (fun () -> "T") (verifyScriptE orc sp)
  | "find_and_delete", [b; s] -> show_bytes (find_and_delete (arg_bytes b) (arg_bytes s))
  | "push_encode", [d] -> show_bytes (push_encode (arg_bytes d))
  | "cast_to_bool", [d] -> show_bool (cast_to_bool (arg_bytes d))
  | "is_push_only", [d] -> show_bool (is_push_only (arg_bytes d))
  | "valid_sig_encoding", [d] -> show_bool (is_valid_signature_encoding (arg_bytes d))
  | "low_s", [d] -> show_bool (check_low_s secp256k1_order (arg_bytes d))
  | "flags_permitted", [fl] -> show_bool (flags_permitted (arg_n fl))
  | _ -> failwith ("unknown function " ^ f)
let () = main_loop dispatch
