(* drvlib.ml — concatenated after the extracted code; I/O helpers for the line protocol.
   Ints travel as signed hex ("i-1f"), bytes as "x<hex>", nat as "n<dec>". *)
let rec pos_of_int (i : int) : positive =
  if i = 1 then XH else if i land 1 = 1 then XI (pos_of_int (i lsr 1)) else XO (pos_of_int (i lsr 1))
let n_of_int i = if i = 0 then N0 else Npos (pos_of_int i)
let rec int_of_pos = function XH -> 1 | XO p -> 2 * int_of_pos p | XI p -> 2 * int_of_pos p + 1
let int_of_n = function N0 -> 0 | Npos p -> int_of_pos p
let rec nat_of_int i = if i <= 0 then O else S (nat_of_int (i - 1))
let int_of_nat n = let rec go acc = function O -> acc | S k -> go (acc + 1) k in go 0 n
let z_of_int i = if i = 0 then Z0 else if i > 0 then Zpos (pos_of_int i) else Zneg (pos_of_int (-i))

let hexval c = match c with
  | '0'..'9' -> Char.code c - 48 | 'a'..'f' -> Char.code c - 87 | 'A'..'F' -> Char.code c - 55
  | _ -> failwith "hexval"
let hexdig = "0123456789abcdef"

(* positive from hex string (big-endian digits), None if zero *)
let pos_of_hex s : positive option =
  (* collect bits msb first *)
  let bits = ref [] in
  String.iter (fun c -> let v = hexval c in
    bits := (v land 1 = 1) :: (v land 2 = 2) :: (v land 4 = 4) :: (v land 8 = 8) :: !bits) s;
  (* !bits is lsb-first now?  we pushed msb nibble first, each nibble pushed 8,4,2,1 order reversed:
     list head = last pushed = bit0 of last nibble: lsb first. good. *)
  let rec strip l = match l with [] -> [] | _ -> l in
  let lsb_first = strip !bits in
  let rec build = function
    | [] -> None
    | b :: r -> (match build r with
        | None -> if b then Some XH else None
        | Some p -> Some (if b then XI p else XO p)) in
  build lsb_first
let z_of_hex s : z =
  let neg, body = if String.length s > 0 && s.[0] = '-' then true, String.sub s 1 (String.length s - 1) else false, s in
  match pos_of_hex body with None -> Z0 | Some p -> if neg then Zneg p else Zpos p
let n_of_hex s = match pos_of_hex s with None -> N0 | Some p -> Npos p
let hex_of_pos (p : positive) =
  let rec bits acc = function XH -> true :: acc | XO q -> bits (false :: acc) q | XI q -> bits (true :: acc) q in
  (* bits returns msb-first list *)
  let l = bits [] p in
  let len = List.length l in
  let pad = (4 - len mod 4) mod 4 in
  let l = (List.init pad (fun _ -> false)) @ l in
  let b = Buffer.create 16 in
  let rec go = function
    | a :: c :: d :: e :: r ->
      let v = (if a then 8 else 0) + (if c then 4 else 0) + (if d then 2 else 0) + (if e then 1 else 0) in
      Buffer.add_char b hexdig.[v]; go r
    | [] -> ()
    | _ -> failwith "hex_of_pos" in
  go l; Buffer.contents b
let show_z = function Z0 -> "i0" | Zpos p -> "i" ^ hex_of_pos p | Zneg p -> "i-" ^ hex_of_pos p
let show_n = function N0 -> "i0" | Npos p -> "i" ^ hex_of_pos p
let show_nat n = "i" ^ (Printf.sprintf "%x" (int_of_nat n))
let show_bool b = if b then "T" else "F"

let byte_of_int (i : int) : byte = drv_byte_of_N (n_of_int i)
let int_of_byte (b : byte) : int = int_of_n (drv_byte_to_N b)
let byte_tab : byte array = Array.init 256 byte_of_int
let bytes_of_hex s : byte list =
  let n = String.length s / 2 in
  let rec go i acc = if i < 0 then acc else go (i - 1) (byte_tab.(hexval s.[2*i] * 16 + hexval s.[2*i+1]) :: acc) in
  go (n - 1) []
let hex_of_bytes (l : byte list) =
  let b = Buffer.create 64 in
  List.iter (fun x -> let v = int_of_byte x in Buffer.add_char b hexdig.[v lsr 4]; Buffer.add_char b hexdig.[v land 15]) l;
  Buffer.contents b
let show_bytes l = "x" ^ hex_of_bytes l
let show_list f l = "[" ^ String.concat " " (List.map f l) ^ "]"
let show_option f = function None -> "N" | Some x -> f x
let show_pair f g (a, b) = "(" ^ f a ^ " " ^ g b ^ ")"
let show_exn = function
  | E_SCRIPT -> "E_SCRIPT" | E_VALUE -> "E_VALUE" | E_ENCODING -> "E_ENCODING" | E_STRUCT -> "E_STRUCT"
  | E_INDEX -> "E_INDEX" | E_TYPE -> "E_TYPE" | E_ASSERT -> "E_ASSERT" | E_ATTR -> "E_ATTR" | E_KEY -> "E_KEY"
  | E_VALIDATION -> "E_VALIDATION" | E_BADMERKLE -> "E_BADMERKLE" | E_BADSPEND -> "E_BADSPEND"
  | E_NOPOINT -> "E_NOPOINT" | E_SECRET -> "E_SECRET" | E_PUBPAIR -> "E_PUBPAIR" | E_DER -> "E_DER"
  | E_OVERFLOW -> "E_OVERFLOW" | E_OTHER -> "E_OTHER"
let show_outcome f = function Ret a -> f a | Raise e -> "!" ^ show_exn e | OutOfFuel -> "!OUT_OF_FUEL"

(* argument parsing: tokens "x<hex>", "i<hex>", "T"/"F" *)
let arg_bytes t : byte list =
  if String.length t = 0 || t.[0] <> 'x' then failwith ("arg_bytes " ^ t) else bytes_of_hex (String.sub t 1 (String.length t - 1))
let arg_z t : z =
  if String.length t = 0 || t.[0] <> 'i' then failwith ("arg_z " ^ t) else z_of_hex (String.sub t 1 (String.length t - 1))
let arg_n t : n = match arg_z t with Z0 -> N0 | Zpos p -> Npos p | Zneg _ -> failwith "arg_n negative"
let arg_int t : int =
  if String.length t = 0 || t.[0] <> 'i' then failwith ("arg_int " ^ t) else int_of_string ("0x" ^ String.sub t 1 (String.length t - 1))
let arg_nat t = nat_of_int (arg_int t)
let arg_bool t = (t = "T")
(* list argument: "[a,b,c]" with no spaces; elements parsed by f; "[]" empty *)
let arg_list f t =
  let n = String.length t in
  if n < 2 || t.[0] <> '[' || t.[n-1] <> ']' then failwith ("arg_list " ^ t)
  else if n = 2 then [] else List.map f (String.split_on_char ',' (String.sub t 1 (n - 2)))

(* oracle callback: print "?name hex", read hex answer *)
let oracle name (data : byte list) : byte list =
  print_string ("?" ^ name ^ " " ^ hex_of_bytes data ^ "\n"); flush stdout;
  let line = input_line stdin in bytes_of_hex (String.trim line)

let main_loop dispatch =
  (try
    while true do
      let line = input_line stdin in
      let toks = List.filter (fun s -> s <> "") (String.split_on_char ' ' (String.trim line)) in
      (match toks with
       | [] -> print_string "\n"
       | f :: args ->
         let r = (try dispatch f args with
                  | Stack_overflow -> "!DRIVER_STACK_OVERFLOW"
                  | Failure m -> "!DRIVER_FAILURE " ^ m
                  | Not_found -> "!DRIVER_NOT_FOUND") in
         print_string ("=" ^ r ^ "\n"));
      flush stdout
    done
  with End_of_file -> ())
