(* driver_c02.ml — dispatch table for the extracted curve model (Model/Curve.v).
   point argument: "[]" = infinity, "[ix,iy]" = (x, y); point result: "(N N)" or "(ix iy)" (= canon of a Python Point) *)
let arg_pt t = match arg_list arg_z t with [] -> None | [x; y] -> Some (x, y) | _ -> failwith "arg_pt"
let show_pt = function None -> "(N N)" | Some (x, y) -> "(" ^ show_z x ^ " " ^ show_z y ^ ")"
let show_pt2 (a, b) = "(" ^ show_pt a ^ " " ^ show_pt b ^ ")"
let cv p a b n = c02_curve (arg_z p) (arg_z a) (arg_z b) (arg_z n)
let gn p a b n g bits blind = c02_gen (cv p a b n) (arg_pt g) (arg_nat bits) (arg_z blind)
let show_gen g = let ((((((p, a), b), n), gp), bits), blind) = c02_gen_fields g in
  "(" ^ show_pt gp ^ " " ^ show_nat bits ^ " " ^ show_z blind ^ ")"
let po p a b n k xy =
  let k = arg_int k in
  c02_pobj (cv p a b n) (nat_of_int (if k >= 3 then 1 else 0)) (arg_pt xy)
    (nat_of_int (if k = 0 && arg_pt xy = None then 0 else k + 1))
let dispatch f args = match f, args with
  | "inverse_mod", [a; m] -> show_outcome show_z (c02_inverse_mod (arg_z a) (arg_z m))
  | "leftmost_bit", [x] -> show_outcome show_z (c02_leftmost_bit (arg_z x))
  | "contains", [p; a; b; n; pt] -> show_bool (c02_contains (cv p a b n) (arg_pt pt))
  | "point", [p; a; b; n; x; y] -> show_outcome show_pt (c02_mk_point (cv p a b n) (arg_z x) (arg_z y))
  | "add", [p; a; b; n; p0; p1] -> show_outcome show_pt (c02_add (cv p a b n) (arg_pt p0) (arg_pt p1))
  | "sub", [p; a; b; n; p0; p1] -> show_outcome show_pt (c02_sub (cv p a b n) (arg_pt p0) (arg_pt p1))
  | "neg", [p; a; b; n; p0] -> show_outcome show_pt (c02_neg (cv p a b n) (arg_pt p0))
  | "multiply", [p; a; b; n; p0; e] -> show_outcome show_pt (c02_multiply (cv p a b n) (arg_pt p0) (arg_z e))
  | "mk_gen", [p; a; b; gx; gy; n; ent] ->
    show_outcome show_gen (c02_mk_gen (arg_z p) (arg_z a) (arg_z b) (arg_z gx) (arg_z gy) (arg_z n) (arg_z ent))
  | "raw_mul", [p; a; b; n; g; bits; blind; e] -> show_outcome show_pt (c02_raw_mul (gn p a b n g bits blind) (arg_z e))
  | "gmul", [p; a; b; n; g; bits; blind; e] -> show_outcome show_pt (c02_gmul (gn p a b n g bits blind) (arg_z e))
  | "modular_sqrt", [p; a; b; n; g; bits; blind; v] -> show_z (c02_modular_sqrt (gn p a b n g bits blind) (arg_z v))
  | "g_inverse", [p; a; b; n; g; bits; blind; v] -> show_outcome show_z (c02_g_inverse (gn p a b n g bits blind) (arg_z v))
  | "points_for_x", [p; a; b; n; g; bits; blind; x] ->
    show_outcome show_pt2 (c02_points_for_x (gn p a b n g bits blind) (arg_z x))
  | "shared", [p; a; b; n; g; bits; blind; k; x; y] ->
    show_outcome show_pt (c02_shared (gn p a b n g bits blind) (arg_z k) (arg_z x) (arg_z y))
  (* object level: <pres> = "i<k>", k = presentation index of the Python object (harness/c02_ops.PRESENTATIONS);
     k >= 3 lives on a twin curve object (owner id 1); identity k + 1 (0 is the singleton infinity) *)
  | "oadd", [p; a; b; n; k0; p0; k1; p1] -> show_outcome show_pt (c02_oadd (po p a b n k0 p0) (po p a b n k1 p1))
  | "osub", [p; a; b; n; k0; p0; k1; p1] -> show_outcome show_pt (c02_osub (po p a b n k0 p0) (po p a b n k1 p1))
  | "ocadd", [p; a; b; n; k0; p0; k1; p1] -> show_outcome show_pt (c02_ocadd (cv p a b n) (po p a b n k0 p0) (po p a b n k1 p1))
  | "oneg", [p; a; b; n; k0; p0] -> show_outcome show_pt (c02_oneg (po p a b n k0 p0))
  | "omul", [p; a; b; n; k0; p0; e] -> show_outcome show_pt (c02_omul (po p a b n k0 p0) (arg_z e))
  | "ocmul", [p; a; b; n; k0; p0; e] -> show_outcome show_pt (c02_ocmul (cv p a b n) (po p a b n k0 p0) (arg_z e))
  (* operands from two curve objects with DIFFERENT parameters: the left operand's curve does the arithmetic *)
  | "xadd", [p; a; b; n; p0; p'; a'; b'; n'; p1] ->
    show_outcome show_pt (c02_oadd (c02_pobj (cv p a b n) (nat_of_int 0) (arg_pt p0) (nat_of_int 1))
                                   (c02_pobj (cv p' a' b' n') (nat_of_int 1) (arg_pt p1) (nat_of_int 2)))
  | _ -> failwith ("unknown function " ^ f)

(* Batch main loop (no oracles in this driver): read every line, evaluate them in C02_JOBS forked workers
   (round-robin), print the results in input order.  A 256-bit scalar multiplication costs ~15 s in the extracted
   model (binary Z, Euclid with bitwise division), so the few production-curve lines dominate the wall time. *)
let eval line =
  let toks = List.filter (fun s -> s <> "") (String.split_on_char ' ' (String.trim line)) in
  match toks with
  | [] -> ""
  | f :: args ->
    "=" ^ (try dispatch f args with
           | Stack_overflow -> "!DRIVER_STACK_OVERFLOW"
           | Failure m -> "!DRIVER_FAILURE " ^ m
           | Not_found -> "!DRIVER_NOT_FOUND")
let () =
  let acc = ref [] in
  (try while true do acc := input_line stdin :: !acc done with End_of_file -> ());
  let lines = Array.of_list (List.rev !acc) in
  let n = Array.length lines in
  let jobs = try int_of_string (Sys.getenv "C02_JOBS") with _ -> 14 in
  let k = max 1 (min jobs n) in
  if k = 1 then Array.iter (fun l -> print_string (eval l ^ "\n")) lines
  else begin
    (* job queue: token t stands for the lines t, t+T, t+2T, ...; all tokens are written to a pipe before forking
       and each worker pulls the next token when it is idle (the harness puts the expensive lines first) *)
    let nt = min n 4000 in
    let (qr, qw) = Unix.pipe () in
    let tok = Bytes.create 8 in
    for t = 0 to nt - 1 do
      Bytes.blit_string (Printf.sprintf "%8d" t) 0 tok 0 8;
      ignore (Unix.write qw tok 0 8)
    done;
    Unix.close qw;
    flush stdout;
    let fds = Array.init k (fun _ ->
      let (r, w) = Unix.pipe () in
      match Unix.fork () with
      | 0 ->
        Unix.close r;
        let b = Buffer.create 65536 in
        let buf = Bytes.create 8 in
        let rec pull () =
          let got = Unix.read qr buf 0 8 in
          if got = 8 then begin
            let i = ref (int_of_string (String.trim (Bytes.to_string buf))) in
            while !i < n do
              Buffer.add_string b (string_of_int !i); Buffer.add_char b ' ';
              Buffer.add_string b (eval lines.(!i)); Buffer.add_char b '\n'; i := !i + nt
            done;
            pull ()
          end in
        pull ();
        let oc = Unix.out_channel_of_descr w in
        output_string oc (Buffer.contents b); close_out oc; exit 0
      | _ -> Unix.close w; r) in
    Unix.close qr;
    let res = Array.make n "=!DRIVER_WORKER_DIED" in
    Array.iter (fun r ->
      let ic = Unix.in_channel_of_descr r in
      (try while true do
           let l = input_line ic in
           let sp = String.index l ' ' in
           res.(int_of_string (String.sub l 0 sp)) <- String.sub l (sp + 1) (String.length l - sp - 1)
         done with End_of_file -> ());
      close_in ic) fds;
    (try while true do ignore (Unix.wait ()) done with Unix.Unix_error _ -> ());
    Array.iter (fun l -> print_string (l ^ "\n")) res
  end
