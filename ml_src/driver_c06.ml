(* driver_c06.ml — dispatch for property C06 (what a signature commits; validation entry points).
   Transaction tokens:  i<version> [<in>,...] [<out>,...] i<lock>
     <in>      = <hash hex>:<index hex>:<script hex>:<sequence hex>:<witness>      witness = ("~" <item hex>)*
     <out>     = <value hex>:<script hex>
     <unspent> = N | <value hex>:<script hex>
   sv = L (legacy _signature_hash) | S (BIP143 _segwit_signature_preimage).  dsha256 is answered by the harness. *)
let hex_n s = if s = "" then N0 else n_of_hex s
let parse_wit (t : string) : byte list list =
  if t = "" then [] else (match String.split_on_char '~' t with _ :: r -> List.map bytes_of_hex r | [] -> [])
let parse_in (t : string) : txin =
  match String.split_on_char ':' t with
  | [h; i; s; q; w] -> { ti_hash = bytes_of_hex h; ti_index = hex_n i; ti_script = bytes_of_hex s;
                         ti_witness = parse_wit w; ti_seq = hex_n q }
  | _ -> failwith ("parse_in " ^ t)
let parse_out (t : string) : txout =
  match String.split_on_char ':' t with
  | [v; s] -> { to_amount = hex_n v; to_script = bytes_of_hex s }
  | _ -> failwith ("parse_out " ^ t)
let parse_unspent (t : string) : txout option = if t = "N" then None else Some (parse_out t)
let parse_tx v ins outs lock : tx =
  { tx_version = arg_n v; tx_ins = arg_list parse_in ins; tx_outs = arg_list parse_out outs; tx_lock = arg_n lock }
let parse_ctx v ins outs lock sc am : sctx = { sc_tx = parse_tx v ins outs lock; sc_code = arg_bytes sc; sc_amount = arg_n am }
let dsha = oracle "dsha256"
let parse_sv = function "L" -> SV_legacy | "S" -> SV_bip143 | s -> failwith ("sv " ^ s)
let parse_field (name : string) (j : nat) : field = match name with
  | "version" -> F_version | "lock_time" -> F_lock_time | "in_count" -> F_in_count | "out_count" -> F_out_count
  | "single_has_output" -> F_single_has_output
  | "prev_hash" -> F_prev_hash j | "prev_index" -> F_prev_index j | "sequence" -> F_sequence j
  | "out_amount" -> F_out_amount j | "out_script" -> F_out_script j
  | "script_code" -> F_script_code | "spent_amount" -> F_spent_amount
  | "script_sig" -> F_script_sig j | "witness" -> F_witness j
  | s -> failwith ("field " ^ s)
let preset = function
  | "ok" -> Ret () | "script" -> Raise E_SCRIPT | "value" -> Raise E_VALUE | "index" -> Raise E_INDEX
  | "type" -> Raise E_TYPE | s -> failwith ("preset " ^ s)
let show_context (c : tx_context) =
  "(" ^ show_n c.cx_lock_time ^ " " ^ show_n c.cx_version ^ " " ^ show_bytes c.cx_puzzle_script ^ " "
  ^ show_bytes c.cx_solution_script ^ " " ^ show_list show_bytes c.cx_witness ^ " " ^ show_n c.cx_sequence ^ " "
  ^ show_nat c.cx_idx ^ ")"
let is_ret = function Ret _ -> true | _ -> false
let show_fedopt = function None -> "N" | Some b -> show_bytes b

let dispatch f args = match f, args with
  | "legacy_sighash", [v; ins; outs; lock; sc; idx; ht] ->
    show_outcome show_n (legacy_sighash dsha (parse_tx v ins outs lock) (arg_bytes sc) (arg_nat idx) (arg_n ht))
  | "legacy_fed", [v; ins; outs; lock; sc; idx; ht] ->
    show_outcome show_fedopt (legacy_fed_of (parse_tx v ins outs lock) (arg_bytes sc) (arg_nat idx) (arg_n ht))
  | "segwit_preimage", [v; ins; outs; lock; sc; am; idx; ht] ->
    show_outcome show_bytes (segwit_preimage dsha (parse_tx v ins outs lock) (arg_bytes sc) (arg_n am) (arg_nat idx) (arg_n ht))
  | "segwit_sighash", [v; ins; outs; lock; sc; am; idx; ht] ->
    show_outcome show_n (segwit_sighash dsha (parse_tx v ins outs lock) (arg_bytes sc) (arg_n am) (arg_nat idx) (arg_n ht))
  | "committed", [sv; ht; idx; has_out; name; j] ->
    show_bool (committed (parse_sv sv) (arg_n ht) (arg_nat idx) (arg_bool has_out) (parse_field name (arg_nat j)))
  (* does the (possibly moved) input idx' of the second context feed the hash with the same strings as input idx
     of the first?  second component: is the first a value (not an exception) *)
  | "same_fed", [sv; ht; idx; v; ins; outs; lock; sc; am; idx'; v'; ins'; outs'; lock'; sc'; am'] ->
    let a = fed_of (parse_sv sv) (arg_n ht) (arg_nat idx) (parse_ctx v ins outs lock sc am) in
    let b = fed_of (parse_sv sv) (arg_n ht) (arg_nat idx') (parse_ctx v' ins' outs' lock' sc' am') in
    "(" ^ show_bool (a = b) ^ " " ^ show_bool (is_ret a) ^ ")"
  | "tx_context", [v; ins; outs; lock; uns; idx] ->
    show_outcome show_context (tx_context_for_idx (parse_tx v ins outs lock) (arg_list parse_unspent uns) (arg_nat idx))
  | "missing_unspent", [v; ins; outs; lock; uns; idx] ->
    show_bool (missing_unspent (parse_tx v ins outs lock) (arg_list parse_unspent uns) (arg_nat idx))
  | "is_solution_ok", [v; ins; outs; lock; uns; idx; p] ->
    let r = preset p in
    show_outcome show_bool (is_solution_ok (fun _ _ _ _ -> r) (parse_tx v ins outs lock) (arg_list parse_unspent uns)
                              (arg_nat idx) N0)
  | "bad_solution_count", [v; ins; outs; lock; uns; ps] ->
    let rs = Array.of_list (arg_list preset ps) in
    let chk _ _ (c : tx_context) _ = rs.(int_of_nat c.cx_idx) in
    show_outcome show_nat (bad_solution_count chk (parse_tx v ins outs lock) (arg_list parse_unspent uns) N0)
  | _ -> failwith ("unknown function " ^ f)
let () = main_loop dispatch
