(* driver_c13.ml — dispatch for C13.  Structured arguments:
     list      [e1,e2,...]         fields of an element separated by ':'
     txout     i<value>:x<script>            unspent: N | i<value>:x<script>
     txin      x<hash>:i<index>:x<script>:i<sequence>
     spendable i<value>:x<script>:x<hash>:i<index>
     payable   A:x<script> | P:x<script>:i<value>
     fee       i<fee> | S (standard)
     tx        five tokens: i<version> [txin..] [txout..] i<lock_time> [unspent..]
     db entry  x<key>:x<hash of stored tx>:<outs>   outs = value/script;value/script  ("-" for none)
     dec       T|F:i<coef>:i<exp> *)
let fields s = String.split_on_char ':' s
let arg_txout s = match fields s with
  | [v; sc] -> { o_value = arg_z v; o_script = arg_bytes sc }
  | _ -> failwith ("arg_txout " ^ s)
let arg_unspent s = if s = "N" then None else Some (arg_txout s)
let arg_txin s = match fields s with
  | [h; i; sc; sq] -> { i_hash = arg_bytes h; i_index = arg_z i; i_script = arg_bytes sc; i_sequence = arg_z sq }
  | _ -> failwith ("arg_txin " ^ s)
let arg_spendable s = match fields s with
  | [v; sc; h; i] -> { s_value = arg_z v; s_script = arg_bytes sc; s_hash = arg_bytes h; s_index = arg_z i }
  | _ -> failwith ("arg_spendable " ^ s)
let arg_payable s = match fields s with
  | ["A"; sc] -> PayAddr (arg_bytes sc)
  | ["P"; sc; v] -> PayPair (arg_bytes sc, arg_z v)
  | _ -> failwith ("arg_payable " ^ s)
let arg_fee s = if s = "S" then FeeStandard else FeeInt (arg_z s)
let arg_tx v ins outs lt us =
  { t_version = arg_z v; t_ins = arg_list arg_txin ins; t_outs = arg_list arg_txout outs;
    t_lock_time = arg_z lt; t_unspents = arg_list arg_unspent us }
let arg_dbentry s = match fields s with
  | [k; h; outs] ->
    let os = if outs = "-" then [] else
      List.map (fun o -> match String.split_on_char '/' o with
        | [v; sc] -> { o_value = arg_z v; o_script = arg_bytes sc }
        | _ -> failwith ("arg_dbentry out " ^ o)) (String.split_on_char ';' outs) in
    (arg_bytes k, (arg_bytes h, os))
  | _ -> failwith ("arg_dbentry " ^ s)
let arg_dec s = match fields s with
  | [n; c; e] -> { d_neg = arg_bool n; d_coef = arg_z c; d_exp = arg_z e }
  | _ -> failwith ("arg_dec " ^ s)

(* nested lists inside one op: elements separated by ';', fields by '/', "-" = empty list *)
let sub_list f s = if s = "-" then [] else List.map f (String.split_on_char ';' s)
let sub_fields s = String.split_on_char '/' s
let sub_txout s = match sub_fields s with
  | [v; sc] -> { o_value = arg_z v; o_script = arg_bytes sc }
  | _ -> failwith ("sub_txout " ^ s)
let sub_unspent s = if s = "N" then None else Some (sub_txout s)
let sub_txin s = match sub_fields s with
  | [h; i; sc; sq] -> { i_hash = arg_bytes h; i_index = arg_z i; i_script = arg_bytes sc; i_sequence = arg_z sq }
  | _ -> failwith ("sub_txin " ^ s)
(* history operations *)
let arg_op s = match fields s with
  | ["OTI"] -> ObsTotalIn | ["OTO"] -> ObsTotalOut | ["OFEE"] -> ObsFee | ["OCB"] -> ObsIsCoinbase
  | ["OVAL"; k] -> ObsValidate (arg_nat k)
  | ["SU"; us] -> MutSetUnspents (sub_list sub_unspent us)
  | ["FD"; k; im] -> MutUnspentsFromDb (arg_nat k, arg_bool im)
  | ["AU"; us] -> MutAssignUnspents (sub_list sub_unspent us)
  | ["EU"; i; v] -> MutEditUnspent (arg_nat i, arg_z v)
  | ["PU"; u] -> MutAppendUnspent (sub_unspent u)
  | ["CU"] -> MutClearUnspents
  | ["AO"; os] -> MutAssignOuts (sub_list sub_txout os)
  | ["EO"; i; v] -> MutEditOut (arg_nat i, arg_z v)
  | ["PO"; o] -> MutAppendOut (sub_txout o)
  | ["AI"; is] -> MutAssignIns (sub_list sub_txin is)
  | ["DI"; fe] -> MutDistribute (arg_fee fe)
  | _ -> failwith ("arg_op " ^ s)
(* databases of a history: one list, each entry prefixed by the number of its database: i<k>:x<key>:x<hash>:<outs> *)
let arg_dbsentry s = match fields s with
  | [k; key; h; outs] -> (arg_int k, arg_dbentry (key ^ ":" ^ h ^ ":" ^ outs))
  | _ -> failwith ("arg_dbsentry " ^ s)

let show_txout o = "(" ^ show_z o.o_value ^ " " ^ show_bytes o.o_script ^ ")"
let show_txin i = "(" ^ show_bytes i.i_hash ^ " " ^ show_z i.i_index ^ " " ^ show_bytes i.i_script ^ " " ^ show_z i.i_sequence ^ ")"
let show_tx t =
  "(" ^ show_z t.t_version ^ " " ^ show_list show_txin t.t_ins ^ " " ^ show_list show_txout t.t_outs ^ " "
  ^ show_z t.t_lock_time ^ " " ^ show_list (show_option show_txout) t.t_unspents ^ ")"
let show_dec d = "(" ^ show_bool d.d_neg ^ " " ^ show_z d.d_coef ^ " " ^ show_z d.d_exp ^ ")"

let dispatch f args = match f, args with
  | "split", [t; k] -> show_outcome (show_list show_z) (split_with_remainder (arg_z t) (arg_z k))
  | "recommended_fee", [n] -> show_z (recommended_fee (arg_z n))
  | "distribute", [v; ins; outs; lt; us; fe; bc] ->
    let n = arg_z bc in
    show_outcome (show_pair show_tx show_z) (distribute_from_split_pool (fun _ -> n) (arg_tx v ins outs lt us) (arg_fee fe))
  | "distribute_st", [v; ins; outs; lt; us; fe; bc] ->
    let n = arg_z bc in
    show_pair (show_outcome show_z) show_tx (distribute_from_split_pool_st (fun _ -> n) (arg_tx v ins outs lt us) (arg_fee fe))
  | "history", [v; ins; outs; lt; us; db; ops] ->
    let entries = arg_list arg_dbsentry db in
    let lookup k h = List.assoc_opt h (List.filter_map (fun (j, e) -> if j = int_of_nat k then Some e else None) entries) in
    show_pair (show_list (show_outcome show_z)) show_tx
      (run (fun _ -> Z0) fst snd lookup (arg_list arg_op ops) (arg_tx v ins outs lt us))
  | "create_tx", [sps; pays; fe; lt; ver; bc] ->
    let n = arg_z bc in
    show_outcome show_tx (create_tx (fun _ -> n) (arg_list arg_spendable sps) (arg_list arg_payable pays) (arg_fee fe) (arg_z lt) (arg_z ver))
  (* C13 x C07: the byte count comes from C07's model of Tx.stream, not from the caller *)
  | "create_tx_wire", [sps; pays; fe; lt; ver] ->
    show_outcome show_tx (create_tx_wire (arg_list arg_spendable sps) (arg_list arg_payable pays) (arg_fee fe) (arg_z lt) (arg_z ver))
  | "distribute_wire", [v; ins; outs; lt; us; fe] ->
    show_outcome (show_pair show_tx show_z) (distribute_wire (arg_tx v ins outs lt us) (arg_fee fe))
  | "recommended_fee_for_tx", [v; ins; outs; lt; us] ->
    show_outcome show_z (recommended_fee_for_tx (arg_tx v ins outs lt us))
  | "stream_len", [v; ins; outs; lt; us] ->
    show_outcome show_z (stream_len (arg_tx v ins outs lt us))
  | "total_out", [v; ins; outs; lt; us] -> show_z (total_out (arg_tx v ins outs lt us))
  | "total_in", [v; ins; outs; lt; us] -> show_outcome show_z (total_in (arg_tx v ins outs lt us))
  | "fee", [v; ins; outs; lt; us] -> show_outcome show_z (fee (arg_tx v ins outs lt us))
  | "is_coinbase", [v; ins; outs; lt; us] -> show_bool (tx_is_coinbase (arg_tx v ins outs lt us))
  | "txin_is_coinbase", [i] -> show_bool (txin_is_coinbase (arg_txin i))
  | "validate_unspents", [v; ins; outs; lt; us; db] ->
    let entries = arg_list arg_dbentry db in
    let lookup h = List.assoc_opt h entries in
    show_outcome show_z (validate_unspents fst snd lookup (arg_tx v ins outs lt us))
  | "dec_mul", [a; b] -> show_dec (dec_mul (arg_dec a) (arg_dec b))
  | "dec_div", [a; b] -> show_outcome show_dec (dec_div (arg_dec a) (arg_dec b))
  | "dec_quantize", [a; e] -> show_outcome show_dec (dec_quantize (arg_dec a) (arg_z e))
  | "dec_to_int", [a] -> show_z (dec_to_int (arg_dec a))
  | "dec_fix", [a] -> show_dec (dec_fix (arg_dec a))
  | "ndigits", [c] -> show_z (ndigits (arg_z c))
  | "satoshi_to_btc", [s] -> show_outcome show_dec (satoshi_to_btc (arg_z s))
  | "satoshi_to_mbtc", [s] -> show_outcome show_dec (satoshi_to_mbtc (arg_z s))
  | "btc_to_satoshi", [d] -> show_z (btc_to_satoshi (arg_dec d))
  | "mbtc_to_satoshi", [d] -> show_z (mbtc_to_satoshi (arg_dec d))
  | _ -> failwith ("unknown function " ^ f)
let () = main_loop dispatch
