(* driver_c18.ml — line protocol for C18:  run <entry i..> <net i..> <text as x<utf-32-be hex>>
   oracles (answered by harness/c18.py): numbered as in Extract/ExtractC18.v *)
let oracle_names = [| "b58"; "bech32"; "pyint"; "compile"; "hmac512"; "stretch"; "mulG"; "modsqrt" |]
(* the oracles are pure functions of their argument: remember the last answers (most texts are asked about
   by several entry points in a row) *)
let memo = Hashtbl.create 4096
let raw (id : n) (data : byte list) : byte list =
  let name = oracle_names.(int_of_n id) in
  let key = name ^ " " ^ hex_of_bytes data in
  match Hashtbl.find_opt memo key with
  | Some r -> r
  | None ->
    let r = oracle name data in
    if Hashtbl.length memo > 200000 then Hashtbl.reset memo;
    Hashtbl.add memo key r; r
let show_pt (x, y) = "(" ^ show_z x ^ " " ^ show_z y ^ ")"
let show_keymat = function
  | Prv (se, pt) -> show_z se ^ " " ^ show_pt pt
  | Pub pt -> "N " ^ show_pt pt
let show_kind = function Bip32 -> "i20" | Bip49 -> "i31" | Bip84 -> "i54"
let show_obj = function
  | OContract s -> "(C " ^ show_bytes s ^ ")"
  | OKey (k, c) -> "(K " ^ show_keymat k ^ " " ^ show_bool c ^ ")"
  | OHd (kind, depth, fp, idx, chain, k) ->
    "(H " ^ show_kind kind ^ " " ^ show_n depth ^ " " ^ show_bytes fp ^ " " ^ show_n idx ^ " " ^ show_bytes chain ^ " " ^ show_keymat k ^ ")"
  | OElectrum (init, k) -> "(E " ^ show_option show_bytes init ^ " " ^ show_keymat k ^ ")"
let show_result r = show_outcome (show_option show_obj) r
let payload_kind = function
  | OContract _ -> None
  | OKey (_, _) -> Some (n_of_int 2)
  | OHd (_, _, _, _, _, _) -> Some (n_of_int 3)
  | OElectrum (_, _) -> None
let dispatch f args = match f, args with
  | "run", [e; net; t] ->
    show_result (run_entry raw (arg_n net) (arg_n e) (text_of_utf32 (arg_bytes t)))
  (* parse, then the payload the serialiser would hand to the Base58Check encoder (which: 0 p2pkh 1 p2sh 2 wif 3 hd) *)
  | "payload", [e; net; which; t] ->
    (match run_entry raw (arg_n net) (arg_n e) (text_of_utf32 (arg_bytes t)) with
     | Ret (Some o) -> show_option show_bytes (run_payload (arg_n net) (arg_n which) o)
     | Ret None -> "N"
     | other -> show_result other)
  (* parse, then the text form of a public key / electrum wallet (utf-32-be) *)
  | "astext", [e; net; t] ->
    (match run_entry raw (arg_n net) (arg_n e) (text_of_utf32 (arg_bytes t)) with
     | Ret (Some o) -> show_outcome (fun tx -> show_bytes (utf32_of_text tx)) (run_text (arg_n net) o)
     | Ret None -> "N"
     | other -> show_result other)
  (* a history: the same text offered to a list of (entry point, network) calls "[i<e>:i<n>,...]"; the model's answer
     for each call is the answer for a fresh text (C18_history_independent: the shared decode cache changes nothing) *)
  | "seq", [t; calls] ->
    let tx = text_of_utf32 (arg_bytes t) in
    show_list (fun c -> match String.split_on_char ':' c with
        | [e; net] -> show_result (run_entry raw (arg_n net) (arg_n e) tx)
        | _ -> failwith "seq element") (arg_list (fun x -> x) calls)
  | "table_size", [] -> show_n drv_table_size
  | "kinds_separated", [net] -> show_bool (drv_kinds_separated (arg_n net))
  | _ -> failwith ("unknown function " ^ f)
let () = main_loop dispatch
