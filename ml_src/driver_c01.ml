(* driver_c01.ml — dispatch for property C01.  HMAC-SHA256 is an oracle: the request carries
   a 4-byte big-endian key length, the key, then the message. *)
let hmac (k : byte list) (m : byte list) : byte list =
  let kl = List.length k in
  let pre = [byte_of_int ((kl lsr 24) land 255); byte_of_int ((kl lsr 16) land 255);
             byte_of_int ((kl lsr 8) land 255); byte_of_int (kl land 255)] in
  oracle "hmac_sha256" (pre @ k @ m)
let show_raw = function None -> "(N N)" | Some (x, y) -> "(" ^ show_z x ^ " " ^ show_z y ^ ")"
let show_sig ((r, s), c) = "(" ^ show_z r ^ " " ^ show_z s ^ " " ^ show_z c ^ ")"
let arg_optz t = if t = "N" then None else Some (arg_z t)
let arg_raw x y = if x = "N" && y = "N" then None else Some (arg_z x, arg_z y)
let curve p a b gx gy n = { cp = arg_z p; ca = arg_z a; cb = arg_z b; cgx = arg_z gx; cgy = arg_z gy; cn = arg_z n }
let show_opt_outcome f = function Some k -> f k | None -> "!OUT_OF_FUEL"
let dispatch f args = match f, args with
  | "inverse_mod", [a; m] -> show_outcome show_z (inverse_mod (arg_z a) (arg_z m))
  | "gen_k", [fuel; n; d; z] ->
    show_outcome show_z (default_gen_k hmac (arg_nat fuel) (arg_z n) (arg_z d) (arg_z z))
  | "spec_k", [fuel; q; x; h1] -> show_opt_outcome show_z (rfc6979_k hmac (arg_z q) (arg_nat fuel) (arg_z x) (arg_bytes h1))
  | "verify", [p; a; b; gx; gy; n; qx; qy; z; r; s] ->
    show_outcome show_bool (i_verify (curve p a b gx gy n) (arg_raw qx qy) (arg_z z) (arg_z r) (arg_z s))
  | "sign", [kfuel; fuel; p; a; b; gx; gy; n; d; z] ->
    show_outcome show_sig (i_sign_with_recid (curve p a b gx gy n) hmac (arg_nat kfuel) (arg_nat fuel) (arg_z d) (arg_z z))
  | "sign_k", [fuel; p; a; b; gx; gy; n; d; z; k] ->
    show_outcome show_sig (i_sign_with_k (curve p a b gx gy n) (arg_nat fuel) (arg_z d) (arg_z z) (arg_z k))
  | "recover", [p; a; b; gx; gy; n; z; r; s; yp] ->
    show_outcome (show_list show_raw) (i_recover (curve p a b gx gy n) (arg_z z) (arg_z r) (arg_z s) (arg_optz yp))
  | "pubkey", [p; a; b; gx; gy; n; d] -> show_raw (i_pubkey (curve p a b gx gy n) (arg_z d))
  | _ -> failwith ("unknown function " ^ f)
let () = main_loop dispatch
