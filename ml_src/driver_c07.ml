(* driver_c07.ml — dispatch table for the C07 model (Model/TxWire.v).  Argument encodings (harness/c07.py):
     txin   x<hash>:i<index>:x<script>:i<sequence>:<wit>     <wit> = N | x<item>;x<item>;...
     txout  i<value>:x<script>        unspent  N | txout
     tx     four tokens: i<version> [txin,..] [txout,..] i<lock_time>
     spendable i<value>:x<script>:x<hash>:i<index>:i<bia>:i<dss>:i<bis>
     sval   i<z> | x<bytes> | T | F *)
let split c s = String.split_on_char c s
let arg_wit t = if t = "N" then [] else List.map arg_bytes (split ';' t)
let arg_txin t = match split ':' t with
  | [h; i; s; q; w] -> { ti_hash = arg_bytes h; ti_index = arg_z i; ti_script = arg_bytes s; ti_sequence = arg_z q;
                         ti_witness = arg_wit w }
  | _ -> failwith ("arg_txin " ^ t)
let arg_txout t = match split ':' t with
  | [v; s] -> { to_value = arg_z v; to_script = arg_bytes s }
  | _ -> failwith ("arg_txout " ^ t)
let arg_unspent t = if t = "N" then None else Some (arg_txout t)
let arg_tx v ins outs l = { tx_version = arg_z v; tx_ins = arg_list arg_txin ins; tx_outs = arg_list arg_txout outs;
                            tx_lock_time = arg_z l }
let arg_sp t = match split ':' t with
  | [v; s; h; i; a; d; b] -> { sp_value = arg_z v; sp_script = arg_bytes s; sp_tx_hash = arg_bytes h; sp_index = arg_z i;
                               sp_block_index_available = arg_z a; sp_does_seem_spent = arg_z d; sp_block_index_spent = arg_z b }
  | _ -> failwith ("arg_sp " ^ t)
let arg_optz t = if t = "N" then None else Some (arg_z t)
let arg_optn t = if t = "N" then None else Some (arg_n t)
let arg_sval t = if t = "T" then VBool true else if t = "F" then VBool false
  else if t.[0] = 'i' then VInt (arg_z t) else VBytes (arg_bytes t)
let ascii_of_char c =
  let v = Char.code c in
  let b k = (v lsr k) land 1 = 1 in
  Ascii (b 0, b 1, b 2, b 3, b 4, b 5, b 6, b 7)
(* format string argument: s<hex of ascii> *)
let arg_fmt t =
  let bs = bytes_of_hex (String.sub t 1 (String.length t - 1)) in
  List.map (fun b -> ascii_of_char (Char.chr (int_of_byte b))) bs
let arg_tfield t = if t.[0] = 'i' then FInt (arg_z t) else FHex (arg_bytes t)

let show_txin i = "(" ^ show_bytes i.ti_hash ^ " " ^ show_z i.ti_index ^ " " ^ show_bytes i.ti_script ^ " "
                  ^ show_z i.ti_sequence ^ " " ^ show_list show_bytes i.ti_witness ^ ")"
let show_txout o = "(" ^ show_z o.to_value ^ " " ^ show_bytes o.to_script ^ ")"
let show_tx t = "(" ^ show_z t.tx_version ^ " " ^ show_list show_txin t.tx_ins ^ " " ^ show_list show_txout t.tx_outs
                ^ " " ^ show_z t.tx_lock_time ^ ")"
let show_sp s = "(" ^ show_z s.sp_value ^ " " ^ show_bytes s.sp_script ^ " " ^ show_bytes s.sp_tx_hash ^ " "
                ^ show_z s.sp_index ^ " " ^ show_z s.sp_block_index_available ^ " " ^ show_z s.sp_does_seem_spent ^ " "
                ^ show_z s.sp_block_index_spent ^ ")"
let show_sval = function VInt z -> show_z z | VBytes b -> show_bytes b | VBool b -> show_bool b
let show_dict d = "(" ^ show_z d.sd_coin_value ^ " " ^ show_bytes d.sd_script_hex ^ " " ^ show_bytes d.sd_tx_hash_hex ^ " "
                  ^ show_z d.sd_tx_out_index ^ " " ^ show_option show_z d.sd_block_index_available ^ " "
                  ^ show_option show_z d.sd_does_seem_spent ^ " " ^ show_option show_z d.sd_block_index_spent ^ ")"
let show_tfield = function FHex h -> show_bytes h | FInt z -> show_z z


(* histories (Model/TxObject.v): history <hash oracle> <tx: 4 tokens> <unspents> <op> <op> ...   op fields separated by '/' *)
let arg_flags t = (t.[0] = 'T', t.[1] = 'T', t.[2] = 'T')
let arg_op t = match split '/' t with
  | ["mw"; i; w] -> Mut (MSetWitness (arg_nat i, arg_wit w))
  | ["aw"; i; w] -> Mut (MAssignWitness (arg_nat i, arg_wit w))
  | ["iw"; i; w] -> Mut (MExtendWitness (arg_nat i, arg_wit w))
  | ["as"; i; s] -> Mut (MAssignInScript (arg_nat i, arg_bytes s))
  | ["ah"; i; s] -> Mut (MAssignInHash (arg_nat i, arg_bytes s))
  | ["ai"; i; z] -> Mut (MAssignInIndex (arg_nat i, arg_z z))
  | ["aq"; i; z] -> Mut (MAssignInSeq (arg_nat i, arg_z z))
  | ["pi"; x] -> Mut (MAppendIn (arg_txin x))
  | ["xi"] -> Mut MPopIn
  | ["ci"] -> Mut MClearIns
  | ["po"; o] -> Mut (MAppendOut (arg_txout o))
  | ["xo"] -> Mut MPopOut
  | ["co"] -> Mut MClearOuts
  | ["ov"; i; z] -> Mut (MAssignOutValue (arg_nat i, arg_z z))
  | ["os"; i; s] -> Mut (MAssignOutScript (arg_nat i, arg_bytes s))
  | ["av"; z] -> Mut (MAssignVersion (arg_z z))
  | ["al"; z] -> Mut (MAssignLockTime (arg_z z))
  | ["su"; us] -> Mut (MSetUnspents (arg_list arg_unspent us))
  | ["au"; us] -> Mut (MAssignUnspents (arg_list arg_unspent us))
  | ["ob"; fl] -> let (a, b, c) = arg_flags fl in Obs (OAsBin (a, b, c))
  | ["ox"; fl] -> let (a, b, c) = arg_flags fl in Obs (OAsHex (a, b, c))
  | ["oh"; ht] -> Obs (OHash (arg_optz ht))
  | ["ow"] -> Obs OWHash
  | ["ok"] -> Obs OBlankedHash
  | ["oi"] -> Obs OId
  | ["oj"] -> Obs OWId
  | ["on"] -> Obs OHasWitness
  | ["oc"] -> Obs OIsCoinbase
  | ["om"] -> Obs OMissingUnspents
  | ["ck"; mm; ms] -> Obs (OCheck (arg_z mm, arg_z ms))
  | _ -> failwith ("arg_op " ^ t)
let show_oval = function RBytes b -> show_bytes b | RBool b -> show_bool b | RNone -> "N"
let history h v ins outs l us ops =
  show_list (show_outcome show_oval)
    (run (oracle h) (List.map arg_op ops) { ob_tx = arg_tx v ins outs l; ob_unspents = arg_list arg_unspent us })

let dispatch f args = match f, args with
  | "history", h :: v :: ins :: outs :: l :: us :: ops -> history h v ins outs l us ops
  | "parse_tx", [a; s] -> show_outcome (show_pair show_tx show_bytes) (parse_tx (arg_bool a) (arg_bytes s))
  | "parse_tx_ltc", [s] -> show_outcome (show_pair show_tx show_bytes) (parse_tx_ltc (arg_bytes s))
  | "from_bin", [s] -> show_outcome (show_pair show_tx (show_list (show_option show_txout))) (tx_from_bin (arg_bytes s))
  | "from_hex", [s] -> show_outcome (show_pair show_tx (show_list (show_option show_txout))) (tx_from_hex (arg_bytes s))
  | "as_bin", [bl; iu; iw; v; ins; outs; l; us] ->
    show_outcome show_bytes (tx_as_bin (arg_bool bl) (arg_bool iu) (arg_bool iw) (arg_tx v ins outs l) (arg_list arg_unspent us))
  | "as_hex", [bl; iu; iw; v; ins; outs; l; us] ->
    show_outcome show_bytes (tx_as_hex (arg_bool bl) (arg_bool iu) (arg_bool iw) (arg_tx v ins outs l) (arg_list arg_unspent us))
  | "missing_unspents", [v; ins; outs; l; us] ->
    show_bool (missing_unspents (arg_tx v ins outs l) (arg_list arg_unspent us))
  | "is_coinbase", [v; ins; outs; l] -> show_bool (tx_is_coinbase (arg_tx v ins outs l))
  | "has_witness_data", [v; ins; outs; l] -> show_bool (has_witness_data (arg_tx v ins outs l))
  | "hash", [h; v; ins; outs; l; ht] -> show_outcome show_bytes (tx_hash (oracle h) (arg_tx v ins outs l) (arg_optz ht))
  | "w_hash", [h; v; ins; outs; l] -> show_outcome show_bytes (tx_w_hash (oracle h) (arg_tx v ins outs l))
  | "blanked_hash", [h; v; ins; outs; l] -> show_outcome show_bytes (tx_blanked_hash (oracle h) (arg_tx v ins outs l))
  | "id", [h; v; ins; outs; l] -> show_outcome show_bytes (tx_id (oracle h) (arg_tx v ins outs l))
  | "w_id", [h; v; ins; outs; l] -> show_outcome show_bytes (tx_w_id (oracle h) (arg_tx v ins outs l))
  | "txin_stream", [bl; i] -> show_outcome show_bytes (stream_txin (arg_bool bl) (arg_txin i))
  | "txin_parse", [s] -> show_outcome (show_pair show_txin show_bytes) (parse_txin (arg_bytes s))
  | "txout_stream", [o] -> show_outcome show_bytes (stream_txout (arg_txout o))
  | "txout_parse", [s] -> show_outcome (show_pair show_txout show_bytes) (parse_txout (arg_bytes s))
  | "sp_as_bin", [a; s] -> show_outcome show_bytes (stream_spendable (arg_bool a) (arg_sp s))
  | "sp_from_bin", [s] -> show_outcome show_sp (spendable_from_bin (arg_bytes s))
  | "sp_as_dict", [s] -> show_dict (spendable_as_dict (arg_sp s))
  | "sp_from_dict", [v; sh; hh; i; a; d; b] ->
    show_outcome show_sp (spendable_from_dict { sd_coin_value = arg_z v; sd_script_hex = arg_bytes sh; sd_tx_hash_hex = arg_bytes hh;
      sd_tx_out_index = arg_z i; sd_block_index_available = arg_optz a; sd_does_seem_spent = arg_optz d;
      sd_block_index_spent = arg_optz b })
  | "sp_as_text", [s] -> show_list show_tfield (spendable_as_text_fields (arg_sp s))
  | "sp_from_text", [parts] -> show_outcome show_sp (spendable_from_text_fields (arg_list arg_tfield parts))
  | "parse_satoshi_int", [v; s] -> show_outcome (show_pair show_n show_bytes) (parse_satoshi_int (arg_optn v) (arg_bytes s))
  | "stream_satoshi_int", [v] -> show_outcome show_bytes (put_varint (arg_z v))
  | "parse_satoshi_string", [s] -> show_outcome (show_pair show_bytes show_bytes) (parse_varstr (arg_bytes s))
  | "stream_satoshi_string", [s] -> show_outcome show_bytes (stream_varstr (arg_bytes s))
  | "parse_struct", [fmt; s] -> show_outcome (show_pair (show_list show_sval) show_bytes) (parse_struct (arg_fmt fmt) (arg_bytes s))
  | "stream_struct", [fmt; vals] -> show_outcome show_bytes (stream_struct (arg_fmt fmt) (arg_list arg_sval vals))
  | "b2h", [s] -> show_bytes (b2h (arg_bytes s))
  | "h2b", [s] -> show_outcome show_bytes (h2b (arg_bytes s))
  | "h2b_rev", [s] -> show_outcome show_bytes (h2b_rev (arg_bytes s))
  | _ -> failwith ("unknown function " ^ f)
let () = main_loop dispatch
