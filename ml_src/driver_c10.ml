(* driver_c10.ml — dispatch for C10 (DER, SEC, WIF payload, key range checks) *)
let show_zz = show_pair show_z show_z
let show_pt (x, y) = "(" ^ show_z x ^ " " ^ show_z y ^ ")"
let arg_optbytes t = if t = "N" then None else Some (arg_bytes t)
let blob_of k d =
  { ba_kind = (match arg_int k with 0 -> Bk_bytes | 1 -> Bk_bytearray | 2 -> Bk_mv_ro | _ -> Bk_mv_rw); ba_data = arg_bytes d }
let int_of_k k v =
  { ia_kind = (match arg_int k with 0 -> Ik_int | 1 -> Ik_subclass | _ -> Ik_bool); ia_val = arg_z v }
let dispatch f args = match f, args with
  | "sigencode_der", [r; s] -> show_outcome show_bytes (sigencode_der (arg_z r) (arg_z s))
  | "sigdecode_der", [b; br] -> show_outcome show_zz (sigdecode_der (arg_bytes b) (arg_bool br))
  | "encode_integer", [r] -> show_outcome show_bytes (encode_integer (arg_z r))
  | "encode_length", [l] -> show_outcome show_bytes (encode_length (arg_z l))
  | "read_length", [b] -> show_outcome (show_pair show_n show_nat) (read_length (arg_bytes b))
  | "remove_integer", [b; br] -> show_outcome (show_pair show_z show_bytes) (remove_integer (arg_bytes b) (arg_bool br))
  | "remove_sequence", [b] -> show_outcome (show_pair show_bytes show_bytes) (remove_sequence (arg_bytes b))
  | "bip66_valid", [b] -> show_bool (bip66_valid (arg_bytes b))
  | "to_bytes_32", [v] -> show_outcome show_bytes (to_bytes_32 (arg_z v))
  | "public_pair_to_sec", [x; y; c] -> show_outcome show_bytes (public_pair_to_sec (arg_z x, arg_z y) (arg_bool c))
  | "sec_to_public_pair", [p; a; b; sec; strict] ->
      show_outcome show_pt (sec_to_public_pair (arg_z p) (arg_z a) (arg_z b) (arg_bytes sec) (arg_bool strict))
  | "points_for_x", [p; a; b; x] ->
      show_outcome (show_pair show_pt show_pt) (points_for_x (arg_z p) (arg_z a) (arg_z b) (arg_z x))
  | "key_from_sec", [p; a; b; sec] ->
      show_outcome (show_pair show_pt show_bool) (key_from_sec (arg_z p) (arg_z a) (arg_z b) (arg_bytes sec))
  | "key_public", [p; a; b; x; y] -> show_outcome show_pt (key_public (arg_z p) (arg_z a) (arg_z b) (arg_z x, arg_z y))
  | "key_public_arg", [p; a; b; kind; cp; ca; cb; x; y] ->
      let k = (match arg_int kind with 0 -> Pr_tuple | 1 -> Pr_list | _ -> Pr_point (arg_z cp, arg_z ca, arg_z cb)) in
      let o t = if t = "N" then None else Some (arg_z t) in
      show_outcome show_pt (key_public_arg (arg_z p) (arg_z a) (arg_z b) { pa_kind = k; pa_x = o x; pa_y = o y })
  | "sec_to_public_pair_arg", [p; a; b; k; sec; strict] ->
      show_outcome show_pt (sec_to_public_pair_arg (arg_z p) (arg_z a) (arg_z b) (blob_of k sec) (arg_bool strict))
  | "key_from_sec_arg", [p; a; b; k; sec] ->
      show_outcome (show_pair show_pt show_bool) (key_from_sec_arg (arg_z p) (arg_z a) (arg_z b) (blob_of k sec))
  | "is_sec_compressed_arg", [k; sec] -> show_bool (is_sec_compressed_arg (blob_of k sec))
  | "sigdecode_der_arg", [k; b; br] -> show_outcome show_zz (sigdecode_der_arg (blob_of k b) (arg_bool br))
  | "key_private_arg", [n; k; e] -> show_outcome show_z (key_private_arg (arg_z n) (int_of_k k e))
  | "sigencode_der_arg", [k1; r; k2; s] -> show_outcome show_bytes (sigencode_der_arg (int_of_k k1 r) (int_of_k k2 s))
  | "public_pair_to_sec_arg", [k1; x; k2; y; c] ->
      show_outcome show_bytes (public_pair_to_sec_arg (int_of_k k1 x) (int_of_k k2 y) (arg_bool c))
  | "key_private", [n; e] -> show_outcome show_z (key_private (arg_z n) (arg_z e))
  | "wif_payload", [pre; se; c] -> show_outcome show_bytes (wif_payload (arg_bytes pre) (arg_z se) (arg_bool c))
  | "parse_wif_payload", [pre; n; d] ->
      show_option (show_pair show_z show_bool) (parse_wif_payload (arg_optbytes pre) (arg_z n) (arg_optbytes d))
  | _ -> failwith ("unknown function " ^ f)
let () = main_loop dispatch
