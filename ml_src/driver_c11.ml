(* driver_c11.ml — dispatch table for C11 (Base58 / Bech32).  Python str travels as a list of code points
   "[i62,i63]"; list[int] as "[i1,i-2]". *)
let arg_str t = arg_list arg_n t
let arg_zlist t = arg_list arg_z t
let show_str s = show_list show_n s
let show_zlist l = show_list show_z l
let dsha = oracle "dsha256"
let show_dec3 ((h, d), sp) = "(" ^ show_str h ^ " " ^ show_zlist d ^ " " ^ show_z sp ^ ")"
let show_parse (((h, v), b), sp) = "(" ^ show_str h ^ " " ^ show_z v ^ " " ^ show_bytes b ^ " " ^ show_z sp ^ ")"
let grs = oracle "groestl"
let show_presult = function
  | RBytes v -> show_option show_bytes v
  | RBech v -> show_option show_parse v
  | RNone -> "N"
let dispatch f args = match f, args with
  | "history", [s; ops] -> show_list show_presult (c11_history dsha grs (arg_str s) (arg_zlist ops))
  | "to_long", [b; s] -> show_outcome (show_pair show_z show_z) (c11_to_long (arg_z b) (arg_bytes s))
  | "from_long", [v; p; b] -> show_outcome show_bytes (c11_from_long (arg_z v) (arg_z p) (arg_z b))
  | "b2a_base58", [s] -> show_outcome show_str (btc_b2a_base58 (arg_bytes s))
  | "a2b_base58", [s] -> show_outcome show_bytes (btc_a2b_base58 (arg_str s))
  | "b2a_hashed_base58", [s] -> show_outcome show_str (btc_b2a_hashed_base58 dsha (arg_bytes s))
  | "a2b_hashed_base58", [s] -> show_outcome show_bytes (btc_a2b_hashed_base58 dsha (arg_str s))
  | "is_hashed_base58_valid", [s] -> show_outcome show_bool (btc_is_hashed_base58_valid dsha (arg_str s))
  | "parse_b58", [s] -> show_option show_bytes (btc_parse_b58 (arg_str s))
  | "parse_b58_double_sha256", [s] -> show_option show_bytes (btc_parse_b58_double_sha256 dsha (arg_str s))
  | "bech32_polymod", [l] -> show_z (bech32_polymod (arg_zlist l))
  | "bech32_hrp_expand", [h] -> show_zlist (bech32_hrp_expand (arg_str h))
  | "bech32_verify_checksum", [h; d] -> show_option show_z (bech32_verify_checksum (arg_str h) (arg_zlist d))
  | "bech32_create_checksum", [h; d; sp] -> show_zlist (bech32_create_checksum (arg_str h) (arg_zlist d) (arg_z sp))
  | "bech32_encode", [h; d; sp] -> show_outcome show_str (bech32_encode (arg_str h) (arg_zlist d) (arg_z sp))
  | "bech32_decode", [s; m] -> show_option show_dec3 (bech32_decode_max (arg_str s) (arg_z m))
  | "convertbits", [d; fb; tb; p] ->
    show_outcome (show_option show_zlist) (convertbits_o (arg_z fb) (arg_z tb) (arg_bool p) (arg_zlist d))
  | "decode", [h; a] -> show_option (show_pair show_z show_zlist) (decode (arg_str h) (arg_str a))
  | "encode", [h; v; p] -> show_outcome (show_option show_str) (encode (arg_str h) (arg_z v) (arg_zlist p))
  | "parse_bech32_or_32m", [s] -> show_outcome (show_option show_parse) (parse_bech32_or_32m (arg_str s))
  | "parse_bech32", [s] -> show_option show_parse (parse_bech32 (arg_str s))
  | _ -> failwith ("unknown function " ^ f)
let () = main_loop dispatch
