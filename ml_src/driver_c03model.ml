(* driver_c03model.ml — dispatch for the pycoin-side VM model of property C03 (Model/VMpy.v).
   Argument conventions (defined together with harness/c03_model.py):
     <flags>   i<hex>                      verification flag mask
     <sv>      B | W                       legacy sighash_f / witness-v0 sighash_f
     <ctx>     x<21 bytes>                 version(4 LE) lock_time(4 LE) sequence(4 LE) amount(8 LE) shape(1);
                                           the model reads the first 12 bytes; the whole blob is passed back to the
                                           harness with every ?checksig question so that it can rebuild the synthetic tx
     stacks    [x..,x..]                   TOP LAST
   Commands:
     eval <flags> <sv> <ctx> <script> <stack>                       -> [x.. x..] | !E_SCRIPT | !E_<crash>
     verify <flags> <ctx> <scriptSig> <scriptPubKey> <witness>      -> N | !E_SCRIPT | !E_<crash>
     handler <opcode> <flags> <sv> <ctx> <script> <pc> <stack> <alt> <true_count> <false_count> <op_count> <bch>
                                                                    -> ([stack] [alt] i<t> i<f> i<opc> i<bch>) | !E_..
     step   (same arguments as handler without <opcode>)            -> (i<pc> [stack] [alt] i<t> i<f> i<opc> i<bch>) | !E_..
   Oracles: hashes by name (sha256 sha1 ripemd160 hash160 dsha256);
     ?checksig <ctx 21><sv 1><len 4 BE><sig><len 4 BE><pubkey><script_code>   answered 01 / 00. *)
let le_int (l : byte list) : int =
  List.fold_right (fun b acc -> int_of_byte b + 256 * acc) l 0
let rec take_l n l = if n = 0 then [] else match l with [] -> [] | x :: r -> x :: take_l (n - 1) r
let rec drop_l n l = if n = 0 then l else match l with [] -> [] | _ :: r -> drop_l (n - 1) r

let parse_ctx (t : string) : txctx * string =
  let b = arg_bytes t in
  if List.length b <> 21 then failwith "ctx blob must be 21 bytes";
  ({ tc_version = n_of_int (le_int (take_l 4 b));
     tc_lock_time = n_of_int (le_int (take_l 4 (drop_l 4 b)));
     tc_sequence = n_of_int (le_int (take_l 4 (drop_l 8 b))) },
   hex_of_bytes b)

let parse_sv = function "B" -> SV_BASE | "W" -> SV_WITNESS_V0 | s -> failwith ("sv " ^ s)

let checksig_oracle (ctxhex : string) sg pk code sv : bool =
  let svb = match sv with SV_BASE -> "00" | SV_WITNESS_V0 -> "01" in
  let len4 l = Printf.sprintf "%08x" (List.length l) in
  print_string ("?checksig " ^ ctxhex ^ svb ^ len4 sg ^ hex_of_bytes sg ^ len4 pk ^ hex_of_bytes pk
                ^ hex_of_bytes code ^ "\n");
  flush stdout;
  let line = String.trim (input_line stdin) in
  line = "01"

let secp256k1_order = n_of_hex "fffffffffffffffffffffffffffffffebaaedce6af48a03bbfd25e8cd0364141"

let mk_oracles (ctxhex : string) : oracles =
  { o_sha256 = oracle "sha256"; o_sha1 = oracle "sha1"; o_ripemd160 = oracle "ripemd160";
    o_hash160 = oracle "hash160"; o_hash256 = oracle "dsha256";
    o_checksig = checksig_oracle ctxhex; o_order = secp256k1_order }

let show_vres f = function
  | VOk a -> f a
  | VFail -> "!E_SCRIPT"
  | VCrash e -> "!" ^ show_exn e
  | VOutOfFuel -> "!OUT_OF_FUEL"

let show_stack st = show_list show_bytes st
(* internal stacks are TOP FIRST; shown TOP LAST *)
let show_state_nopc (s : vmstate) =
  "(" ^ show_stack (List.rev s.st_stack) ^ " " ^ show_stack (List.rev s.st_alt) ^ " "
  ^ show_nat (fst s.st_cond) ^ " " ^ show_nat (snd s.st_cond) ^ " " ^ show_z s.st_opc ^ " " ^ show_nat s.st_bch ^ ")"
let show_state (s : vmstate) =
  "(" ^ show_nat s.st_pc ^ " " ^ show_stack (List.rev s.st_stack) ^ " " ^ show_stack (List.rev s.st_alt) ^ " "
  ^ show_nat (fst s.st_cond) ^ " " ^ show_nat (snd s.st_cond) ^ " " ^ show_z s.st_opc ^ " " ^ show_nat s.st_bch ^ ")"

let mk_state pc st alt t f opc bch : vmstate =
  { st_pc = arg_nat pc; st_stack = List.rev (arg_list arg_bytes st); st_alt = List.rev (arg_list arg_bytes alt);
    st_cond = (arg_nat t, arg_nat f); st_opc = arg_z opc; st_bch = arg_nat bch }

let dispatch f args = match f, args with
  | "eval", [fl; sv; cx; sc; st] ->
    let (ctx, ch) = parse_ctx cx in
    show_vres show_stack (eval_script (mk_oracles ch) (arg_n fl) (parse_sv sv) ctx (arg_bytes sc) (arg_list arg_bytes st))
  | "verify", [fl; cx; ssig; spk; wit] ->
    let (ctx, ch) = parse_ctx cx in
    let sp = { sp_script_sig = arg_bytes ssig; sp_script_pubkey = arg_bytes spk;
               sp_witness = arg_list arg_bytes wit; sp_flags = arg_n fl; sp_ctx = ctx } in
    show_vres (fun () -> "N") (check_solution (mk_oracles ch) sp)
  | "handler", [op; fl; sv; cx; sc; pc; st; alt; t; fc; opc; bch] ->
    let (ctx, ch) = parse_ctx cx in
    show_vres show_state_nopc
      (handler (mk_oracles ch) (arg_n fl) (parse_sv sv) ctx (arg_bytes sc) (hk (arg_n op)) (mk_state pc st alt t fc opc bch))
  | "step", [fl; sv; cx; sc; pc; st; alt; t; fc; opc; bch] ->
    let (ctx, ch) = parse_ctx cx in
    show_vres show_state
      (step (mk_oracles ch) (arg_n fl) (parse_sv sv) ctx (arg_bytes sc) (mk_state pc st alt t fc opc bch))
  | _ -> failwith ("unknown function " ^ f)
let () = main_loop dispatch
