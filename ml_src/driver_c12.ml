let show_getop (((o, d), pc), ok) =
  "(" ^ show_n o ^ " " ^ show_option show_bytes d ^ " " ^ show_nat pc ^ " " ^ show_bool ok ^ ")"
(* Coq strings <-> OCaml strings *)
let char_of_ascii (Ascii (b0,b1,b2,b3,b4,b5,b6,b7)) =
  let v b k = if b then 1 lsl k else 0 in
  Char.chr (v b0 0 + v b1 1 + v b2 2 + v b3 3 + v b4 4 + v b5 5 + v b6 6 + v b7 7)
let ascii_of_char c =
  let n = Char.code c in let b k = (n lsr k) land 1 = 1 in
  Ascii (b 0, b 1, b 2, b 3, b 4, b 5, b 6, b 7)
let rec ocaml_of_coq_string = function EmptyString -> "" | String (a, r) -> String.make 1 (char_of_ascii a) ^ ocaml_of_coq_string r
let coq_of_ocaml_string s =
  let r = ref EmptyString in
  for i = String.length s - 1 downto 0 do r := String (ascii_of_char s.[i], !r) done; !r
let hex_of_string s = let b = Buffer.create 16 in
  String.iter (fun c -> Buffer.add_string b (Printf.sprintf "%02x" (Char.code c))) s; Buffer.contents b
let string_of_hex h = String.init (String.length h / 2) (fun i -> Char.chr (hexval h.[2*i] * 16 + hexval h.[2*i+1]))
let show_tok = function TName s -> "s" ^ hex_of_string (ocaml_of_coq_string s) | THex d -> show_bytes d
(* token argument: "s<hex of name>" or "x<hex of data>" *)
let arg_tok t = if String.length t > 0 && t.[0] = 's'
  then TName (coq_of_ocaml_string (string_of_hex (String.sub t 1 (String.length t - 1))))
  else THex (arg_bytes t)
let dispatch f args = match f, args with
  | "int_to_script_bytes", [v] -> show_outcome show_bytes (int_to_script_bytes (arg_z v))
  | "int_from_script_bytes", [s; m] -> show_outcome show_z (int_from_script_bytes (arg_bytes s) (arg_bool m))
  | "compile_push_data", [d] -> show_outcome show_bytes (btc_compile_push_data (arg_bytes d))
  | "get_opcode", [s; pc; m] -> show_outcome show_getop (btc_get_opcode (arg_bytes s) (arg_nat pc) (arg_bool m))
  | "disassemble", [s] -> show_outcome (show_list show_tok) (disassemble (arg_bytes s))
  | "compile", [ts] -> show_outcome show_bytes (compile (arg_list arg_tok ts))
  | _ -> failwith ("unknown function " ^ f)
let () = main_loop dispatch
