let show_getop (((o, d), pc), ok) =
  "(" ^ show_n o ^ " " ^ show_option show_bytes d ^ " " ^ show_nat pc ^ " " ^ show_bool ok ^ ")"
let dispatch f args = match f, args with
  | "int_to_script_bytes", [v] -> show_outcome show_bytes (int_to_script_bytes (arg_z v))
  | "int_from_script_bytes", [s; m] -> show_outcome show_z (int_from_script_bytes (arg_bytes s) (arg_bool m))
  | "compile_push_data", [d] -> show_outcome show_bytes (btc_compile_push_data (arg_bytes d))
  | "get_opcode", [s; pc; m] -> show_outcome show_getop (btc_get_opcode (arg_bytes s) (arg_nat pc) (arg_bool m))
  | _ -> failwith ("unknown function " ^ f)
let () = main_loop dispatch
